(* PROGRESS UNDER EVERY INTERLEAVING for the periodic exporting metric reader (C02 "ForceFlush ... always return").

   A ForceFlush caller holding ticket t (t <= pending) leaves its wait loop when `t <= notified` or the reader is shut down.
   periodic_flush_fair_progress: in EVERY accepted continuation tr (recorders, other flushers, shutdown keep running) that
   exit condition holds at the end provided the worker and its per-cycle collect thread together made
       rankP t s + 16 * timeouts tr   <= 34 + 16 * timeouts tr
   steps ([pprog tr]: worker events other than its polls of shutdown_, collect-thread events Collect / Export begin / Export end /
   set_value), where [timeouts tr] counts the cycles whose collection exceeded the export time-out in tr: such a cycle is
   cancelled and (after the F3 repair) publishes nothing, so every one of them costs one more cycle.
   Potential: steps left in the current cycle (collect thread + worker), plus one more cycle when the cycle is cancelled or its
   ticket is older than t.  Application events leave it unchanged.  Exporter calls are assumed to return. *)
From V Require Import Batch.Periodic Batch.PeriodicProofs.
From Coq Require Import Lia List Arith Bool.
Import ListNotations.

Ltac pdest_cmp :=
  repeat match goal with
  | |- context [Nat.ltb ?a ?b] => destruct (Nat.ltb_spec a b)
  | |- context [Nat.leb ?a ?b] => destruct (Nat.leb_spec a b)
  | |- context [Nat.eqb ?a ?b] => destruct (Nat.eqb_spec a b)
  | H : context [Nat.ltb ?a ?b] |- _ => destruct (Nat.ltb_spec a b)
  | H : context [Nat.leb ?a ?b] |- _ => destruct (Nat.leb_spec a b)
  | H : context [Nat.eqb ?a ?b] |- _ => destruct (Nat.eqb_spec a b)
  end.

Definition coll_kind (e : Periodic.rev) : bool :=
  match e with RCollect _ | RExpBegin _ | RExpEnd _ | RSetValue => true | _ => false end.
Definition pcnt (te : nat * Periodic.rev) : nat :=
  match fst te with
  | 0 => match snd te with RLdShut _ => 0 | _ => 1 end
  | _ => if coll_kind (snd te) then 1 else 0
  end.
Fixpoint pprog (tr : list (nat * Periodic.rev)) : nat := match tr with [] => 0 | te :: tr' => pcnt te + pprog tr' end.
Definition is_timeout (te : nat * Periodic.rev) : nat :=
  match fst te, snd te with 0, RFutTimeout => 1 | _, _ => 0 end.
Fixpoint timeouts (tr : list (nat * Periodic.rev)) : nat := match tr with [] => 0 | te :: tr' => is_timeout te + timeouts tr' end.

Section PFlush.
Variable t : nat.

Definition pgoal (s : rst) : Prop := t <= r_notified s \/ r_shut s = true.

Definition pfull : nat := 14.
Definition ccost (p : rcpc) : nat :=
  match p with RC0 => 6 | RC1 => 5 | RCGot _ => 4 | RCExp _ => 3 | RCExpEnd _ => 2 | RCSet => 1 | RCDone => 0 end.
Definition cc (s : rst) : nat := match r_coll s with Some (_, p) => ccost p | None => 0 end.
Definition pbad (k : nat) : nat := if t <=? k then 0 else pfull + 1.
Definition pcastail (s : rst) (k v : nat) : nat :=
  if r_notified s <? k then (if r_notified s =? v then 2 else 3) else 1.
Definition after_join (s : rst) (k : nat) : nat := if r_cancel s then 1 + pfull else 4 + pbad k.

Definition rankP (s : rst) : nat :=
  match r_wp s with
  | RWIdle _ | RWEnd => pfull + cc s
  | RWTicket k => 9 + after_join s k + cc s
  | RWWait k _ => 2 + after_join s k + cc s
  | RWTimedOut k _ => 3 + pfull + cc s
  | RWJoin k _ => 1 + after_join s k + cc s
  | RWJoined k => after_join s k + cc s
  | RWNotify k => 3 + pbad k + cc s
  | RWCas k v => pcastail s k v + pbad k + cc s
  end.

Lemma rankP_bound s : rankP s <= 34.
Proof.
  unfold rankP, after_join, pcastail, pbad, pfull, cc, ccost.
  destruct (r_wp s); destruct (r_coll s) as [[c0 p0]|]; try destruct p0; destruct (r_cancel s); pdest_cmp; lia.
Qed.

Lemma pgoal_dec s : {pgoal s} + {~ pgoal s}.
Proof.
  unfold pgoal. destruct (le_dec t (r_notified s)); [left; auto|]. destruct (r_shut s); [left; auto|].
  right. intros [X|X]; [lia | discriminate].
Qed.

Lemma papp_frame s u e s' : raccept_app s u e = Some s' ->
  r_wp s' = r_wp s /\ r_coll s' = r_coll s /\ r_cancel s' = r_cancel s /\ r_notified s' = r_notified s /\
  r_pending s <= r_pending s' /\ (r_shut s = true -> r_shut s' = true).
Proof.
  intros H. unfold raccept_app in H.
  destruct (r_ap s u) eqn:A; destruct e; try discriminate H; rbreak H; inversion H; subst; clear H; simpl; repeat split; auto; lia.
Qed.

Lemma pcoll_frame s c p e s' : r_coll s = Some (c, p) -> raccept_coll s c p e = Some s' ->
  r_wp s' = r_wp s /\ r_cancel s' = r_cancel s /\ r_notified s' = r_notified s /\ r_pending s' = r_pending s /\
  r_shut s' = r_shut s /\ cc s' + (if coll_kind e then 1 else 0) <= cc s.
Proof.
  intros C H. unfold raccept_coll in H. unfold cc. rewrite C.
  destruct p; destruct e; try discriminate H; rbreak H; inversion H; subst; clear H; simpl; repeat split; auto; lia.
Qed.

Lemma pworker_step s e s' :
  RInv s -> raccept_worker s e = Some s' -> t <= r_pending s -> ~ pgoal s ->
  pgoal s' \/ rankP s' + pcnt (0, e) <= rankP s + 16 * is_timeout (0, e).
Proof.
  intros I H Tp NG.
  assert (NS : r_shut s = false) by (destruct (r_shut s) eqn:X; auto; exfalso; apply NG; right; auto).
  assert (NN : r_notified s < t) by (unfold pgoal in NG; lia).
  pose proof (q_wp s I) as Iwp. unfold rwp_inv in Iwp.
  unfold raccept_worker in H. unfold pcnt, is_timeout; simpl.
  destruct (r_wp s) eqn:W; destruct e; try discriminate H; rbreak H; inversion H; subst; clear H; rbools; subst.
  all: repeat match goal with H : _ /\ _ |- _ => destruct H | H : exists _, _ |- _ => destruct H end.
  all: unfold pgoal, rankP, after_join, pcastail, pbad, pfull, cc, rset_wp in *; simpl in *; rewrite ?W; simpl.
  all: repeat match goal with H : r_coll _ = _ |- _ => rewrite H in * end; simpl in *.
  all: try (right; destruct (r_cancel s); pdest_cmp; lia).
  all: try (destruct (Nat.leb_spec t k); [left; left; lia | right; pdest_cmp; lia]).
Qed.

Lemma pstep s te s' :
  RInv s -> raccept s te = Some s' -> t <= r_pending s -> ~ pgoal s ->
  pgoal s' \/ rankP s' + pcnt te <= rankP s + 16 * is_timeout te.
Proof.
  intros I H Tp NG. destruct te as [u e]. unfold raccept in H. destruct u as [|u]; cbn [fst snd] in H.
  - destruct (r_joined s); [discriminate|]. eapply pworker_step; eauto.
  - right. unfold is_timeout; simpl.
    assert (App : raccept_app s (S u) e = Some s' -> rankP s' + pcnt (S u, e) <= rankP s + 16 * 0).
    { intros A. destruct (papp_frame _ _ _ _ A) as (W & C & Ca & N & _).
      assert (K : coll_kind e = false).
      { destruct e; try reflexivity; exfalso; unfold raccept_app in A; rbreak A. }
      unfold pcnt; simpl. rewrite K. unfold rankP, after_join, pcastail, cc. rewrite W, C, Ca, N. lia. }
    destruct (r_coll s) as [[c p]|] eqn:C; [|auto].
    destruct (Nat.eqb (S u) c) eqn:E; [|auto].
    destruct (pcoll_frame _ _ _ _ _ C H) as (W & Ca & N & _ & _ & D).
    unfold pcnt; simpl. unfold rankP, after_join, pcastail. rewrite W, Ca, N.
    destruct (r_wp s); destruct (coll_kind e); lia.
Qed.

Lemma pgoal_stable s te s' : RInv s -> raccept s te = Some s' -> pgoal s -> pgoal s'.
Proof.
  intros I H G. pose proof (q_wp s I) as Iwp. unfold rwp_inv in Iwp.
  destruct te as [u e]. unfold raccept in H. destruct u as [|u]; cbn [fst snd] in H.
  - destruct (r_joined s); [discriminate|]. unfold raccept_worker in H. unfold pgoal in *.
    destruct (r_wp s) eqn:W; destruct e; try discriminate H; rbreak H; inversion H; subst; clear H; rbools; subst; simpl; auto.
    destruct G as [G|G]; [left; lia | right; auto].
  - assert (App : raccept_app s (S u) e = Some s' -> pgoal s').
    { intros A. destruct (papp_frame _ _ _ _ A) as (_ & _ & _ & N & _ & Sh). destruct G as [G|G]; [left; lia | right; auto]. }
    destruct (r_coll s) as [[c p]|] eqn:C; [|auto].
    destruct (Nat.eqb (S u) c) eqn:E; [|auto].
    destruct (pcoll_frame _ _ _ _ _ C H) as (_ & _ & N & _ & Sh & _). unfold pgoal. rewrite N, Sh. exact G.
Qed.

Lemma ppending_mono s te s' : raccept s te = Some s' -> r_pending s <= r_pending s'.
Proof.
  intros H. destruct te as [u e]. unfold raccept in H. destruct u as [|u]; cbn [fst snd] in H.
  - destruct (r_joined s); [discriminate|]. unfold raccept_worker in H.
    destruct (r_wp s) eqn:W; destruct e; try discriminate H; rbreak H; inversion H; subst; clear H; simpl; lia.
  - assert (App : raccept_app s (S u) e = Some s' -> r_pending s <= r_pending s').
    { intros A. destruct (papp_frame _ _ _ _ A) as (_ & _ & _ & _ & P & _). exact P. }
    destruct (r_coll s) as [[c p]|] eqn:C; [|auto].
    destruct (Nat.eqb (S u) c) eqn:E; [|auto].
    destruct (pcoll_frame _ _ _ _ _ C H) as (_ & _ & _ & P & _). lia.
Qed.

Lemma pgoal_run tr : forall s s', RInv s -> rrun s tr = Some s' -> pgoal s -> pgoal s'.
Proof.
  induction tr as [|te tr IH]; intros s s' I H G; simpl in H.
  - inversion H; subst; exact G.
  - destruct (raccept s te) as [s1|] eqn:A; [|discriminate].
    eapply IH; [eapply raccept_preserves; eauto | exact H | eapply pgoal_stable; eauto].
Qed.

Lemma rankP_pos s : 0 < rankP s.
Proof.
  unfold rankP, after_join, pcastail, pbad, pfull. destruct (r_wp s); destruct (r_cancel s); pdest_cmp; lia.
Qed.

Theorem periodic_flush_fair_progress tr : forall s s',
  RInv s -> t <= r_pending s -> rrun s tr = Some s' -> rankP s + 16 * timeouts tr <= pprog tr -> pgoal s'.
Proof.
  induction tr as [|te tr IH]; intros s s' I Tp H R; simpl in H, R.
  - pose proof (rankP_pos s). lia.
  - destruct (raccept s te) as [s1|] eqn:A; [|discriminate].
    destruct (pgoal_dec s) as [G|NG].
    + eapply pgoal_run; [eapply raccept_preserves; eauto | exact H | eapply pgoal_stable; eauto].
    + destruct (pstep s te s1 I A Tp NG) as [G1|D].
      * eapply pgoal_run; [eapply raccept_preserves; eauto | exact H | exact G1].
      * eapply IH; [eapply raccept_preserves; eauto | pose proof (ppending_mono _ _ _ A); lia | exact H | lia].
Qed.

End PFlush.

Theorem periodic_flush_returns_under_fair_worker s tr s' t :
  rreachable s -> t <= r_pending s -> rrun s tr = Some s' -> 34 + 16 * timeouts tr <= pprog tr ->
  t <= r_notified s' \/ r_shut s' = true.
Proof.
  intros R Tp H W. eapply (periodic_flush_fair_progress t tr s s'); eauto using rreachable_inv.
  pose proof (rankP_bound t s). lia.
Qed.

(* the hypotheses are satisfiable: a flusher takes ticket 1, a recorder keeps recording, two cycles run *)
Definition pfair_prefix : list (nat * Periodic.rev) :=
  [(2, RRec 1); (1, RCallFlush); (1, RLdShut false); (1, RFaddPending 0)].
Definition pfair_cycle (k seen n : nat) : list (nat * Periodic.rev) :=
  [(0, RLdPending k); (0, RSpawn 5); (5, RLdShut false); (2, RRec (S n)); (5, RCollect (S n)); (5, RLdCancel false);
   (5, RExpBegin (S n)); (5, RExpEnd true); (5, RSetValue); (0, RFutReady); (0, RJoin 5); (0, RLdCancel false); (0, RLdNotified seen)].
Definition pfair_cont : list (nat * Periodic.rev) :=
  pfair_cycle 1 0 1 ++ [(0, RCasNotified 0 1 0 true); (1, RLdNotified 1); (0, RCasNotified 0 1 1 false); (0, RLdShut false)] ++ pfair_cycle 1 1 2.

Example pfair_demo :
  exists s s', rrun rinit pfair_prefix = Some s /\ 1 <= r_pending s /\ ~ pgoal 1 s /\
               rrun s pfair_cont = Some s' /\ rankP 1 s + 16 * timeouts pfair_cont <= pprog pfair_cont /\ pgoal 1 s'.
Proof.
  eexists. eexists. split; [vm_compute; reflexivity|]. split; [vm_compute; lia|].
  split; [unfold pgoal; simpl; intros [X|X]; [lia | discriminate]|].
  split; [vm_compute; reflexivity|]. split; [vm_compute; lia|]. left; simpl; lia.
Qed.
