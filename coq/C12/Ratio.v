(* MODEL for C12, floating-point part: CalculateThreshold and CalculateThresholdFromBuffer of
   sdk/src/trace/samplers/trace_id_ratio.cc, written operation by operation.
   Doubles are IEEE-754 binary64 values of Flocq (BinarySingleNaN, round to nearest even),
   bit-exact and executable.  Definitions only, no proofs.  (Kept free of Gen.Consts so that the
   long proofs about it are not re-checked when an unrelated constant changes; Proofs.v checks
   that the factor 2^32-1 and the shift 32 are the ones the translator reads from the source.) *)
From V Require Export Base.Bytes.
From Flocq Require Import IEEE754.BinarySingleNaN IEEE754.Binary IEEE754.Bits Core.Zaux.
From Flocq Require Export IEEE754.BinarySingleNaN.   (* unqualified names are the SingleNaN ones *)
Local Open Scope Z_scope.

Definition prec := 53%Z.
Definition emax := 1024%Z.
Global Instance Hprec : FLX.Prec_gt_0 prec. Proof. unfold FLX.Prec_gt_0, prec; reflexivity. Defined.
Global Instance Hmax : Prec_lt_emax prec emax. Proof. unfold Prec_lt_emax, prec, emax; reflexivity. Defined.

(* a C++ double *)
Definition float := binary_float prec emax.

(* static_cast<double>(unsigned integer) : round to nearest even *)
Definition of_Z (z : Z) : float := binary_normalize prec emax Hprec Hmax mode_NE z 0 false.
(* the IEEE bit pattern on the wire *)
Definition of_bits (b : Z) : float := Binary.B2BSN prec emax (b64_of_bits (b mod 2 ^ 64)).

Definition fmul : float -> float -> float := Bmult mode_NE.
Definition fadd : float -> float -> float := Bplus mode_NE.
Definition fsub : float -> float -> float := Bminus mode_NE.
Definition fdiv : float -> float -> float := Bdiv mode_NE.
Definition fldexp (x : float) (e : Z) : float := Bldexp mode_NE x e.
(* x <= y on doubles: false when either is a NaN *)
Definition fle (x y : float) : bool := Bleb x y.
Definition flt (x y : float) : bool := Bltb x y.
(* modf(x, &ip): ip = x rounded toward zero to an integer-valued double; returns x - ip (exact) *)
Definition modf_int (x : float) : float := Bnearbyint mode_ZR x.
Definition modf_frac (x : float) : float := fsub x (modf_int x).

Definition two64 : Z := 2 ^ 64.
Definition uint64_max : Z := 2 ^ 64 - 1.
Definition uint32_max : Z := 2 ^ 32 - 1.
Definition u64 (z : Z) : Z := z mod two64.
(* static_cast<uint64_t>(double): truncation; the C++ is undefined outside [0, 2^64) and for NaN,
   the model takes Flocq's Btrunc (NaN, inf -> 0) reduced mod 2^64 there - never reached for ratios that are not NaN *)
Definition to_u64 (x : float) : Z := u64 (Btrunc x).

Definition f_zero : float := B754_zero false.
Definition f_one : float := of_Z 1.
Definition f_u32max : float := of_Z uint32_max.
(* static_cast<double>(UINT64_MAX) = 2^64 *)
Definition f_u64max : float := of_Z uint64_max.

(* CalculateThreshold(double ratio) *)
Definition calc_threshold (ratio : float) : Z :=
  if fle ratio f_zero then 0
  else if fle f_one ratio then uint64_max
  else
    let product := fmul f_u32max ratio in
    let hi_bits := modf_int product in
    let lo_bits := fadd (fldexp (modf_frac product) 32) product in
    u64 (Z.shiftl (to_u64 hi_bits) 32 + to_u64 lo_bits).

(* memcpy(&res, &trace_id, 8) on a little-endian host *)
Fixpoint le_int (l : bytes) : Z :=
  match l with [] => 0 | b :: l' => Z.of_N (b2n b) + 256 * le_int l' end.
Definition tid_prefix (tid : bytes) : Z := le_int (firstn 8 tid).

(* CalculateThresholdFromBuffer *)
Definition id_ratio (tid : bytes) : float := fdiv (of_Z (tid_prefix tid)) f_u64max.
Definition id_threshold (tid : bytes) : Z := calc_threshold (id_ratio tid).

