(* Proofs about the sampler models of C12 (coq/C12/Model.v) and model_meets_spec for the SPEC
   checkers of coq/C12/Spec.v.  The floating-point facts come from ProofsRatio.v. *)
From Coq Require Import ZArith Lia Bool List.
From V Require Import C12.Glue C12.ProofsRatio Gen.Consts.
Local Open Scope Z_scope.

(* ------------------------------------------------------------------ small facts *)

Lemma check_true b s : b = true -> check b s = [].
Proof. intros ->. reflexivity. Qed.

Lemma decision_eqb_refl d : decision_eqb d d = true.
Proof. destruct d; reflexivity. Qed.
Lemma decision_eqb_eq a b : decision_eqb a b = true -> a = b.
Proof. destruct a, b; simpl; congruence. Qed.

Lemma byte_eqb_refl (b : byte) : Byte.eqb b b = true.
Proof. apply Byte.byte_dec_lb. reflexivity. Qed.
Lemma bytes_eqb_refl b : bytes_eqb b b = true.
Proof. induction b as [|x b IH]; [reflexivity|]. cbn [bytes_eqb]. now rewrite byte_eqb_refl, IH. Qed.
Lemma opt_bytes_eqb_refl o : opt_bytes_eqb o o = true.
Proof. destruct o; [apply bytes_eqb_refl | reflexivity]. Qed.

(* the constants the proofs below compute with are the ones read from the source *)
Lemma constants_match_source :
  uint32_max = c12_threshold_factor /\ 32 = c12_threshold_shift /\
  c12_kIsSampled = 1 /\ c12_kIsRandom = 2 /\ c12_kAllW3CTraceContext1Flags = 1.
Proof. repeat split; reflexivity. Qed.

(* a comparison that holds excludes NaNs *)
Lemma fle_true_not_nan a b : fle a b = true -> is_nan a = false /\ is_nan b = false.
Proof. destruct a, b; simpl; intros H; try discriminate H; auto. Qed.

(* ------------------------------------------------------------------ ratio sampler *)

Lemma calc_threshold_le0 r : fle r f_zero = true -> calc_threshold r = 0.
Proof. intros H. unfold calc_threshold. now rewrite H. Qed.

(* 1 <= r excludes r <= 0 *)
Lemma ge1_not_le0 r : fle f_one r = true -> fle r f_zero = false.
Proof.
  intros H. destruct (fle r f_zero) eqn:E; [|reflexivity]. exfalso.
  destruct (fle_true_not_nan _ _ H) as [_ N].
  assert (N0 : is_nan f_zero = false) by reflexivity.
  assert (N1 : is_nan f_one = false) by reflexivity.
  pose proof (threshold_monotone f_one r N1 N H) as A.
  pose proof (threshold_monotone r f_zero N N0 E) as B.
  change (calc_threshold f_one) with uint64_max in A. change (calc_threshold f_zero) with 0 in B.
  unfold uint64_max in A. lia.
Qed.

Lemma calc_threshold_ge1 r : fle f_one r = true -> calc_threshold r = uint64_max.
Proof. intros H. unfold calc_threshold. now rewrite (ge1_not_le0 r H), H. Qed.

Theorem ratio_le0_none r p tid x :
  fle r f_zero = true -> should_sample (SRatio r) p tid x = (Drop, None).
Proof. intros H. cbn [should_sample]. rewrite (calc_threshold_le0 r H). reflexivity. Qed.

Theorem ratio_ge1_all r p tid x :
  fle f_one r = true -> should_sample (SRatio r) p tid x = (RecordAndSample, None).
Proof.
  intros H. cbn [should_sample]. rewrite (calc_threshold_ge1 r H). unfold ratio_decide.
  change (uint64_max =? 0) with false. cbv iota.
  pose proof (calc_threshold_range (id_ratio tid)) as R. fold (id_threshold tid) in R.
  destruct (Z.leb_spec (id_threshold tid) uint64_max); [reflexivity | lia].
Qed.

(* the decision is monotone in the threshold ... *)
Lemma decide_monotone_in_threshold t1 t2 tid :
  0 <= t1 <= t2 -> is_sampled (ratio_decide t1 tid) = true -> is_sampled (ratio_decide t2 tid) = true.
Proof.
  intros H. unfold ratio_decide.
  destruct (Z.eqb_spec t1 0) as [E1|N1]; [discriminate|].
  destruct (Z.eqb_spec t2 0) as [E2|N2]; [lia|].
  destruct (Z.leb_spec (id_threshold tid) t1); [|discriminate].
  destruct (Z.leb_spec (id_threshold tid) t2); [reflexivity | lia].
Qed.

(* ... and the threshold is monotone in the ratio: raising the ratio only adds traces *)
Theorem ratio_monotone r1 r2 p1 p2 tid x1 x2 :
  is_nan r1 = false -> is_nan r2 = false -> fle r1 r2 = true ->
  is_sampled (fst (should_sample (SRatio r1) p1 tid x1)) = true ->
  is_sampled (fst (should_sample (SRatio r2) p2 tid x2)) = true.
Proof.
  intros N1 N2 H. cbn [should_sample fst]. apply decide_monotone_in_threshold.
  split; [apply calc_threshold_range | now apply threshold_monotone].
Qed.

(* the threshold depends on the numeric value of the ratio only (+0 / -0) *)
Theorem threshold_depends_on_value_only r1 r2 :
  fle r1 r2 = true -> fle r2 r1 = true -> calc_threshold r1 = calc_threshold r2.
Proof.
  intros A B. destruct (fle_true_not_nan _ _ A) as [N1 N2].
  pose proof (threshold_monotone r1 r2 N1 N2 A). pose proof (threshold_monotone r2 r1 N2 N1 B). lia.
Qed.

(* S1: nothing but (the first eight bytes of) the trace id and the ratio enters the result *)
Theorem decision_depends_only_on_id_and_ratio r p1 p2 tid1 tid2 x1 x2 :
  firstn 8 tid1 = firstn 8 tid2 ->
  should_sample (SRatio r) p1 tid1 x1 = should_sample (SRatio r) p2 tid2 x2.
Proof.
  intros H. cbn [should_sample]. unfold ratio_decide. now rewrite (id_threshold_prefix_only tid1 tid2 H).
Qed.

(* the sampled ids form a down-set: a smaller id (as the little-endian integer of its first 8 bytes) of a sampled one is sampled *)
Theorem ratio_sampled_ids_downward_closed r p tid1 tid2 x :
  tid_prefix tid1 <= tid_prefix tid2 ->
  is_sampled (fst (should_sample (SRatio r) p tid2 x)) = true ->
  is_sampled (fst (should_sample (SRatio r) p tid1 x)) = true.
Proof.
  intros H. cbn [should_sample fst]. unfold ratio_decide.
  destruct (calc_threshold r =? 0); [auto|].
  pose proof (id_threshold_monotone tid1 tid2 H).
  destruct (Z.leb_spec (id_threshold tid2) (calc_threshold r)); [|discriminate].
  destruct (Z.leb_spec (id_threshold tid1) (calc_threshold r)); [reflexivity | lia].
Qed.

(* ------------------------------------------------------------------ parent-based, always-on, always-off *)

Theorem parent_based_spec d p tid x :
  (ctx_valid p = true ->
     should_sample (SParent d) p tid x = ((if ctx_sampled p then RecordAndSample else Drop), Some (c_ts p)) /\
     delegate_calls p = 0) /\
  (ctx_valid p = false ->
     should_sample (SParent d) p tid x = should_sample d p tid x /\ delegate_calls p = 1).
Proof.
  split; intros V; cbn [should_sample]; unfold delegate_calls; rewrite V; cbn [negb]; [|auto].
  destruct (ctx_sampled p); auto.
Qed.

(* local or remote makes no difference *)
Theorem parent_based_ignores_remote d tid sid fl ts rem1 rem2 tr x :
  ctx_valid (mk_ctx tid sid fl rem1 ts) = true ->
  should_sample (SParent d) (mk_ctx tid sid fl rem1 ts) tr x = should_sample (SParent d) (mk_ctx tid sid fl rem2 ts) tr x.
Proof.
  intros V. assert (V2 : ctx_valid (mk_ctx tid sid fl rem2 ts) = true) by exact V.
  destruct (parent_based_spec d (mk_ctx tid sid fl rem1 ts) tr x) as [[A _] _]; [exact V|].
  destruct (parent_based_spec d (mk_ctx tid sid fl rem2 ts) tr x) as [[B _] _]; [exact V2|].
  rewrite A, B. reflexivity.
Qed.

Theorem always_on_constant p tid x : fst (should_sample SAlwaysOn p tid x) = RecordAndSample.
Proof. reflexivity. Qed.
Theorem always_off_constant p tid x : fst (should_sample SAlwaysOff p tid x) = Drop.
Proof. reflexivity. Qed.

(* ------------------------------------------------------------------ Tracer::StartSpan *)

Lemma land_lor_1 f : Z.land (Z.lor f 1) 1 = 1.
Proof.
  rewrite Z.land_lor_distr_l. change (Z.land 1 1) with 1.
  change 1 with (Z.ones 1) at 1. rewrite Z.land_ones by lia. change (2 ^ 1) with 2.
  pose proof (Z.mod_pos_bound f 2 eq_refl) as M.
  assert (f mod 2 = 0 \/ f mod 2 = 1) as [-> | ->] by lia; reflexivity.
Qed.
Lemma land_254_1 f : Z.land (Z.land f 254) 1 = 0.
Proof. rewrite <- Z.land_assoc. change (Z.land 254 1) with 0. apply Z.land_0_r. Qed.

(* the parent context the tracer hands to the sampler *)
Definition effective_parent (explicit : span_ctx) : span_ctx := if ctx_valid explicit then explicit else ctx_invalid.

Theorem span_sampled_flag_is_decision s e g rnd x :
  let parent := effective_parent e in
  let st := start_span s e g rnd x in
  st_flags st = (if is_sampled (fst (should_sample s parent (st_tid st) x)) then 1 else 0) /\
  st_tid st = (if ctx_valid e then c_tid e else g).
Proof.
  cbv zeta. unfold start_span, effective_parent.
  change c12_kIsSampled with 1. change c12_kAllW3CTraceContext1Flags with 1. change (255 - 1) with 254.
  destruct (ctx_valid e) eqn:V; cbn [st_flags st_tid].
  - rewrite V. split; [|reflexivity].
    destruct (is_sampled (fst (should_sample s e (c_tid e) x))); [apply land_lor_1 | apply land_254_1].
  - change (ctx_valid ctx_invalid) with false. cbv iota. split; [|reflexivity].
    destruct (is_sampled (fst (should_sample s ctx_invalid g x))); [apply land_lor_1 | apply land_254_1].
Qed.

(* all participants of a trace agree: with one ratio, the root span (id from the generator) and every child span
   (valid parent of that trace, anything else arbitrary) get the same sampled flag *)
Theorem participants_agree r e1 e2 g1 g2 rnd1 rnd2 x1 x2 :
  firstn 8 (if ctx_valid e1 then c_tid e1 else g1) = firstn 8 (if ctx_valid e2 then c_tid e2 else g2) ->
  st_flags (start_span (SRatio r) e1 g1 rnd1 x1) = st_flags (start_span (SRatio r) e2 g2 rnd2 x2).
Proof.
  intros H.
  destruct (span_sampled_flag_is_decision (SRatio r) e1 g1 rnd1 x1) as [A1 B1].
  destruct (span_sampled_flag_is_decision (SRatio r) e2 g2 rnd2 x2) as [A2 B2].
  cbv zeta in *. rewrite A1, A2.
  rewrite (decision_depends_only_on_id_and_ratio r (effective_parent e1) (effective_parent e2)
             (st_tid (start_span (SRatio r) e1 g1 rnd1 x1)) (st_tid (start_span (SRatio r) e2 g2 rnd2 x2)) x1 x2); [reflexivity|].
  now rewrite B1, B2.
Qed.

Theorem parent_based_span_inherits d e g rnd x :
  ctx_valid e = true ->
  let st := start_span (SParent d) e g rnd x in
  st_tid st = c_tid e /\ st_flags st = (if ctx_sampled e then 1 else 0) /\ st_ts st = c_ts e.
Proof.
  intros V. cbv zeta.
  destruct (span_sampled_flag_is_decision (SParent d) e g rnd x) as [A B]. cbv zeta in *.
  rewrite V in B. split; [exact B|]. split.
  - rewrite A, B. unfold effective_parent. rewrite V.
    destruct (parent_based_spec d e (c_tid e) x) as [[P _] _]; [exact V|]. rewrite P. cbn [fst].
    destruct (ctx_sampled e); reflexivity.
  - unfold start_span. rewrite V. cbn [st_ts]. rewrite V.
    destruct (parent_based_spec d e (c_tid e) x) as [[P _] _]; [exact V|]. rewrite P. reflexivity.
Qed.

(* ------------------------------------------------------------------ model meets spec *)

Lemma spec_threshold_ok r : spec_threshold r (calc_threshold r) = [].
Proof.
  unfold spec_threshold. pose proof (calc_threshold_range r) as R.
  rewrite check_true by (apply andb_true_intro; split; apply Z.leb_le; lia). cbn [app].
  unfold ratio_le0, ratio_ge1.
  destruct (fle f_one r) eqn:G.
  - rewrite (ge1_not_le0 r G), (calc_threshold_ge1 r G). reflexivity.
  - destruct (fle r f_zero) eqn:L; [|reflexivity]. rewrite (calc_threshold_le0 r L). reflexivity.
Qed.

Lemma spec_ratio_ok r p tid x : spec_should_sample (SRatio r) p (should_sample (SRatio r) p tid x) = [].
Proof.
  unfold spec_should_sample, ratio_le0, ratio_ge1.
  destruct (fle f_one r) eqn:G.
  - rewrite (ge1_not_le0 r G), (ratio_ge1_all r p tid x G). reflexivity.
  - destruct (fle r f_zero) eqn:L; [|reflexivity]. rewrite (ratio_le0_none r p tid x L). reflexivity.
Qed.

Lemma spec_parent_valid_ok d p tid x : ctx_valid p = true ->
  check (decision_eqb (fst (should_sample (SParent d) p tid x)) (fst (parent_expected p)))
        (if c_remote p then "parent_based:valid_parent_decision_differs_remote" else "parent_based:valid_parent_decision_differs_local") ++
  check (opt_bytes_eqb (snd (should_sample (SParent d) p tid x)) (snd (parent_expected p))) "parent_based:valid_parent_trace_state_differs" = [].
Proof.
  intros V. destruct (parent_based_spec d p tid x) as [[A _] _]; [exact V|]. rewrite A. unfold parent_expected. cbn [fst snd].
  rewrite decision_eqb_refl, opt_bytes_eqb_refl. reflexivity.
Qed.

Lemma spec_ss_ok s p tid x : spec_should_sample s p (should_sample s p tid x) = [].
Proof.
  destruct s as [| |r|d].
  - reflexivity.
  - reflexivity.
  - apply spec_ratio_ok.
  - unfold spec_should_sample. destruct (ctx_valid p) eqn:V; [|reflexivity]. now apply spec_parent_valid_ok.
Qed.

Lemma spec_pb_ok d p tid x :
  spec_parent_based p (should_sample (SParent d) p tid x) (delegate_calls p) (should_sample d p tid x) = [].
Proof.
  unfold spec_parent_based. destruct (ctx_valid p) eqn:V.
  - rewrite app_assoc, (spec_parent_valid_ok d p tid x V). unfold delegate_calls. rewrite V. reflexivity.
  - destruct (parent_based_spec d p tid x) as [_ [A B]]; [exact V|]. rewrite A, B.
    rewrite decision_eqb_refl, opt_bytes_eqb_refl. reflexivity.
Qed.

Lemma spec_monotone_half r1 r2 tid : forall s,
  (if fle r1 r2 then
     check (calc_threshold r1 <=? calc_threshold r2) "ratio_monotone:threshold_decreased" ++
     check (implb (is_sampled (ratio_decide (calc_threshold r1) tid)) (is_sampled (ratio_decide (calc_threshold r2) tid))) s
   else []) = [].
Proof.
  intros s. destruct (fle r1 r2) eqn:H; [|reflexivity].
  destruct (fle_true_not_nan _ _ H) as [N1 N2].
  pose proof (threshold_monotone r1 r2 N1 N2 H) as M.
  rewrite check_true by (apply Z.leb_le; exact M). cbn [app]. apply check_true.
  destruct (is_sampled (ratio_decide (calc_threshold r1) tid)) eqn:S; [|reflexivity]. cbn [implb].
  apply (decide_monotone_in_threshold (calc_threshold r1) (calc_threshold r2) tid); [|exact S].
  split; [apply calc_threshold_range | exact M].
Qed.

Lemma spec_mono_ok r1 r2 tid :
  spec_monotone r1 r2 (calc_threshold r1) (calc_threshold r2)
    (ratio_decide (calc_threshold r1) tid) (ratio_decide (calc_threshold r2) tid) = [].
Proof.
  unfold spec_monotone. rewrite (spec_monotone_half r1 r2 tid), (spec_monotone_half r2 r1 tid).
  rewrite !spec_threshold_ok. reflexivity.
Qed.

Lemma spec_dep_ok r tid p1 x1 p2 x2 :
  spec_depends_only (should_sample (SRatio r) p1 tid x1) (should_sample (SRatio r) p2 tid x2) = [].
Proof.
  rewrite (decision_depends_only_on_id_and_ratio r p1 p2 tid tid x1 x2 eq_refl).
  unfold spec_depends_only. now rewrite decision_eqb_refl, opt_bytes_eqb_refl.
Qed.

Lemma spec_span_ok s e g rnd x : spec_start_span s e g (start_span s e g rnd x) = [].
Proof.
  destruct (span_sampled_flag_is_decision s e g rnd x) as [A B]. cbv zeta in *.
  unfold spec_start_span. rewrite B, bytes_eqb_refl. cbn [check app].
  assert (F01 : (st_flags (start_span s e g rnd x) =? 0) || (st_flags (start_span s e g rnd x) =? 1) = true).
  { rewrite A. destruct (is_sampled _); reflexivity. }
  rewrite F01. cbn [check app].
  destruct s as [| |r|d].
  - rewrite A. reflexivity.
  - rewrite A. reflexivity.
  - rewrite A. unfold ratio_le0, ratio_ge1.
    destruct (fle f_one r) eqn:G.
    + rewrite (ge1_not_le0 r G), (ratio_ge1_all r _ _ x G). reflexivity.
    + destruct (fle r f_zero) eqn:L; [|reflexivity]. rewrite (ratio_le0_none r _ _ x L). reflexivity.
  - destruct (ctx_valid e) eqn:V; [|reflexivity].
    destruct (parent_based_span_inherits d e g rnd x V) as (_ & F & T). cbv zeta in *.
    rewrite F, T, bytes_eqb_refl. destruct (ctx_sampled e); reflexivity.
Qed.

Lemma spec_participants_ok s e g rnd x :
  spec_participants s (start_span s e g rnd x)
    (st_flags (start_span s ctx_invalid (st_tid (start_span s e g rnd x)) rnd x)) = [].
Proof.
  destruct s as [| |r|d]; try reflexivity. cbn [spec_participants]. apply check_true. apply Z.eqb_eq.
  apply participants_agree. change (ctx_valid ctx_invalid) with false. cbv iota.
  destruct (span_sampled_flag_is_decision (SRatio r) e g rnd x) as [_ B]. cbv zeta in B. now rewrite B.
Qed.

(* ------------------------------------------------------------------ the parent chosen from the contexts *)

Lemma start_span_is_at s e g rnd x : start_span s e g rnd x = start_span_at s (effective_parent e) g rnd x.
Proof. reflexivity. Qed.

Lemma span_at_facts s parent g rnd x :
  let st := start_span_at s parent g rnd x in
  st_flags st = (if is_sampled (fst (should_sample s parent (st_tid st) x)) then 1 else 0) /\
  st_tid st = (if ctx_valid parent then c_tid parent else g) /\
  st_ts st = (match snd (should_sample s parent (st_tid st) x) with
              | Some h => h
              | None => if ctx_valid parent then c_ts parent else ts_default
              end).
Proof.
  cbv zeta. unfold start_span_at. cbn [st_flags st_tid st_ts].
  change c12_kIsSampled with 1. change c12_kAllW3CTraceContext1Flags with 1. change (255 - 1) with 254.
  split; [|split; reflexivity].
  destruct (is_sampled (fst (should_sample s parent (if ctx_valid parent then c_tid parent else g) x)));
    [apply land_lor_1 | apply land_254_1].
Qed.

(* S5: a valid span held by the context given as parent IS the parent, whether or not the context is also marked is_root_span *)
Theorem context_span_is_parent_regardless_of_marker active c marker :
  ctx_valid c = true -> tracer_parent active (PaContext (Some c) marker) = c.
Proof. intros V. cbn [tracer_parent span_in]. now rewrite V. Qed.

(* the parent the tracer picks is the one span_startoptions.h documents *)
Theorem tracer_parent_is_documented_parent active a :
  documented_parent active a =
  (if ctx_valid (tracer_parent active a) then Some (tracer_parent active a) else None).
Proof.
  assert (I : ctx_valid ctx_invalid = false) by reflexivity.
  destruct a as [c|[c|] m]; cbn [documented_parent tracer_parent span_in].
  - destruct (ctx_valid c) eqn:V; [now rewrite V | reflexivity].
  - destruct (ctx_valid c) eqn:V; [now rewrite V|]. destruct m; [now rewrite I | reflexivity].
  - rewrite I. destruct m; [now rewrite I | reflexivity].
Qed.

Theorem parent_based_span_cx_inherits d cs a g rnd x p :
  documented_parent (span_in cs) a = Some p ->
  let st := start_span_cx (SParent d) cs a g rnd x in
  st_tid st = c_tid p /\ st_flags st = (if ctx_sampled p then 1 else 0) /\ st_ts st = c_ts p /\
  root_sampler_calls (SParent d) cs a = 0.
Proof.
  intros D. rewrite tracer_parent_is_documented_parent in D.
  destruct (ctx_valid (tracer_parent (span_in cs) a)) eqn:V; [|discriminate]. injection D as <-.
  cbv zeta. unfold start_span_cx, root_sampler_calls.
  set (q := tracer_parent (span_in cs) a) in *.
  destruct (span_at_facts (SParent d) q g rnd x) as (A & B & C). cbv zeta in *.
  rewrite V in B. rewrite A, C, B.
  destruct (parent_based_spec d q (c_tid q) x) as [[P K] _]; [exact V|]. rewrite P, K. cbn [fst snd].
  repeat split. destruct (ctx_sampled q); reflexivity.
Qed.

(* S6: the root sampler is consulted exactly when there is no documented parent, and then the span is on the generated trace id *)
Theorem root_sampler_only_without_parent d cs a g rnd x :
  documented_parent (span_in cs) a = None ->
  root_sampler_calls (SParent d) cs a = 1 /\ st_tid (start_span_cx (SParent d) cs a g rnd x) = g.
Proof.
  intros D. rewrite tracer_parent_is_documented_parent in D.
  destruct (ctx_valid (tracer_parent (span_in cs) a)) eqn:V; [discriminate|].
  unfold root_sampler_calls, delegate_calls, start_span_cx. rewrite V. split; [reflexivity|].
  destruct (span_at_facts (SParent d) (tracer_parent (span_in cs) a) g rnd x) as (_ & B & _). cbv zeta in B. now rewrite B, V.
Qed.

Lemma spec_span_cx_ok s cs a g rnd x :
  spec_start_span_cx s cs a g (start_span_cx s cs a g rnd x) (root_sampler_calls s cs a) = [].
Proof.
  unfold spec_start_span_cx.
  destruct (span_at_facts s (tracer_parent (span_in cs) a) g rnd x) as (A & B & C). cbv zeta in *.
  fold (start_span_cx s cs a g rnd x) in A, B, C.
  assert (F01 : (st_flags (start_span_cx s cs a g rnd x) =? 0) || (st_flags (start_span_cx s cs a g rnd x) =? 1) = true).
  { rewrite A. destruct (is_sampled _); reflexivity. }
  rewrite F01. cbn [check app].
  destruct (documented_parent (span_in cs) a) as [p|] eqn:D.
  - destruct s as [| |r|d].
    + rewrite tracer_parent_is_documented_parent in D.
      destruct (ctx_valid (tracer_parent (span_in cs) a)) eqn:V; [|discriminate]. injection D as <-.
      rewrite B, bytes_eqb_refl, A. reflexivity.
    + rewrite tracer_parent_is_documented_parent in D.
      destruct (ctx_valid (tracer_parent (span_in cs) a)) eqn:V; [|discriminate]. injection D as <-.
      rewrite B, bytes_eqb_refl, A. reflexivity.
    + rewrite tracer_parent_is_documented_parent in D.
      destruct (ctx_valid (tracer_parent (span_in cs) a)) eqn:V; [|discriminate]. injection D as <-.
      rewrite B, bytes_eqb_refl, A. cbn [check app]. unfold ratio_le0, ratio_ge1.
      destruct (fle f_one r) eqn:G.
      * rewrite (ge1_not_le0 r G), (ratio_ge1_all r _ _ x G). reflexivity.
      * destruct (fle r f_zero) eqn:L; [|reflexivity]. rewrite (ratio_le0_none r _ _ x L). reflexivity.
    + destruct (parent_based_span_cx_inherits d cs a g rnd x p D) as (T & F & S & K). cbv zeta in *.
      rewrite T, F, S, K, !bytes_eqb_refl. destruct (ctx_sampled p); reflexivity.
  - rewrite tracer_parent_is_documented_parent in D.
    destruct (ctx_valid (tracer_parent (span_in cs) a)) eqn:V; [discriminate|].
    rewrite B, bytes_eqb_refl. cbn [check app].
    destruct s as [| |r|d].
    + rewrite A. reflexivity.
    + rewrite A. reflexivity.
    + rewrite A. unfold ratio_le0, ratio_ge1.
      destruct (fle f_one r) eqn:G.
      * rewrite (ge1_not_le0 r G), (ratio_ge1_all r _ _ x G). reflexivity.
      * destruct (fle r f_zero) eqn:L; [|reflexivity]. rewrite (ratio_le0_none r _ _ x L). reflexivity.
    + unfold root_sampler_calls, delegate_calls. rewrite V. reflexivity.
Qed.

(* printers and parsers of observations agree *)
Lemma parse_print_decision d : parse_decision (print_decision d) = Some d.
Proof. destruct d; reflexivity. Qed.
Lemma parse_print_ts o : parse_ts (print_ts o) = Some o.
Proof. destruct o; reflexivity. Qed.
Lemma parse_print_result r : parse_result (print_decision (fst r)) (print_ts (snd r)) = Some r.
Proof. unfold parse_result. rewrite parse_print_decision, parse_print_ts. now destruct r. Qed.
Lemma parse_print_started o : parse_started (print_started o) = Some o.
Proof. destruct o as [t f ts r]. unfold print_started, parse_started, tbool. cbn. destruct r; reflexivity. Qed.

(* every parsable case: the SPEC checkers accept what the model answers *)
Theorem model_meets_spec l c : parse_case l = Some c -> run_spec l (run_model l) = [].
Proof.
  intros H. unfold run_spec, run_model. rewrite H. destruct c.
  - apply spec_threshold_ok.
  - unfold print_result. rewrite parse_print_result. apply spec_ss_ok.
  - unfold print_result. cbn [app]. rewrite !parse_print_result.
    rewrite spec_pb_ok, spec_ss_ok. reflexivity.
  - rewrite !parse_print_decision. apply spec_mono_ok.
  - unfold print_result. cbn [app]. rewrite !parse_print_result.
    rewrite spec_dep_ok, !spec_ss_ok. reflexivity.
  - cbv zeta. unfold print_started at 1. cbn [app]. fold (print_started (start_span s p gen_tid random x)).
    rewrite parse_print_started, spec_span_ok. cbn [app]. apply spec_participants_ok.
  - unfold print_started at 1. cbn [app]. fold (print_started (start_span_cx s cur_span a gen_tid random x)).
    rewrite parse_print_started. apply spec_span_cx_ok.
  - destruct (description s); reflexivity.
Qed.

(* ------------------------------------------------------------------ non-vacuity of the hypotheses above *)

Definition ex_parent_valid : span_ctx := mk_ctx (x01 :: zeros 15) (x02 :: zeros 7) x01 true (bs "a=1").
Definition ex_parent_unsampled : span_ctx := mk_ctx (x01 :: zeros 15) (x02 :: zeros 7) xfe false (bs "a=1").
Definition ex_parent_invalid : span_ctx := mk_ctx (zeros 16) (x02 :: zeros 7) x01 true (bs "a=1").
Definition ex_extra : extra := mk_extra (bs "span") 1 2 0.
Definition ex_tid_low : bytes := zeros 16.
(* first eight bytes hold 3 * 2^61 little-endian: between the thresholds of 0.25 and 0.5 *)
Definition ex_tid_mid : bytes := zeros 7 ++ [x60] ++ zeros 8.
Definition ex_tid_mid' : bytes := zeros 7 ++ [x60] ++ repeat xff 8.
Definition neg_zero : float := of_bits 9223372036854775808.
Definition pos_inf : float := of_bits 9218868437227405312.

Example ratio_le0_none_nonvacuous :
  fle f_zero f_zero = true /\ fle neg_zero f_zero = true /\ fle (of_bits 13830554455654793216) f_zero = true (* -1.0 *).
Proof. vm_compute. auto. Qed.
Example ratio_ge1_all_nonvacuous :
  fle f_one f_one = true /\ fle f_one pos_inf = true /\ fle f_one (of_bits 4607182418800017409) = true (* 1 + 2^-52 *).
Proof. vm_compute. auto. Qed.
(* raising 0.25 to 0.5 keeps the low id and adds the middle one; the converse direction really fails *)
Example ratio_monotone_nonvacuous :
  is_nan quarter = false /\ is_nan half = false /\ fle quarter half = true /\
  is_sampled (fst (should_sample (SRatio quarter) ex_parent_valid ex_tid_low ex_extra)) = true /\
  is_sampled (fst (should_sample (SRatio quarter) ex_parent_valid ex_tid_mid ex_extra)) = false /\
  is_sampled (fst (should_sample (SRatio half) ex_parent_invalid ex_tid_mid ex_extra)) = true.
Proof. vm_compute. repeat split. Qed.
Example threshold_depends_on_value_only_nonvacuous :
  fle f_zero neg_zero = true /\ fle neg_zero f_zero = true /\ f_zero <> neg_zero.
Proof. vm_compute. repeat split. discriminate. Qed.
Example decision_depends_only_nonvacuous :
  firstn 8 ex_tid_mid = firstn 8 ex_tid_mid' /\ ex_tid_mid <> ex_tid_mid' /\ ex_parent_valid <> ex_parent_invalid.
Proof. vm_compute. repeat split; discriminate. Qed.
Example downward_closed_nonvacuous :
  tid_prefix ex_tid_low <= tid_prefix ex_tid_mid /\
  is_sampled (fst (should_sample (SRatio half) ex_parent_valid ex_tid_mid ex_extra)) = true.
Proof. vm_compute. split; [discriminate | reflexivity]. Qed.
Example parent_based_spec_nonvacuous :
  ctx_valid ex_parent_valid = true /\ ctx_sampled ex_parent_valid = true /\
  ctx_valid ex_parent_unsampled = true /\ ctx_sampled ex_parent_unsampled = false /\
  ctx_valid ex_parent_invalid = false /\
  should_sample (SParent SAlwaysOff) ex_parent_valid ex_tid_mid ex_extra = (RecordAndSample, Some (bs "a=1")) /\
  should_sample (SParent SAlwaysOn) ex_parent_unsampled ex_tid_mid ex_extra = (Drop, Some (bs "a=1")) /\
  should_sample (SParent SAlwaysOn) ex_parent_invalid ex_tid_mid ex_extra = (RecordAndSample, Some []) /\
  should_sample (SParent (SRatio quarter)) ex_parent_invalid ex_tid_mid ex_extra = (Drop, None).
Proof. vm_compute. repeat split. Qed.
Example participants_agree_nonvacuous :
  (* a root span whose generated id is the trace id of ex_parent_valid, and a child of ex_parent_valid *)
  firstn 8 (if ctx_valid ex_parent_invalid then c_tid ex_parent_invalid else c_tid ex_parent_valid) =
  firstn 8 (if ctx_valid ex_parent_valid then c_tid ex_parent_valid else ex_tid_mid).
Proof. vm_compute. reflexivity. Qed.
Example model_meets_spec_nonvacuous :
  exists c, parse_case [tag "MONO"; TZ 4598175219545276416; TZ 4602678819172646912; TB ex_tid_mid] = Some c /\
  run_model [tag "MONO"; TZ 4598175219545276416; TZ 4602678819172646912; TB ex_tid_mid] =
    [TZ 4611686018427387903; TZ 9223372036854775807; tag "DROP"; tag "RECORD_AND_SAMPLE"].
Proof. eexists. split; vm_compute; reflexivity. Qed.

Example context_parent_nonvacuous :
  ctx_valid ex_parent_valid = true /\
  (* marker + valid span: the span is the parent; marker only: no parent; neither: the active span *)
  documented_parent ex_parent_unsampled (PaContext (Some ex_parent_valid) true) = Some ex_parent_valid /\
  documented_parent ex_parent_unsampled (PaContext None true) = None /\
  documented_parent ex_parent_unsampled (PaContext (Some ex_parent_invalid) true) = None /\
  documented_parent ex_parent_unsampled (PaContext (Some ex_parent_invalid) false) = Some ex_parent_unsampled /\
  st_flags (start_span_cx (SParent SAlwaysOff) None (PaContext (Some ex_parent_valid) true) ex_tid_mid false ex_extra) = 1 /\
  root_sampler_calls (SParent SAlwaysOff) None (PaContext None true) = 1.
Proof. vm_compute. repeat split. Qed.
