(* Proofs about the floating-point part of the C12 model (coq/C12/Ratio.v): the threshold computed by
   CalculateThreshold is characterised over the real numbers (Flocq's B2R, round), shown monotone in
   the ratio over ALL non-NaN doubles (infinities included), within [0, 2^64-1] and free of unsigned wrap;
   the trace-id side (CalculateThresholdFromBuffer) is monotone in the first eight id bytes.
   Depends on Ratio.v only.  Print Assumptions shows the standard-library facts about real numbers that Flocq uses. *)
From Coq Require Import ZArith Reals Lia Lra Bool List.
From Flocq Require Import Core.Core.
From V Require Import C12.Ratio.
Local Open Scope R_scope.


(* ------------------------------------------------------------------ *)
Notation fexp := (SpecFloat.fexp prec emax).
Definition rnd (x : R) : R := round radix2 fexp ZnearestE x.

Lemma fexp_FLT : fexp = FLT_exp (-1074) 53.
Proof. reflexivity. Qed.

Global Instance valid_fexp : Valid_exp fexp.
Proof. rewrite fexp_FLT. apply FLT_exp_valid. unfold Prec_gt_0; lia. Qed.

Lemma rnd_le x y : x <= y -> rnd x <= rnd y.
Proof. intros H. apply round_le; auto with typeclass_instances. Qed.

Lemma format_IZR z : (Z.abs z <= 2 ^ 53)%Z -> generic_format radix2 fexp (IZR z).
Proof.
  intros H. rewrite fexp_FLT.
  destruct (Z.eq_dec (Z.abs z) (2 ^ 53)) as [E|N].
  - assert (IZR z = bpow radix2 53 \/ IZR z = - bpow radix2 53) as [->| ->].
    { change (bpow radix2 53) with (IZR (2 ^ 53)). rewrite <- opp_IZR.
      destruct (Z.abs_eq_or_opp z) as [A|A]; rewrite A in E; [left|right]; f_equal; lia. }
    + apply generic_format_FLT_bpow; [unfold Prec_gt_0|]; lia.
    + apply generic_format_opp. apply generic_format_FLT_bpow; [unfold Prec_gt_0|]; lia.
  - apply generic_format_FLT. apply FLT_spec with (f := Float radix2 z 0).
    + unfold F2R; simpl. lra.
    + simpl. change (radix2 ^ 53)%Z with (2 ^ 53)%Z. lia.
    + simpl; lia.
Qed.

Lemma rnd_IZR z : (Z.abs z <= 2 ^ 53)%Z -> rnd (IZR z) = IZR z.
Proof. intros H. apply round_generic; auto with typeclass_instances. now apply format_IZR. Qed.

Lemma rnd_0 : rnd 0 = 0.
Proof. apply (rnd_IZR 0). simpl; lia. Qed.

Lemma rnd_ge0 x : 0 <= x -> 0 <= rnd x.
Proof. intros H. rewrite <- rnd_0. now apply rnd_le. Qed.

Lemma rnd_le_IZR x z : (Z.abs z <= 2 ^ 53)%Z -> x <= IZR z -> rnd x <= IZR z.
Proof. intros Hz H. rewrite <- (rnd_IZR z Hz). now apply rnd_le. Qed.
Lemma rnd_ge_IZR x z : (Z.abs z <= 2 ^ 53)%Z -> IZR z <= x -> IZR z <= rnd x.
Proof. intros Hz H. rewrite <- (rnd_IZR z Hz). now apply rnd_le. Qed.

(* values below 2^53 never overflow *)
Lemma no_overflow x : 0 <= x <= IZR (2 ^ 53) -> Rlt_bool (Rabs (rnd x)) (bpow radix2 emax) = true.
Proof.
  intros [H0 H1]. apply Rlt_bool_true.
  rewrite Rabs_pos_eq by now apply rnd_ge0.
  apply Rle_lt_trans with (IZR (2 ^ 53)).
  - apply rnd_le_IZR; [simpl; lia | exact H1].
  - change (IZR (2 ^ 53)) with (bpow radix2 53). apply bpow_lt. reflexivity.
Qed.

Lemma of_Z_exact z : (0 <= z <= 2 ^ 53)%Z -> B2R (of_Z z) = IZR z /\ is_finite (of_Z z) = true.
Proof.
  intros H. unfold of_Z.
  generalize (binary_normalize_correct prec emax Hprec Hmax mode_NE z 0 false). cbv zeta.
  replace (F2R {| Fnum := z; Fexp := 0 |}) with (IZR z) by (unfold F2R; simpl; lra).
  change (round radix2 fexp (round_mode mode_NE) (IZR z)) with (rnd (IZR z)).
  rewrite no_overflow.
  - intros (A & B & _). rewrite A. split; [apply rnd_IZR; lia | exact B].
  - split; [apply IZR_le; lia | apply IZR_le; lia].
Qed.

(* ------------------------------------------------------------------ *)
Definition Rprod (x : R) : R := rnd (IZR uint32_max * x).
Definition Rfrac (p : R) : R := rnd (p - IZR (Ztrunc p)).
Definition Rlo (p : R) : R := rnd (rnd (Rfrac p * bpow radix2 32) + p).
Definition Rthr_of_prod (p : R) : Z := (Ztrunc p * 2 ^ 32 + Ztrunc (Rlo p))%Z.
Definition Rthr (x : R) : Z := Rthr_of_prod (Rprod x).

Lemma u32_val : IZR uint32_max = 4294967295. Proof. reflexivity. Qed.

Lemma Rprod_bounds x : 0 <= x <= 1 -> 0 <= Rprod x <= IZR uint32_max.
Proof.
  intros [H0 H1]. unfold Rprod. rewrite u32_val. split.
  - apply rnd_ge0. nra.
  - apply (rnd_le_IZR _ 4294967295); [simpl; lia | nra].
Qed.
Lemma Rprod_le x y : x <= y -> Rprod x <= Rprod y.
Proof. intros H. apply rnd_le. rewrite u32_val. nra. Qed.

Record prod_facts (p : R) : Prop := {
  pf_h0 : (0 <= Ztrunc p <= uint32_max)%Z;
  pf_hp : IZR (Ztrunc p) <= p < IZR (Ztrunc p) + 1;
  pf_f : 0 <= Rfrac p <= 1;
  pf_l : 0 <= rnd (Rfrac p * bpow radix2 32) <= IZR (2 ^ 32);
  pf_lo : p <= Rlo p <= IZR (2 ^ 32 + Ztrunc p + 1);
  pf_lot : (Ztrunc p <= Ztrunc (Rlo p) <= 2 ^ 32 + Ztrunc p + 1)%Z
}.

Lemma prod_facts_holds p : 0 <= p <= IZR uint32_max -> generic_format radix2 fexp p -> prod_facts p.
Proof.
  intros [H0 H1] Fp.
  assert (Hh : IZR (Ztrunc p) <= p < IZR (Ztrunc p) + 1).
  { rewrite Ztrunc_floor by exact H0. split; [apply Zfloor_lb | apply Zfloor_ub]. }
  assert (Hh0 : (0 <= Ztrunc p <= uint32_max)%Z).
  { split.
    - rewrite Ztrunc_floor by exact H0. apply Zfloor_lub. exact H0.
    - apply le_IZR. lra. }
  assert (Hf : 0 <= Rfrac p <= 1).
  { unfold Rfrac. split; [apply rnd_ge0; lra | apply (rnd_le_IZR _ 1); [simpl; lia | lra]]. }
  assert (Hl : 0 <= rnd (Rfrac p * bpow radix2 32) <= IZR (2 ^ 32)).
  { change (bpow radix2 32) with (IZR (2 ^ 32)). assert (0 < IZR (2 ^ 32)) by (apply IZR_lt; reflexivity).
    split; [apply rnd_ge0; nra | apply rnd_le_IZR; [simpl; lia | nra]]. }
  assert (Hlo : p <= Rlo p <= IZR (2 ^ 32 + Ztrunc p + 1)).
  { unfold Rlo. split.
    - rewrite <- (round_generic radix2 fexp ZnearestE p Fp) at 1. apply rnd_le. lra.
    - apply rnd_le_IZR.
      + unfold uint32_max in Hh0. lia.
      + rewrite !plus_IZR. lra. }
  constructor; auto.
  split.
  - apply Z.le_trans with (Ztrunc p); [lia|]. apply Ztrunc_le. lra.
  - rewrite <- (Ztrunc_IZR (2 ^ 32 + Ztrunc p + 1)). apply Ztrunc_le. lra.
Qed.

(* ------------------------------------------------------------------ *)
Lemma Rprod_format x : generic_format radix2 fexp (Rprod x).
Proof. apply generic_format_round; auto with typeclass_instances. Qed.

Lemma Rlo_top p : 0 <= p <= IZR uint32_max -> Ztrunc p = uint32_max -> Ztrunc (Rlo p) = uint32_max.
Proof.
  intros [H0 H1] E.
  assert (Hh : IZR (Ztrunc p) <= p) by (rewrite Ztrunc_floor by exact H0; apply Zfloor_lb).
  assert (P : p = IZR uint32_max) by (rewrite E in Hh; lra).
  unfold Rlo, Rfrac. rewrite E, P. replace (IZR uint32_max - IZR uint32_max) with 0 by lra.
  rewrite rnd_0, Rmult_0_l, rnd_0, Rplus_0_l.
  rewrite rnd_IZR by (simpl; lia). apply Ztrunc_IZR.
Qed.

Lemma Rthr_of_prod_range p : 0 <= p <= IZR uint32_max -> generic_format radix2 fexp p ->
  (0 <= Rthr_of_prod p <= uint64_max)%Z.
Proof.
  intros Hp Fp. destruct (prod_facts_holds p Hp Fp) as [Hh _ _ _ _ Hlt].
  unfold Rthr_of_prod. unfold uint32_max, uint64_max in *.
  destruct (Z.eq_dec (Ztrunc p) (2 ^ 32 - 1)) as [E|N].
  - rewrite (Rlo_top p Hp E). rewrite E. unfold uint32_max. lia.
  - nia.
Qed.

Lemma Rthr_of_prod_mono p q :
  0 <= p -> p <= q -> q <= IZR uint32_max -> generic_format radix2 fexp p -> generic_format radix2 fexp q ->
  (Rthr_of_prod p <= Rthr_of_prod q)%Z.
Proof.
  intros H0 Hpq H1 Fp Fq.
  destruct (prod_facts_holds p (conj H0 (Rle_trans _ _ _ Hpq H1)) Fp) as [Hh Hhp _ _ _ Hlt].
  destruct (prod_facts_holds q (conj (Rle_trans _ _ _ H0 Hpq) H1) Fq) as [Hh' Hhp' _ _ _ Hlt'].
  assert (Hle : (Ztrunc p <= Ztrunc q)%Z) by now apply Ztrunc_le.
  unfold Rthr_of_prod.
  destruct (Z.eq_dec (Ztrunc p) (Ztrunc q)) as [E|N].
  - (* same bucket: every later step is monotone *)
    rewrite E. apply Zplus_le_compat_l. apply Ztrunc_le.
    unfold Rlo. apply rnd_le. apply Rplus_le_compat; [|exact Hpq].
    apply rnd_le. apply Rmult_le_compat_r; [apply bpow_ge_0|].
    unfold Rfrac. rewrite E. apply rnd_le. lra.
  - (* bucket crossing *)
    unfold uint32_max in *. nia.
Qed.

Lemma Rthr_mono x y : 0 <= x -> x <= y -> y <= 1 -> (Rthr x <= Rthr y)%Z.
Proof.
  intros H0 Hxy H1. unfold Rthr.
  destruct (Rprod_bounds x) as [A B]; [lra|]. destruct (Rprod_bounds y) as [C D]; [lra|].
  apply Rthr_of_prod_mono; auto using Rprod_format, Rprod_le.
Qed.
Lemma Rthr_range x : 0 <= x <= 1 -> (0 <= Rthr x <= uint64_max)%Z.
Proof. intros H. apply Rthr_of_prod_range; [now apply Rprod_bounds | apply Rprod_format]. Qed.

(* ------------------------------------------------------------------ *)
Lemma fmul_spec a b : is_finite a = true -> is_finite b = true -> 0 <= B2R a * B2R b <= IZR (2 ^ 53) ->
  B2R (fmul a b) = rnd (B2R a * B2R b) /\ is_finite (fmul a b) = true.
Proof.
  intros Fa Fb H. unfold fmul. generalize (Bmult_correct prec emax Hprec Hmax mode_NE a b).
  change (round radix2 fexp (round_mode mode_NE) (B2R a * B2R b)) with (rnd (B2R a * B2R b)).
  rewrite (no_overflow _ H). intros (A & B & _). rewrite A, B, Fa, Fb. auto.
Qed.
Lemma fadd_spec a b : is_finite a = true -> is_finite b = true -> 0 <= B2R a + B2R b <= IZR (2 ^ 53) ->
  B2R (fadd a b) = rnd (B2R a + B2R b) /\ is_finite (fadd a b) = true.
Proof.
  intros Fa Fb H. unfold fadd. generalize (Bplus_correct prec emax Hprec Hmax mode_NE a b Fa Fb).
  change (round radix2 fexp (round_mode mode_NE) (B2R a + B2R b)) with (rnd (B2R a + B2R b)).
  rewrite (no_overflow _ H). intros (A & B & _). auto.
Qed.
Lemma fsub_spec a b : is_finite a = true -> is_finite b = true -> 0 <= B2R a - B2R b <= IZR (2 ^ 53) ->
  B2R (fsub a b) = rnd (B2R a - B2R b) /\ is_finite (fsub a b) = true.
Proof.
  intros Fa Fb H. unfold fsub. generalize (Bminus_correct prec emax Hprec Hmax mode_NE a b Fa Fb).
  change (round radix2 fexp (round_mode mode_NE) (B2R a - B2R b)) with (rnd (B2R a - B2R b)).
  rewrite (no_overflow _ H). intros (A & B & _). auto.
Qed.
Lemma fldexp_spec a e : is_finite a = true -> 0 <= B2R a * bpow radix2 e <= IZR (2 ^ 53) ->
  B2R (fldexp a e) = rnd (B2R a * bpow radix2 e) /\ is_finite (fldexp a e) = true.
Proof.
  intros Fa H. unfold fldexp. generalize (Bldexp_correct prec emax Hprec Hmax mode_NE a e).
  change (round radix2 fexp (round_mode mode_NE) (B2R a * bpow radix2 e)) with (rnd (B2R a * bpow radix2 e)).
  rewrite (no_overflow _ H). intros (A & B & _). rewrite A, B. auto.
Qed.
Lemma modf_int_spec a : B2R (modf_int a) = IZR (Ztrunc (B2R a)) /\ is_finite (modf_int a) = is_finite a.
Proof.
  unfold modf_int. destruct (Bnearbyint_correct prec emax Hmax mode_ZR a) as (A & B & _).
  rewrite A, B. split; [apply round_FIX_IZR | reflexivity].
Qed.
Lemma Btrunc_spec (a : float) : Btrunc a = Ztrunc (B2R a).
Proof. apply eq_IZR. rewrite (Btrunc_correct prec emax Hmax). apply round_FIX_IZR. Qed.

Lemma f_zero_spec : B2R f_zero = 0 /\ is_finite f_zero = true. Proof. split; reflexivity. Qed.
Lemma f_one_spec : B2R f_one = 1 /\ is_finite f_one = true.
Proof. apply (of_Z_exact 1). lia. Qed.
Lemma f_u32max_spec : B2R f_u32max = IZR uint32_max /\ is_finite f_u32max = true.
Proof. apply (of_Z_exact uint32_max). unfold uint32_max. lia. Qed.

Lemma fle_spec a b : is_finite a = true -> is_finite b = true -> fle a b = Rle_bool (B2R a) (B2R b).
Proof. apply Bleb_correct. Qed.

(* the threshold of a finite ratio, in terms of real numbers *)
Definition Rcalc (x : R) : Z :=
  if Rle_bool x 0 then 0%Z else if Rle_bool 1 x then uint64_max else Rthr x.

Record mid_facts (r : float) : Prop := {
  mf_hi_cast : (0 <= Btrunc (modf_int (fmul f_u32max r)) < two64)%Z;        (* static_cast<uint64_t>(hi_bits) is defined *)
  mf_lo_cast : (0 <= Btrunc (fadd (fldexp (modf_frac (fmul f_u32max r)) 32) (fmul f_u32max r)) < two64)%Z;
  mf_no_wrap : (Z.shiftl (to_u64 (modf_int (fmul f_u32max r))) 32 +
                to_u64 (fadd (fldexp (modf_frac (fmul f_u32max r)) 32) (fmul f_u32max r)) < two64)%Z;
  mf_value : calc_threshold r = Rthr (B2R r)
}.

Lemma mid_facts_hold r : is_finite r = true -> 0 < B2R r < 1 -> mid_facts r.
Proof.
  intros Fr [H0 H1].
  destruct f_u32max_spec as [Um Uf]. destruct f_one_spec as [Om Of].
  set (x := B2R r) in *.
  destruct (Rprod_bounds x) as [P0 P1]; [lra|].
  assert (U53 : IZR uint32_max <= IZR (2 ^ 53)) by (apply IZR_le; unfold uint32_max; lia).
  destruct (fmul_spec f_u32max r Uf Fr) as [Pv Pf].
  { rewrite Um. fold x. rewrite u32_val in *. split; nra. }
  rewrite Um in Pv. fold x in Pv. fold (Rprod x) in Pv.
  set (p := fmul f_u32max r) in *.
  destruct (prod_facts_holds (Rprod x) (conj P0 P1) (Rprod_format x)) as [Hh Hhp Hf Hl Hlo Hlt].
  destruct (modf_int_spec p) as [Hv Hfin]. rewrite Pv in Hv. rewrite Pf in Hfin.
  assert (Fv : B2R (modf_frac p) = Rfrac (Rprod x) /\ is_finite (modf_frac p) = true).
  { unfold modf_frac. destruct (fsub_spec p (modf_int p) Pf Hfin) as [A B].
    - rewrite Pv, Hv. lra.
    - rewrite A, Pv, Hv. auto. }
  destruct Fv as [Fv Ff].
  assert (B32 : bpow radix2 32 = IZR (2 ^ 32)) by reflexivity.
  assert (I32 : 0 < IZR (2 ^ 32) <= IZR (2 ^ 53)) by (split; [apply IZR_lt | apply IZR_le]; lia).
  destruct (fldexp_spec (modf_frac p) 32 Ff) as [Lv Lf].
  { rewrite Fv, B32. split; nra. }
  rewrite Fv in Lv.
  destruct (fadd_spec (fldexp (modf_frac p) 32) p Lf Pf) as [Sv Sf].
  { rewrite Lv, Pv. rewrite u32_val in *. change (IZR (2 ^ 32)) with 4294967296 in *. change (IZR (2 ^ 53)) with 9007199254740992 in *. lra. }
  rewrite Lv, Pv in Sv. fold (Rlo (Rprod x)) in Sv.
  assert (Thi : Btrunc (modf_int p) = Ztrunc (Rprod x)) by (rewrite Btrunc_spec, Hv; apply Ztrunc_IZR).
  assert (Tlo : Btrunc (fadd (fldexp (modf_frac p) 32) p) = Ztrunc (Rlo (Rprod x))) by (rewrite Btrunc_spec, Sv; reflexivity).
  pose proof (Rthr_of_prod_range (Rprod x) (conj P0 P1) (Rprod_format x)) as Rg.
  unfold Rthr_of_prod in Rg.
  unfold uint32_max, uint64_max, two64 in *.
  assert (C1 : (0 <= Ztrunc (Rprod x) < 2 ^ 64)%Z) by lia.
  assert (C2 : (0 <= Ztrunc (Rlo (Rprod x)) < 2 ^ 64)%Z) by lia.
  assert (W : (Z.shiftl (to_u64 (modf_int p)) 32 + to_u64 (fadd (fldexp (modf_frac p) 32) p) =
               Ztrunc (Rprod x) * 2 ^ 32 + Ztrunc (Rlo (Rprod x)))%Z).
  { unfold to_u64, u64, two64. rewrite Thi, Tlo. rewrite !Z.mod_small by lia. rewrite Z.shiftl_mul_pow2 by lia. reflexivity. }
  constructor; fold p; unfold two64.
  - rewrite Thi. exact C1.
  - rewrite Tlo. exact C2.
  - rewrite W. lia.
  - unfold calc_threshold.
    rewrite (fle_spec r f_zero Fr eq_refl). change (B2R f_zero) with 0. fold x.
    rewrite Rle_bool_false by lra.
    rewrite (fle_spec f_one r Of Fr), Om. fold x. rewrite Rle_bool_false by lra.
    cbv zeta. fold p. rewrite W. unfold u64, two64. rewrite Z.mod_small by lia. reflexivity.
Qed.

(* ------------------------------------------------------------------ *)
Lemma calc_threshold_finite r : is_finite r = true -> calc_threshold r = Rcalc (B2R r).
Proof.
  intros Fr. unfold Rcalc. destruct f_one_spec as [Om Of].
  destruct (Rle_bool_spec (B2R r) 0) as [L|L].
  - unfold calc_threshold. rewrite (fle_spec r f_zero Fr eq_refl). change (B2R f_zero) with 0.
    now rewrite Rle_bool_true.
  - destruct (Rle_bool_spec 1 (B2R r)) as [G|G].
    + unfold calc_threshold. rewrite (fle_spec r f_zero Fr eq_refl). change (B2R f_zero) with 0.
      rewrite Rle_bool_false by exact L. rewrite (fle_spec f_one r Of Fr), Om. now rewrite Rle_bool_true.
    + apply (mf_value r). apply mid_facts_hold; auto.
Qed.

Lemma calc_threshold_range r : (0 <= calc_threshold r <= uint64_max)%Z.
Proof.
  unfold calc_threshold. destruct (fle r f_zero); [unfold uint64_max; lia|].
  destruct (fle f_one r); [unfold uint64_max; lia|].
  cbv zeta. unfold u64, uint64_max.
  match goal with |- (0 <= ?a mod two64 <= _)%Z => pose proof (Z.mod_pos_bound a two64 eq_refl) end.
  unfold two64 in *. lia.
Qed.

Lemma Rcalc_mono x y : x <= y -> (Rcalc x <= Rcalc y)%Z.
Proof.
  intros H. unfold Rcalc.
  destruct (Rle_bool_spec x 0) as [X0|X0].
  - destruct (Rle_bool_spec y 0); [lia|]. destruct (Rle_bool_spec 1 y); [unfold uint64_max; lia|].
    apply (Rthr_range y). lra.
  - rewrite (Rle_bool_false y 0) by lra.
    destruct (Rle_bool_spec 1 x) as [X1|X1].
    + rewrite (Rle_bool_true 1 y) by lra. lia.
    + destruct (Rle_bool_spec 1 y) as [Y1|Y1].
      * apply (Rthr_range x). lra.
      * apply Rthr_mono; lra.
Qed.

Theorem threshold_monotone r1 r2 :
  is_nan r1 = false -> is_nan r2 = false -> fle r1 r2 = true -> (calc_threshold r1 <= calc_threshold r2)%Z.
Proof.
  intros N1 N2 H.
  destruct (is_finite r1) eqn:F1; [destruct (is_finite r2) eqn:F2|].
  - rewrite (fle_spec r1 r2 F1 F2) in H.
    rewrite (calc_threshold_finite r1 F1), (calc_threshold_finite r2 F2).
    apply Rcalc_mono. destruct (Rle_bool_spec (B2R r1) (B2R r2)); [assumption|discriminate].
  - (* r2 is an infinity *)
    destruct r2 as [|[|]| |]; try discriminate.
    + (* -inf: r1 must be -inf too *) destruct r1 as [|[|]| |]; discriminate.
    + (* +inf *) change (calc_threshold (B754_infinity false)) with uint64_max. apply calc_threshold_range.
  - destruct r1 as [|[|]| |]; try discriminate.
    + (* -inf *) change (calc_threshold (B754_infinity true)) with 0%Z. apply calc_threshold_range.
    + (* +inf: r2 must be +inf *) destruct r2 as [|[|]| |]; try discriminate H. apply Z.le_refl.
Qed.

(* ------------------------------------------------------------------ *)
Lemma f_u64max_spec : B2R f_u64max = IZR two64 /\ is_finite f_u64max = true.
Proof.
  unfold f_u64max, of_Z, binary_normalize, uint64_max. simpl Z.sub. cbv iota.
  rewrite B2R_SF2B, is_finite_SF2B.
  match goal with |- SF2R radix2 ?t = _ /\ _ => let v := eval vm_compute in t in change t with v end.
  split; [|reflexivity].
  unfold SF2R, F2R, two64. simpl. lra.
Qed.

(* no overflow up to 2^64 *)
Lemma no_overflow64 x : 0 <= x <= IZR two64 -> 0 <= rnd x <= IZR two64 /\ Rlt_bool (Rabs (rnd x)) (bpow radix2 emax) = true.
Proof.
  intros [H0 H1].
  assert (A : 0 <= rnd x) by now apply rnd_ge0.
  assert (B : rnd x <= IZR two64).
  { change (IZR two64) with (bpow radix2 64). apply round_le_generic; auto with typeclass_instances.
    rewrite fexp_FLT. apply generic_format_FLT_bpow; [unfold Prec_gt_0|]; lia. }
  split; [split; assumption|].
  apply Rlt_bool_true. rewrite Rabs_pos_eq by exact A.
  apply Rle_lt_trans with (1 := B). change (IZR two64) with (bpow radix2 64). apply bpow_lt. reflexivity.
Qed.

Definition Rid (z : Z) : R := rnd (rnd (IZR z) / IZR two64).

Lemma id_ratio_spec tid : (0 <= tid_prefix tid < two64)%Z ->
  B2R (id_ratio tid) = Rid (tid_prefix tid) /\ is_finite (id_ratio tid) = true /\ 0 <= Rid (tid_prefix tid) <= 1.
Proof.
  intros Hz. set (z := tid_prefix tid) in *. unfold id_ratio. fold z.
  destruct f_u64max_spec as [Mv Mf].
  assert (Z0 : 0 <= IZR z <= IZR two64) by (split; apply IZR_le; lia).
  destruct (no_overflow64 (IZR z) Z0) as [[A0 A1] Ov].
  assert (Zs : B2R (of_Z z) = rnd (IZR z) /\ is_finite (of_Z z) = true).
  { unfold of_Z. generalize (binary_normalize_correct prec emax Hprec Hmax mode_NE z 0 false). cbv zeta.
    replace (F2R {| Fnum := z; Fexp := 0 |}) with (IZR z) by (unfold F2R; simpl; lra).
    change (round radix2 fexp (round_mode mode_NE) (IZR z)) with (rnd (IZR z)).
    rewrite Ov. intros (A & B & _). auto. }
  destruct Zs as [Zv Zf].
  assert (T : 0 < IZR two64) by (apply IZR_lt; reflexivity).
  assert (Q : 0 <= rnd (IZR z) / IZR two64 <= 1).
  { split; [apply Rmult_le_pos; [lra | left; now apply Rinv_0_lt_compat] |].
    apply Rmult_le_reg_r with (IZR two64); [exact T|]. unfold Rdiv. rewrite Rmult_assoc, Rinv_l by lra. lra. }
  assert (Q' : 0 <= Rid z <= 1).
  { unfold Rid. split; [apply rnd_ge0; lra | apply (rnd_le_IZR _ 1); [simpl; lia | lra]]. }
  unfold fdiv. generalize (Bdiv_correct prec emax Hprec Hmax mode_NE (of_Z z) f_u64max).
  rewrite Mv, Zv.
  change (round radix2 fexp (round_mode mode_NE) (rnd (IZR z) / IZR two64)) with (Rid z).
  rewrite Rlt_bool_true.
  - intros (A & B & _); [lra|]. rewrite A, B, Zf. auto.
  - rewrite Rabs_pos_eq by lra. apply Rle_lt_trans with 1; [lra|]. apply (bpow_lt radix2 0). reflexivity.
Qed.

Lemma Rid_le a b : (a <= b)%Z -> Rid a <= Rid b.
Proof.
  intros H. unfold Rid. apply rnd_le. apply Rmult_le_compat_r.
  - left. apply Rinv_0_lt_compat. apply IZR_lt. reflexivity.
  - apply rnd_le. now apply IZR_le.
Qed.

Lemma id_threshold_spec tid : (0 <= tid_prefix tid < two64)%Z -> id_threshold tid = Rcalc (Rid (tid_prefix tid)).
Proof.
  intros H. destruct (id_ratio_spec tid H) as (A & B & _). unfold id_threshold.
  now rewrite (calc_threshold_finite _ B), A.
Qed.

(* ------------------------------------------------------------------ the trace-id side *)

Lemma b2n_lt_256 b : (Z.of_N (b2n b) < 256)%Z.
Proof. unfold b2n. pose proof (Byte.to_N_bounded b). lia. Qed.

Lemma le_int_bound l : (0 <= le_int l < 256 ^ Z.of_nat (length l))%Z.
Proof.
  induction l as [|b l IH]; [simpl; lia|].
  cbn [le_int length]. rewrite Nat2Z.inj_succ, Z.pow_succ_r by lia.
  pose proof (b2n_lt_256 b). assert (0 <= Z.of_N (b2n b))%Z by lia. lia.
Qed.

Lemma tid_prefix_range tid : (0 <= tid_prefix tid < two64)%Z.
Proof.
  unfold tid_prefix. pose proof (le_int_bound (firstn 8 tid)) as H.
  assert (L : (length (firstn 8 tid) <= 8)%nat) by apply firstn_le_length.
  assert (256 ^ Z.of_nat (length (firstn 8 tid)) <= 256 ^ 8)%Z by (apply Z.pow_le_mono_r; lia).
  change (256 ^ 8)%Z with two64 in *. lia.
Qed.

(* the id side is monotone in the integer the first eight id bytes hold *)
Theorem id_threshold_monotone a b :
  (tid_prefix a <= tid_prefix b)%Z -> (id_threshold a <= id_threshold b)%Z.
Proof.
  intros H. rewrite (id_threshold_spec a (tid_prefix_range a)), (id_threshold_spec b (tid_prefix_range b)).
  apply Rcalc_mono. now apply Rid_le.
Qed.

Theorem id_threshold_prefix_only a b : firstn 8 a = firstn 8 b -> id_threshold a = id_threshold b.
Proof. intros H. unfold id_threshold, id_ratio, tid_prefix. now rewrite H. Qed.

(* ------------------------------------------------------------------ the unsigned arithmetic never wraps *)

(* a non-NaN ratio that is neither <= 0 nor >= 1 is a finite double strictly between 0 and 1 *)
Lemma mid_is_finite r : is_nan r = false -> fle r f_zero = false -> fle f_one r = false ->
  is_finite r = true /\ 0 < B2R r < 1.
Proof.
  intros N L G. destruct f_one_spec as [Om Of].
  destruct r as [s|[|]| |s m e B].
  - (* zero *) destruct s; vm_compute in L; discriminate L.
  - (* -inf *) vm_compute in L; discriminate L.
  - (* +inf *) vm_compute in G; discriminate G.
  - discriminate N.
  - assert (F : is_finite (B754_finite s m e B) = true) by reflexivity. split; [exact F|].
    rewrite (fle_spec _ f_zero F eq_refl) in L. rewrite (fle_spec f_one _ Of F), Om in G.
    change (B2R f_zero) with 0 in L.
    destruct (Rle_bool_spec (B2R (B754_finite s m e B)) 0); [discriminate|].
    destruct (Rle_bool_spec 1 (B2R (B754_finite s m e B))); [discriminate|]. lra.
Qed.

Theorem threshold_no_wrap r :
  is_nan r = false -> fle r f_zero = false -> fle f_one r = false ->
  let product := fmul f_u32max r in
  let hi_bits := modf_int product in
  let lo_bits := fadd (fldexp (modf_frac product) 32) product in
  (0 <= Btrunc hi_bits < two64)%Z /\                              (* static_cast<uint64_t>(hi_bits) is in range *)
  (0 <= Btrunc lo_bits < two64)%Z /\                              (* static_cast<uint64_t>(lo_bits) is in range *)
  (Z.shiftl (Btrunc hi_bits) 32 < two64)%Z /\                     (* the shift loses no bits *)
  (Z.shiftl (Btrunc hi_bits) 32 + Btrunc lo_bits < two64)%Z /\    (* the sum does not wrap *)
  calc_threshold r = (Z.shiftl (Btrunc hi_bits) 32 + Btrunc lo_bits)%Z.
Proof.
  intros N L G. destruct (mid_is_finite r N L G) as [F B].
  destruct (mid_facts_hold r F B) as [H1 H2 H3 H4]. cbv zeta.
  set (h := Btrunc (modf_int (fmul f_u32max r))) in *.
  set (l := Btrunc (fadd (fldexp (modf_frac (fmul f_u32max r)) 32) (fmul f_u32max r))) in *.
  unfold to_u64, u64 in H3. fold h l in H3. rewrite !Z.mod_small in H3 by assumption.
  assert (0 <= Z.shiftl h 32)%Z by (apply Z.shiftl_nonneg; lia).
  repeat split; try lia.
  unfold calc_threshold. rewrite L, G. cbv zeta. unfold to_u64, u64. fold h l.
  rewrite (Z.mod_small h), (Z.mod_small l) by assumption. apply Z.mod_small. lia.
Qed.

(* ------------------------------------------------------------------ non-vacuity *)

Definition half : float := of_bits 4602678819172646912.      (* 0.5 *)
Definition quarter : float := of_bits 4598175219545276416.   (* 0.25 *)

Example threshold_monotone_nonvacuous :
  is_nan quarter = false /\ is_nan half = false /\ fle quarter half = true /\
  (0 < calc_threshold quarter < calc_threshold half)%Z /\ (calc_threshold half < uint64_max)%Z.
Proof. vm_compute. repeat split; reflexivity || discriminate. Qed.

Example threshold_no_wrap_nonvacuous :
  is_nan half = false /\ fle half f_zero = false /\ fle f_one half = false.
Proof. vm_compute. repeat split. Qed.

Example id_threshold_monotone_nonvacuous :
  (tid_prefix [x01; x00; x00; x00; x00; x00; x00; x40] <= tid_prefix [x00; x00; x00; x00; x00; x00; x00; x80])%Z /\
  (id_threshold [x01; x00; x00; x00; x00; x00; x00; x40] < id_threshold [x00; x00; x00; x00; x00; x00; x00; x80])%Z.
Proof. vm_compute. split; [discriminate | reflexivity]. Qed.

(* the ties of the model to the concrete values the C++ is known to produce (regression anchors):
   0.5 -> 2^63 - 1 ; 1 - 2^-53 -> 2^64 - 2^11 - 1 (no wrap to zero at the top) *)
Example threshold_half : calc_threshold half = (2 ^ 63 - 1)%Z.
Proof. vm_compute. reflexivity. Qed.
Example threshold_below_one : calc_threshold (of_bits 4607182418800017407) = (2 ^ 64 - 2 ^ 11 - 1)%Z.
Proof. vm_compute. reflexivity. Qed.
