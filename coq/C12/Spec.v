(* SPEC for C12, sentence by sentence of the property statement, as checkers that run on
   observations (of the implementation or of the model).  Nothing here mentions how a threshold
   is computed: the ratio clauses are relational (extremes, monotonicity, independence of the
   other arguments), the parent-based clause is the four-way table.

   The property's sentences and the clause tags:
     S1  "the decision depends only on the trace id and the configured ratio"     ratio_depends_only:*
     S2  "ratio <= 0 samples nothing"                                               ratio_le0:*
     S3  "ratio >= 1 samples everything"                                            ratio_ge1:*
     S4  "any trace sampled at a ratio is also sampled at every larger ratio"       ratio_monotone:*
     S5  "a span with a valid parent gets exactly the parent's sampled decision
          and the parent's trace state, whether the parent is local or remote"      parent_based:*valid_parent*
     S6  "consults its root sampler only for spans without a valid parent"          parent_based:root_*
     S7  "always-on and always-off are constant"                                    always_on:* always_off:*
     S8  (observe_at) "sampled flag of spans started through a Tracer"              tracer:*            *)
From V Require Export C12.Model.
Local Open Scope Z_scope.

Definition opt_bytes_eqb (a b : option bytes) : bool :=
  match a, b with
  | Some x, Some y => bytes_eqb x y
  | None, None => true
  | _, _ => false
  end.

(* the ratio as a number: r <= 0, r >= 1 (both false for a NaN, which is outside the property's domain) *)
Definition ratio_le0 (r : float) : bool := fle r f_zero.
Definition ratio_ge1 (r : float) : bool := fle f_one r.
Definition ratio_is_nan (r : float) : bool := is_nan r.

(* S2/S3 on the threshold_ member observed right after construction *)
Definition spec_threshold (r : float) (thr : Z) : list tok :=
  check ((0 <=? thr) && (thr <=? uint64_max)) "threshold:out_of_uint64_range" ++
  (if ratio_le0 r then check (thr =? 0) "ratio_le0:threshold_nonzero" else []) ++
  (if ratio_ge1 r then check (thr =? uint64_max) "ratio_ge1:threshold_not_max" else []).

(* S2/S3/S7 and S5 on one ShouldSample call *)
Definition parent_expected (parent : span_ctx) : result :=
  ((if ctx_sampled parent then RecordAndSample else Drop), Some (c_ts parent)).

Definition spec_should_sample (s : sampler) (parent : span_ctx) (obs : result) : list tok :=
  match s with
  | SAlwaysOn => check (decision_eqb (fst obs) RecordAndSample) "always_on:not_constant"
  | SAlwaysOff => check (decision_eqb (fst obs) Drop) "always_off:not_constant"
  | SRatio r =>
      (if ratio_le0 r then check (negb (is_sampled (fst obs))) "ratio_le0:sampled" else []) ++
      (if ratio_ge1 r then check (is_sampled (fst obs)) "ratio_ge1:dropped" else [])
  | SParent _ =>
      if ctx_valid parent then
        check (decision_eqb (fst obs) (fst (parent_expected parent)))
              (if c_remote parent then "parent_based:valid_parent_decision_differs_remote" else "parent_based:valid_parent_decision_differs_local") ++
        check (opt_bytes_eqb (snd obs) (snd (parent_expected parent))) "parent_based:valid_parent_trace_state_differs"
      else []
  end.

(* S5/S6: ParentBased{delegate} observed together with the number of calls it made to its delegate
   and with the delegate's own answer to the same arguments *)
Definition spec_parent_based (parent : span_ctx) (obs : result) (calls : Z) (dobs : result) : list tok :=
  if ctx_valid parent then
    check (decision_eqb (fst obs) (fst (parent_expected parent)))
          (if c_remote parent then "parent_based:valid_parent_decision_differs_remote" else "parent_based:valid_parent_decision_differs_local") ++
    check (opt_bytes_eqb (snd obs) (snd (parent_expected parent))) "parent_based:valid_parent_trace_state_differs" ++
    check (calls =? 0) "parent_based:root_consulted_for_valid_parent"
  else
    check (calls =? 1) "parent_based:root_not_consulted_once_without_parent" ++
    check (decision_eqb (fst obs) (fst dobs) && opt_bytes_eqb (snd obs) (snd dobs)) "parent_based:root_result_not_returned".

(* S4 (and S2/S3 again): two ratio samplers, thresholds t1 t2 and decisions d1 d2 for the same trace id *)
Definition spec_monotone (r1 r2 : float) (t1 t2 : Z) (d1 d2 : decision) : list tok :=
  (if fle r1 r2 then
     check (t1 <=? t2) "ratio_monotone:threshold_decreased" ++
     check (implb (is_sampled d1) (is_sampled d2)) "ratio_monotone:sample_lost_at_larger_ratio"
   else []) ++
  (if fle r2 r1 then
     check (t2 <=? t1) "ratio_monotone:threshold_decreased" ++
     check (implb (is_sampled d2) (is_sampled d1)) "ratio_monotone:sample_lost_at_larger_ratio"
   else []) ++
  spec_threshold r1 t1 ++ spec_threshold r2 t2.

(* S1: two separately constructed samplers of the same ratio, same trace id, different parent
   contexts, names, kinds, attributes and links *)
Definition spec_depends_only (a b : result) : list tok :=
  check (decision_eqb (fst a) (fst b)) "ratio_depends_only:decision_differs" ++
  check (opt_bytes_eqb (snd a) (snd b)) "ratio_depends_only:trace_state_differs".

(* S8: a span started through a Tracer.  What the property fixes: with ParentBased and a valid parent the span
   continues the parent's trace with the parent's decision and trace state; always-on / always-off / ratio
   extremes give the constant flag. *)
Definition spec_start_span (s : sampler) (explicit : span_ctx) (gen_tid : bytes) (o : started) : list tok :=
  check (bytes_eqb (st_tid o) (if ctx_valid explicit then c_tid explicit else gen_tid)) "tracer:wrong_trace_id" ++
  check ((st_flags o =? 0) || (st_flags o =? 1)) "tracer:flags_not_w3c_level1" ++
  match s with
  | SAlwaysOn => check (st_flags o =? 1) "tracer:always_on_not_sampled"
  | SAlwaysOff => check (st_flags o =? 0) "tracer:always_off_sampled"
  | SRatio r =>
      (if ratio_le0 r then check (st_flags o =? 0) "tracer:ratio_le0_sampled" else []) ++
      (if ratio_ge1 r then check (st_flags o =? 1) "tracer:ratio_ge1_dropped" else [])
  | SParent _ =>
      if ctx_valid explicit then
        check (Z.eqb (st_flags o) (if ctx_sampled explicit then 1 else 0)) "tracer:parent_based_flag_differs_from_parent" ++
        check (bytes_eqb (st_ts o) (c_ts explicit)) "tracer:parent_based_trace_state_differs_from_parent"
      else []
  end.

(* S1 at the tracer: the root span of a trace (no parent, the trace id comes from the generator) and a later span of the
   same trace (that id arrives through the parent context) get the same sampled flag from a ratio sampler *)
Definition spec_participants (s : sampler) (o : started) (root_flags : Z) : list tok :=
  match s with
  | SRatio _ => check (st_flags o =? root_flags) "tracer:participants_disagree"
  | _ => []
  end.

(* S5/S6/S8 when the parent arrives through the contexts (StartSpanOptions::parent a SpanContext or a context::Context,
   or the thread's current context).  Which span IS the parent is fixed by the documentation of
   StartSpanOptions::parent (api/include/opentelemetry/trace/span_startoptions.h), not by the tracer's code:
     - a valid SpanContext is the parent;
     - for a Context: 1. the span it holds, if valid, is the parent - whether or not the context also carries the
       is_root_span marker; 2. otherwise the marker means "no parent";
     - otherwise the span active in the current context, if valid, is the parent.                                  *)
Definition documented_parent (active : span_ctx) (a : parent_arg) : option span_ctx :=
  let fallback := if ctx_valid active then Some active else None in
  match a with
  | PaSpanContext c => if ctx_valid c then Some c else fallback
  | PaContext (Some c) marker => if ctx_valid c then Some c else if marker then None else fallback
  | PaContext None marker => if marker then None else fallback
  end.

Definition marked_with_span (a : parent_arg) : bool :=
  match a with PaContext (Some c) true => ctx_valid c | _ => false end.

Definition spec_start_span_cx (s : sampler) (cur_span : option span_ctx) (a : parent_arg) (gen_tid : bytes)
                              (o : started) (root_calls : Z) : list tok :=
  check ((st_flags o =? 0) || (st_flags o =? 1)) "tracer:flags_not_w3c_level1" ++
  match documented_parent (span_in cur_span) a with
  | Some p =>
      check (bytes_eqb (st_tid o) (c_tid p))
            (if marked_with_span a then "tracer_cx:left_parent_trace_marked_context" else "tracer_cx:left_parent_trace") ++
      match s with
      | SParent _ =>
          check (root_calls =? 0)
                (if marked_with_span a then "tracer_cx:root_sampler_consulted_for_valid_parent_marked_context"
                 else "tracer_cx:root_sampler_consulted_for_valid_parent") ++
          check (Z.eqb (st_flags o) (if ctx_sampled p then 1 else 0))
                (if c_remote p then "tracer_cx:parent_based_flag_differs_from_remote_parent" else "tracer_cx:parent_based_flag_differs_from_local_parent") ++
          check (bytes_eqb (st_ts o) (c_ts p)) "tracer_cx:parent_based_trace_state_differs_from_parent"
      | SAlwaysOn => check (st_flags o =? 1) "tracer:always_on_not_sampled"
      | SAlwaysOff => check (st_flags o =? 0) "tracer:always_off_sampled"
      | SRatio r =>
          (if ratio_le0 r then check (st_flags o =? 0) "tracer:ratio_le0_sampled" else []) ++
          (if ratio_ge1 r then check (st_flags o =? 1) "tracer:ratio_ge1_dropped" else [])
      end
  | None =>
      check (bytes_eqb (st_tid o) gen_tid) "tracer_cx:root_span_not_on_generated_trace_id" ++
      match s with
      | SParent _ => check (root_calls =? 1) "tracer_cx:root_sampler_not_consulted_once_without_parent"
      | SAlwaysOn => check (st_flags o =? 1) "tracer:always_on_not_sampled"
      | SAlwaysOff => check (st_flags o =? 0) "tracer:always_off_sampled"
      | SRatio r =>
          (if ratio_le0 r then check (st_flags o =? 0) "tracer:ratio_le0_sampled" else []) ++
          (if ratio_ge1 r then check (st_flags o =? 1) "tracer:ratio_ge1_dropped" else [])
      end
  end.
