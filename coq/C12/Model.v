(* MODEL for C12: the four built-in samplers of the SDK and the part of Tracer::StartSpan that
   feeds them.  Mirrors what the C++ does:
     sdk/src/trace/samplers/trace_id_ratio.cc   TraceIdRatioBasedSampler::{ctor,ShouldSample,GetDescription}
                                                (CalculateThreshold* are in C12/Ratio.v)
     sdk/src/trace/samplers/parent.cc           ParentBasedSampler::{ctor,ShouldSample,GetDescription}
     sdk/include/.../samplers/always_on.h, always_off.h
     sdk/src/trace/tracer.cc                    Tracer::StartSpan (choice of parent context, trace id, flags, trace state)
   Definitions only, no proofs. *)
From V Require Export C12.Ratio.
From V Require Import Gen.Consts.
Local Open Scope Z_scope.

Inductive decision := Drop | RecordOnly | RecordAndSample.
Definition decision_eqb (a b : decision) : bool :=
  match a, b with Drop, Drop | RecordOnly, RecordOnly | RecordAndSample, RecordAndSample => true | _, _ => false end.
(* SamplingResult::IsSampled / IsRecording *)
Definition is_sampled (d : decision) : bool := decision_eqb d RecordAndSample.
Definition is_recording (d : decision) : bool := decision_eqb d RecordOnly || decision_eqb d RecordAndSample.

(* a SpanContext; the trace state is represented by its header text *)
Record span_ctx := mk_ctx {
  c_tid : bytes;       (* 16 bytes *)
  c_sid : bytes;       (* 8 bytes *)
  c_flags : byte;
  c_remote : bool;
  c_ts : bytes
}.
Definition ctx_valid (c : span_ctx) : bool := negb (all_zero (c_tid c)) && negb (all_zero (c_sid c)).
(* TraceFlags::IsSampled : rep_ & kIsSampled *)
Definition ctx_sampled (c : span_ctx) : bool := negb (Z.land (Z.of_N (b2n (c_flags c))) c12_kIsSampled =? 0).
(* TraceState::GetDefault() has the empty header *)
Definition ts_default : bytes := [].
(* SpanContext::GetInvalid() *)
Definition ctx_invalid : span_ctx := mk_ctx (zeros 16) (zeros 8) x00 false ts_default.

(* the arguments every built-in sampler ignores *)
Record extra := mk_extra { e_name : bytes; e_kind : Z; e_nattrs : Z; e_nlinks : Z }.

(* SamplingResult without the attribute map (always null for the built-in samplers):
   decision and trace_state (None = nullptr, Some h = a TraceState whose header is h) *)
Definition result := (decision * option bytes)%type.

Inductive sampler :=
| SAlwaysOn
| SAlwaysOff
| SRatio (ratio : float)          (* TraceIdRatioBasedSampler(ratio): threshold_ = calc_threshold ratio *)
| SParent (delegate : sampler).   (* ParentBasedSampler(delegate) *)

(* TraceIdRatioBasedSampler::ShouldSample with threshold_ = thr *)
Definition ratio_decide (thr : Z) (tid : bytes) : decision :=
  if thr =? 0 then Drop
  else if id_threshold tid <=? thr then RecordAndSample
  else Drop.

Fixpoint should_sample (s : sampler) (parent : span_ctx) (tid : bytes) (x : extra) : result :=
  match s with
  | SAlwaysOn => (RecordAndSample, Some (if ctx_valid parent then c_ts parent else ts_default))
  | SAlwaysOff => (Drop, Some (if ctx_valid parent then c_ts parent else ts_default))
  | SRatio r => (ratio_decide (calc_threshold r) tid, None)
  | SParent d =>
      if negb (ctx_valid parent) then should_sample d parent tid x
      else if ctx_sampled parent then (RecordAndSample, Some (c_ts parent))
      else (Drop, Some (c_ts parent))
  end.

(* how many times ParentBasedSampler::ShouldSample calls its own delegate *)
Definition delegate_calls (parent : span_ctx) : Z := if ctx_valid parent then 0 else 1.

(* ------------------------------------------------------------------ GetDescription *)

Definition nbytes (l : list N) : bytes := map n2b l.

Fixpoint dec_digits (fuel : nat) (z : Z) (acc : bytes) : bytes :=
  match fuel with
  | O => acc
  | S f => let acc' := n2b (48 + Z.to_N (z mod 10)) :: acc in
           if z / 10 =? 0 then acc' else dec_digits f (z / 10) acc'
  end.
Definition pad_left (n : nat) (s : bytes) : bytes := repeat (n2b 48) (n - length s) ++ s.

(* round to nearest, ties to even, of the rational m * 2^e for m >= 0 *)
Definition round_half_even_scaled (m e : Z) : Z :=
  if 0 <=? e then m * 2 ^ e
  else
    let d := 2 ^ (- e) in
    let q := m / d in
    let r2 := 2 * (m mod d) in
    if r2 <? d then q else if d <? r2 then q + 1 else if Z.even q then q else q + 1.

(* std::to_string(double) = printf("%f") for a finite value in [0, 1] (the constructor clamps);
   glibc prints the correctly rounded 6-digit decimal, ties to even.  None for NaN / infinities. *)
Definition to_string_unit (x : float) : option bytes :=
  match x with
  | B754_zero s => Some ((if s then bs "-" else []) ++ bs "0.000000")
  | B754_finite s m e _ =>
      let n := round_half_even_scaled (Z.pos m * 1000000) e in
      Some ((if s then bs "-" else []) ++ dec_digits 400 (n / 1000000) [] ++ bs "." ++ pad_left 6 (dec_digits 400 (n mod 1000000) []))
  | _ => None
  end.

(* the constructor's clamp:  if (ratio > 1.0) ratio = 1.0;  if (ratio < 0.0) ratio = 0.0; *)
Definition clamp_ratio (r : float) : float :=
  let r1 := if flt f_one r then f_one else r in
  if flt r1 f_zero then f_zero else r1.

(* None where the model does not describe the text (NaN ratio) *)
Fixpoint description (s : sampler) : option bytes :=
  match s with
  | SAlwaysOn => Some (nbytes c12_desc_always_on)
  | SAlwaysOff => Some (nbytes c12_desc_always_off)
  | SRatio r => option_map (fun t => nbytes c12_desc_ratio_prefix ++ t ++ nbytes c12_desc_ratio_suffix) (to_string_unit (clamp_ratio r))
  | SParent d => option_map (fun t => nbytes c12_desc_parent_prefix ++ t ++ nbytes c12_desc_parent_suffix) (description d)
  end.

(* ------------------------------------------------------------------ Tracer::StartSpan, sampling part
   No span is active on the calling thread (GetCurrentSpan() is the invalid default span);
   options.parent holds the SpanContext [explicit]; the id generator returns [gen_tid]
   and reports IsRandom() = [gen_random]. *)
Record started := mk_started { st_tid : bytes; st_flags : Z; st_ts : bytes; st_recording : bool }.

Definition start_span (s : sampler) (explicit : span_ctx) (gen_tid : bytes) (gen_random : bool) (x : extra) : started :=
  let parent := if ctx_valid explicit then explicit else ctx_invalid in
  let valid := ctx_valid parent in
  let tid := if valid then c_tid parent else gen_tid in
  let flags0 := if valid then Z.of_N (b2n (c_flags parent)) else if gen_random then c12_kIsRandom else 0 in
  let r := should_sample s parent tid x in
  let flags1 := if is_sampled (fst r) then Z.lor flags0 c12_kIsSampled
                else Z.land flags0 (255 - c12_kIsSampled) in     (* & (uint8_t)~kIsSampled *)
  let flags := Z.land flags1 c12_kAllW3CTraceContext1Flags in
  let ts := match snd r with Some h => h | None => if valid then c_ts parent else ts_default end in
  mk_started tid flags ts (is_recording (fst r)).

(* ------------------------------------------------------------------ Tracer::StartSpan, choice of the parent
   (tracer.cc: parent_context = GetCurrentSpan()->GetContext(); then StartSpanOptions::parent, a
   variant<SpanContext, context::Context>, may replace it).  [active] = GetCurrentSpan()->GetContext(): the span held by
   the thread's current context, SpanContext::GetInvalid() when it holds none.  A context::Context given as parent is
   seen through trace::GetSpan(context)->GetContext() ([None] = it holds no span: the invalid default span) and
   trace::IsRootSpan(context) (the kIsRootSpanKey marker, true only when set to true). *)
Inductive parent_arg :=
| PaSpanContext (c : span_ctx)
| PaContext (span : option span_ctx) (marker : bool).

Definition span_in (o : option span_ctx) : span_ctx := match o with Some c => c | None => ctx_invalid end.

Definition tracer_parent (active : span_ctx) (a : parent_arg) : span_ctx :=
  match a with
  | PaSpanContext c => if ctx_valid c then c else active
  | PaContext sp marker =>
      if ctx_valid (span_in sp) then span_in sp          (* a valid span in the context is the parent, marker or not *)
      else if marker then ctx_invalid                    (* SpanContext{false, false} *)
      else active
  end.

(* the rest of StartSpan once the parent context is chosen (same steps as [start_span]) *)
Definition start_span_at (s : sampler) (parent : span_ctx) (gen_tid : bytes) (gen_random : bool) (x : extra) : started :=
  let valid := ctx_valid parent in
  let tid := if valid then c_tid parent else gen_tid in
  let flags0 := if valid then Z.of_N (b2n (c_flags parent)) else if gen_random then c12_kIsRandom else 0 in
  let r := should_sample s parent tid x in
  let flags1 := if is_sampled (fst r) then Z.lor flags0 c12_kIsSampled
                else Z.land flags0 (255 - c12_kIsSampled) in
  let flags := Z.land flags1 c12_kAllW3CTraceContext1Flags in
  let ts := match snd r with Some h => h | None => if valid then c_ts parent else ts_default end in
  mk_started tid flags ts (is_recording (fst r)).

(* the thread's current context holds [cur_span]; options.parent = [a] *)
Definition start_span_cx (s : sampler) (cur_span : option span_ctx) (a : parent_arg)
                         (gen_tid : bytes) (gen_random : bool) (x : extra) : started :=
  start_span_at s (tracer_parent (span_in cur_span) a) gen_tid gen_random x.

(* how often the tracer's ParentBased sampler calls its own delegate (the root sampler) for this span; 0 for other samplers *)
Definition root_sampler_calls (s : sampler) (cur_span : option span_ctx) (a : parent_arg) : Z :=
  match s with
  | SParent _ => delegate_calls (tracer_parent (span_in cur_span) a)
  | _ => 0
  end.
