(* Glue between the token wire format and the C12 model/spec.  Extracted.

   case lines (tokens; <s> = sampler = PB* (ON | OFF | RATIO <bits>); <p> = parent context =
   <tid:16 bytes> <sid:8 bytes> <flags 0..255> <remote 0|1> <trace-state header bytes>;
   <x> = ignored arguments = <name bytes> <kind 0..4> <#attributes> <#links>):
     THR  <bits>                                   threshold_ of TraceIdRatioBasedSampler(r)
     SS   <s> | <p> | <tid> <x>                    one ShouldSample call
     PB   <s> | <p> | <tid> <x>                    ParentBased{counting(s)}: result, #delegate calls, s's own result
     MONO <bits1> <bits2> <tid>                    two ratio samplers on one trace id
     DEP  <bits> <tid> | <p> <x> | <p> <x>         two samplers of one ratio, one id, different other arguments
     SPAN <s> | <p> | <gen tid> <random 0|1> <x>   Tracer::StartSpan with options.parent = p; then, on a second tracer with the same
                                                   sampler, a root span whose generated trace id is the first span's trace id
     SPANCX <s> | <m> <cs> | <arg> | <gen tid> <random 0|1> <x>
                                                   Tracer::StartSpan while the thread's current context carries the is_root_span
                                                   marker <m> (0 unset, 1 true, 2 set to false) and the span <cs> (NONE or <p>);
                                                   <arg> = options.parent: IMPL (left unset) | SC <p> (a SpanContext) |
                                                   CX <m> <cs> (a separate Context with marker and span) | CUR (the current context itself);
                                                   the sampler's outermost ParentBased delegate is wrapped in a call counter
     DESC <s>                                      GetDescription()                                        *)
From V Require Export C12.Spec.
Local Open Scope Z_scope.

Inductive case :=
| CThr (r : float)
| CSs (s : sampler) (p : span_ctx) (tid : bytes) (x : extra)
| CPb (s : sampler) (p : span_ctx) (tid : bytes) (x : extra)
| CMono (r1 r2 : float) (tid : bytes)
| CDep (r : float) (tid : bytes) (p1 : span_ctx) (x1 : extra) (p2 : span_ctx) (x2 : extra)
| CSpan (s : sampler) (p : span_ctx) (gen_tid : bytes) (random : bool) (x : extra)
| CSpanCx (s : sampler) (cur_span : option span_ctx) (a : parent_arg) (gen_tid : bytes) (random : bool) (x : extra)
| CDesc (s : sampler).

Definition bits_ok (b : Z) : bool := (0 <=? b) && (b <? two64).

Fixpoint parse_sampler (l : list tok) : option sampler :=
  match l with
  | [t] => if is_tag "ON" t then Some SAlwaysOn else if is_tag "OFF" t then Some SAlwaysOff else None
  | [t; TZ b] => if is_tag "RATIO" t && bits_ok b then Some (SRatio (of_bits b)) else None
  | t :: l' => if is_tag "PB" t then option_map SParent (parse_sampler l') else None
  | [] => None
  end.

Definition parse_bool (z : Z) : option bool := if z =? 0 then Some false else if z =? 1 then Some true else None.

Definition parse_ctx (l : list tok) : option span_ctx :=
  match l with
  | [TB tid; TB sid; TZ f; TZ rem; TB ts] =>
      match parse_bool rem with
      | Some r => if Nat.eqb (length tid) 16 && Nat.eqb (length sid) 8 && (0 <=? f) && (f <? 256)
                  then Some (mk_ctx tid sid (n2b (Z.to_N f)) r ts) else None
      | None => None
      end
  | _ => None
  end.

Definition parse_extra (l : list tok) : option extra :=
  match l with
  | [TB name; TZ kind; TZ na; TZ nl] =>
      if (0 <=? kind) && (kind <=? 4) && (0 <=? na) && (na <=? 8) && (0 <=? nl) && (nl <=? 8)
      then Some (mk_extra name kind na nl) else None
  | _ => None
  end.

Definition parse_tid (t : tok) : option bytes :=
  match t with TB b => if Nat.eqb (length b) 16 then Some b else None | _ => None end.

(* the is_root_span marker of a context: 0 = not set, 1 = set to true, 2 = set to false (IsRootSpan is false) *)
Definition parse_marker (z : Z) : option bool :=
  if z =? 0 then Some false else if z =? 1 then Some true else if z =? 2 then Some false else None.
Definition parse_opt_ctx (l : list tok) : option (option span_ctx) :=
  match l with
  | [t] => if is_tag "NONE" t then Some None else None
  | _ => option_map Some (parse_ctx l)
  end.
Definition parse_parent_arg (cur_span : option span_ctx) (cur_marker : bool) (l : list tok) : option parent_arg :=
  match l with
  | [t] => if is_tag "IMPL" t then Some (PaSpanContext ctx_invalid)     (* StartSpanOptions::parent defaults to SpanContext::GetInvalid() *)
           else if is_tag "CUR" t then Some (PaContext cur_span cur_marker)
           else None
  | t :: TZ m :: rest =>
      if is_tag "CX" t then
        match parse_marker m, parse_opt_ctx rest with
        | Some mk, Some sp => Some (PaContext sp mk)
        | _, _ => None
        end
      else None
  | t :: rest => if is_tag "SC" t then option_map PaSpanContext (parse_ctx rest) else None
  | [] => None
  end.

Definition parse_call (kind : sampler -> span_ctx -> bytes -> extra -> case) (rest : list tok) : option case :=
  match split_toks "|" rest with
  | [ls; lp; t :: lx] =>
      match parse_sampler ls, parse_ctx lp, parse_tid t, parse_extra lx with
      | Some s, Some p, Some tid, Some x => Some (kind s p tid x)
      | _, _, _, _ => None
      end
  | _ => None
  end.

Definition parse_case (l : list tok) : option case :=
  match l with
  | t :: rest =>
      if is_tag "THR" t then
        match rest with [TZ b] => if bits_ok b then Some (CThr (of_bits b)) else None | _ => None end
      else if is_tag "SS" t then parse_call CSs rest
      else if is_tag "PB" t then parse_call CPb rest
      else if is_tag "MONO" t then
        match rest with
        | [TZ b1; TZ b2; ti] =>
            match parse_tid ti with
            | Some tid => if bits_ok b1 && bits_ok b2 then Some (CMono (of_bits b1) (of_bits b2) tid) else None
            | None => None
            end
        | _ => None
        end
      else if is_tag "DEP" t then
        match split_toks "|" rest with
        | [[TZ b; ti]; l1; l2] =>
            match parse_tid ti, parse_ctx (firstn 5 l1), parse_extra (skipn 5 l1), parse_ctx (firstn 5 l2), parse_extra (skipn 5 l2) with
            | Some tid, Some p1, Some x1, Some p2, Some x2 =>
                if bits_ok b then Some (CDep (of_bits b) tid p1 x1 p2 x2) else None
            | _, _, _, _, _ => None
            end
        | _ => None
        end
      else if is_tag "SPAN" t then
        match split_toks "|" rest with
        | [ls; lp; ti :: TZ rnd :: lx] =>
            match parse_sampler ls, parse_ctx lp, parse_tid ti, parse_bool rnd, parse_extra lx with
            | Some s, Some p, Some tid, Some r, Some x => Some (CSpan s p tid r x)
            | _, _, _, _, _ => None
            end
        | _ => None
        end
      else if is_tag "SPANCX" t then
        match split_toks "|" rest with
        | [ls; TZ cm :: lcs; la; ti :: TZ rnd :: lx] =>
            match parse_sampler ls, parse_marker cm, parse_opt_ctx lcs with
            | Some s, Some cmk, Some cs =>
                match parse_parent_arg cs cmk la, parse_tid ti, parse_bool rnd, parse_extra lx with
                | Some a, Some tid, Some r, Some x => Some (CSpanCx s cs a tid r x)
                | _, _, _, _ => None
                end
            | _, _, _ => None
            end
        | _ => None
        end
      else if is_tag "DESC" t then option_map CDesc (parse_sampler rest)
      else None
  | [] => None
  end.

(* ------------------------------------------------------------------ observations *)

Definition print_decision (d : decision) : tok :=
  match d with Drop => tag "DROP" | RecordOnly => tag "RECORD_ONLY" | RecordAndSample => tag "RECORD_AND_SAMPLE" end.
Definition parse_decision (t : tok) : option decision :=
  if is_tag "DROP" t then Some Drop else if is_tag "RECORD_ONLY" t then Some RecordOnly
  else if is_tag "RECORD_AND_SAMPLE" t then Some RecordAndSample else None.
Definition print_ts (o : option bytes) : tok := match o with Some h => TB h | None => tag "NULL" end.
Definition parse_ts (t : tok) : option (option bytes) :=
  match t with TB h => Some (Some h) | _ => if is_tag "NULL" t then Some None else None end.

Definition print_result (r : result) : list tok := [print_decision (fst r); print_ts (snd r)].
Definition parse_result (a b : tok) : option result :=
  match parse_decision a, parse_ts b with Some d, Some t => Some (d, t) | _, _ => None end.

Definition print_started (o : started) : list tok := [TB (st_tid o); TZ (st_flags o); TB (st_ts o); tbool (st_recording o)].
Definition parse_started (l : list tok) : option started :=
  match l with
  | [TB t; TZ f; TB ts; TZ r] => match parse_bool r with Some b => Some (mk_started t f ts b) | None => None end
  | _ => None
  end.

Definition run_model (l : list tok) : list tok :=
  match parse_case l with
  | Some (CThr r) => [TZ (calc_threshold r)]
  | Some (CSs s p tid x) => print_result (should_sample s p tid x)
  | Some (CPb s p tid x) =>
      print_result (should_sample (SParent s) p tid x) ++ [TZ (delegate_calls p)] ++ print_result (should_sample s p tid x)
  | Some (CMono r1 r2 tid) =>
      [TZ (calc_threshold r1); TZ (calc_threshold r2);
       print_decision (ratio_decide (calc_threshold r1) tid); print_decision (ratio_decide (calc_threshold r2) tid)]
  | Some (CDep r tid p1 x1 p2 x2) =>
      print_result (should_sample (SRatio r) p1 tid x1) ++ print_result (should_sample (SRatio r) p2 tid x2)
  | Some (CSpan s p g rnd x) =>
      let st := start_span s p g rnd x in
      print_started st ++ [TZ (st_flags (start_span s ctx_invalid (st_tid st) rnd x))]
  | Some (CSpanCx s cs a g rnd x) => print_started (start_span_cx s cs a g rnd x) ++ [TZ (root_sampler_calls s cs a)]
  | Some (CDesc s) => match description s with Some d => [TB d] | None => [tag "UNMODELLED"] end
  | None => bad_case
  end.

Local Infix "+s+" := String.append (at level 60, right associativity).
(* branch tag of the model on this case, for coverage accounting *)
Definition thr_tag (r : float) : string :=
  if is_nan r then "nan"
  else if fle r f_zero then "le0"
  else if fle f_one r then "ge1"
  else
    let p := fmul f_u32max r in
    if flt p f_one then (if calc_threshold r =? 0 then "tiny_zero" else "below_one_bucket")
    else if to_u64 (modf_int p) =? uint32_max - 1 then "top_bucket"
    else "mid".
Fixpoint sampler_tag (s : sampler) : string :=
  match s with
  | SAlwaysOn => "on" | SAlwaysOff => "off" | SRatio r => "ratio_" +s+ thr_tag r | SParent d => "pb_" +s+ sampler_tag d
  end.
Definition ctx_tag (p : span_ctx) : string :=
  if ctx_valid p then (if ctx_sampled p then "valid_sampled" else "valid_unsampled") +s+ (if c_remote p then "_remote" else "_local")
  else if all_zero (c_tid p) && all_zero (c_sid p) then "invalid_both"
  else if all_zero (c_tid p) then "invalid_tid" else "invalid_sid".
Definition dec_tag (d : decision) : string := if is_sampled d then "S" else "D".

Definition run_tag (l : list tok) : list tok :=
  match parse_case l with
  | Some (CThr r) => [tag ("thr_" +s+ thr_tag r)]
  | Some (CSs s p tid x) => [tag ("ss_" +s+ sampler_tag s +s+ "_" +s+ ctx_tag p +s+ "_" +s+ dec_tag (fst (should_sample s p tid x)))]
  | Some (CPb s p tid x) => [tag ("pbc_" +s+ sampler_tag s +s+ "_" +s+ ctx_tag p)]
  | Some (CMono r1 r2 tid) =>
      [tag ("mono_" +s+ thr_tag r1 +s+ "_" +s+ thr_tag r2 +s+ "_" +s+
            (if to_u64 (modf_int (fmul f_u32max r1)) =? to_u64 (modf_int (fmul f_u32max r2)) then "samebucket" else "crossbucket") +s+ "_" +s+
            dec_tag (ratio_decide (calc_threshold r1) tid) +s+ dec_tag (ratio_decide (calc_threshold r2) tid))]
  | Some (CDep r tid p1 x1 p2 x2) => [tag ("dep_" +s+ thr_tag r +s+ "_" +s+ dec_tag (fst (should_sample (SRatio r) p1 tid x1)))]
  | Some (CSpan s p g rnd x) => [tag ("span_" +s+ sampler_tag s +s+ "_" +s+ ctx_tag p)]
  | Some (CSpanCx s cs a g rnd x) =>
      [tag ("spancx_" +s+ sampler_tag s +s+ "_" +s+
            match a with
            | PaSpanContext c => "sc_" +s+ ctx_tag c
            | PaContext None m => if m then "cx_marker_only" else "cx_empty"
            | PaContext (Some c) m => (if m then "cx_marker_" else "cx_") +s+ ctx_tag c
            end +s+ "_cur_" +s+ match cs with Some c => ctx_tag c | None => "none" end)]
  | Some (CDesc s) => [tag ("desc_" +s+ sampler_tag s)]
  | None => bad_case
  end.

Definition run_spec (l obs : list tok) : list tok :=
  match parse_case l with
  | Some (CThr r) => match obs with [TZ t] => spec_threshold r t | _ => fail "obs:unparsable" end
  | Some (CSs s p tid x) =>
      match obs with
      | [a; b] => match parse_result a b with Some o => spec_should_sample s p o | None => fail "obs:unparsable" end
      | _ => fail "obs:unparsable"
      end
  | Some (CPb s p tid x) =>
      match obs with
      | [a; b; TZ calls; c; d] =>
          match parse_result a b, parse_result c d with
          | Some o, Some o' => spec_parent_based p o calls o' ++ spec_should_sample s p o'
          | _, _ => fail "obs:unparsable"
          end
      | _ => fail "obs:unparsable"
      end
  | Some (CMono r1 r2 tid) =>
      match obs with
      | [TZ t1; TZ t2; a; b] =>
          match parse_decision a, parse_decision b with
          | Some d1, Some d2 => spec_monotone r1 r2 t1 t2 d1 d2
          | _, _ => fail "obs:unparsable"
          end
      | _ => fail "obs:unparsable"
      end
  | Some (CDep r tid p1 x1 p2 x2) =>
      match obs with
      | [a; b; c; d] =>
          match parse_result a b, parse_result c d with
          | Some o1, Some o2 => spec_depends_only o1 o2 ++ spec_should_sample (SRatio r) p1 o1 ++ spec_should_sample (SRatio r) p2 o2
          | _, _ => fail "obs:unparsable"
          end
      | _ => fail "obs:unparsable"
      end
  | Some (CSpan s p g rnd x) =>
      match obs with
      | [a; b; c; d; TZ root_flags] =>
          match parse_started [a; b; c; d] with
          | Some o => spec_start_span s p g o ++ spec_participants s o root_flags
          | None => fail "obs:unparsable"
          end
      | _ => fail "obs:unparsable"
      end
  | Some (CSpanCx s cs a g rnd x) =>
      match obs with
      | [ta; tb; tc; td; TZ calls] =>
          match parse_started [ta; tb; tc; td] with
          | Some o => spec_start_span_cx s cs a g o calls
          | None => fail "obs:unparsable"
          end
      | _ => fail "obs:unparsable"
      end
  | Some (CDesc s) => match obs with [_] => [] | _ => fail "obs:unparsable" end   (* the description is not part of the property: correspondence only *)
  | None => bad_case
  end.
