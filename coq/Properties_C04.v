(* C04 - an exported span carries exactly what the application recorded before End: the property
   theorems, stated in full about the executable model of coq/C04/Model.v (sdk::trace::Span over
   MultiRecordable/SpanData/AttributeMap, MultiSpanProcessor::OnEnd, and the caller's memory) and the SPEC
   of coq/C04/Spec.v.  Proofs are in coq/C04/Proofs*.v; nothing here but statements.
   Every theorem is for ALL configurations (any number and kind of processors), all start options and
   ALL sequences of operations (incl. operations after End and further Ends). *)
From V Require Import C04.Glue C04.ProofsMap C04.ProofsStep C04.ProofsMeets C04.ProofsHeap C04.ProofsProps C04.ProofsWire C04.ProofsPar C04.ProofsRace C04.ProofsLts C04.ProofsLtsOrder C04.ProofsLtsRace C04.ProofsLtsCut C04.ProofsLtsRec C04.ProofsLtsHist C04.ProofsMrace.
Local Open Scope Z_scope.

(* --- sentence 1: what each configured processor's exporter receives.  The whole final state of a case:
   the span is ended and holds no recordable, every processor has received exactly the list [export],
   where [export] is the recordable built by the constructor (name, scope, identity, start attributes,
   links, kind, start time, resource), folded over the operations IN FRONT OF THE FIRST End, with the
   duration of that End (of the destructor if there was none); IsRecording answered true until then *)
Theorem export_is_fold_of_ops_before_end : forall (c : cfg oval) (s : start oval) (ops : list (op oval)),
  c_sampled c = true ->
  run1 c s ops = mk_w None true (s_steady s)
                      (map (fun _ => [sd_set_dur (duration (s_steady s) (end_time ops))
                                                 (fold_left apply_op (before_end ops) (ctor_sd c s))]) (c_procs c))
                      (rec_answers true ops).
Proof. exact run1_sampled. Qed.
Print Assumptions export_is_fold_of_ops_before_end.

(* ... field by field: name = last UpdateName before End (else StartSpan's), kind, start time, duration
   = end - start on the steady clock, status = last SetStatus before End (else Unset, ""), the span
   context of the Span, attributes = the start attributes then every SetAttribute before End put into the
   map in call order, events, links, resource, scope *)
Theorem export_content : forall (c : cfg oval) (s : start oval) (ops : list (op oval)),
  let d := export c s ops in let pre := before_end ops in
  d_name d = last (names_of pre) (s_name s) /\
  d_kind d = s_kind s /\
  d_start d = now_or (s_sys s) /\
  d_dur d = duration (s_steady s) (end_time ops) /\
  (d_status d, d_desc d) = last (statuses_of pre) (0, []) /\
  d_ctx d = true /\
  d_attrs d = amap_of (s_attrs s ++ writes_of pre) /\
  d_events d = map event_of (events_of pre) /\
  d_links d = map link_of (s_links s) /\
  d_res d = amap_of (c_res c) /\
  d_scope d = c_scope c.
Proof. exact export_fields. Qed.
Print Assumptions export_content.

(* --- "the attributes with last-write-wins per key for every supported value type": on the case as the
   application wrote it (values of all 16 alternatives of AttributeValue, [aval]), key k of the exported map
   holds the OWNED COPY of the value of the last write of k before End - None if k was never written -
   and the map has one entry per key *)
Theorem last_write_wins_per_key : forall (c : cfg aval) (s : start aval) (ops : list (op aval)) (k : bytes),
  let d := export (map_cfg conv c) (map_start conv s) (conv_case_ops ops) in
  alookup k (d_attrs d) = option_map owned (last_write k (s_attrs s ++ writes_of (before_end ops))) /\
  canonical (d_attrs d).
Proof. exact last_write_wins_lemma. Qed.
Print Assumptions last_write_wins_per_key.

(* the owned copy AttributeConverter makes is the one the property means, for every alternative: scalars
   and arrays by value, a string_view with all its bytes (embedded NULs included), a const char* up to its
   first NUL *)
Theorem converter_makes_owned_copies : forall v : aval, conv v = owned v.
Proof. exact conv_owned. Qed.
Print Assumptions converter_makes_owned_copies.

(* the map the code maintains: a write followed by a read of any key *)
Theorem attribute_map_write_read : forall (m : amap) (k k' : bytes) (v : oval), canonical m ->
  alookup k' (ains k v m) = (if bytes_eqb k k' then Some v else alookup k' m) /\ canonical (ains k v m).
Proof. intros m k k' v H. split; [apply alookup_ains; exact H | apply ains_canonical; exact H]. Qed.
Print Assumptions attribute_map_write_read.

(* --- "the events and links in call order with their own attributes" *)
Theorem events_links_in_call_order : forall (c : cfg oval) (s : start oval) (ops : list (op oval)),
  d_events (export c s ops) = map event_of (events_of (before_end ops)) /\
  d_links (export c s ops) = map link_of (s_links s).
Proof. exact events_links_lemma. Qed.
Print Assumptions events_links_in_call_order.

(* --- sentence 2: "End takes effect once".  Whatever follows the first End - further Ends, SetAttribute,
   AddEvent, SetStatus, UpdateName, in any number and order - the exporters have received the same *)
Theorem end_once : forall (c : cfg oval) (s : start oval) (pre : list (op oval)) (t : Z) (rest : list (op oval)),
  c_sampled c = true ->
  w_got (run1 c s (pre ++ End t :: rest)) = w_got (run1 c s (pre ++ [End t])).
Proof. exact after_end_lemma. Qed.
Print Assumptions end_once.

(* ... step by step: on an ended span no operation changes what was exported, revives the recordable or
   clears the flag ... *)
Theorem ops_after_end_inert : forall (w : world) (o : op oval), w_ended w = true -> w_rec w = None ->
  let w' := step w o in w_got w' = w_got w /\ w_rec w' = None /\ w_ended w' = true.
Proof. exact step_after_end_inert. Qed.
Print Assumptions ops_after_end_inert.

(* ... and a mutator does not even look at its arguments: it returns normally when every view it is given
   points to freed memory *)
Theorem ops_after_end_do_not_read_caller_memory : forall (h : heap) (w : world) (o : hop),
  w_rec w = None -> touches_memory o = true -> call h w o = Some w.
Proof. exact ended_span_never_reads_memory. Qed.
Print Assumptions ops_after_end_do_not_read_caller_memory.

(* --- "with several processors each receives its own identical copy and is notified exactly once": for
   every number of processors, processor i has received exactly one span - the export - however many
   Ends there were (and nothing at all for a span the sampler dropped) *)
Theorem each_processor_identical_copy_once : forall (c : cfg oval) (s : start oval) (ops : list (op oval)),
  List.length (w_got (run1 c s ops)) = List.length (c_procs c) /\
  forall i, (i < List.length (c_procs c))%nat ->
    nth_error (w_got (run1 c s ops)) i = Some (if c_sampled c then [export c s ops] else []).
Proof. exact once_lemma. Qed.
Print Assumptions each_processor_identical_copy_once.

(* IsRecording() is true exactly on a sampled span before its first End *)
Theorem is_recording_until_end : forall (c : cfg oval) (s : start oval) (ops : list (op oval)),
  w_q (run1 c s ops) = rec_answers (c_sampled c) ops.
Proof. exact is_recording_lemma. Qed.
Print Assumptions is_recording_until_end.

(* --- "as owned copies that do not depend on caller buffers staying alive".
   (a) a program is any interleaving of API calls (whose arguments are views into the heap) with
       allocations, overwrites and frees; running it is running the span machine on the bytes the views
       denoted at the time of each call ... *)
Theorem run_is_run_on_bytes_at_call_time : forall (p : list hstep) (h : heap) (w : world),
  option_map snd (run_steps h w p) = option_map (run_ops w) (trace h w p).
Proof. exact run_steps_is_run_ops. Qed.
Print Assumptions run_is_run_on_bytes_at_call_time.

(* (b) ... so nothing the caller does to memory after the calls can change the outcome ... *)
Theorem export_independent_of_later_mutation : forall c pre s p muts,
  Forall (fun st => is_call st = false) muts ->
  run0 c pre s (p ++ muts) = run0 c pre s p.
Proof. exact later_mutation_irrelevant. Qed.
Print Assumptions export_independent_of_later_mutation.

(* (c) ... and two programs with different memory traffic whose calls saw the same bytes agree *)
Theorem export_depends_only_on_bytes_at_call_time : forall p1 p2 h1 h2 w ops,
  trace h1 w p1 = Some ops -> trace h2 w p2 = Some ops ->
  option_map snd (run_steps h1 w p1) = option_map snd (run_steps h2 w p2).
Proof. exact same_bytes_at_call_time_same_result. Qed.
Print Assumptions export_depends_only_on_bytes_at_call_time.

(* (d) the caller the driver plays, generalised: every argument in a block of its own; after call number i
   the caller performs J i - ANY sequence of overwrites and frees of any blocks with any content (the driver
   complements and frees the blocks of the call).  For every such J no call reads dead memory and the final
   state is that of the span machine on the owned copies of the case's values *)
Theorem export_independent_of_what_the_caller_does : forall (J : behaviour) (c : cfg aval) (s : start aval) (ops : list (op aval)),
  harmless J ->
  (let '(pre, hs, p) := compile_J J s ops in run0 (map_cfg conv c) pre hs p)
  = Some (run1 (map_cfg conv c) (map_start conv s) (conv_case_ops ops)).
Proof. exact ProofsHeap.export_independent_of_what_the_caller_does. Qed.
Print Assumptions export_independent_of_what_the_caller_does.

(* --- the SPEC checker that ./check runs on the implementation's observations accepts the model: for every
   case the model of the driver's caller (buffers trashed and freed after each call) does not fault, and its
   observation passes every clause *)
Theorem model_meets_spec : forall (c : cfg aval) (s : start aval) (ops : list (op aval)),
  exists w, run_compiled c s ops = Some w /\ spec_check c s ops (w_q w, w_got w) = [].
Proof. exact model_meets_spec_lemma. Qed.
Print Assumptions model_meets_spec.

(* the extracted entry point prints exactly that observation *)
Theorem run_model_is_the_span_machine : forall (l : list tok) (c : case), parse_case l = Some c ->
  run_model_seq l = print_obs (w_q (run1 (map_cfg conv (cs_cfg c)) (map_start conv (cs_start c)) (conv_case_ops (cs_ops c))))
                          (w_got (run1 (map_cfg conv (cs_cfg c)) (map_start conv (cs_start c)) (conv_case_ops (cs_ops c)))).
Proof. exact run_model_never_faults. Qed.
Print Assumptions run_model_is_the_span_machine.

(* the same for the two extracted entry points as ./check composes them: an observation printed by the model
   parses back to itself (for every observation), and [run_spec] finds no failed clause in the model's output *)
Theorem observation_print_parse : forall (q : list bool) (got : list (list sdata)), parse_obs (print_obs q got) = Some (q, got).
Proof. exact parse_print_obs. Qed.
Print Assumptions observation_print_parse.

Theorem model_meets_spec_wire : forall (l : list tok) (c : case), parse_case l = Some c -> run_spec_seq l (run_model_seq l) = [].
Proof. exact model_meets_spec_wire_lemma. Qed.
Print Assumptions model_meets_spec_wire.

(* [run_model] / [run_spec] dispatch on the kind of case (SRACE cases go to the race acceptor and coq/C04/SpecRace.v, whose
   verdicts are on explored schedules only - no theorem); for the cases above, with or without the "|| <trace>" the runner
   appends, they are the functions of the previous theorem *)
Theorem model_meets_spec_entry : forall (l tr : list tok) (c : case),
  parse_case l = Some c -> is_srace l = false -> is_mrace l = false -> plain "||" l ->
  run_spec (l ++ tag "||" :: tr) (run_model (l ++ tag "||" :: tr)) = [] /\ run_spec l (run_model l) = [].
Proof. exact model_meets_spec_entry_lemma. Qed.
Print Assumptions model_meets_spec_entry.

(* --- "from several threads on one span".  Every mutator runs under Span::mu_, so a concurrent execution is
   an interleaving of the threads' operation lists.  For the threaded cases of ./check (thread i writes only
   keys and adds only events whose first byte is the digit i; only thread 0 renames, sets the status, asks
   IsRecording; nobody ends the span while the threads run; at most 4 threads): EVERY interleaving leaves
   every recordable with the same name, status, attribute map and other fields as the sequential run
   thread 0, thread 1, ...; its events are an interleaving of the threads' event lists in which the events of
   each thread appear complete and in call order; IsRecording gives the same answers *)
Theorem every_interleaving_same_export : forall (ths : list (list (op oval))) (l : list (op oval)) (d : sdata),
  threads_ok 0 ths = true -> (List.length ths <= 4)%nat -> interleaving ths l -> canonical (d_attrs d) ->
  let a := apply_ops d l in let b := apply_ops d (List.concat ths) in
  d_name a = d_name b /\ d_status a = d_status b /\ d_desc a = d_desc b /\ d_attrs a = d_attrs b /\
  d_kind a = d_kind b /\ d_start a = d_start b /\ d_dur a = d_dur b /\ d_ctx a = d_ctx b /\
  d_links a = d_links b /\ d_res a = d_res b /\ d_scope a = d_scope b /\
  exists ea, d_events a = d_events d ++ ea /\
             d_events b = d_events d ++ List.concat (map (fun t => map event_of (events_of t)) ths) /\
             interleaving (map (fun t => map event_of (events_of t)) ths) ea /\
             (forall i, (i < 10)%nat -> filter (ev_name_owned i) ea =
                                  filter (ev_name_owned i) (List.concat (map (fun t => map event_of (events_of t)) ths))) /\
  rec_answers true l = rec_answers true (List.concat ths).
Proof. exact every_interleaving_same_export_lemma. Qed.
Print Assumptions every_interleaving_same_export.

(* ================================================================== concurrency, at lock granularity (coq/C04/Lts.v)
   Any number of threads on ONE span whose recordable fans out to any number of processors; events: begin / return of the public
   calls, Span::mu_ taken / released, a processor handed its child inside End's critical section.  [accept_all] accepts exactly
   the traces of that machine - every interleaving. *)

(* --- refinement: whenever mu_ is free, the span and the processors are in the state of the SEQUENTIAL machine after the calls
   in the order in which they took mu_ *)
Theorem lts_refines_sequential : forall c s tr s', accept_all (linit c s) tr = Some s' -> l_mu s' = None ->
  world_of s' = run_ops (start_span c s) (l_lin s').
Proof. exact ProofsLts.lts_refines_sequential. Qed.
Print Assumptions lts_refines_sequential.

(* --- hence, for every interleaving, once some End has taken the lock: End took effect exactly once; every processor was handed
   exactly one span, all of them the [export] of the calls in lock order (= the fold of the setters that took mu_ before the first
   End did, with that End's duration - export_content, last_write_wins_per_key, events_links_in_call_order apply to it); nothing
   that took the lock later is in it; IsRecording answered true exactly to the calls that took the lock before that End *)
Theorem concurrent_export : forall c s tr s', c_sampled c = true ->
  accept_all (linit c s) tr = Some s' -> l_mu s' = None -> existsb is_end (l_lin s') = true ->
  l_rec s' = None /\ l_ended s' = true /\
  l_got s' = map (fun _ => [export c s (l_lin s')]) (c_procs c) /\
  l_q s' = rec_answers true (l_lin s').
Proof. exact ProofsLts.concurrent_export. Qed.
Print Assumptions concurrent_export.

(* a setter that arrives while End hands the span to the processors cannot enter: it waits for mu_ *)
Theorem no_lock_while_held : forall s t t', l_mu s = Some t' -> accept s (t, LLock) = None.
Proof. exact ProofsLts.no_lock_while_held. Qed.
Print Assumptions no_lock_while_held.

(* --- the lock order is a linearization: it contains every call that returned, each call once, and whenever x returned before
   y began (real time, as the B / R history shows it) x took mu_ before y *)
Theorem lock_order_is_linearization : forall ths c s evs s',
  replay ths (linit c s) (fun _ => O) evs 0 = inl s' ->
  let ids := ids_of (fun _ => O) evs in let h := hist_of evs in
  l_lin s' = map (op_at ths) ids /\ NoDup ids /\
  (forall x, has false x h -> In x ids) /\ (forall x, In x ids -> has true x h) /\
  (forall x y, In y ids -> before h x y = true -> precedes x y ids).
Proof. exact ProofsLtsOrder.lock_order_is_linearization. Qed.
Print Assumptions lock_order_is_linearization.

(* --- every accepted trace passes SpecRace's clauses (a), (b) and the clauses about StartSpan's / the provider's data *)
Theorem accepted_trace_race_clauses_ab : forall (c : cfg aval) (s : start aval) (ths : list (list (op aval))) evs s' x,
  c_sampled c = true ->
  replay (conv_threads ths) (linit (map_cfg conv c) (map_start conv s)) (fun _ => O) evs 0 = inl s' ->
  l_mu s' = None ->
  has false x (hist_of evs) -> is_end (op_at (conv_threads ths) x) = true ->
  l_got s' = map (fun _ => [export (map_cfg conv c) (map_start conv s) (l_lin s')]) (c_procs c) /\
  race_check c s ths (hist_of evs) (l_got s') =
  ((match c_procs c with
    | [] => []
    | _ => check (race_cut_exists (hist_of evs) s (number_threads 0 ths) (export (map_cfg conv c) (map_start conv s) (l_lin s'))) cut_tag
    end) ++ check (isrec_ok (hist_of evs) (number_threads 0 ths)) isrec_tag)%list.
Proof. exact ProofsLtsRace.accepted_trace_race_clauses_ab. Qed.
Print Assumptions accepted_trace_race_clauses_ab.

(* --- every accepted trace passes SpecRace's clause (c): the checker's search finds a cut - the End that took mu_ first, and
   for every thread the calls that took mu_ before it - for which duration, name, status, attributes and events are as the clause
   demands.  [complete_history]: exactly the scripted calls begin, all return, a thread's calls do not overlap (what [history_ok]
   checks on every run, next theorem); [names_distinct]: the scripts' event names are pairwise distinct (checked by [parse_rcase],
   [names_checked_distinct]) *)
Theorem accepted_trace_passes_cut : forall (c : cfg aval) (s : start aval) (ths : list (list (op aval))) evs s' xe,
  replay (conv_threads ths) (linit (map_cfg conv c) (map_start conv s)) (fun _ => O) evs 0 = inl s' ->
  complete_history ths (hist_of evs) ->
  valid ths xe -> is_end (opa ths xe) = true ->
  names_distinct ths ->
  race_cut_exists (hist_of evs) s (number_threads 0 ths) (export (map_cfg conv c) (map_start conv s) (l_lin s')) = true.
Proof. exact ProofsLtsCut.accepted_trace_passes_cut. Qed.
Print Assumptions accepted_trace_passes_cut.

Theorem history_ok_complete : forall (ths : list (list (op aval))) h,
  thread_hist_ok ths 0 h = true -> forallb (fun e => Nat.ltb (h_tid e) (List.length ths)) h = true ->
  complete_history ths h.
Proof. exact ProofsLtsHist.history_ok_complete. Qed.
Print Assumptions history_ok_complete.

Theorem names_checked_distinct : forall ths : list (list (op aval)),
  nodup_names (map (fun e => fst (fst e)) (events_of (List.concat ths))) = true -> names_distinct ths.
Proof. exact ProofsLtsHist.names_checked_distinct. Qed.
Print Assumptions names_checked_distinct.

(* --- IsRecording: in an accepted trace the R event of an IsRecording call carries 1 exactly when no End precedes the call in
   lock order ([flag]); clause (d) follows from the linearization *)
Theorem isrecording_answers : forall ths c s0 evs s', c_sampled c = true ->
  replay ths (linit c s0) (fun _ => O) evs 0 = inl s' ->
  forall ev, In ev (hist_of evs) -> h_begin ev = false -> op_at ths (h_tid ev, h_idx ev) = IsRec ->
  exists l1 l2, ids_of (fun _ => O) evs = (l1 ++ (h_tid ev, h_idx ev) :: l2)%list /\ h_res ev = flag ths l1.
Proof. exact ProofsLtsRec.isrecording_answers. Qed.
Print Assumptions isrecording_answers.

(* --- ACCEPTED TRACE MEETS SPEC (race), as ./check composes it: an SRACE run whose logged trace the extracted acceptor accepts
   passes EVERY clause of SpecRace - (a) End once, (b) identical copies, (c) a prefix-consistent cut, (d) IsRecording, and the
   StartSpan / provider clauses.  All hypotheses are checked on every run: the span is sampled, [history_ok], mu_ free at the
   end of the replay, distinct event names ([parse_rcase]) *)
Theorem accepted_trace_meets_spec_race : forall rc evs s',
  c_sampled (rc_cfg rc) = true ->
  history_ok rc (hist_of evs) = true ->
  replay (race_lts_threads rc) (linit (map_cfg conv (rc_cfg rc)) (map_start conv (rc_start rc))) (fun _ => O) evs 0 = inl s' ->
  l_mu s' = None ->
  nodup_names (map (fun e => fst (fst e)) (events_of (List.concat (rc_threads rc)))) = true ->
  race_check (rc_cfg rc) (rc_start rc) (race_threads rc) (hist_of evs) (l_got s') = [].
Proof. exact ProofsLtsHist.accepted_srace_run_meets_spec'. Qed.
Print Assumptions accepted_trace_meets_spec_race.

(* --- MRACE cases: several spans, one thread each, ended concurrently on the same processors.  Each span is used by one thread
   only, so what every processor must receive for it is the sequential export of that thread's operations; the model prints
   exactly that, one slot per (processor, span), and it passes the SPEC [mrace_check] (every span exactly once per processor, its
   own content, no null entry, nothing changed while an exporter held it).  That the PROCESSORS deliver so under concurrent Ends
   (the simple processor's lock_, its batch over the caller's unique_ptr) is outside Lts.v: it is decided by this SPEC and the
   model/implementation comparison on the explored schedules *)
Theorem mrace_model_meets_spec : forall mc, c_sampled (mc_cfg mc) = true -> mrace_check mc 0 0 (mrace_model_procs mc) = [].
Proof. exact ProofsMrace.mrace_model_meets_spec. Qed.
Print Assumptions mrace_model_meets_spec.
