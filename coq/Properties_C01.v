(* placeholder until Batch/Proofs*.v land: nothing is claimed proved yet *)
From V Require Import C01.Glue.
Theorem c01_placeholder : True. Proof. exact I. Qed.
Print Assumptions c01_placeholder.
