(* C01 - Batch processors hand every accepted span/log to the exporter exactly once.
   Property theorems only; proofs are in Batch/Proofs*.v and Batch/Theorems.v.  "reachable q b s": some event trace of
   the acceptor LTS (any number of threads, any interleaving) leads from the initial state with max_queue_size q and
   max_export_batch_size b to s. *)
From V Require Import Batch.Model Batch.Glue Batch.Spec Batch.ProofsA Batch.ProofsB Batch.Theorems Batch.TraceSpec Batch.TraceSpec2 Batch.TraceSpec3.
From Coq Require Import List Arith.
Import ListNotations.

Theorem c01_exactly_once_in_queue_order : forall q b s, reachable q b s ->
  concat (exported s) ++ pb s = firstn (deq s) (enq s) /\ deq s <= length (enq s).
Proof. exact batch_exactly_once_fifo. Qed.
Print Assumptions c01_exactly_once_in_queue_order.

Theorem c01_nothing_delivered_twice : forall q b s, reachable q b s -> NoDup (enq s) -> NoDup (concat (exported s) ++ pb s).
Proof. exact batch_no_duplicate. Qed.
Print Assumptions c01_nothing_delivered_twice.

Theorem c01_queue_bounded : forall q b s, reachable q b s -> length (queue s) <= Qsz s.
Proof. exact batch_queue_bounded. Qed.
Print Assumptions c01_queue_bounded.

Theorem c01_drop_only_when_queue_full : forall q b s t id s', reachable q b s ->
  accept s (t, EBufAdd id false) = Some s' -> length (queue s) = Qsz s.
Proof. exact batch_drop_only_when_full. Qed.
Print Assumptions c01_drop_only_when_queue_full.

Theorem c01_no_drop_after_completed_flush : forall q b s t id s', reachable q b s ->
  accept s (t, EBufAdd id false) = Some s' ->
  forall j, 1 <= j <= notified s -> Qsz s <= length (enq s) - mark s j.
Proof. exact batch_no_drop_after_completed_flush. Qed.
Print Assumptions c01_no_drop_after_completed_flush.

Theorem c01_producer_never_blocks : forall s t, t <> 0 ->
  match ap s t with
  | AOnEnd id => accept s (t, ELdShut (is_shut s)) <> None
  | AOnEndChecked id => accept s (t, EBufAdd id (length (queue s) <? Qsz s)) <> None
  | AOnEndAdded id => accept s (t, EBufSize (length (queue s))) <> None
  | AOnEndOut id => accept s (t, ERetOnEnd id) <> None
  | _ => True
  end.
Proof. exact batch_producer_never_blocks. Qed.
Print Assumptions c01_producer_never_blocks.

(* every trace the acceptor accepts passes the drop-legitimacy checker that ./check runs on the implementation's traces *)
Theorem c01_accepted_trace_meets_drop_spec : forall q b tr s,
  run (init q b) tr = Some s -> Batch.Spec.c01_drop_only_when_full q (pevs tr) = [].
Proof. exact accepted_trace_meets_spec_c01_drop. Qed.
Print Assumptions c01_accepted_trace_meets_drop_spec.

(* ... the exactly-once / queue-order checker (the ids the harness hands out are distinct; the model does not constrain them) *)
Theorem c01_accepted_trace_meets_exactly_once_spec : forall q b tr s,
  run (init q b) tr = Some s -> Batch.Spec.nodup (added_ids (pevs tr)) = true -> Batch.Spec.c01_exactly_once (pevs tr) = [].
Proof. exact accepted_trace_meets_spec_c01_exactly_once. Qed.
Print Assumptions c01_accepted_trace_meets_exactly_once_spec.

Theorem c01_accepted_trace_exported_is_prefix_of_added : forall q b tr s, run (init q b) tr = Some s ->
  is_prefix (exported_ids (pevs tr)) (added_ids (pevs tr)) = true /\
  subset (exported_ids (pevs tr)) (added_ids (pevs tr)) = true /\
  (Batch.Spec.nodup (added_ids (pevs tr)) = true -> Batch.Spec.nodup (exported_ids (pevs tr)) = true).
Proof. exact accepted_trace_exported_prefix. Qed.
Print Assumptions c01_accepted_trace_exported_is_prefix_of_added.

(* ... and the flush-budget checker *)
Theorem c01_accepted_trace_meets_budget_spec : forall q b tr s,
  run (init q b) tr = Some s -> Batch.Spec.c01_no_drop_between_flushes q (pevs tr) = [].
Proof. exact accepted_trace_meets_spec_c01_budget. Qed.
Print Assumptions c01_accepted_trace_meets_budget_spec.

(* ... the remaining clauses and the whole checker spec_c01.  Hypotheses (on the trace, about the application: the model
   constrains neither the ids passed to OnEnd nor the use of the destructor): each producer's ids grow in the order the queue
   accepted them; distinct OnEnd calls carry distinct ids; a destructor call overlaps no Shutdown / destructor call. *)
Theorem c01_accepted_trace_meets_never_blocks_spec : forall q b tr s,
  run (init q b) tr = Some s -> Batch.Spec.c01_producer_never_blocks (pevs tr) = [].
Proof. exact accepted_trace_meets_spec_c01_never_blocks. Qed.
Print Assumptions c01_accepted_trace_meets_never_blocks_spec.

Theorem c01_accepted_trace_meets_per_producer_order_spec : forall q b tr s,
  run (init q b) tr = Some s -> c01_order_walk [] (added_ids (pevs tr)) = true -> Batch.Spec.c01_per_producer_order (pevs tr) = [].
Proof. exact accepted_trace_meets_spec_c01_per_producer_order. Qed.
Print Assumptions c01_accepted_trace_meets_per_producer_order_spec.

Theorem c01_accepted_trace_meets_no_loss_spec : forall q b tr s,
  run (init q b) tr = Some s -> Batch.Spec.nodup (called_ids (pevs tr)) = true -> dtor_exclusive tr ->
  Batch.Spec.c01_no_loss (pevs tr) = [].
Proof. exact accepted_trace_meets_spec_c01_no_loss. Qed.
Print Assumptions c01_accepted_trace_meets_no_loss_spec.

Theorem c01_accepted_trace_meets_spec : forall q b tr s,
  run (init q b) tr = Some s ->
  c01_order_walk [] (added_ids (pevs tr)) = true -> Batch.Spec.nodup (called_ids (pevs tr)) = true -> dtor_exclusive tr ->
  Batch.Spec.spec_c01 q (pevs tr) = [].
Proof. exact accepted_trace_meets_spec_c01. Qed.
Print Assumptions c01_accepted_trace_meets_spec.

(* a concrete accepted trace with a destructor satisfies the hypotheses; each of the two no_loss hypotheses is needed *)
Theorem c01_accepted_trace_spec_nonvacuous :
  ((exists s, run (init 1 1) demo_trace_dtor = Some s) /\ c01_order_walk [] (added_ids (pevs demo_trace_dtor)) = true /\
   Batch.Spec.nodup (called_ids (pevs demo_trace_dtor)) = true /\ dtor_exclusive demo_trace_dtor /\
   history_complete (pevs demo_trace_dtor) = true /\ Batch.Spec.spec_c01 1 (pevs demo_trace_dtor) = []) /\
  ((exists s, run (init 1 1) lost_by_overlapping_destructor = Some s) /\
   Batch.Spec.c01_no_loss (pevs lost_by_overlapping_destructor) = Base.Tok.fail "no_loss:lost_before_shutdown" /\
   dtor_walk ([], None) lost_by_overlapping_destructor = false) /\
  ((exists s, run (init 1 1) lost_by_reused_id = Some s) /\ dtor_exclusive lost_by_reused_id /\
   Batch.Spec.nodup (called_ids (pevs lost_by_reused_id)) = false /\
   Batch.Spec.c01_no_loss (pevs lost_by_reused_id) = Base.Tok.fail "no_loss:lost_before_shutdown").
Proof. exact (conj demo_dtor_meets_spec_c01 (conj overlapping_destructor_loses reused_id_loses)). Qed.
Print Assumptions c01_accepted_trace_spec_nonvacuous.

Theorem c01_nonvacuous : exists s, run (init 1 1) demo_trace = Some s /\ In (2, 1, true) (fl_done s) /\ sh_done s <> [] /\
  dropped s = [12] /\ exported s = [[11]].
Proof. exact demo_reachable. Qed.
Print Assumptions c01_nonvacuous.
