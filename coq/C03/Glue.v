(* C03 entry points: the batch-processor acceptor (Batch/Model.v) + the C03 history checkers for BATCH cases,
   the simple-processor acceptor (Batch/Simple.v) for SIMPLE cases. *)
From V Require Export Batch.Spec Batch.Simple Batch.Periodic.

Definition is_simple (l : list tok) : bool := match l with t :: _ => is_tag "SIMPLE" t | [] => false end.
Definition trace_part (l : list tok) : list tok := match split_toks "||" l with [_; tr] => tr | _ => [] end.

Definition is_periodic (l : list tok) : bool := match l with t :: _ => is_tag "PERIODIC" t | [] => false end.
Definition run_model (l : list tok) : list tok :=
  if is_simple l then simple_model (trace_part l) else
  if is_periodic l then periodic_model (trace_part l) else batch_run_model l.
Definition run_tag (l : list tok) : list tok :=
  if is_simple l then [tag "simple"] else if is_periodic l then periodic_tag (trace_part l) else batch_run_tag l.
Definition run_spec (l obs : list tok) : list tok :=
  if is_simple l
  then match obs with
       | t :: _ => if is_tag "X" t then simple_spec (trace_part l) else fail "terminate:crash_or_deadlock"
       | [] => fail "obs:unparsable"
       end
  else if is_periodic l
  then match obs with
       | t :: _ => if is_tag "X" t then periodic_spec3 (trace_part l) else fail "terminate:crash_or_deadlock"
       | [] => fail "obs:unparsable"
       end
  else
  match parse_case l with
  | None => bad_case
  | Some c =>
      let h := c_trace c in
      check (negb (has_bad h)) "obs:unknown_event" ++ obs_consistent h obs ++ spec_c03 (c_b c) h
  end.
