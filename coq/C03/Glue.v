(* C03 entry points: the batch-processor acceptor (Batch/Model.v) + the C03 history checkers. *)
From V Require Export Batch.Spec.
Definition run_model := batch_run_model.
Definition run_tag := batch_run_tag.
Definition run_spec (l obs : list tok) : list tok :=
  match parse_case l with
  | None => bad_case
  | Some c =>
      let h := c_trace c in
      check (negb (has_bad h)) "obs:unknown_event" ++ obs_consistent h obs ++ spec_c03 (c_b c) h
  end.
