(* C09 proofs, part 4: Inject writes the exact level-1 shape; Extract after Inject is the
   identity on (trace id, span id, flags byte), marks the context remote and re-parses the
   trace-state header; invalid contexts are neither injected nor installed. *)
From V Require Import C09.Spec C09.ProofsHex C09.ProofsSplit C09.ProofsExtract.
From Coq Require Import Lia ZifyBool ZifyNat.

(* the contexts the C++ can build: TraceId is 16 bytes, SpanId is 8 bytes *)
Definition ctx_wf (c : span_ctx) : Prop := length (c_tid c) = 16 /\ length (c_sid c) = 8.

Definition ts_header_opt (l : tstate) : option bytes :=
  if is_nil (to_header l) then None else Some (to_header l).

(* ---------- the injected header as an assembled header *)

Lemma inject_traceparent_tp_of : forall c,
  inject_traceparent c =
  tp_of [zero_digit; zero_digit] (to_lower_hex (c_tid c)) (to_lower_hex (c_sid c)) (flags_hex (c_flags c)) [].
Proof.
  intros c. unfold inject_traceparent, tp_of.
  rewrite trace_id_hex_is_lower_hex, span_id_hex_is_lower_hex. cbn [app]. rewrite app_nil_r.
  repeat (rewrite <- app_assoc; cbn [app]). reflexivity.
Qed.

Section Injected.
  Variable c : span_ctx.
  Hypothesis W : ctx_wf c.

  Let a := [zero_digit; zero_digit].
  Let b := to_lower_hex (c_tid c).
  Let cc := to_lower_hex (c_sid c).
  Let d := flags_hex (c_flags c).

  Lemma inj_lengths : length a = 2 /\ length b = 32 /\ length cc = 16 /\ length d = 2.
  Proof.
    destruct W as [Wt Ws]. subst a b cc d. rewrite !length_to_lower_hex, Wt, Ws. repeat split.
  Qed.

  Lemma inj_lower : forallb is_lower_hex b = true /\ forallb is_lower_hex cc = true /\ forallb is_lower_hex d = true.
  Proof.
    subst b cc d. rewrite flags_hex_is_lower_hex. repeat split.
    - apply to_lower_hex_lower.
    - apply to_lower_hex_lower.
    - apply byte_to_lower_hex_lower.
  Qed.

  Lemma inj_valid_hex : is_valid_hex a = true /\ is_valid_hex b = true /\ is_valid_hex cc = true /\ is_valid_hex d = true.
  Proof.
    destruct inj_lower as (Hb & Hc & Hd). repeat split; try (now apply forallb_lower_hex_is_hex).
  Qed.

  Lemma inject_shape_wf : shape_ok (inject_traceparent c) = true.
  Proof.
    rewrite inject_traceparent_tp_of. fold a b cc d.
    destruct inj_lengths as (La & Lb & Lc & Ld). destruct inj_lower as (Hb & Hc & Hd).
    destruct (tp_of_positions a b cc d [] La Lb Lc Ld) as (L & D1 & D2 & D3 & Sa & Sb & Sc & Sd & Sk).
    unfold shape_ok. rewrite L, D1, D2, D3, Sb, Sc, Sd, Hb, Hc, Hd. reflexivity.
  Qed.

  (* both the parser of the code and the grammar read back exactly the ids and the flags byte *)
  Lemma decide_injected : ctx_valid c = true ->
    decide_fields a b cc d [] = Some (c_tid c, c_sid c, c_flags c).
  Proof.
    intros V. unfold ctx_valid in V. apply andb_true_iff in V as [Vt Vs].
    apply negb_true_iff in Vt, Vs.
    destruct inj_valid_hex as (Ha & Hb & Hc & Hd).
    unfold decide_fields. rewrite Ha, Hb, Hc, Hd. cbn [andb negb].
    subst a b cc d. rewrite !hex_pairs_to_lower_hex, flags_hex_is_lower_hex, hex_pairs_byte, Vt, Vs.
    reflexivity.
  Qed.

  Lemma wf_injected : ctx_valid c = true ->
    wf_traceparent (inject_traceparent c) = Some (c_tid c, c_sid c, c_flags c).
  Proof.
    intros V. rewrite inject_traceparent_tp_of. fold a b cc d.
    destruct inj_lengths as (La & Lb & Lc & Ld).
    rewrite spec_tp_of by (assumption || reflexivity). now apply decide_injected.
  Qed.
End Injected.

(* ---------- Trim leaves an injected header alone *)

Lemma trim_ws_id : forall x m y, isspace x = false -> isspace y = false ->
  trim_ws (x :: m ++ [y]) = x :: m ++ [y].
Proof.
  intros x m y Hx Hy. unfold trim_ws. cbn [drop_while]. rewrite Hx.
  replace (rev (x :: m ++ [y])) with (y :: rev (x :: m)).
  2:{ change (x :: m ++ [y]) with ((x :: m) ++ [y]). rewrite rev_app_distr. reflexivity. }
  cbn [drop_while]. rewrite Hy.
  replace (y :: rev (x :: m)) with (rev ((x :: m) ++ [y])) by (rewrite rev_app_distr; reflexivity).
  apply rev_involutive.
Qed.

Lemma trim_injected : forall c, trim_ws (inject_traceparent c) = inject_traceparent c.
Proof.
  intros c. unfold inject_traceparent, flags_hex.
  rewrite trace_id_hex_is_lower_hex, span_id_hex_is_lower_hex. cbn [app].
  set (y := n2b (nth (N.to_nat (b2n (c_flags c) mod 16)) kFlagsHexTable 0%N)).
  set (y0 := n2b (nth (N.to_nat (b2n (c_flags c) / 16)) kFlagsHexTable 0%N)).
  replace (zero_digit :: dash :: to_lower_hex (c_tid c) ++ dash :: to_lower_hex (c_sid c) ++ [dash; y0; y])
    with ((zero_digit :: dash :: to_lower_hex (c_tid c) ++ dash :: to_lower_hex (c_sid c) ++ [dash; y0]) ++ [y]).
  2:{ cbn [app]. rewrite <- app_assoc. cbn [app]. rewrite <- app_assoc. reflexivity. }
  apply trim_ws_id; [reflexivity|].
  (* the last digit comes from the generated table *)
  pose proof (flags_hex_is_lower_hex (c_flags c)) as F. unfold flags_hex in F. fold y y0 in F.
  pose proof (byte_to_lower_hex_lower (c_flags c)) as Lw. rewrite <- F in Lw. cbn [forallb] in Lw.
  apply andb_true_iff in Lw as [_ Lw]. apply andb_true_iff in Lw as [Lw _].
  apply ishex_not_space. now apply lower_hex_is_hex.
Qed.

(* ---------- TraceState::ToHeader is empty only for the empty list *)

Lemma to_header_nil_iff : forall l, is_nil (to_header l) = is_nil l.
Proof.
  intros [|[k v] l]; [reflexivity|]. cbn [to_header is_nil].
  destruct l; destruct k; reflexivity.
Qed.

(* ---------- theorems *)

Theorem inject_shape : forall c, ctx_wf c -> ctx_valid c = true ->
  exists tp, inject c = Some (tp, ts_header_opt (c_ts c)) /\ shape_ok tp = true /\
             wf_traceparent tp = Some (c_tid c, c_sid c, c_flags c).
Proof.
  intros c W V. exists (inject_traceparent c). split; [|split].
  - unfold inject, ts_header_opt. now rewrite V.
  - now apply inject_shape_wf.
  - now apply wf_injected.
Qed.

(* "plus the tracestate when non-empty": present iff the trace state has members, and then it
   is its ToHeader rendering *)
Theorem inject_tracestate : forall l,
  (l = [] -> ts_header_opt l = None) /\ (l <> [] -> ts_header_opt l = Some (to_header l)).
Proof.
  intros l. unfold ts_header_opt. rewrite to_header_nil_iff. split; intros H.
  - now subst.
  - destruct l; [contradiction|reflexivity].
Qed.

Theorem invalid_never_injected : forall c, ctx_valid c = false -> inject c = None.
Proof. intros c V. unfold inject. now rewrite V. Qed.

Theorem injected_is_valid : forall c r, inject c = Some r -> ctx_valid c = true.
Proof. intros c r H. unfold inject in H. destruct (ctx_valid c); [reflexivity|discriminate]. Qed.

Theorem invalid_never_injected_into : forall car c, ctx_valid c = false -> inject_into car c = car.
Proof. intros car c V. unfold inject_into. now rewrite (invalid_never_injected c V). Qed.

(* header value the carrier returns for "tracestate" after Inject ("" when absent) *)
Definition ts_value (o : option bytes) : bytes := match o with Some h => h | None => [] end.

Lemma ts_value_header_opt : forall l, ts_value (ts_header_opt l) = to_header l.
Proof.
  intros l. unfold ts_header_opt. destruct (to_header l) eqn:E; reflexivity.
Qed.

Theorem inject_extract_roundtrip : forall c, ctx_wf c -> ctx_valid c = true ->
  exists tp ts, inject c = Some (tp, ts) /\
    extract tp (ts_value ts) =
    Some (mk_ctx (c_tid c) (c_sid c) (c_flags c) true (from_header (to_header (c_ts c)))).
Proof.
  intros c W V. destruct (inject_shape c W V) as (tp & I & _ & F).
  exists tp, (ts_header_opt (c_ts c)). split; [exact I|].
  assert (tp = inject_traceparent c) as ->.
  { unfold inject in I. rewrite V in I. now injection I as <-. }
  rewrite extract_eq_spec. unfold spec_extract, strip_ows.
  rewrite trim_injected, F, ts_value_header_opt. reflexivity.
Qed.

Corollary inject_extract_roundtrip_ts : forall c, ctx_wf c -> ctx_valid c = true ->
  from_header (to_header (c_ts c)) = c_ts c ->
  exists tp ts, inject c = Some (tp, ts) /\
    extract tp (ts_value ts) = Some (mk_ctx (c_tid c) (c_sid c) (c_flags c) true (c_ts c)).
Proof.
  intros c W V H. destruct (inject_extract_roundtrip c W V) as (tp & ts & I & E).
  exists tp, ts. rewrite H in E. now split.
Qed.

(* Extract into a caller's context *)
Theorem extract_invalid_is_identity : forall (Ctx : Type) (set_span : Ctx -> span_ctx -> Ctx) caller tp_raw ts_raw,
  wf_traceparent (strip_ows tp_raw) = None -> extract_into set_span caller tp_raw ts_raw = caller.
Proof.
  intros Ctx set_span caller tp_raw ts_raw H. unfold extract_into.
  now rewrite (extract_invalid_is_none _ ts_raw H).
Qed.

Theorem invalid_never_installed : forall (Ctx : Type) (set_span : Ctx -> span_ctx -> Ctx) caller tp_raw ts_raw,
  extract_into set_span caller tp_raw ts_raw = caller \/
  exists c, extract_into set_span caller tp_raw ts_raw = set_span caller c /\
            ctx_valid c = true /\ c_remote c = true /\ ctx_wf c.
Proof.
  intros Ctx set_span caller tp_raw ts_raw. unfold extract_into.
  destruct (extract tp_raw ts_raw) as [c|] eqn:E; [right|left; reflexivity].
  exists c. apply extract_installs_only_valid in E as (V & R & Lt & Ls & _).
  repeat split; assumption.
Qed.

(* ---------- non-vacuity *)
Definition ex_ctx : span_ctx :=
  mk_ctx (x0a :: xf7 :: repeat x01 14) (xb7 :: repeat x00 7) xfa false [(bs "a", bs "1"); (bs "b@v", bs "x y")].
Example ex_ctx_wf : ctx_wf ex_ctx /\ ctx_valid ex_ctx = true.
Proof. repeat split. Qed.
Example ex_ctx_injected : inject ex_ctx =
  Some (bs "00-0af70101010101010101010101010101-b700000000000000-fa", Some (bs "a=1,b@v=x y")).
Proof. vm_compute. reflexivity. Qed.
Example ex_ctx_ts_roundtrips : from_header (to_header (c_ts ex_ctx)) = c_ts ex_ctx.
Proof. vm_compute. reflexivity. Qed.
Example ex_invalid_ctx : ctx_valid (mk_ctx (repeat x00 16) (repeat x01 8) x01 false []) = false.
Proof. reflexivity. Qed.
