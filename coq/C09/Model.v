(* MODEL of trace::propagation::HttpTraceContext (http_trace_context.h) with
   detail::SplitString, detail::IsValidHex, detail::HexToBinary, StringUtil::Trim,
   TraceId/SpanId/TraceFlags::ToLowerBase16.  Executable definitions only. *)
From V Require Export C14.Model.

Definition dash : byte := x2d.
Definition zero_digit : byte := x30.

Record span_ctx := mk_ctx {
  c_tid : bytes;       (* 16 bytes *)
  c_sid : bytes;       (* 8 bytes *)
  c_flags : byte;
  c_remote : bool;
  c_ts : tstate
}.

(* SpanContext::IsValid *)
Definition ctx_valid (c : span_ctx) : bool := negb (all_zero (c_tid c)) && negb (all_zero (c_sid c)).

(* TraceFlags::ToLowerBase16 through the code's own digit table *)
Definition flags_hex (f : byte) : bytes :=
  [n2b (nth (N.to_nat (b2n f / 16)) kFlagsHexTable 0%N);
   n2b (nth (N.to_nat (b2n f mod 16)) kFlagsHexTable 0%N)].

(* HttpTraceContext::InjectImpl: (traceparent, tracestate header if non-empty) *)
(* TraceId/SpanId::ToLowerBase16, each through the digit table of its own header *)
Fixpoint id_hex (tbl : list N) (l : bytes) : bytes :=
  match l with
  | [] => []
  | b :: l' => n2b (nth (N.to_nat (b2n b / 16)) tbl 0%N) :: n2b (nth (N.to_nat (b2n b mod 16)) tbl 0%N) :: id_hex tbl l'
  end.

Definition inject_traceparent (c : span_ctx) : bytes :=
  [zero_digit; zero_digit; dash] ++ id_hex kTraceIdHexTable (c_tid c) ++ [dash] ++ id_hex kSpanIdHexTable (c_sid c)
    ++ [dash] ++ flags_hex (c_flags c).

Definition inject (c : span_ctx) : option (bytes * option bytes) :=
  if ctx_valid c then
    Some (inject_traceparent c,
          let h := to_header (c_ts c) in if is_nil h then None else Some h)
  else None.

(* detail::SplitString(s, sep, results, count): the filled prefix of [results] *)
Definition split_string (s : bytes) (sep : byte) (count : nat) : list bytes :=
  firstn count (split_on sep s).

Definition is_valid_hex (s : bytes) : bool := forallb ishex s.

(* HttpTraceContext::ExtractContextFromTraceHeaders; None = SpanContext::GetInvalid() *)
Definition extract_fields (tp : bytes) : option (bytes * bytes * byte) :=
  match split_string tp dash 4 with
  | [ver; tid; sid; fl] =>
      if negb (Nat.eqb (length ver) kVersionSize && Nat.eqb (length tid) kTraceIdSize &&
               Nat.eqb (length sid) kSpanIdSize && Nat.eqb (length fl) kTraceFlagsSize) then None
      else if negb (is_valid_hex ver && is_valid_hex tid && is_valid_hex sid && is_valid_hex fl)
      then None
      else
        let v := b2n (hd x00 (hex_to_binary ver 1)) in
        if N.eqb v kInvalidVersion then None
        else if (if N.ltb 0 v then Nat.ltb (length tp) kTraceParentSize
                 else negb (Nat.eqb (length tp) kTraceParentSize)) then None
        else
          let t := hex_to_binary tid 16 in
          let s := hex_to_binary sid 8 in
          if all_zero t || all_zero s then None
          else Some (t, s, hd x00 (hex_to_binary fl 1))
  | _ => None
  end.

(* HttpTraceContext::ExtractImpl on the two header values ("" when the carrier has none) *)
Definition extract (tp_raw ts_raw : bytes) : option span_ctx :=
  let tp := trim_ws tp_raw in
  if is_nil tp then None
  else match extract_fields tp with
       | Some (t, s, f) => Some (mk_ctx t s f true (from_header ts_raw))
       | None => None
       end.

(* HttpTraceContext::Extract(carrier, context): the extracted span context is installed into the
   caller's context only when it is valid; otherwise the caller's context is returned as it is.
   [Ctx] is the caller's context type, [set_span] is trace::SetSpan. *)
Definition extract_into {Ctx : Type} (set_span : Ctx -> span_ctx -> Ctx) (caller : Ctx) (tp_raw ts_raw : bytes) : Ctx :=
  match extract tp_raw ts_raw with
  | Some c => set_span caller c
  | None => caller
  end.

(* HttpTraceContext::Inject(carrier, context) on a carrier given as an association list *)
Definition inject_into (carrier : list (bytes * bytes)) (c : span_ctx) : list (bytes * bytes) :=
  match inject c with
  | None => carrier
  | Some (tp, ts) =>
      carrier ++ [(bs "traceparent", tp)] ++ match ts with Some h => [(bs "tracestate", h)] | None => [] end
  end.
