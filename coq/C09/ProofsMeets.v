(* C09 proofs, part 5: the MODEL meets every SPEC clause that the runner evaluates on the
   implementation's observations - first on the model's values, then through the token wire
   format (print, re-parse, run_spec), for every case line that parses. *)
From V Require Import C09.Glue C09.ProofsHex C09.ProofsSplit C09.ProofsExtract C09.ProofsInject.
From Coq Require Import Lia ZifyBool ZifyNat ZifyN.

(* the C14 fact this property leans on: a trace state that came out of FromHeader survives
   ToHeader/FromHeader (C14 [header_roundtrip] for well-formed lists) *)
Definition ts_stable (l : tstate) : Prop := from_header (to_header l) = l.
Definition parsed_ts_stable : Prop := forall h, ts_stable (from_header h).

(* ---------- clause by clause, on the model's own values *)

Lemma ctx_eqb_refl : forall c, ctx_eqb c c = true.
Proof.
  intros c. unfold ctx_eqb. rewrite !bytes_eqb_refl, byte_eqb_refl. now destruct (c_remote c).
Qed.

Theorem inject_meets_spec : forall c, ctx_wf c -> spec_inject_ok c (inject c) = [].
Proof.
  intros c W. unfold spec_inject_ok. destruct (ctx_valid c) eqn:V.
  - unfold inject. rewrite V.
    rewrite (inject_shape_wf c W), (wf_injected c W V). rewrite !bytes_eqb_refl, byte_eqb_refl.
    cbn [check andb app].
    pose proof (to_header_nil_iff (c_ts c)) as N.
    destruct (is_nil (to_header (c_ts c))) eqn:E.
    + now rewrite <- N.
    + rewrite <- N, bytes_eqb_refl. reflexivity.
  - now rewrite (invalid_never_injected c V).
Qed.

Theorem extract_meets_spec : forall tp ts, spec_extract_ok tp ts (extract tp ts) true = [].
Proof.
  intros tp ts. unfold spec_extract_ok. rewrite extract_eq_spec.
  destruct (spec_extract tp ts) as [c|]; [|reflexivity]. now rewrite ctx_eqb_refl.
Qed.

(* the model's Inject-into-empty-carrier followed by Extract from that carrier *)
Definition rt_extract (c : span_ctx) : option span_ctx :=
  let car := inject_into [] c in
  extract (carrier_get "traceparent" car) (carrier_get "tracestate" car).

Lemma rt_extract_valid : forall c, ctx_wf c -> ctx_valid c = true ->
  rt_extract c = Some (mk_ctx (c_tid c) (c_sid c) (c_flags c) true (from_header (to_header (c_ts c)))).
Proof.
  intros c W V. destruct (inject_extract_roundtrip c W V) as (tp & ts & I & E).
  unfold rt_extract, inject_into. rewrite I.
  assert (G1 : carrier_get "traceparent" ([] ++ [(bs "traceparent", tp)] ++
               match ts with Some h => [(bs "tracestate", h)] | None => [] end) = tp) by reflexivity.
  assert (G2 : carrier_get "tracestate" ([] ++ [(bs "traceparent", tp)] ++
               match ts with Some h => [(bs "tracestate", h)] | None => [] end) = ts_value ts)
    by (destruct ts; reflexivity).
  cbv zeta. rewrite G1, G2. exact E.
Qed.

Lemma rt_extract_invalid : forall c, ctx_valid c = false -> rt_extract c = None.
Proof. intros c V. unfold rt_extract. rewrite (invalid_never_injected_into [] c V). reflexivity. Qed.

Theorem roundtrip_meets_spec : forall c, ctx_wf c -> ts_stable (c_ts c) ->
  spec_roundtrip_ok c (rt_extract c) true = [].
Proof.
  intros c W T. unfold spec_roundtrip_ok. destruct (ctx_valid c) eqn:V.
  - rewrite (rt_extract_valid c W V), T. now rewrite ctx_eqb_refl.
  - now rewrite (rt_extract_invalid c V).
Qed.

(* ---------- through the wire format *)

Lemma parse_print_inj : forall o, parse_inj (print_inj o) = Some o.
Proof. intros [[tp [h|]]|]; reflexivity. Qed.

(* what the runner's re-parse of an Extract observation yields *)
Definition reparse (o : option span_ctx) : option span_ctx :=
  match o with
  | Some c => Some (mk_ctx (c_tid c) (c_sid c) (c_flags c) (c_remote c) (from_header (to_header (c_ts c))))
  | None => None
  end.

Lemma parse_print_ext : forall o, parse_ext (print_ext o) = Some (reparse o, match o with None => true | Some _ => false end).
Proof.
  intros [c|]; [|reflexivity]. cbn [print_ext parse_ext reparse].
  rewrite N2Z.id, n2b_b2n. destruct (c_remote c); reflexivity.
Qed.

Lemma observe_extract_print : forall tp ts, observe_extract tp ts = print_ext (extract tp ts).
Proof. intros tp ts. unfold observe_extract, extract_into. destruct (extract tp ts); reflexivity. Qed.

Lemma parse_ctx_wf : forall l c, parse_ctx l = Some c -> ctx_wf c /\ exists h, c_ts c = from_header h.
Proof.
  intros l c H. unfold parse_ctx in H.
  destruct l as [|[tid| |] [|[sid| |] [|[| f|] [|[tsh| |] [|]]]]]; try discriminate H.
  destruct (Nat.eqb (length tid) 16) eqn:Lt; [|discriminate H].
  destruct (Nat.eqb (length sid) 8) eqn:Ls; [|discriminate H].
  cbn [andb] in H. destruct ((0 <=? f)%Z && (f <? 256)%Z); [|discriminate H].
  injection H as <-. apply Nat.eqb_eq in Lt, Ls. split; [split; assumption|]. now exists tsh.
Qed.

Lemma parse_case_inv : forall l k, parse_case l = Some k ->
  match k with
  | CInj c | CRt c => ctx_wf c /\ exists h, c_ts c = from_header h
  | CExt _ _ | CPur => True
  end.
Proof.
  intros l k H. unfold parse_case in H. destruct l as [|t rest]; [discriminate H|].
  destruct (is_tag "INJ" t).
  { destruct (parse_ctx rest) as [c|] eqn:P; [|discriminate H]. injection H as <-. eapply parse_ctx_wf; eassumption. }
  destruct (is_tag "RT" t).
  { destruct (parse_ctx rest) as [c|] eqn:P; [|discriminate H]. injection H as <-. eapply parse_ctx_wf; eassumption. }
  destruct (is_tag "EXT" t).
  { destruct rest as [|a [|b [|]]]; try discriminate H.
    destruct (opt_bytes a), (opt_bytes b); try discriminate H. injection H as <-. exact I. }
  destruct (is_tag "PURITY" t); [|discriminate H].
  destruct rest as [|[| |] [|[| |] [|[| |] [|[| |] [|]]]]]; try discriminate H. injection H as <-. exact I.
Qed.

Lemma ctx_eqb_reparse : forall c, ts_stable (c_ts c) ->
  ctx_eqb c (mk_ctx (c_tid c) (c_sid c) (c_flags c) (c_remote c) (from_header (to_header (c_ts c)))) = true.
Proof.
  intros c T. unfold ctx_eqb. cbn [c_tid c_sid c_flags c_remote c_ts]. rewrite T.
  rewrite !bytes_eqb_refl, byte_eqb_refl. now destruct (c_remote c).
Qed.

(* central theorem: on every case line that parses, the extracted SPEC checker finds nothing to
   report about the model's observation *)
Theorem model_meets_spec_param : parsed_ts_stable ->
  forall l, parse_case l <> None -> run_spec l (run_model l) = [].
Proof.
  intros H14 l P. unfold run_spec, run_model.
  destruct (parse_case l) as [[c|tp ts|c|]|] eqn:E; [| | |reflexivity|contradiction].
  - apply parse_case_inv in E as [W _]. rewrite parse_print_inj. now apply inject_meets_spec.
  - rewrite observe_extract_print, parse_print_ext.
    unfold spec_extract_ok. rewrite extract_eq_spec.
    destruct (spec_extract tp ts) as [c|] eqn:S; [|reflexivity].
    cbn [reparse]. rewrite ctx_eqb_reparse; [reflexivity|].
    unfold spec_extract in S. destruct (wf_traceparent (strip_ows tp)) as [[[t s] f]|]; [|discriminate S].
    injection S as <-. apply H14.
  - apply parse_case_inv in E as [W [h Hh]].
    assert (T : ts_stable (c_ts c)) by (rewrite Hh; apply H14).
    cbv zeta. rewrite observe_extract_print, parse_print_ext. fold (rt_extract c).
    unfold spec_roundtrip_ok. destruct (ctx_valid c) eqn:V.
    + rewrite (rt_extract_valid c W V). cbn [reparse c_tid c_sid c_flags c_remote c_ts].
      rewrite T, T. now rewrite ctx_eqb_refl.
    + now rewrite (rt_extract_invalid c V).
Qed.

(* the INJ clause needs nothing from C14 *)
Theorem model_meets_spec_inj : forall l c, parse_case l = Some (CInj c) -> run_spec l (run_model l) = [].
Proof.
  intros l c E. unfold run_spec, run_model. rewrite E.
  apply parse_case_inv in E as [W _]. rewrite parse_print_inj. now apply inject_meets_spec.
Qed.

(* non-vacuity: one case line of each kind parses, and the checker is not constantly [] *)
Example ex_case_inj : parse_case [tag "INJ"; TB (c_tid ex_ctx); TB (c_sid ex_ctx); TZ 250; TB (bs "a=1")] <> None.
Proof. vm_compute. discriminate. Qed.
Example ex_case_ext : parse_case [tag "EXT"; TB ex_tp; tag "NONE"] <> None.
Proof. vm_compute. discriminate. Qed.
Example ex_case_rt : parse_case [tag "RT"; TB (c_tid ex_ctx); TB (c_sid ex_ctx); TZ 250; TB (bs "a=1")] <> None.
Proof. vm_compute. discriminate. Qed.
Example ex_spec_fires_upper : run_spec [tag "INJ"; TB (c_tid ex_ctx); TB (c_sid ex_ctx); TZ 250; TB []]
   [tag "TP"; TB (bs "00-0af70101010101010101010101010101-b700000000000000-FA"); tag "TS"; tag "NONE"]
   = fail "inject_shape:uppercase_hex".
Proof. vm_compute. reflexivity. Qed.
Example ex_spec_fires_accept_ff : run_spec [tag "EXT"; TB (bs "ff-0af7651916cd43dd8448eb211c80319c-b7ad6b7169203331-01"); tag "NONE"]
   [tag "OK"; TB (c_tid ex_ctx); TB (c_sid ex_ctx); TZ 1; TZ 1; TB []] = fail "extract:malformed_accepted".
Proof. vm_compute. reflexivity. Qed.
Example ex_case_purity : parse_case [tag "PURITY"; TZ 8; TZ 4; TZ 100; TZ 3] = Some CPur.
Proof. reflexivity. Qed.
Example ex_purity_fires_race : run_spec [tag "PURITY"; TZ 8; TZ 4; TZ 100; TZ 3] [tag "RACE"; TB []] = fail "purity:data_race".
Proof. vm_compute. reflexivity. Qed.
Example ex_purity_fires_differs : run_spec [tag "PURITY"; TZ 8; TZ 4; TZ 100; TZ 3] [tag "DIFFERS"; TB []] = fail "purity:result_differs".
Proof. vm_compute. reflexivity. Qed.
