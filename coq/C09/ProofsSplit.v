(* C09 proofs, part 2: detail::SplitString (count-limited split on '-') against positions.
   [tp_of a b c d tail] is a header assembled from four fields; the split-based parser sees exactly
   those four fields iff the fields are dash-free and the tail is empty or starts with a dash,
   and the positional SPEC reads the same four fields at offsets 0/3/36/53. *)
From V Require Import C09.Spec C09.ProofsHex.
From Coq Require Import Lia ZifyBool ZifyNat.

Definition nodash (s : bytes) : bool := forallb (fun b => negb (Byte.eqb b dash)) s.

(* tail of a header after the flags field: nothing, or '-' followed by anything *)
Definition tail_ok (t : bytes) : bool := match t with [] => true | b :: _ => Byte.eqb b dash end.

Definition tp_of (a b c d tail : bytes) : bytes :=
  a ++ dash :: b ++ dash :: c ++ dash :: d ++ tail.

(* ---------- first field and remainder *)

Fixpoint cut (s : bytes) : bytes * option bytes :=
  match s with
  | [] => ([], None)
  | b :: s' => if Byte.eqb b dash then ([], Some s')
               else let (h, r) := cut s' in (b :: h, r)
  end.

Lemma split_on_not_nil : forall c s, split_on c s <> [].
Proof.
  intros c. induction s as [|b s IH]; [discriminate|]. cbn [split_on].
  destruct (Byte.eqb b c); [discriminate|]. destruct (split_on c s); [contradiction|discriminate].
Qed.

Lemma split_on_cut : forall s,
  split_on dash s = let (h, r) := cut s in h :: match r with None => [] | Some s' => split_on dash s' end.
Proof.
  induction s as [|b s IH]; [reflexivity|]. cbn [split_on cut].
  destruct (Byte.eqb b dash); [reflexivity|].
  rewrite IH. destruct (cut s) as [h r]. reflexivity.
Qed.

Lemma cut_spec : forall s h r, cut s = (h, r) ->
  nodash h = true /\ s = h ++ match r with None => [] | Some s' => dash :: s' end.
Proof.
  induction s as [|b s IH]; intros h r H; cbn [cut] in H.
  - injection H as <- <-. now split.
  - destruct (Byte.eqb b dash) eqn:E.
    + injection H as <- <-. apply byte_eqb_eq in E. subst b. now split.
    + destruct (cut s) as [h' r'] eqn:Ec. injection H as <- <-.
      destruct (IH _ _ eq_refl) as [H1 H2]. split.
      * unfold nodash in *. cbn [forallb]. now rewrite E, H1.
      * cbn [app]. now rewrite <- H2.
Qed.

Lemma cut_app_dash : forall h s', nodash h = true -> cut (h ++ dash :: s') = (h, Some s').
Proof.
  induction h as [|b h IH]; intros s' H.
  - reflexivity.
  - cbn in H. apply andb_true_iff in H as [H1 H2]. apply negb_true_iff in H1.
    cbn [app cut]. now rewrite H1, IH.
Qed.

Lemma cut_nodash : forall h, nodash h = true -> cut h = (h, None).
Proof.
  induction h as [|b h IH]; intros H; [reflexivity|].
  cbn in H. apply andb_true_iff in H as [H1 H2]. apply negb_true_iff in H1.
  cbn [cut]. now rewrite H1, IH.
Qed.

(* ---------- SplitString(s, '-', fields, 4) = 4 fields  <->  s = tp_of ... *)

Lemma split4_inv : forall s a b c d, split_string s dash 4 = [a; b; c; d] ->
  nodash a = true /\ nodash b = true /\ nodash c = true /\ nodash d = true /\
  exists tail, tail_ok tail = true /\ s = tp_of a b c d tail.
Proof.
  unfold split_string. intros s a b c d H.
  rewrite split_on_cut in H. destruct (cut s) as [h1 r1] eqn:E1. apply cut_spec in E1 as [N1 S1].
  cbn [firstn] in H. injection H as -> H.
  destruct r1 as [s1|]; [|discriminate].
  rewrite split_on_cut in H. destruct (cut s1) as [h2 r2] eqn:E2. apply cut_spec in E2 as [N2 S2].
  cbn [firstn] in H. injection H as -> H.
  destruct r2 as [s2|]; [|discriminate].
  rewrite split_on_cut in H. destruct (cut s2) as [h3 r3] eqn:E3. apply cut_spec in E3 as [N3 S3].
  cbn [firstn] in H. injection H as -> H.
  destruct r3 as [s3|]; [|discriminate].
  rewrite split_on_cut in H. destruct (cut s3) as [h4 r4] eqn:E4. apply cut_spec in E4 as [N4 S4].
  cbn [firstn] in H. injection H as ->.
  repeat split; try assumption.
  exists (match r4 with None => [] | Some s' => dash :: s' end). split.
  - destruct r4; [apply byte_eqb_refl | reflexivity].
  - unfold tp_of. now rewrite <- S4, <- S3, <- S2.
Qed.

Lemma split4_tp_of : forall a b c d tail,
  nodash a = true -> nodash b = true -> nodash c = true -> nodash d = true -> tail_ok tail = true ->
  split_string (tp_of a b c d tail) dash 4 = [a; b; c; d].
Proof.
  unfold split_string, tp_of. intros a b c d tail Na Nb Nc Nd Ht.
  rewrite split_on_cut, (cut_app_dash a _ Na). cbn [firstn]. f_equal.
  rewrite split_on_cut, (cut_app_dash b _ Nb). cbn [firstn]. f_equal.
  rewrite split_on_cut, (cut_app_dash c _ Nc). cbn [firstn]. f_equal.
  rewrite split_on_cut. destruct tail as [|t tail].
  - rewrite app_nil_r, (cut_nodash d Nd). reflexivity.
  - cbn in Ht. apply byte_eqb_eq in Ht. subst t. rewrite (cut_app_dash d _ Nd). reflexivity.
Qed.

(* index safety of SplitString (model arithmetic): never more than [count] fields, at least one
   when count > 0, and the fields are consecutive dash-free pieces of the input (their total
   length plus separators never exceeds the input) *)
Lemma split_index_safe : forall s n, length (split_string s dash n) <= n /\
  (0 < n -> 0 < length (split_string s dash n)) /\
  Forall (fun f => nodash f = true /\ length f <= length s) (split_string s dash n).
Proof.
  intros s n. unfold split_string. split; [|split].
  - apply firstn_le_length.
  - intros Hn. pose proof (split_on_not_nil dash s) as NN.
    destruct (split_on dash s) as [|x l]; [contradiction|]. destruct n; [lia|]. cbn. lia.
  - assert (G : forall s, Forall (fun f => nodash f = true /\ length f <= length s) (split_on dash s)).
    { clear. intros s. remember (length s) as k eqn:Hk. revert s Hk.
      induction k as [k IH] using lt_wf_ind. intros s Hk.
      rewrite split_on_cut. destruct (cut s) as [h r] eqn:E. apply cut_spec in E as [N Sd].
      constructor.
      - split; [assumption|]. rewrite Sd, app_length in Hk. lia.
      - destruct r as [s'|]; [|constructor].
        assert (L : length s = length h + S (length s')) by (rewrite Sd at 1; rewrite app_length; reflexivity).
        assert (L' : length s' < k) by lia.
        specialize (IH _ L' s' eq_refl).
        eapply Forall_impl; [|exact IH]. cbn beta. intros f [F1 F2]. split; [assumption|lia]. }
    specialize (G s). revert G. generalize (split_on dash s). intros l G. revert n.
    induction G as [|x l Hx G IH]; intros [|n]; cbn [firstn]; constructor; auto.
Qed.

(* ---------- positional view of an assembled header *)

Ltac explode l H :=
  repeat (destruct l as [|? l]; cbn [length] in H; [discriminate H|]; apply Nat.succ_inj in H);
  destruct l; cbn [length] in H; [clear H | discriminate H].

Lemma tp_of_positions : forall a b c d tail : bytes,
  length a = 2 -> length b = 32 -> length c = 16 -> length d = 2 ->
  length (tp_of a b c d tail) = 55 + length tail /\
  at_is (tp_of a b c d tail) 2 dash = true /\
  at_is (tp_of a b c d tail) 35 dash = true /\
  at_is (tp_of a b c d tail) 52 dash = true /\
  substr (tp_of a b c d tail) 0 2 = a /\
  substr (tp_of a b c d tail) 3 32 = b /\
  substr (tp_of a b c d tail) 36 16 = c /\
  substr (tp_of a b c d tail) 53 2 = d /\
  skipn 55 (tp_of a b c d tail) = tail.
Proof.
  intros a b c d tail La Lb Lc Ld. unfold tp_of.
  explode a La. explode b Lb. explode c Lc. explode d Ld.
  cbn [app length at_is nth_error substr firstn skipn].
  change (Byte.eqb dash dash) with true.
  repeat split.
Qed.

(* every string the positional grammar can accept is an assembled header *)
Lemma positional_decomp : forall tp,
  55 <= length tp -> at_is tp 2 dash = true -> at_is tp 35 dash = true -> at_is tp 52 dash = true ->
  tp = tp_of (substr tp 0 2) (substr tp 3 32) (substr tp 36 16) (substr tp 53 2) (skipn 55 tp).
Proof.
  intros tp L.
  do 55 (destruct tp as [|? tp]; [cbn in L; lia|]).
  cbn [at_is nth_error substr firstn skipn tp_of app].
  intros H1 H2 H3. apply byte_eqb_eq in H1, H2, H3. subst. reflexivity.
Qed.

Lemma length_substr : forall s p n, p + n <= length s -> length (substr s p n) = n.
Proof. intros s p n H. unfold substr. rewrite firstn_length, skipn_length. lia. Qed.

Lemma skipn_nth_error : forall (s : bytes) n x, nth_error s n = Some x -> skipn n s = x :: skipn (S n) s.
Proof.
  induction s as [|y s IH]; intros [|n] x H; try discriminate.
  - injection H as ->. reflexivity.
  - cbn [nth_error] in H. cbn [skipn]. now apply IH.
Qed.

Lemma tail_ok_skipn : forall tp, Nat.eqb (length tp) 55 || at_is tp 55 dash = true -> tail_ok (skipn 55 tp) = true.
Proof.
  intros tp H. apply orb_true_iff in H as [H|H].
  - apply Nat.eqb_eq in H. rewrite skipn_all2 by lia. reflexivity.
  - unfold at_is in H. destruct (nth_error tp 55) as [x|] eqn:E; [|discriminate].
    rewrite (skipn_nth_error _ _ _ E). exact H.
Qed.

Lemma is_valid_hex_nodash : forall s, is_valid_hex s = true -> nodash s = true.
Proof.
  unfold is_valid_hex, nodash. induction s as [|x s IH]; [reflexivity|]. cbn. intros H.
  apply andb_true_iff in H as [H1 H2]. now rewrite (ishex_not_dash _ H1), IH.
Qed.
