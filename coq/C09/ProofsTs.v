(* C09 proofs, part 6: the trace-state leg of the round trip, closed with C14's theorems
   ([header_roundtrip], [from_header_wf] of coq/C14/Proofs.v). *)
From V Require Import C09.Glue C09.ProofsInject C09.ProofsMeets.
From V Require C14.Proofs.

Lemma wf_ts_stable : forall l, C14.Proofs.wf l -> ts_stable l.
Proof. intros l H. exact (C14.Proofs.header_roundtrip l H). Qed.

Lemma parsed_ts_stable_holds : parsed_ts_stable.
Proof. intros h. apply wf_ts_stable. apply C14.Proofs.from_header_wf. Qed.

(* every valid context with a valid trace state (valid keys and values, at most 32 members):
   same ids, same flags byte, same trace state, remote *)
Theorem inject_extract_roundtrip_full : forall c, ctx_wf c -> ctx_valid c = true -> C14.Proofs.wf (c_ts c) ->
  exists tp ts, inject c = Some (tp, ts) /\
    extract tp (ts_value ts) = Some (mk_ctx (c_tid c) (c_sid c) (c_flags c) true (c_ts c)).
Proof.
  intros c W V T. apply inject_extract_roundtrip_ts; try assumption. now apply wf_ts_stable.
Qed.

Theorem roundtrip_meets_spec_full : forall c, ctx_wf c -> C14.Proofs.wf (c_ts c) ->
  spec_roundtrip_ok c (rt_extract c) true = [].
Proof. intros c W T. apply roundtrip_meets_spec; [assumption|]. now apply wf_ts_stable. Qed.

Theorem model_meets_spec : forall l, parse_case l <> None -> run_spec l (run_model l) = [].
Proof. exact (model_meets_spec_param parsed_ts_stable_holds). Qed.

(* non-vacuity: the example context's trace state is a valid one *)
Example ex_ctx_ts_wf : C14.Proofs.wf (c_ts ex_ctx).
Proof.
  split; [|cbn; unfold kMaxKeyValuePairs; repeat constructor].
  repeat constructor; vm_compute; reflexivity.
Qed.
