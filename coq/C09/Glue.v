(* Glue between the token wire format and the C09 model/spec.  Extracted. *)
From V Require Export C09.Spec.
Local Open Scope Z_scope.

Inductive case :=
| CInj (c : span_ctx)
| CExt (tp ts : bytes)
| CRt (c : span_ctx)
| CPur.      (* purity probe of the modelling assumption "these operations are pure" (harness/c09_purity.cc) *)

Definition opt_bytes (t : tok) : option bytes :=
  match t with TB b => Some b | TT _ => Some [] | TZ _ => None end.

Definition parse_ctx (l : list tok) : option span_ctx :=
  match l with
  | [TB tid; TB sid; TZ f; TB tsh] =>
      if Nat.eqb (length tid) 16 && Nat.eqb (length sid) 8 && (0 <=? f) && (f <? 256)
      then Some (mk_ctx tid sid (n2b (Z.to_N f)) false (from_header tsh)) else None
  | _ => None
  end.

Definition parse_case (l : list tok) : option case :=
  match l with
  | t :: rest =>
      if is_tag "INJ" t then option_map CInj (parse_ctx rest)
      else if is_tag "RT" t then option_map CRt (parse_ctx rest)
      else if is_tag "EXT" t then
        match rest with
        | [a; b] => match opt_bytes a, opt_bytes b with
                    | Some x, Some y => Some (CExt x y)
                    | _, _ => None
                    end
        | _ => None
        end
      else if is_tag "PURITY" t then
        match rest with
        | [TZ _; TZ _; TZ _; TZ _] => Some CPur
        | _ => None
        end
      else None
  | [] => None
  end.

(* The model's operations are functions, so whatever several threads compute from shared values is what
   one thread computes: the only observation the model predicts for a purity probe is PURE.  The probe's
   other observations name the failed clause. *)
Definition spec_purity_ok (obs : list tok) : list tok :=
  match obs with
  | [t] => if is_tag "PURE" t then [] else fail "obs:unparsable"
  | t :: _ => if is_tag "RACE" t then fail "purity:data_race"
              else if is_tag "DIFFERS" t then fail "purity:result_differs"
              else if is_tag "HARNESSRACE" t then fail "harness:probe_race"
              else if is_tag "HANG" t then fail "purity:hang"
              else if is_tag "CRASH" t then fail "purity:crash"
              else fail "obs:unparsable"
  | [] => fail "obs:unparsable"
  end.

Definition print_inj (o : option (bytes * option bytes)) : list tok :=
  match o with
  | None => [tag "NOHDR"]
  | Some (tp, ts) => [tag "TP"; TB tp; tag "TS"; match ts with Some h => TB h | None => tag "NONE" end]
  end.
Definition print_ext (o : option span_ctx) : list tok :=
  match o with
  | None => [tag "INVALID"; TZ 1]
  | Some c => [tag "OK"; TB (c_tid c); TB (c_sid c); TZ (Z.of_N (b2n (c_flags c))); tbool (c_remote c);
               TB (to_header (c_ts c))]
  end.

Definition parse_inj (l : list tok) : option (option (bytes * option bytes)) :=
  match l with
  | [t] => if is_tag "NOHDR" t then Some None else None
  | [_; TB tp; _; TB h] => Some (Some (tp, Some h))
  | [_; TB tp; _; TT _] => Some (Some (tp, None))
  | _ => None
  end.
Definition parse_ext (l : list tok) : option (option span_ctx * bool) :=
  match l with
  | [t; TZ same] => if is_tag "INVALID" t then Some (None, Z.eqb same 1) else None
  | [_; TB tid; TB sid; TZ f; TZ r; TB h] =>
      Some (Some (mk_ctx tid sid (n2b (Z.to_N f)) (Z.eqb r 1) (from_header h)), false)
  | _ => None
  end.

(* Extract into the driver's sentinel context: the observation is either the sentinel
   ("INVALID 1" = returned context is the caller's) or the installed span context *)
Definition observe_extract (tp ts : bytes) : list tok :=
  extract_into (fun _ c => print_ext (Some c)) (print_ext None) tp ts.

(* what the carrier of the driver holds after Inject into an empty carrier *)
Definition carrier_get (k : string) (car : list (bytes * bytes)) : bytes :=
  match lookup (bs k) car with Some v => v | None => [] end.

Definition run_model (l : list tok) : list tok :=
  match parse_case l with
  | Some (CInj c) => print_inj (inject c)
  | Some (CExt tp ts) => observe_extract tp ts
  | Some (CRt c) =>
      let car := inject_into [] c in
      observe_extract (carrier_get "traceparent" car) (carrier_get "tracestate" car)
  | Some CPur => [tag "PURE"]
  | None => bad_case
  end.

(* branch tag of the model on this case, for coverage accounting *)
Definition run_tag (l : list tok) : list tok :=
  match parse_case l with
  | Some (CInj c) => [tag (if ctx_valid c then (if is_nil (c_ts c) then "inj_valid" else "inj_valid_ts") else "inj_invalid")]
  | Some (CExt tp ts) =>
      [tag (match extract tp ts with
            | Some c => if is_nil (c_ts c) then "ext_ok" else "ext_ok_ts"
            | None => if is_nil (trim_ws tp) then "ext_empty"
                      else match split_string (trim_ws tp) dash 4 with
                           | [a; b; c; d] =>
                               if negb (Nat.eqb (length a) 2 && Nat.eqb (length b) 32 && Nat.eqb (length c) 16 && Nat.eqb (length d) 2)
                               then "ext_bad_sizes"
                               else if negb (is_valid_hex a && is_valid_hex b && is_valid_hex c && is_valid_hex d)
                               then "ext_bad_hex" else "ext_bad_semantic"
                           | _ => "ext_bad_fields"
                           end
            end)]
  | Some (CRt c) => [tag (if ctx_valid c then "rt_valid" else "rt_invalid")]
  | Some CPur => [tag "purity_probe"]
  | None => bad_case
  end.

Definition run_spec (l obs : list tok) : list tok :=
  match parse_case l with
  | Some (CInj c) => match parse_inj obs with Some o => spec_inject_ok c o | None => fail "obs:unparsable" end
  | Some (CExt tp ts) => match parse_ext obs with Some (o, same) => spec_extract_ok tp ts o same | None => fail "obs:unparsable" end
  | Some (CRt c) => match parse_ext obs with Some (o, same) => spec_roundtrip_ok c o same | None => fail "obs:unparsable" end
  | Some CPur => spec_purity_ok obs
  | None => bad_case
  end.
