(* C09 proofs, part 1: byte and hex facts.
   One-byte facts are full sweeps of the 256-element type [byte] ([destruct b]); everything
   about strings is by list induction on top of them. *)
From V Require Import C09.Spec.
From Coq Require Import Lia ZifyBool ZifyNat ZifyN.

(* ---------- bytes *)

Lemma n2b_b2n : forall b, n2b (b2n b) = b.
Proof. intros b. unfold n2b, b2n. now rewrite Byte.of_to_N. Qed.

Lemma b2n_n2b : forall n, (n < 256)%N -> b2n (n2b n) = n.
Proof.
  intros n Hn. unfold n2b, b2n. destruct (Byte.of_N n) as [b|] eqn:E.
  - now apply Byte.to_of_N.
  - apply Byte.of_N_None_iff in E. lia.
Qed.

Lemma b2n_lt : forall b, (b2n b < 256)%N.
Proof. intros b. unfold b2n. pose proof (Byte.to_N_bounded b). lia. Qed.

Lemma byte_eqb_refl : forall b, Byte.eqb b b = true.
Proof. intros b. now apply Byte.byte_dec_lb. Qed.

Lemma byte_eqb_eq : forall a b, Byte.eqb a b = true <-> a = b.
Proof. intros a b. split; [apply Byte.byte_dec_bl | apply Byte.byte_dec_lb]. Qed.

Lemma byte_eqb_neq : forall a b, Byte.eqb a b = false <-> a <> b.
Proof.
  intros a b. split; [apply Byte.eqb_false|].
  intros H. destruct (Byte.eqb a b) eqn:E; [|reflexivity]. apply Byte.byte_dec_bl in E. contradiction.
Qed.

Lemma bytes_eqb_refl : forall s, bytes_eqb s s = true.
Proof. induction s as [|b s IH]; [reflexivity|]. cbn. now rewrite byte_eqb_refl, IH. Qed.

Lemma bytes_eqb_eq : forall a b, bytes_eqb a b = true <-> a = b.
Proof.
  induction a as [|x a IH]; intros [|y b]; cbn; split; intros H; try reflexivity; try discriminate.
  - apply andb_true_iff in H as [H1 H2]. apply byte_eqb_eq in H1. apply IH in H2. now subst.
  - injection H as -> ->. now rewrite byte_eqb_refl, bytes_eqb_refl.
Qed.

(* ---------- one hex digit (sweeps over all 256 bytes) *)

Lemma ishex_not_dash : forall b, ishex b = true -> Byte.eqb b dash = false.
Proof. intros b; destruct b; vm_compute; intros H; first [reflexivity | discriminate H]. Qed.

Lemma ishex_not_space : forall b, ishex b = true -> isspace b = false.
Proof. intros b; destruct b; vm_compute; intros H; first [reflexivity | discriminate H]. Qed.

Lemma lower_hex_is_hex : forall b, is_lower_hex b = true -> ishex b = true.
Proof. intros b; destruct b; vm_compute; intros H; first [reflexivity | discriminate H]. Qed.

Lemma lower_hex_not_upper : forall b, is_lower_hex b = true -> isupper b = false.
Proof. intros b; destruct b; vm_compute; intros H; first [reflexivity | discriminate H]. Qed.

Lemma hexval_lt16 : forall b x, hexval b = Some x -> (x < 16)%N.
Proof. intros b; destruct b; vm_compute; intros x H; first [discriminate H | injection H as <-; reflexivity]. Qed.

(* the code's own table kHexDigits (translated into Gen.Consts) is the function [hexint] of the model *)
Lemma kHexDigits_is_hexint : forall b, nth (N.to_nat (b2n b)) kHexDigits 0%Z = hexint b.
Proof. intros b; destruct b; vm_compute; reflexivity. Qed.

(* ---------- one byte <-> two digits (sweeps) *)

Lemma byte_to_lower_hex_lower : forall b, forallb is_lower_hex (byte_to_lower_hex b) = true.
Proof. intros b; destruct b; vm_compute; reflexivity. Qed.

Lemma hex_pairs_byte : forall b, hex_pairs (byte_to_lower_hex b) = [b].
Proof. intros b; destruct b; vm_compute; reflexivity. Qed.

Lemma unhex_byte : forall b, unhex (byte_to_lower_hex b) = Some [b].
Proof. intros b; destruct b; vm_compute; reflexivity. Qed.

(* TraceFlags::ToLowerBase16 goes through the table that tools/extract_consts.py reads from
   trace_flags.h: this sweep fails as soon as a digit of that table is not the lower-case one *)
Lemma flags_hex_is_lower_hex : forall f, flags_hex f = byte_to_lower_hex f.
Proof. intros f; destruct f; vm_compute; reflexivity. Qed.

(* the same for TraceId/SpanId::ToLowerBase16 and the tables of trace_id.h / span_id.h *)
Lemma trace_id_table_byte : forall b, id_hex kTraceIdHexTable [b] = byte_to_lower_hex b.
Proof. intros b; destruct b; vm_compute; reflexivity. Qed.
Lemma span_id_table_byte : forall b, id_hex kSpanIdHexTable [b] = byte_to_lower_hex b.
Proof. intros b; destruct b; vm_compute; reflexivity. Qed.

Lemma id_hex_is_lower_hex : forall tbl, (forall b, id_hex tbl [b] = byte_to_lower_hex b) ->
  forall l, id_hex tbl l = to_lower_hex l.
Proof.
  intros tbl H. induction l as [|b l IH]; [reflexivity|].
  specialize (H b). cbn [id_hex] in H. injection H as H1 H2.
  cbn [id_hex to_lower_hex byte_to_lower_hex app]. now rewrite H1, H2, IH.
Qed.

Lemma trace_id_hex_is_lower_hex : forall l, id_hex kTraceIdHexTable l = to_lower_hex l.
Proof. exact (id_hex_is_lower_hex _ trace_id_table_byte). Qed.
Lemma span_id_hex_is_lower_hex : forall l, id_hex kSpanIdHexTable l = to_lower_hex l.
Proof. exact (id_hex_is_lower_hex _ span_id_table_byte). Qed.

Lemma id_tables_lower_case : forall l,
  id_hex kTraceIdHexTable l = to_lower_hex l /\ id_hex kSpanIdHexTable l = to_lower_hex l.
Proof. intros l. split; [apply trace_id_hex_is_lower_hex | apply span_id_hex_is_lower_hex]. Qed.

(* ---------- (int8 << 4) | int8 for two valid digits *)

Lemma lor_nibbles : forall x y, (x < 16)%N -> (y < 16)%N ->
  Z.lor (Z.of_N x * 16) (Z.of_N y) = Z.of_N (16 * x + y).
Proof.
  intros x y Hx Hy.
  assert (Hs : forallb (fun a => forallb (fun b => Z.eqb (Z.lor (Z.of_nat a * 16) (Z.of_nat b)) (Z.of_nat (16 * a + b)))
                                         (seq 0 16)) (seq 0 16) = true) by (vm_compute; reflexivity).
  rewrite forallb_forall in Hs.
  specialize (Hs (N.to_nat x)). rewrite in_seq in Hs.
  assert (Hx' : 0 <= N.to_nat x < 0 + 16) by lia. specialize (Hs Hx').
  rewrite forallb_forall in Hs. specialize (Hs (N.to_nat y)). rewrite in_seq in Hs.
  assert (Hy' : 0 <= N.to_nat y < 0 + 16) by lia. specialize (Hs Hy').
  apply Z.eqb_eq in Hs.
  replace (Z.of_nat (N.to_nat x)) with (Z.of_N x) in Hs by lia.
  replace (Z.of_nat (N.to_nat y)) with (Z.of_N y) in Hs by lia.
  rewrite Hs. lia.
Qed.

Lemma hexbyte_pair : forall a b x, hexbyte a b = Some x ->
  u8 (Z.lor (hexint a * 16) (hexint b)) = x.
Proof.
  intros a b x H. unfold hexbyte in H. unfold hexint.
  destruct (hexval a) as [va|] eqn:Ea; [|discriminate].
  destruct (hexval b) as [vb|] eqn:Eb; [|discriminate].
  injection H as <-.
  pose proof (hexval_lt16 _ _ Ea) as Ha. pose proof (hexval_lt16 _ _ Eb) as Hb.
  rewrite lor_nibbles by assumption. unfold u8. f_equal.
  rewrite Z.mod_small by lia. apply N2Z.id.
Qed.

Lemma hexbyte_some_iff : forall a b, (exists x, hexbyte a b = Some x) <-> ishex a = true /\ ishex b = true.
Proof.
  intros a b. unfold hexbyte, ishex. destruct (hexval a), (hexval b); split.
  all: try (intros [x H]; discriminate H).
  all: try (intros [H1 H2]; discriminate).
  - intros _. now split.
  - intros _. eexists; reflexivity.
Qed.

(* ---------- strings of digits *)

Lemma length_to_lower_hex : forall l, length (to_lower_hex l) = 2 * length l.
Proof. induction l as [|b l IH]; [reflexivity|]. cbn [to_lower_hex byte_to_lower_hex app length]. lia. Qed.

Lemma to_lower_hex_lower : forall l, forallb is_lower_hex (to_lower_hex l) = true.
Proof.
  induction l as [|b l IH]; [reflexivity|]. cbn [to_lower_hex]. rewrite forallb_app, IH, byte_to_lower_hex_lower. reflexivity.
Qed.

Lemma forallb_lower_hex_is_hex : forall s, forallb is_lower_hex s = true -> is_valid_hex s = true.
Proof.
  unfold is_valid_hex. induction s as [|b s IH]; [reflexivity|]. cbn. intros H.
  apply andb_true_iff in H as [H1 H2]. now rewrite (lower_hex_is_hex _ H1), IH.
Qed.

Lemma hex_pairs_to_lower_hex : forall l, hex_pairs (to_lower_hex l) = l.
Proof.
  induction l as [|b l IH]; [reflexivity|].
  pose proof (hex_pairs_byte b) as Hb. unfold byte_to_lower_hex in Hb.
  cbn [to_lower_hex byte_to_lower_hex app hex_pairs] in *. injection Hb as Hb. now rewrite Hb, IH.
Qed.

Lemma length_hex_pairs : forall s, Nat.even (length s) = true -> 2 * length (hex_pairs s) = length s.
Proof.
  fix IH 1. intros [|a [|b s]]; [reflexivity | discriminate |].
  cbn [length hex_pairs]. intros H. change (Nat.even (length s) = true) in H. specialize (IH s H). lia.
Qed.

(* positional decoder of the SPEC = the validity test + pairwise conversion of the code *)
Lemma unhex_spec : forall s,
  unhex s = if Nat.even (length s) && is_valid_hex s then Some (hex_pairs s) else None.
Proof.
  unfold is_valid_hex. fix IH 1. intros [|a [|b s]]; [reflexivity | reflexivity |].
  cbn [unhex length hex_pairs forallb]. change (Nat.even (S (S (length s)))) with (Nat.even (length s)).
  rewrite (IH s).
  destruct (hexbyte a b) as [x|] eqn:Eab.
  - destruct (proj1 (hexbyte_some_iff a b) (ex_intro _ x Eab)) as [Ha Hb]. rewrite Ha, Hb.
    rewrite (hexbyte_pair _ _ _ Eab). cbn [andb].
    destruct (Nat.even (length s) && forallb ishex s); reflexivity.
  - destruct (ishex a) eqn:Ha; [destruct (ishex b) eqn:Hb|].
    + destruct (proj2 (hexbyte_some_iff a b) (conj Ha Hb)) as [x Hx]. congruence.
    + now rewrite !andb_false_r.
    + now rewrite !andb_false_r.
Qed.

(* HexToBinary of a full-size, even-length string is the pairwise conversion *)
Lemma hex_to_binary_full : forall s n, length s = 2 * n -> hex_to_binary s n = hex_pairs s.
Proof.
  intros s n H. unfold hex_to_binary.
  assert (E : Nat.even (length s) = true) by (rewrite H; apply Nat.even_spec; now exists n).
  pose proof (length_hex_pairs s E) as HL.
  replace (Nat.ltb (2 * n) (length s)) with false by (symmetry; apply Nat.ltb_ge; lia).
  replace (Nat.odd (length s)) with false by (unfold Nat.odd; now rewrite E).
  replace (n - length (hex_pairs s)) with 0 by lia. reflexivity.
Qed.

(* the hex fact of DESIGN section 4: decoding the lower-case rendering gives the bytes back *)
Lemma hex_to_binary_to_lower_hex : forall b n, length b = n -> hex_to_binary (to_lower_hex b) n = b.
Proof.
  intros b n H. rewrite hex_to_binary_full by (rewrite length_to_lower_hex; lia).
  apply hex_pairs_to_lower_hex.
Qed.

Lemma unhex_to_lower_hex : forall l, unhex (to_lower_hex l) = Some l.
Proof.
  intros l. rewrite unhex_spec, length_to_lower_hex, (forallb_lower_hex_is_hex _ (to_lower_hex_lower l)).
  replace (Nat.even (2 * length l)) with true by (symmetry; apply Nat.even_spec; now exists (length l)).
  cbn [andb]. now rewrite hex_pairs_to_lower_hex.
Qed.

(* index safety of HexToBinary (model arithmetic): the result always has exactly [n] bytes,
   i.e. buffer_pos = n - (len+1)/2 is never negative when the size test passed and the loop
   writes exactly (len+1)/2 bytes. *)
Lemma length_hex_pairs_half : forall s, length (hex_pairs s) = Nat.div2 (length s).
Proof. fix IH 1. intros [|a [|b s]]; [reflexivity | reflexivity |]. cbn [length hex_pairs Nat.div2]. now rewrite IH. Qed.

Lemma hex_to_binary_index_safe : forall s n, length (hex_to_binary s n) = n.
Proof.
  intros s n. unfold hex_to_binary, zeros.
  destruct (Nat.ltb (2 * n) (length s)) eqn:E; [apply repeat_length|].
  apply Nat.ltb_ge in E. rewrite app_length, repeat_length.
  destruct (Nat.odd (length s)) eqn:Eo.
  - destruct s as [|a s]; [discriminate|]. cbn [length] in *. rewrite length_hex_pairs_half.
    pose proof (Nat.div2_odd (S (length s))) as D. rewrite Eo in D. cbn [Nat.b2n] in D.
    pose proof (Nat.div2_odd (length s)) as D2.
    assert (Nat.odd (length s) = false) as Eo2.
    { rewrite Nat.odd_succ in Eo. unfold Nat.odd. now rewrite Eo. }
    rewrite Eo2 in D2. cbn [Nat.b2n] in D2. lia.
  - rewrite length_hex_pairs_half. pose proof (Nat.div2_odd (length s)) as D. rewrite Eo in D. cbn [Nat.b2n] in D. lia.
Qed.
