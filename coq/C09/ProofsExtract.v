(* C09 proofs, part 3: the split-based parser of the code = the positional W3C grammar,
   for EVERY byte string. *)
From V Require Import C09.Spec C09.ProofsHex C09.ProofsSplit.
From Coq Require Import Lia ZifyBool ZifyNat.

(* common normal form of both on an assembled header *)
Definition decide_fields (a b c d tail : bytes) : option (bytes * bytes * byte) :=
  if negb (is_valid_hex a && is_valid_hex b && is_valid_hex c && is_valid_hex d) then None
  else
    let v := hd x00 (hex_pairs a) in
    if Byte.eqb v xff then None
    else if Byte.eqb v x00 && negb (is_nil tail) then None
    else if all_zero (hex_pairs b) || all_zero (hex_pairs c) then None
    else Some (hex_pairs b, hex_pairs c, hd x00 (hex_pairs d)).

(* ---------- small facts *)

Lemma b2n_eq_255 : forall x, N.eqb (b2n x) 255 = Byte.eqb x xff.
Proof. intros x; destruct x; vm_compute; reflexivity. Qed.

Lemma b2n_pos : forall x, N.ltb 0 (b2n x) = negb (Byte.eqb x x00).
Proof. intros x; destruct x; vm_compute; reflexivity. Qed.

Lemma eqb_55_plus : forall (t : bytes), Nat.eqb (55 + length t) 55 = is_nil t.
Proof. intros [|x t]; [reflexivity|]. cbn [length is_nil]. apply Nat.eqb_neq. lia. Qed.

Lemma ltb_55_plus : forall n, Nat.ltb (55 + n) 55 = false.
Proof. intros n. apply Nat.ltb_ge. lia. Qed.

Lemma nth_error_skipn0 : forall (l : bytes) n, nth_error l n = nth_error (skipn n l) 0.
Proof.
  induction l as [|x l IH]; intros [|n]; try reflexivity. cbn [nth_error skipn]. apply IH.
Qed.

Lemma hex_pairs_two : forall a, length a = 2 -> hex_pairs a = [hd x00 (hex_pairs a)].
Proof. intros a La. explode a La. reflexivity. Qed.

Lemma unhex_some_valid : forall s r, unhex s = Some r -> is_valid_hex s = true.
Proof.
  intros s r H. rewrite unhex_spec in H.
  destruct (Nat.even (length s)); [|discriminate]. destruct (is_valid_hex s); [reflexivity|discriminate].
Qed.

(* ---------- the MODEL on an assembled header *)

Lemma model_tp_of : forall a b c d tail,
  length a = 2 -> length b = 32 -> length c = 16 -> length d = 2 ->
  nodash a = true -> nodash b = true -> nodash c = true -> nodash d = true -> tail_ok tail = true ->
  extract_fields (tp_of a b c d tail) = decide_fields a b c d tail.
Proof.
  intros a b c d tail La Lb Lc Ld Na Nb Nc Nd Ht.
  unfold extract_fields, decide_fields. rewrite split4_tp_of by assumption.
  unfold kVersionSize, kTraceIdSize, kSpanIdSize, kTraceFlagsSize, kTraceParentSize, kInvalidVersion.
  rewrite La, Lb, Lc, Ld. cbn [Nat.eqb andb negb].
  destruct (negb (is_valid_hex a && is_valid_hex b && is_valid_hex c && is_valid_hex d)); [reflexivity|].
  rewrite (hex_to_binary_full a 1) by (rewrite La; reflexivity).
  rewrite (hex_to_binary_full b 16) by (rewrite Lb; reflexivity).
  rewrite (hex_to_binary_full c 8) by (rewrite Lc; reflexivity).
  rewrite (hex_to_binary_full d 1) by (rewrite Ld; reflexivity).
  cbv zeta. rewrite b2n_eq_255, b2n_pos.
  destruct (Byte.eqb (hd x00 (hex_pairs a)) xff); [reflexivity|].
  destruct (tp_of_positions a b c d tail La Lb Lc Ld) as [L _]. rewrite L, ltb_55_plus, eqb_55_plus.
  destruct (Byte.eqb (hd x00 (hex_pairs a)) x00); cbn [negb andb]; [|reflexivity].
  destruct (negb (is_nil tail)); reflexivity.
Qed.

(* ---------- the SPEC on an assembled header *)

Lemma spec_tp_of : forall a b c d tail,
  length a = 2 -> length b = 32 -> length c = 16 -> length d = 2 -> tail_ok tail = true ->
  wf_traceparent (tp_of a b c d tail) = decide_fields a b c d tail.
Proof.
  intros a b c d tail La Lb Lc Ld Ht.
  destruct (tp_of_positions a b c d tail La Lb Lc Ld) as (L & D1 & D2 & D3 & Sa & Sb & Sc & Sd & Sk).
  unfold wf_traceparent, decide_fields.
  rewrite L, ltb_55_plus, D1, D2, D3, Sa, Sb, Sc, Sd. cbn [andb negb].
  rewrite !unhex_spec, La, Lb, Lc, Ld.
  change (Nat.even 2) with true. change (Nat.even 32) with true. change (Nat.even 16) with true.
  cbn [andb].
  rewrite (hex_pairs_two a La), (hex_pairs_two d Ld). cbn [hd].
  assert (T : Nat.eqb (55 + length tail) 55 || at_is (tp_of a b c d tail) 55 dash = true).
  { rewrite eqb_55_plus. unfold at_is. rewrite nth_error_skipn0, Sk.
    destruct tail as [|t tail]; [reflexivity|]. exact Ht. }
  rewrite T, eqb_55_plus. cbn [negb].
  destruct (is_valid_hex a); [|reflexivity].
  destruct (is_valid_hex b); [|reflexivity].
  destruct (is_valid_hex c); [|reflexivity].
  destruct (is_valid_hex d); [|reflexivity].
  cbn [andb negb]. reflexivity.
Qed.

(* ---------- whatever either side accepts is an assembled header *)

Definition assembled (tp : bytes) : Prop :=
  exists a b c d tail, tp = tp_of a b c d tail /\
    length a = 2 /\ length b = 32 /\ length c = 16 /\ length d = 2 /\
    nodash a = true /\ nodash b = true /\ nodash c = true /\ nodash d = true /\ tail_ok tail = true.

Lemma model_accepts_assembled : forall tp x, extract_fields tp = Some x -> assembled tp.
Proof.
  intros tp x H. unfold extract_fields in H.
  destruct (split_string tp dash 4) as [|a [|b [|c [|d [|e l]]]]] eqn:E; try discriminate H.
  unfold kVersionSize, kTraceIdSize, kSpanIdSize, kTraceFlagsSize in H.
  destruct (Nat.eqb (length a) 2) eqn:La; [|discriminate H].
  destruct (Nat.eqb (length b) 32) eqn:Lb; [|discriminate H].
  destruct (Nat.eqb (length c) 16) eqn:Lc; [|discriminate H].
  destruct (Nat.eqb (length d) 2) eqn:Ld; [|discriminate H].
  apply Nat.eqb_eq in La, Lb, Lc, Ld.
  apply split4_inv in E as (Na & Nb & Nc & Nd & tail & Ht & ->).
  exists a, b, c, d, tail. repeat split; assumption.
Qed.

Lemma spec_accepts_assembled : forall tp x, wf_traceparent tp = Some x -> assembled tp.
Proof.
  intros tp x H. unfold wf_traceparent in H.
  destruct (Nat.ltb (length tp) 55) eqn:L; [discriminate H|]. apply Nat.ltb_ge in L.
  destruct (at_is tp 2 dash) eqn:D1; [|discriminate H].
  destruct (at_is tp 35 dash) eqn:D2; [|discriminate H].
  destruct (at_is tp 52 dash) eqn:D3; [|discriminate H].
  cbn [andb negb] in H.
  destruct (unhex (substr tp 0 2)) as [ua|] eqn:Ua; [|discriminate H].
  destruct ua as [|v [|? ?]]; try discriminate H.
  destruct (unhex (substr tp 3 32)) as [ub|] eqn:Ub; [|discriminate H].
  destruct (unhex (substr tp 36 16)) as [uc|] eqn:Uc; [|discriminate H].
  destruct (unhex (substr tp 53 2)) as [ud|] eqn:Ud; [|discriminate H].
  destruct ud as [|fl [|? ?]]; try discriminate H.
  destruct (Byte.eqb v xff); [discriminate H|].
  destruct (Byte.eqb v x00 && negb (Nat.eqb (length tp) 55)); [discriminate H|].
  destruct (Nat.eqb (length tp) 55 || at_is tp 55 dash) eqn:T; [|discriminate H].
  exists (substr tp 0 2), (substr tp 3 32), (substr tp 36 16), (substr tp 53 2), (skipn 55 tp).
  split; [now apply positional_decomp|].
  repeat split; try (apply length_substr; lia).
  - apply is_valid_hex_nodash. eapply unhex_some_valid; eassumption.
  - apply is_valid_hex_nodash. eapply unhex_some_valid; eassumption.
  - apply is_valid_hex_nodash. eapply unhex_some_valid; eassumption.
  - apply is_valid_hex_nodash. eapply unhex_some_valid; eassumption.
  - now apply tail_ok_skipn.
Qed.

(* ---------- the parser decides exactly the grammar, with the same decoded fields *)

Theorem extract_fields_eq_wf : forall tp, extract_fields tp = wf_traceparent tp.
Proof.
  intros tp.
  assert (A : assembled tp -> extract_fields tp = wf_traceparent tp).
  { intros (a & b & c & d & tail & -> & La & Lb & Lc & Ld & Na & Nb & Nc & Nd & Ht).
    rewrite model_tp_of, spec_tp_of by assumption. reflexivity. }
  destruct (extract_fields tp) as [x|] eqn:M.
  - apply A. eapply model_accepts_assembled; eassumption.
  - destruct (wf_traceparent tp) as [y|] eqn:S; [|reflexivity].
    apply A. eapply spec_accepts_assembled; eassumption.
Qed.

Theorem extract_eq_spec : forall tp_raw ts_raw, extract tp_raw ts_raw = spec_extract tp_raw ts_raw.
Proof.
  intros tp_raw ts_raw. unfold extract, spec_extract, strip_ows.
  rewrite extract_fields_eq_wf.
  destruct (trim_ws tp_raw) as [|x tp]; reflexivity.
Qed.

(* soundness / completeness spelled out *)
Corollary extract_sound : forall tp_raw ts_raw c, extract tp_raw ts_raw = Some c ->
  exists t s f, wf_traceparent (strip_ows tp_raw) = Some (t, s, f) /\
                c = mk_ctx t s f true (from_header ts_raw).
Proof.
  intros tp_raw ts_raw c H. rewrite extract_eq_spec in H. unfold spec_extract in H.
  destruct (wf_traceparent (strip_ows tp_raw)) as [[[t s] f]|]; [|discriminate H].
  injection H as <-. now exists t, s, f.
Qed.

Corollary extract_complete : forall tp_raw ts_raw t s f, wf_traceparent (strip_ows tp_raw) = Some (t, s, f) ->
  extract tp_raw ts_raw = Some (mk_ctx t s f true (from_header ts_raw)).
Proof. intros tp_raw ts_raw t s f H. rewrite extract_eq_spec. unfold spec_extract. now rewrite H. Qed.

Corollary extract_invalid_is_none : forall tp_raw ts_raw, wf_traceparent (strip_ows tp_raw) = None ->
  extract tp_raw ts_raw = None.
Proof. intros tp_raw ts_raw H. rewrite extract_eq_spec. unfold spec_extract. now rewrite H. Qed.

(* what is installed is a valid remote context with 16/8-byte ids *)
Lemma wf_traceparent_valid : forall tp t s f, wf_traceparent tp = Some (t, s, f) ->
  length t = 16 /\ length s = 8 /\ all_zero t = false /\ all_zero s = false.
Proof.
  intros tp t s f H. destruct (spec_accepts_assembled _ _ H) as (a & b & c & d & tail & -> & La & Lb & Lc & Ld & Na & Nb & Nc & Nd & Ht).
  rewrite spec_tp_of in H by assumption. unfold decide_fields in H.
  destruct (negb (is_valid_hex a && is_valid_hex b && is_valid_hex c && is_valid_hex d)); [discriminate H|].
  cbv zeta in H.
  destruct (Byte.eqb (hd x00 (hex_pairs a)) xff); [discriminate H|].
  destruct (Byte.eqb (hd x00 (hex_pairs a)) x00 && negb (is_nil tail)); [discriminate H|].
  destruct (all_zero (hex_pairs b)) eqn:Zb; [discriminate H|].
  destruct (all_zero (hex_pairs c)) eqn:Zc; [discriminate H|].
  cbn [orb] in H. injection H as <- <- <-.
  pose proof (length_hex_pairs b) as Hb. rewrite Lb in Hb. specialize (Hb eq_refl).
  pose proof (length_hex_pairs c) as Hc. rewrite Lc in Hc. specialize (Hc eq_refl).
  repeat split; try assumption; lia.
Qed.

Theorem extract_installs_only_valid : forall tp_raw ts_raw c, extract tp_raw ts_raw = Some c ->
  ctx_valid c = true /\ c_remote c = true /\ length (c_tid c) = 16 /\ length (c_sid c) = 8 /\
  c_ts c = from_header ts_raw.
Proof.
  intros tp_raw ts_raw c H. apply extract_sound in H as (t & s & f & W & ->).
  apply wf_traceparent_valid in W as (Lt & Ls & Zt & Zs).
  unfold ctx_valid. cbn [c_tid c_sid c_remote c_ts]. rewrite Zt, Zs. repeat split; assumption.
Qed.

(* non-vacuity: a well-formed header, an upper-case one, a version-01 one with a suffix;
   and rejected ones (version ff, version 00 with a suffix, version 01 with a non-dash suffix,
   zero span id) *)
Definition ex_tp : bytes := bs "00-0af7651916cd43dd8448eb211c80319c-b7ad6b7169203331-01".
Example ex_accept : exists t s, wf_traceparent ex_tp = Some (t, s, x01).
Proof. vm_compute. eauto. Qed.
Example ex_accept_upper : exists t s, wf_traceparent (bs "00-0AF7651916CD43DD8448EB211C80319C-B7AD6B7169203331-0A") = Some (t, s, x0a).
Proof. vm_compute. eauto. Qed.
Example ex_accept_v01 : exists t s, wf_traceparent (bs "01-0af7651916cd43dd8448eb211c80319c-b7ad6b7169203331-01-what-ever") = Some (t, s, x01).
Proof. vm_compute. eauto. Qed.
Example ex_reject_ff : wf_traceparent (bs "ff-0af7651916cd43dd8448eb211c80319c-b7ad6b7169203331-01") = None.
Proof. vm_compute. reflexivity. Qed.
Example ex_reject_v00_suffix : wf_traceparent (bs "00-0af7651916cd43dd8448eb211c80319c-b7ad6b7169203331-01-x") = None.
Proof. vm_compute. reflexivity. Qed.
Example ex_reject_v01_glued : wf_traceparent (bs "01-0af7651916cd43dd8448eb211c80319c-b7ad6b7169203331-01x") = None.
Proof. vm_compute. reflexivity. Qed.
Example ex_reject_zero_sid : wf_traceparent (bs "00-0af7651916cd43dd8448eb211c80319c-0000000000000000-01") = None.
Proof. vm_compute. reflexivity. Qed.
Example ex_extract_ws : exists c, extract (bs "  " ++ ex_tp ++ bs (String (Ascii.ascii_of_nat 9) "")) (bs "a=1") = Some c /\ c_ts c = [(bs "a", bs "1")].
Proof. vm_compute. eauto. Qed.
