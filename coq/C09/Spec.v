(* SPEC for C09: the W3C trace-context level-1 grammar, written positionally and
   independently of how the code parses (no splitting, no intermediate fields).
   Boolean/option-valued so it can be run on the implementation's observations. *)
From V Require Export C09.Model.

Definition at_is (s : bytes) (i : nat) (c : byte) : bool :=
  match nth_error s i with Some b => Byte.eqb b c | None => false end.

Definition hexbyte (a b : byte) : option byte :=
  match hexval a, hexval b with
  | Some x, Some y => Some (n2b (16 * x + y)%N)
  | _, _ => None
  end.
Fixpoint unhex (s : bytes) : option bytes :=
  match s with
  | [] => Some []
  | a :: b :: s' => match hexbyte a b, unhex s' with
                    | Some x, Some r => Some (x :: r)
                    | _, _ => None
                    end
  | _ => None
  end.

(* traceparent = 2HEXDIG "-" 32HEXDIG "-" 16HEXDIG "-" 2HEXDIG [ "-" *any ]   (suffix only for version > 00),
   version <> ff, ids not all zero.  Returns the decoded (trace id, span id, flags). *)
Definition wf_traceparent (tp : bytes) : option (bytes * bytes * byte) :=
  if Nat.ltb (length tp) 55 then None
  else if negb (at_is tp 2 dash && at_is tp 35 dash && at_is tp 52 dash) then None
  else match unhex (substr tp 0 2), unhex (substr tp 3 32), unhex (substr tp 36 16), unhex (substr tp 53 2) with
       | Some [v], Some tid, Some sid, Some [fl] =>
           if Byte.eqb v xff then None
           else if Byte.eqb v x00 && negb (Nat.eqb (length tp) 55) then None
           else if negb (Nat.eqb (length tp) 55 || at_is tp 55 dash) then None
           else if all_zero tid || all_zero sid then None
           else Some (tid, sid, fl)
       | _, _, _, _ => None
       end.

(* optional whitespace around the header value *)
Definition strip_ows (s : bytes) : bytes := trim_ws s.

Definition spec_extract (tp_raw ts_raw : bytes) : option span_ctx :=
  match wf_traceparent (strip_ows tp_raw) with
  | Some (t, s, f) => Some (mk_ctx t s f true (from_header ts_raw))
  | None => None
  end.

(* the exact level-1 shape of an injected header: 55 bytes, "00-", lower-case hex only *)
Definition shape_ok (tp : bytes) : bool :=
  Nat.eqb (length tp) 55 &&
  at_is tp 0 zero_digit && at_is tp 1 zero_digit && at_is tp 2 dash && at_is tp 35 dash && at_is tp 52 dash &&
  forallb is_lower_hex (substr tp 3 32) && forallb is_lower_hex (substr tp 36 16) &&
  forallb is_lower_hex (substr tp 53 2).

Definition ctx_eqb (a b : span_ctx) : bool :=
  bytes_eqb (c_tid a) (c_tid b) && bytes_eqb (c_sid a) (c_sid b) && Byte.eqb (c_flags a) (c_flags b) &&
  Bool.eqb (c_remote a) (c_remote b) && bytes_eqb (to_header (c_ts a)) (to_header (c_ts b)).

(* What an Inject of [c] must have put into an empty carrier *)
Definition spec_inject_ok (c : span_ctx) (obs : option (bytes * option bytes)) : list tok :=
  if ctx_valid c then
    match obs with
    | None => fail "inject:valid_context_not_injected"
    | Some (tp, ts) =>
        check (shape_ok tp)
              (if forallb (fun b => negb (isupper b)) tp then "inject_shape:malformed" else "inject_shape:uppercase_hex") ++
        match wf_traceparent tp with
        | Some (t, s, f) =>
            check (bytes_eqb t (c_tid c) && bytes_eqb s (c_sid c)) "inject:ids_differ" ++
            check (Byte.eqb f (c_flags c)) "inject:flags_differ"
        | None => fail "inject:not_wellformed"
        end ++
        match ts with
        | None => check (is_nil (c_ts c)) "inject:tracestate_missing"
        | Some h => check (negb (is_nil (c_ts c)) && bytes_eqb h (to_header (c_ts c))) "inject:tracestate_differs"
        end
    end
  else match obs with None => [] | Some _ => fail "inject:invalid_context_injected" end.

(* observation of an Extract: the installed context, or None together with "the returned
   context is the caller's" *)
Definition spec_extract_ok (tp_raw ts_raw : bytes) (obs : option span_ctx) (same : bool) : list tok :=
  match spec_extract tp_raw ts_raw, obs with
  | Some c, Some c' => check (ctx_eqb c c') "extract:wrong_context"
  | Some _, None => fail "extract:wellformed_rejected"
  | None, Some _ => fail "extract:malformed_accepted"
  | None, None => check same "extract:context_changed_on_invalid"
  end.

(* round trip: what Extract must give after Inject of [c] into an empty carrier *)
Definition spec_roundtrip_ok (c : span_ctx) (obs : option span_ctx) (same : bool) : list tok :=
  if ctx_valid c then
    match obs with
    | Some c' => check (ctx_eqb (mk_ctx (c_tid c) (c_sid c) (c_flags c) true (c_ts c)) c') "roundtrip:context_differs"
    | None => fail "roundtrip:lost"
    end
  else match obs with None => check same "roundtrip:context_changed_on_invalid" | Some _ => fail "roundtrip:invalid_installed" end.
