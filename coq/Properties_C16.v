(* placeholder until C16/Proofs*.v land: nothing is claimed proved yet *)
From V Require Import C16.Glue.
Theorem c16_placeholder : True. Proof. exact I. Qed.
Print Assumptions c16_placeholder.
