(* C16 - B3 and Jaeger propagation: round-trip identity and the sampling decision.
   Every theorem is about the Gallina model coq/C16/Model.v (tied to /repo by ./check C16);
   ids are byte lists, [wf] contexts have a 16-byte trace id and an 8-byte span id (sizes read from /repo),
   [sampled_bit f] is the lowest bit of the flags byte, [decode_id n s] reads 1..2n hex digits left-padded with zeros. *)
From V Require Import C16.Glue C16.ProofsHex C16.Proofs C16.ProofsInto C16.ProofsSpec.

(* "For every valid span context, injecting with the B3 single-header ... propagator and extracting the result yields a
   remote context with the same trace id and span id and the same sampled decision, whatever other flag bits ..." *)
Theorem b3_single_roundtrip : forall c : span_ctx,
  length (c_tid c) = kTraceIdBytes /\ length (c_sid c) = kSpanIdBytes -> ctx_valid c = true ->
  exists c', b3_extract_carrier (b3_inject_single c) = Some c' /\
             c_tid c' = c_tid c /\ c_sid c' = c_sid c /\ sampled_bit (c_flags c') = sampled_bit (c_flags c) /\ c_remote c' = true.
Proof. exact b3_single_roundtrip_lemma. Qed.
Print Assumptions b3_single_roundtrip.

(* "... B3 multi-header ..." (refuted on the snapshot by F7; holds since c9c1ba8) *)
Theorem b3_multi_roundtrip : forall c : span_ctx,
  length (c_tid c) = kTraceIdBytes /\ length (c_sid c) = kSpanIdBytes -> ctx_valid c = true ->
  exists c', b3_extract_carrier (b3_inject_multi c) = Some c' /\
             c_tid c' = c_tid c /\ c_sid c' = c_sid c /\ sampled_bit (c_flags c') = sampled_bit (c_flags c) /\ c_remote c' = true.
Proof. exact b3_multi_roundtrip_lemma. Qed.
Print Assumptions b3_multi_roundtrip.

(* "... or Jaeger propagator ..." *)
Theorem jaeger_roundtrip : forall c : span_ctx,
  length (c_tid c) = kTraceIdBytes /\ length (c_sid c) = kSpanIdBytes -> ctx_valid c = true ->
  exists c', jaeger_extract_carrier (jaeger_inject c) = Some c' /\
             c_tid c' = c_tid c /\ c_sid c' = c_sid c /\ sampled_bit (c_flags c') = sampled_bit (c_flags c) /\ c_remote c' = true.
Proof. exact jaeger_roundtrip_lemma. Qed.
Print Assumptions jaeger_roundtrip.

(* the same round trip when Extract is handed ANY destination context (a list of bindings: whatever span - equal to the
   injected one, differing in a field, invalid, none - and whatever other values), for each propagator and for
   CompositePropagator{B3 single, B3 multi, Jaeger}: the span of the returned context is the injected identity marked
   remote, every other binding of the destination reads as before; an invalid context leaves the destination as it is *)
Theorem extract_into_any_context :
  (forall (x : xkind) (c : span_ctx) (dest : context),
     length (c_tid c) = kTraceIdBytes /\ length (c_sid c) = kSpanIdBytes -> ctx_valid c = true ->
     let out := roundtrip_into x c dest in
     c_tid (get_span out) = c_tid c /\ c_sid (get_span out) = c_sid c /\
     sampled_bit (c_flags (get_span out)) = sampled_bit (c_flags c) /\ c_remote (get_span out) = true /\
     (forall key, key <> k_span -> ctx_get key out = ctx_get key dest)) /\
  (forall (x : xkind) (c : span_ctx) (dest : context), ctx_valid c = false -> roundtrip_into x c dest = dest).
Proof. exact extract_into_any_context_lemma. Qed.
Print Assumptions extract_into_any_context.

(* an invalid context injects nothing; extraction from the untouched carrier returns the caller's context *)
Theorem invalid_not_injected : forall k c, ctx_valid c = false -> inject k c = [] /\ roundtrip k c = None.
Proof. exact invalid_not_injected_lemma. Qed.
Print Assumptions invalid_not_injected.

(* "Extraction accepts the documented variants (64-bit trace ids left-padded with zeros, B3 debug flag 'd' as sampled,
   missing sampling field as not sampled, B3 single header taking precedence over multi headers)":
   [doc_b3_sampling None = Some false], [doc_b3_sampling (Some "d") = Some true] by definition (Spec.v) *)
Theorem b3_accepts_variants :
  (forall t s smp par xt xs xf tid sid b,
     decode_id 16 t = Some tid -> decode_id 8 s = Some sid -> nonzero tid = true -> nonzero sid = true ->
     doc_b3_sampling smp = Some b ->
     exists c, b3_extract (build_b3 t s smp par) xt xs xf = Some c /\
               c_tid c = tid /\ c_sid c = sid /\ sampled_bit (c_flags c) = b /\ c_remote c = true) /\
  (forall xt xs xf tid sid,
     decode_id 16 xt = Some tid -> decode_id 8 xs = Some sid -> nonzero tid = true -> nonzero sid = true ->
     exists c, b3_extract [] xt xs xf = Some c /\
               c_tid c = tid /\ c_sid c = sid /\ c_remote c = true /\
               (sampled_bit (c_flags c) = true <-> (xf = [ch_1] \/ xf = [ch_d]))) /\
  (forall t tb, length t = 16 -> unhex t = Some tb -> decode_id 16 t = Some (zeros 8 ++ tb)) /\
  (forall b3 xt xs xf, b3 <> [] -> b3_extract b3 xt xs xf = b3_extract b3 [] [] []).
Proof. exact b3_accepts_variants_lemma. Qed.
Print Assumptions b3_accepts_variants.

(* the same for uber-trace-id = trace-id:span-id:parent:flags with variable-length ids and 1-2 digit flags *)
Theorem jaeger_accepts_variants :
  forall t s p f tid sid fl,
     decode_id 16 t = Some tid -> decode_id 8 s = Some sid -> decode_id 1 f = Some [fl] ->
     nonzero tid = true -> nonzero sid = true -> no_sep colon p = true ->
     exists c, jaeger_extract (build_jaeger t s p f) = Some c /\
               c_tid c = tid /\ c_sid c = sid /\ sampled_bit (c_flags c) = sampled_bit fl /\ c_remote c = true.
Proof. exact jaeger_accepts_variants_lemma. Qed.
Print Assumptions jaeger_accepts_variants.

(* "for arbitrary bytes ... either installs a context with non-zero ids or returns the caller's context unchanged":
   for every Context type, every SetSpan, every caller context and every byte string in every header *)
Theorem extract_total_identity_or_nonzero :
  forall (Ctx : Type) (set_span : Ctx -> span_ctx -> Ctx) (caller : Ctx),
  (forall b3 xt xs xf,
     b3_Extract set_span caller b3 xt xs xf = caller \/
     exists c, b3_Extract set_span caller b3 xt xs xf = set_span caller c /\
               nonzero (c_tid c) = true /\ nonzero (c_sid c) = true /\ length (c_tid c) = 16 /\ length (c_sid c) = 8 /\
               c_remote c = true) /\
  (forall h,
     jaeger_Extract set_span caller h = caller \/
     exists c, jaeger_Extract set_span caller h = set_span caller c /\
               nonzero (c_tid c) = true /\ nonzero (c_sid c) = true /\ length (c_tid c) = 16 /\ length (c_sid c) = 8 /\
               c_remote c = true).
Proof. exact extract_total_lemma. Qed.
Print Assumptions extract_total_identity_or_nonzero.

(* "installs a context": for every byte string in every header, an installed context carries exactly the left-zero-padded
   hexadecimal values of the header's id fields, located by the documented grammar ([b3_id_fields], [id_fields]: what
   precedes the first separator / lies between the first and the second) *)
Theorem extract_ids_from_header :
  (forall b3 xt xs xf c, b3_extract b3 xt xs xf = Some c ->
     decode_id 16 (fst (b3_id_fields b3 xt xs)) = Some (c_tid c) /\
     decode_id 8 (snd (b3_id_fields b3 xt xs)) = Some (c_sid c)) /\
  (forall h c, jaeger_extract h = Some c ->
     decode_id 16 (fst (id_fields colon h)) = Some (c_tid c) /\
     decode_id 8 (snd (id_fields colon h)) = Some (c_sid c)).
Proof. exact (conj b3_extract_ids_lemma jaeger_extract_ids_lemma). Qed.
Print Assumptions extract_ids_from_header.

(* hence an id field that is empty, not hexadecimal or longer than 32 / 16 digits never leads to an installed context *)
Theorem bad_id_field_not_installed :
  (forall b3 xt xs xf,
     decode_id 16 (fst (b3_id_fields b3 xt xs)) = None \/ decode_id 8 (snd (b3_id_fields b3 xt xs)) = None ->
     b3_extract b3 xt xs xf = None) /\
  (forall h,
     decode_id 16 (fst (id_fields colon h)) = None \/ decode_id 8 (snd (id_fields colon h)) = None ->
     jaeger_extract h = None).
Proof. exact bad_id_field_not_installed_lemma. Qed.
Print Assumptions bad_id_field_not_installed.

(* the executable SPEC clauses hold of the model's observation, for every input *)
Theorem model_meets_spec_b3 : forall b3 xt xs xf,
  spec_b3_extract b3 xt xs xf (option_map obs_of (b3_extract b3 xt xs xf)) true = [].
Proof. exact model_meets_spec_b3_lemma. Qed.
Print Assumptions model_meets_spec_b3.

Theorem model_meets_spec_jaeger : forall h,
  spec_jaeger_extract h (option_map obs_of (jaeger_extract h)) true = [].
Proof. exact model_meets_spec_jaeger_lemma. Qed.
Print Assumptions model_meets_spec_jaeger.

Theorem model_meets_spec_roundtrip : forall k c,
  length (c_tid c) = kTraceIdBytes /\ length (c_sid c) = kSpanIdBytes ->
  spec_roundtrip k c (option_map obs_of (roundtrip k c)) true = [].
Proof. exact model_meets_spec_roundtrip_lemma. Qed.
Print Assumptions model_meets_spec_roundtrip.

Theorem model_meets_spec_into : forall x c d n,
  length (c_tid c) = kTraceIdBytes /\ length (c_sid c) = kSpanIdBytes -> n <= 9 ->
  spec_roundtrip_into x c n
    (option_map obs_of (observed_span (make_dest d n) (roundtrip_into x c (make_dest d n)))) true
    (Z.of_nat (keys_intact n (roundtrip_into x c (make_dest d n)))) = [].
Proof. exact model_meets_spec_into_lemma. Qed.
Print Assumptions model_meets_spec_into.

(* concurrent Inject (scheduled PINJ cases): the sequential model - every thread on its own carrier - meets the per-thread clause *)
Theorem model_meets_spec_pinj : forall k cs,
  Forall (fun c => length (c_tid c) = kTraceIdBytes /\ length (c_sid c) = kSpanIdBytes) cs ->
  spec_pinj k cs (map ext_obs (map (roundtrip k) cs)) = [].
Proof. exact spec_pinj_model. Qed.
Print Assumptions model_meets_spec_pinj.

(* on the wire format: for every parsable case line, the SPEC run on the model's output line reports nothing *)
Theorem model_meets_spec : forall l, parse_case l <> None -> run_spec l (run_model l) = [].
Proof. exact model_meets_spec_lemma. Qed.
Print Assumptions model_meets_spec.

(* the digit table the model decodes with is detail::kHexDigits as it stands in /repo *)
Theorem hex_table_tie : forall c, hexint c = nth (N.to_nat (b2n c)) kHexDigits 0%Z.
Proof. exact hexint_is_kHexDigits. Qed.
Print Assumptions hex_table_tie.
