(* placeholder until C19/Proofs*.v land: nothing is claimed proved yet *)
From V Require Import C19.Glue.
Theorem c19_placeholder : True. Proof. exact I. Qed.
Print Assumptions c19_placeholder.
