(* C19 - Instrument names, views and scope rules select exactly what they describe.
   Every theorem is about the executable model coq/C19/Model.v (tied to the C++ by the differential run of ./check C19);
   constants (regex literals, the no-op logger's name) come from Gen/Consts.v, regenerated from /repo on every run. *)
From V Require Import C19.Glue C19.ProofsBase C19.ProofsNames C19.ProofsViews C19.ProofsScopes C19.ProofsLoggers C19.ProofsMeters C19.ProofsMeets C19.ProofsWire C19.ProofsLts.
Local Open Scope N_scope.

(* ---- "an instrument is created for exactly the names of the form letter followed by up to 254 letters, digits, _ . - /" -
   for every byte string, embedded NULs and non-terminated views included (the model matches the whole view) *)
Theorem name_valid_iff : forall s,
  validate_name s = true <->
  exists c t, s = c :: t /\ is_letter c = true /\ (length t <= 254)%nat /\ Forall (fun b => is_name_char b = true) t.
Proof. exact name_valid_iff_lemma. Qed.
Print Assumptions name_valid_iff.

Theorem name_classes : forall b,
  (is_letter b = true <-> (65 <= b2n b <= 90 \/ 97 <= b2n b <= 122)) /\
  (is_name_char b = true <->
   (65 <= b2n b <= 90 \/ 97 <= b2n b <= 122 \/ 48 <= b2n b <= 57 \/ b2n b = 95 \/ b2n b = 46 \/ b2n b = 45 \/ b2n b = 47)).
Proof. exact (fun b => conj (is_letter_iff b) (is_name_char_iff b)). Qed.
Print Assumptions name_classes.

(* ---- "and units of at most 63 ASCII characters" (bytes 0x01..0x7f) *)
Theorem unit_valid_iff : forall s,
  validate_unit s = true <-> (length s <= 63)%nat /\ Forall (fun b => 1 <= b2n b <= 127) s.
Proof. exact unit_valid_iff_lemma. Qed.
Print Assumptions unit_valid_iff.

(* ---- the hand-written validator variant (the #else branches of the same file, for compilers without a working std::regex)
   decides the same sets - except that it accepts a unit with an embedded NUL and reads name[0] of an empty name *)
Theorem handwritten_validators_agree : forall s,
  (s <> [] -> validate_name_nr s = Some (validate_name s)) /\ (has_nul s = false -> validate_unit_nr s = validate_unit s).
Proof. exact variants_agree_lemma. Qed.
Print Assumptions handwritten_validators_agree.

Theorem handwritten_validators_agree_refuted : validate_unit [x6d; x00] = false /\ validate_unit_nr [x6d; x00] = true.
Proof. exact variants_differ_on_nul. Qed.
Print Assumptions handwritten_validators_agree_refuted.

(* ---- "for any other name or unit the meter returns an inert instrument and no metric stream ever appears for it":
   in every provider configuration and every history, creating it is indistinguishable from not creating it *)
Theorem invalid_is_inert : forall r d vs keys ops1 ops2 i,
  validate_instrument (i_name i) (i_unit i) = false ->
  run_met r d vs keys (ops1 ++ MInst i :: ops2) = run_met r d vs keys (ops1 ++ ops2).
Proof. exact invalid_is_inert_lemma. Qed.
Print Assumptions invalid_is_inert.

(* ---- name patterns: the matcher decides the declarative meaning of the pattern *)
Theorem pattern_matcher_decides_meaning : forall p s, pmatch p s = true <-> PM p s.
Proof. exact pmatch_iff. Qed.
Print Assumptions pattern_matcher_decides_meaning.

(* ---- "a registered view applies to exactly the instruments whose type, name, unit and meter identity match its selectors".
   Full statement: forall v s i, view_applies v s i = spec_view_applies v s i.
   REFUTED by the faithful model (open finding F23: a meter without version / schema URL passes any version / schema selector);
   it holds whenever the meter declares what the selector asks for. *)
Theorem view_applies_iff_selectors_match_refuted : exists v s i, view_applies v s i = true /\ spec_view_applies v s i = false.
Proof. exact view_applies_refuted. Qed.
Print Assumptions view_applies_iff_selectors_match_refuted.

Theorem view_applies_iff_selectors_match_partial : forall v s i,
  (sc_ver s <> [] \/ v_mver v = []) -> (sc_schema s <> [] \/ v_mschema v = []) ->
  view_applies v s i = spec_view_applies v s i.
Proof. exact view_applies_partial. Qed.
Print Assumptions view_applies_iff_selectors_match_partial.

(* what the code decides, for all inputs (the second and third line from the end are the deviation) *)
Theorem view_applies_exactly : forall v s i, view_applies v s i = lenient_view_applies v s i.
Proof. exact view_applies_lenient. Qed.
Print Assumptions view_applies_exactly.

Theorem selectors_match_meaning : forall v s i,
  spec_view_applies v s i = true <->
  v_itype v = i_type i /\
  match v_sel v with NAll => True | NPat p => PM p (i_name i) end /\
  (v_unit v = [] \/ v_unit v = i_unit i) /\
  (v_mname v = [] \/ v_mname v = sc_name s) /\ (v_mver v = [] \/ v_mver v = sc_ver s) /\
  (v_mschema v = [] \/ v_mschema v = sc_schema s).
Proof. exact spec_view_applies_iff. Qed.
Print Assumptions selectors_match_meaning.

(* ---- "instruments matched by no view get the default aggregation for their type" *)
Theorem unmatched_gets_default_aggregation : forall vs s i keys,
  (forall v, In v vs -> view_applies v s i = false) ->
  map (fun v => stream_of v i s keys) (find_views vs s i) =
    [mk_stream s (i_name i) (i_desc i) (i_unit i) (i_type i) (i_vtype i) (default_agg (i_type i)) 1 (norm_keys keys)].
Proof. exact unmatched_default_lemma. Qed.
Print Assumptions unmatched_gets_default_aggregation.

Theorem default_aggregation_per_type : forall ity, ity <= 6 -> default_agg_ok ity (default_agg ity) = true.
Proof. exact default_agg_is_default. Qed.
Print Assumptions default_aggregation_per_type.

(* ---- "its name, description, aggregation and attribute filter - and nothing else - shape the exported stream" *)
Theorem view_shapes_nothing_else : forall v v' i s keys,
  v_name v = v_name v' -> v_desc v = v_desc v' -> v_agg v = v_agg v' -> v_filter v = v_filter v' ->
  stream_of v i s keys = stream_of v' i s keys.
Proof. exact stream_depends_only_on. Qed.
Print Assumptions view_shapes_nothing_else.

(* Full statement: forall v i s keys, v_agg v <= 4 -> i_type i <= 6 -> shaped v i s keys (stream_of v i s keys) = true.
   REFUTED by the faithful model (new open finding F22: the attribute filter is not applied to observable instruments). *)
Theorem view_shapes_exactly_name_desc_agg_filter_refuted : exists v i s keys,
  v_agg v <= 4 /\ i_type i <= 6 /\ shaped v i s keys (stream_of v i s keys) = false.
Proof. exact stream_shaped_refuted. Qed.
Print Assumptions view_shapes_exactly_name_desc_agg_filter_refuted.

Theorem view_shapes_exactly_name_desc_agg_filter_partial : forall v i s keys,
  v_agg v <= 4 -> i_type i <= 6 -> (is_async (i_type i) = false \/ v_filter v = None) ->
  shaped v i s keys (stream_of v i s keys) = true.
Proof. exact stream_shaped. Qed.
Print Assumptions view_shapes_exactly_name_desc_agg_filter_partial.

(* ---- every stream a view asks for is collected.  REFUTED (open finding F14): with two views on one instrument only the
   last view's stream is collected; the partial statement is [model_meets_spec] for metrics cases (at most one view applies) *)
Theorem every_view_stream_collected_refuted :
  map st_name (snd (run_met [] true f14_views [] f14_ops)) = [bs "v2"] /\
  complete_ok [] true f14_views [] f14_ops (snd (run_met [] true f14_views [] f14_ops)) = false /\
  spec_met [] true f14_views [] f14_ops (fst (run_met [] true f14_views [] f14_ops)) (snd (run_met [] true f14_views [] f14_ops))
    = fail "every_view_stream_collected:two_views".
Proof. exact ProofsMeets.every_view_stream_collected_refuted. Qed.
Print Assumptions every_view_stream_collected_refuted.

(* what is collected, for every well-formed operation sequence: one stream per instrument created with a valid name and unit on
   a meter whose scope the configurator enables - shaped by the LAST view FindViews hands out (the default view if none applies) *)
Theorem collected_streams_exactly : forall r d vs keys ops o, wf_met ops = true ->
  (In o (snd (run_met r d vs keys ops)) <->
   exists s i, In (s, i) (instrs_of None ops) /\ compute_config r d s = true /\
               validate_instrument (i_name i) (i_unit i) = true /\ o = final_stream vs keys s i).
Proof. exact collected_iff. Qed.
Print Assumptions collected_streams_exactly.

(* ---- ScopeConfigurator: conditions in order, first match wins, default otherwise *)
Theorem configurator_first_match : forall r d s,
  (exists pre c e post, r = pre ++ (c, e) :: post /\ (forall x, In x pre -> cond_match (fst x) s = false) /\
                        cond_match c s = true /\ compute_config r d s = e) \/
  ((forall x, In x r -> cond_match (fst x) s = false) /\ compute_config r d s = d).
Proof. exact configurator_first_match_lemma. Qed.
Print Assumptions configurator_first_match.

(* ---- "a tracer, meter or logger whose scope the configurator disables produces no telemetry while differently named scopes
   are unaffected": for every rule list and every request sequence, the exported spans / records are exactly those of the
   requests whose scope is enabled, in order, each under the scope it was requested with *)
Theorem disabled_scope_silent_others_unaffected : forall r d,
  (forall ops, ts_spans (run_tr r d ops) = filter (fun ns => compute_config r d (snd ns)) (number_from 0 ops)) /\
  (forall ops s, filter (fun ns => scope_eqb (snd ns) s) (ts_spans (run_tr r d ops)) =
                 if compute_config r d s then filter (fun ns => scope_eqb (snd ns) s) (number_from 0 ops) else []) /\
  (forall ops, map (fun rc => (r_call rc, r_scope rc)) (ls_recs (run_lg r d ops)) =
               map (fun nq => (fst nq, q_scope (snd nq)))
                   (filter (fun nq => compute_config r d (q_scope (snd nq))) (number_from 0 ops))).
Proof. exact (fun r d => conj (spans_exact r d) (conj (disabled_silent_others_unaffected_tr r d) (recs_scope_exact r d))). Qed.
Print Assumptions disabled_scope_silent_others_unaffected.

(* ---- "requesting the same name/version/schema/attributes returns the same tracer, meter or logger" (and a different one
   for a different identity): for every rule list and request sequence the index printed for a request is the position of
   the first equal request.  Loggers carry scope attributes (the only ABI-v1 entry point that does): "the same attributes"
   means the same finite map, i.e. the last value given for every key.  (F19, F19b, F21 repaired by 4364788 and 6b10326.) *)
Theorem same_identity_same_instance : forall r d,
  (forall ops, ts_out (run_tr r d ops) = expected_indices scope_eqb ops) /\
  (forall vs keys ops, fst (run_met r d vs keys ops) = expected_indices scope_eqb (gets_of ops)) /\
  (forall ops, ls_out (run_lg r d ops) = expected_indices lreq_eqb ops).
Proof.
  exact (fun r d => conj (fun ops => proj1 (nats_eqb_eq _ _) (tracers_ok_lemma r d ops))
                   (conj (fun vs keys ops => proj1 (nats_eqb_eq _ _) (meters_ok_lemma r d vs keys ops))
                         (lg_indices r d))).
Qed.
Print Assumptions same_identity_same_instance.

Theorem same_request_is_an_equivalence :
  (forall a, lreq_eqb a a = true) /\ (forall a b, lreq_eqb a b = true -> lreq_eqb b a = true) /\
  (forall a b c, lreq_eqb a b = true -> lreq_eqb b c = true -> lreq_eqb a c = true) /\
  (forall a b, lreq_eqb a b = true <->
     q_name a = q_name b /\ q_scope a = q_scope b /\ forall k, last_val k (q_attrs a) = last_val k (q_attrs b)).
Proof. exact (conj lreq_eqb_refl (conj lreq_eqb_sym (conj lreq_eqb_trans lreq_eqb_iff))). Qed.
Print Assumptions same_request_is_an_equivalence.

(* every exported log record carries the scope and the attributes it was requested with *)
Theorem requested_scope_exact : forall r d ops, recs_ok r d ops (ls_recs (run_lg r d ops)) = true.
Proof. exact recs_ok_lemma. Qed.
Print Assumptions requested_scope_exact.

(* AttributeMap::EqualTo decides "the same attributes" for all attribute lists, repeated keys included *)
Theorem equal_to_decides_same_attributes : forall a b, equal_to (amap_of a) b = attrs_equiv a b.
Proof. exact equal_to_equiv. Qed.
Print Assumptions equal_to_decides_same_attributes.

(* ---- the SPEC checker that ./check runs on the implementation's observations accepts the model's output:
   for every name, predicate, tracer case; for units without an embedded NUL (else the variants differ); for metrics cases under [met_good] (the excluded regions are exactly the
   open findings F14, F22, F23 and re-created instruments, C06); for every logger case *)
Theorem model_meets_spec : forall c, case_good c -> spec_on c = [].
Proof. exact model_meets_spec_lemma. Qed.
Print Assumptions model_meets_spec.

(* ---- concurrent requests to one provider (PRACE cases, run under the deterministic scheduler): the model is the sequential
   registry applied to the script - the answer must not depend on the interleaving - and the SPEC demands, for every pair of
   handles, same identity <=> same instance, the requested scope on every instance, enabled per configurator.  The model
   meets it; that the implementation does, for the explored schedules, is what ./check C19 tests (not a theorem about C++). *)
Theorem concurrent_requests_model_meets_spec : forall kind r d threads, prace_good kind threads ->
  spec_prace r d threads (prace_model kind r d threads) = [].
Proof. exact model_meets_spec_prace. Qed.
Print Assumptions concurrent_requests_model_meets_spec.

(* ---- ALL interleavings, at lock granularity (C19/Lts.v): any number of threads, each running a script of Get* requests on one
   provider; a call is PCall, PLock (the whole critical section: lookup, and if absent configurator + construction + push_back,
   i.e. one step of the sequential provider model), PUnlock, PRet; [accept] takes an event iff it is that thread's next one and
   the lock discipline / returned instance agree with the shared state; [reachable] = after any accepted trace.
   Outside: data races inside the critical section, weak memory, configurator code that re-enters the provider. *)
(* linearization: the registry is the sequential registry applied to the requests in lock-acquisition order *)
Theorem interleavings_linearize : forall kind r d scripts st, reqs_good kind (concat scripts) -> reachable kind r d scripts st ->
  p_prov st = pfold kind r d (p_lin st) /\ (forall q, In q (p_lin st) -> In q (concat scripts)).
Proof. exact lts_linearization. Qed.
Print Assumptions interleavings_linearize.

(* the registry never holds two instances that answer one request (name, version, schema URL, attributes as a map) *)
Theorem interleavings_never_duplicate : forall kind r d scripts st q, reqs_good kind (concat scripts) -> reachable kind r d scripts st ->
  (pmatching (p_prov st) q <= 1)%nat.
Proof. exact lts_registry_unique. Qed.
Print Assumptions interleavings_never_duplicate.

(* when every thread has finished, each call holds the instance numbered by the first request of its identity in lock order ... *)
Theorem interleavings_handles : forall kind r d scripts st, reqs_good kind (concat scripts) -> reachable kind r d scripts st ->
  complete st = true ->
  Forall2 (fun script th => th_done th = map (fun q => fp q (p_lin st)) script /\ forall q, In q script -> In q (p_lin st))
          scripts (p_thr st).
Proof. exact lts_handles. Qed.
Print Assumptions interleavings_handles.

(* ... so two calls - of whichever threads, in whatever order - hold the same instance iff their identities are equal, and the
   instance has the requested scope and attributes and is enabled exactly when the configurator says so *)
Theorem same_instance_iff_same_identity : forall q1 q2 lin, In q1 lin -> In q2 lin ->
  (fp q1 lin = fp q2 lin <-> lreq_eqb q1 q2 = true).
Proof. exact fp_iff. Qed.
Print Assumptions same_instance_iff_same_identity.

Theorem instance_is_the_requested_one : forall kind r d qs q, reqs_good kind qs -> In q qs ->
  exists en sc at', pentry (pfold kind r d qs) (fp q qs) = Some (en, sc, at') /\
                    en = compute_config r d (q_scope q) /\ sc = q_scope q /\ attrs_equiv at' (q_attrs q) = true.
Proof. exact pentry_spec. Qed.
Print Assumptions instance_is_the_requested_one.

(* hence: EVERY accepted complete trace of a PRACE case passes the SPEC that ./check evaluates on the implementation *)
Theorem accepted_trace_meets_spec_prace : forall kind r d threads tr st,
  prace_good kind threads ->
  accept_all r d (pst0 kind (prace_scripts threads)) tr 0 = inl st -> complete st = true ->
  exists hs, psummary st = Some hs /\ spec_prace r d threads hs = [].
Proof. exact accepted_trace_meets_spec_prace_lemma. Qed.
Print Assumptions accepted_trace_meets_spec_prace.

Theorem accepted_trace_wire : forall kind r d threads tr evs st,
  prace_good kind threads -> parse_ptrace tr = Some evs ->
  accept_all r d (pst0 kind (prace_scripts threads)) evs 0 = inl st -> complete st = true ->
  exists hs, run_prace_trace kind r d threads tr = flat_map print_hobs hs /\
             parse_prace_obs (flat_map print_hobs hs) = Some hs /\ spec_prace r d threads hs = [].
Proof. exact accepted_trace_wire_lemma. Qed.
Print Assumptions accepted_trace_wire.

(* the same, for the two extracted entry points as ./check composes them: the observation [run_model] prints parses back,
   and [run_spec] finds no failed clause in it *)
Theorem model_meets_spec_wire : forall l0 l c, split_trace l0 = (l, None) -> parse_case l = Some c -> case_good c ->
  run_spec l0 (run_model l0) = [].
Proof. exact model_meets_spec_wire_lemma. Qed.
Print Assumptions model_meets_spec_wire.
