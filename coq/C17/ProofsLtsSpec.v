(* C17 proofs, part 11: what the lock-granularity model guarantees for EVERY accepted history (every interleaving of any number
   of collecting and mutating threads), and that every accepted history passes the clauses of SpecRace.v. *)
From V Require Import C17.Lts C17.ProofsLts.
From Coq Require Import Lia.
Local Open Scope Z_scope.

Lemma flat_map_nil : forall A B (f : A -> list B) h, (forall x, In x h -> f x = []) -> flat_map f h = [].
Proof.
  intros A B f h. induction h as [|x h IH]; intros H; [reflexivity|]. cbn [flat_map].
  rewrite (H x (or_introl eq_refl)). cbn [app]. apply IH. intros y Hy. apply H. now right.
Qed.

(* ------------------------------------------------------------------ lock granularity, on states *)
(* at most one thread is between its lock and its unlock *)
Theorem lts_mutual_exclusion_lemma : forall l st u v,
  accepted l = Some st -> holds (l_thr st u) = true -> holds (l_thr st v) = true -> u = v.
Proof.
  intros l st u v H Hu Hv. pose proof (inv_owner _ _ (accepted_inv l st H)) as Ho.
  apply Ho in Hu. apply Ho in Hv. congruence.
Qed.

(* while a pass holds the lock no mutation takes effect: the list is the one the pass found when it took the lock, and the
   callbacks called so far followed by the ones still to be called are exactly that list, in registration order *)
Theorem lts_pass_sees_frozen_list_lemma : forall l st u r b snap called todo,
  accepted l = Some st -> l_thr st u = TPass r b snap called todo ->
  l_regs st = snap /\ map fst snap = called ++ map fst todo.
Proof.
  intros l st u r b snap called todo H Hu. destruct (inv_pass _ _ (accepted_inv l st H) u r b snap called todo Hu) as [H1 H2]. now split.
Qed.

(* a pass can release the lock only when every record of the list has been called: exactly once each, in order, nothing else *)
Theorem lts_pass_calls_every_record_once_lemma : forall l st st' u,
  accepted l = Some st -> accept st (EUnlock u) = Some st' ->
  forall r b snap called todo, l_thr st u = TPass r b snap called todo ->
  todo = [] /\ called = map fst (l_regs st) /\ l_regs st' = l_regs st.
Proof.
  intros l st st' u H Ha r b snap called todo Hu.
  destruct (inv_pass _ _ (accepted_inv l st H) u r b snap called todo Hu) as [H1 H2].
  cbn [accept] in Ha. rewrite Hu in Ha. destruct todo; [|discriminate]. injection Ha as <-. cbn [l_regs].
  split; [reflexivity|]. split; [|reflexivity]. rewrite <- H1, H2. cbn [map]. now rewrite app_nil_r.
Qed.

(* ------------------------------------------------------------------ histories: positions, prefixes *)
Lemma accepted_prefix : forall l1 l2 st, accepted (l1 ++ l2) = Some st -> exists st1, accepted l1 = Some st1 /\ run_lts st1 l2 = Some st.
Proof.
  intros l1 l2 st H. unfold accepted in *. rewrite run_lts_app in H. destruct (run_lts linit l1) as [st1|]; [|discriminate].
  now exists st1.
Qed.

Lemma split_at : forall A (l : list A) p e, nth_error l p = Some e -> l = firstn p l ++ e :: skipn (S p) l /\ length (firstn p l) = p.
Proof.
  intros A l. induction l as [|x l IH]; intros p e H; [destruct p; discriminate|].
  destruct p as [|p]; cbn in *.
  - injection H as <-. now split.
  - destruct (IH p e H) as [H1 H2]. split; [now rewrite <- H1|now rewrite H2].
Qed.

(* the state in which event number p was accepted *)
Lemma accepted_at : forall l st p e, accepted l = Some st -> nth_error l p = Some e ->
  exists st1 st2, accepted (firstn p l) = Some st1 /\ accept st1 e = Some st2 /\ length (firstn p l) = p /\
                  (forall j, (j < p)%nat -> nth_error (firstn p l) j = nth_error l j).
Proof.
  intros l st p e H Hp. destruct (split_at _ l p e Hp) as [Hs Hl]. rewrite Hs in H.
  apply accepted_prefix in H as (st1 & H1 & H2). cbn [run_lts] in H2. destruct (accept st1 e) as [st2|] eqn:Ea; [|discriminate].
  exists st1, st2. repeat split; try assumption. intros j Hj. rewrite Hs at 2. rewrite nth_error_app1 by lia. reflexivity.
Qed.

Lemma number_spec : forall (l : list ev) j e, In (j, e) (number l) <-> nth_error l j = Some e.
Proof.
  intros l. unfold number.
  assert (H : forall s j e, In (j, e) (combine (seq s (length l)) l) <-> (s <= j)%nat /\ nth_error l (j - s) = Some e).
  { induction l as [|x l IH]; intros s j e; cbn [length seq combine In].
    - split; [intros []|intros [_ H]; destruct (j - s)%nat; discriminate].
    - rewrite IH. split.
      + intros [H|[H1 H2]].
        * injection H as <- <-. split; [lia|]. now rewrite Nat.sub_diag.
        * split; [lia|]. replace (j - s)%nat with (Datatypes.S (j - Datatypes.S s)) by lia. exact H2.
      + intros [H1 H2]. destruct (Nat.eq_dec j s) as [->|Hne].
        * left. rewrite Nat.sub_diag in H2. cbn in H2. now injection H2 as <-.
        * right. split; [lia|]. replace (j - s)%nat with (Datatypes.S (j - Datatypes.S s)) in H2 by lia. exact H2. }
  intros j e. rewrite H. rewrite Nat.sub_0_r. split; [tauto|intros; split; [lia|assumption]].
Qed.

(* find on a numbered list returns the first position that qualifies *)
Lemma find_number : forall (f : pev -> bool) (l : list ev) s,
  match find f (combine (seq s (length l)) l) with
  | Some (d, e) => (s <= d)%nat /\ nth_error l (d - s) = Some e /\ f (d, e) = true /\
                   forall j e', (s <= j)%nat -> (j < d)%nat -> nth_error l (j - s) = Some e' -> f (j, e') = false
  | None => forall j e', (s <= j)%nat -> nth_error l (j - s) = Some e' -> f (j, e') = false
  end.
Proof.
  intros f. induction l as [|x l IH]; intros s; cbn [length seq combine find].
  - intros j e' _ H. destruct (j - s)%nat; discriminate.
  - destruct (f (s, x)) eqn:Ef.
    + split; [lia|]. rewrite Nat.sub_diag. split; [reflexivity|]. split; [exact Ef|]. intros j e' H1 H2. lia.
    + specialize (IH (Datatypes.S s)). destruct (find f (combine (seq (Datatypes.S s) (length l)) l)) as [[d e]|].
      * destruct IH as (H1 & H2 & H3 & H4). split; [lia|]. split; [replace (d - s)%nat with (Datatypes.S (d - Datatypes.S s)) by lia; exact H2|].
        split; [exact H3|]. intros j e' Hj1 Hj2 Hn. destruct (Nat.eq_dec j s) as [->|Hne].
        -- rewrite Nat.sub_diag in Hn. cbn in Hn. injection Hn as <-. exact Ef.
        -- apply (H4 j e'); try lia. replace (j - s)%nat with (Datatypes.S (j - Datatypes.S s)) in Hn by lia. exact Hn.
      * intros j e' Hj Hn. destruct (Nat.eq_dec j s) as [->|Hne].
        -- rewrite Nat.sub_diag in Hn. cbn in Hn. injection Hn as <-. exact Ef.
        -- apply (IH j e'); try lia. replace (j - s)%nat with (Datatypes.S (j - Datatypes.S s)) in Hn by lia. exact Hn.
Qed.

Lemma ret_of_some : forall l p f d, ret_of (number l) p f = Some d ->
  (p < d)%nat /\ (exists e, nth_error l d = Some e /\ f e = true) /\
  forall j e, (p < j)%nat -> (j < d)%nat -> nth_error l j = Some e -> f e = false.
Proof.
  intros l p f d H. unfold ret_of, number in H.
  pose proof (find_number (fun pe => Nat.ltb p (fst pe) && f (snd pe)) l O) as Hf.
  destruct (find _ _) as [[d' e]|]; [|discriminate]. cbn in H. injection H as <-.
  destruct Hf as (_ & H2 & H3 & H4). rewrite Nat.sub_0_r in H2. cbn [fst snd] in H3. apply andb_prop in H3 as [H31 H32].
  apply Nat.ltb_lt in H31. split; [exact H31|]. split; [now exists e|].
  intros j e' Hj1 Hj2 Hn. specialize (H4 j e' ltac:(lia) Hj2). rewrite Nat.sub_0_r in H4. specialize (H4 Hn). cbn [fst snd] in H4.
  apply Nat.ltb_lt in Hj1. now rewrite Hj1 in H4.
Qed.
Lemma ret_of_none : forall l p f, ret_of (number l) p f = None -> forall j e, (p < j)%nat -> nth_error l j = Some e -> f e = false.
Proof.
  intros l p f H j e Hj Hn. unfold ret_of, number in H.
  pose proof (find_number (fun pe => Nat.ltb p (fst pe) && f (snd pe)) l O) as Hf.
  destruct (find _ _) as [[d' e']|]; [discriminate|]. specialize (Hf j e ltac:(lia)). rewrite Nat.sub_0_r in Hf. specialize (Hf Hn).
  cbn [fst snd] in Hf. apply Nat.ltb_lt in Hj. now rewrite Hj in Hf.
Qed.

Lemma is_ra_true : forall t k e, is_ra t k e = true -> e = ERA t k.
Proof. intros t k e H. destruct e; try discriminate. cbn in H. apply andb_prop in H as [H1 H2]. apply Z.eqb_eq in H1. apply key_eqb_true in H2. now subst. Qed.
Lemma is_rr_true : forall t k e, is_rr t k e = true -> e = ERR t k.
Proof. intros t k e H. destruct e; try discriminate. cbn in H. apply andb_prop in H as [H1 H2]. apply Z.eqb_eq in H1. apply key_eqb_true in H2. now subst. Qed.
Lemma is_rx_true : forall t i e, is_rx t i e = true -> e = ERX t i.
Proof. intros t i e H. destruct e; try discriminate. cbn in H. apply andb_prop in H as [H1 H2]. apply Z.eqb_eq in H1. apply Nat.eqb_eq in H2. now subst. Qed.
Lemma is_done_true : forall t k e, is_done t k e = true -> e = EDone t k.
Proof. intros t k e H. destruct e; try discriminate. cbn in H. apply andb_prop in H as [H1 H2]. apply Z.eqb_eq in H1. apply key_eqb_true in H2. now subst. Qed.

Lemma adds_of_in : forall l b u k, nth_error l b = Some (EBA u k) -> In (b, ret_of (number l) b (is_ra u k)) (adds_of (number l) k).
Proof.
  intros l b u k H. unfold adds_of. apply in_flat_map. exists (b, EBA u k). split; [now apply number_spec|].
  cbn [fst snd]. rewrite key_eqb_rfl. now left.
Qed.
Lemma removals_of_inv : forall l k R, In R (removals_of (number l) k) ->
  (exists t', nth_error l (fst R) = Some (EBR t' k) /\ snd R = ret_of (number l) (fst R) (is_rr t' k)) \/
  (exists t', nth_error l (fst R) = Some (EBX t' (instr_of k)) /\ snd R = ret_of (number l) (fst R) (is_rx t' (instr_of k))).
Proof.
  intros l k R H. unfold removals_of in H. apply in_flat_map in H as ([p e] & Hin & HR). apply number_spec in Hin. cbn [fst snd] in HR.
  destruct e; try contradiction.
  - destruct (key_eqb k0 k) eqn:Ek; [|contradiction]. apply key_eqb_true in Ek. subst k0. destruct HR as [<-|[]]. left. exists t. now split.
  - destruct (Nat.eqb i (fst (fst k))) eqn:Ei; [|contradiction]. apply Nat.eqb_eq in Ei. subst i. destruct HR as [<-|[]]. right. exists t. now split.
Qed.

(* ------------------------------------------------------------------ the clauses of SpecRace on accepted histories *)
Section Accepted.
  Variables (l : list ev) (st : lstate).
  Hypothesis Hacc : accepted l = Some st.

  (* "a removed callback (or one whose instrument was destroyed) is never invoked again" *)
  Lemma accepted_never_called_after_removal : forall p t k, nth_error l p = Some (ECall t k) -> call_after_removal (number l) p k = false.
  Proof.
    intros p t k Hp. destruct (call_after_removal (number l) p k) eqn:Ebad; [|reflexivity]. exfalso.
    unfold call_after_removal in Ebad. apply existsb_exists in Ebad as (R & HR & Hc). apply andb_prop in Hc as [Hret Hall].
    rewrite forallb_forall in Hall.
    (* the state in which the call is accepted: the record is in the list *)
    destruct (accepted_at l st p _ Hacc Hp) as (st1 & st2 & H1 & Ha & Hlen & Hpre).
    pose proof (accepted_inv _ _ H1) as I. apply accept_trans in Ha. inversion Ha; subst.
    destruct (inv_pass _ _ I t r b snap called ((k, ab) :: todo) ltac:(assumption)) as [Hsnap Hkeys].
    assert (Hk : In k (map fst snap)) by (rewrite Hkeys; apply in_or_app; right; now left).
    apply in_map_iff in Hk as ([k' ab'] & Hk1 & Hk2). cbn [fst] in Hk1. subst k'. rewrite Hsnap in Hk2.
    destruct (inv_entry _ _ I k ab' Hk2) as (ua & Hua).
    assert (Hab : (ab' < p)%nat) by (apply nth_some_lt in Hua; lia).
    assert (Hua' : nth_error l ab' = Some (EBA ua k)) by (rewrite <- Hpre by exact Hab; exact Hua).
    (* this AddCallback must have returned before the removal began ... *)
    specialize (Hall _ (adds_of_in l ab' ua k Hua')). cbn [fst snd] in Hall.
    apply Nat.ltb_lt in Hab. rewrite Hab in Hall. cbn [negb orb] in Hall. apply Nat.ltb_lt in Hab.
    destruct (ret_of (number l) ab' (is_ra ua k)) as [ar|] eqn:Ear; [|discriminate]. cbn [lt_opt] in Hall. apply Nat.ltb_lt in Hall.
    destruct (ret_of_some _ _ _ _ Ear) as (Har1 & (ea & Hea & Hfa) & _). apply is_ra_true in Hfa. subst ea.
    (* ... and the removal has returned before the call *)
    destruct (snd R) as [rr|] eqn:Err; [|discriminate]. cbn [lt_opt] in Hret. apply Nat.ltb_lt in Hret.
    assert (Hin1 : forall j, (j < p)%nat -> nth_error (firstn p l) j = nth_error l j) by exact Hpre.
    destruct (removals_of_inv l k R HR) as [(t' & Hrb & Hrs)|(t' & Hrb & Hrs)]; rewrite Err in Hrs; symmetry in Hrs;
      destruct (ret_of_some _ _ _ _ Hrs) as (Hrr1 & (er & Her & Hfr) & _).
    - apply is_rr_true in Hfr. subst er.
      destruct (inv_rem _ _ I k ab' ua ar (fst R) t' Hk2 Hua) as [Hrem _]; try lia; [rewrite Hin1 by lia; exact Hea|].
      rewrite Hin1 in Hrem by lia. specialize (Hrem Hrb).
      destruct (inv_op _ _ I t' (fst R) (EBR t' k) (ERR t' k)) as [_ Hno]; [rewrite Hrem; reflexivity|].
      apply (Hno rr Hrr1). rewrite Hin1 by lia. exact Her.
    - apply is_rx_true in Hfr. subst er.
      destruct (inv_rem _ _ I k ab' ua ar (fst R) t' Hk2 Hua) as [_ Hdes]; try lia; [rewrite Hin1 by lia; exact Hea|].
      rewrite Hin1 in Hdes by lia. specialize (Hdes Hrb).
      destruct (inv_op _ _ I t' (fst R) (EBX t' (instr_of k)) (ERX t' (instr_of k))) as [_ Hno]; [rewrite Hdes; reflexivity|].
      apply (Hno rr Hrr1). rewrite Hin1 by lia. exact Her.
  Qed.

  Lemma accepted_check_removed : check_removed (number l) = [].
  Proof.
    unfold check_removed. apply flat_map_nil.
    intros [p e] Hin. apply number_spec in Hin. cbn [fst snd]. destruct e; try reflexivity.
    now rewrite (accepted_never_called_after_removal p t k Hin).
  Qed.

  (* no callback runs concurrently with itself - in fact no two callbacks of the registry ever overlap *)
  Lemma accepted_exclusive : forall p t k q t' k', nth_error l p = Some (ECall t k) -> nth_error l q = Some (ECall t' k') ->
    (p < q)%nat -> t' <> t -> exists j, (p < j)%nat /\ (j < q)%nat /\ nth_error l j = Some (EDone t k).
  Proof.
    intros p t k q t' k' Hp Hq Hlt Hne.
    destruct (accepted_at l st q _ Hacc Hq) as (st1 & st2 & H1 & Ha & Hlen & Hpre).
    pose proof (accepted_inv _ _ H1) as I. apply accept_trans in Ha. inversion Ha; subst.
    assert (Ho' : l_owner st1 = Some t') by (apply (inv_owner _ _ I); match goal with Hx : l_thr st1 t' = _ |- _ => rewrite Hx end; reflexivity).
    assert (Hp' : nth_error (firstn q l) p = Some (ECall t k)) by (rewrite Hpre by exact Hlt; exact Hp).
    destruct (inv_calls _ _ I p t k Hp') as [(r0 & b0 & snap0 & called0 & todo0 & Hs)|(j & Hj & Hx)].
    - exfalso. assert (Ho : l_owner st1 = Some t) by (apply (inv_owner _ _ I); rewrite Hs; reflexivity). congruence.
    - assert (Hjq : (j < q)%nat) by (apply nth_some_lt in Hx; lia). exists j. split; [exact Hj|]. split; [exact Hjq|]. now rewrite <- Hpre.
  Qed.

  Lemma accepted_check_exclusive : check_exclusive (number l) = [].
  Proof.
    unfold check_exclusive. apply flat_map_nil.
    intros [p e] Hin. apply number_spec in Hin. cbn [fst snd]. destruct e; try reflexivity. cbn zeta.
    match goal with |- check (negb ?b) _ = [] => destruct b eqn:Eb; [|reflexivity] end. exfalso.
    apply existsb_exists in Eb as ([q e'] & Hq & Hc). apply number_spec in Hq. cbn [fst snd] in Hc. destruct e'; try discriminate.
    apply andb_prop in Hc as [Hc Hd]. apply andb_prop in Hc as [Hc Hpq]. apply andb_prop in Hc as [Hne _].
    apply Nat.ltb_lt in Hpq. apply Nat.ltb_lt in Hd.
    assert (Hne' : t0 <> t) by (intros ->; now rewrite Z.eqb_refl in Hne).
    destruct (accepted_exclusive p t k q t0 k0 Hin Hq Hpq Hne') as (j & Hj1 & Hj2 & Hj3).
    destruct (ret_of (number l) p (is_done t k)) as [d|] eqn:Ed.
    - destruct (ret_of_some _ _ _ _ Ed) as (_ & _ & Hmin). specialize (Hmin j (EDone t k) Hj1 ltac:(lia) Hj3).
      cbn in Hmin. now rewrite Z.eqb_refl, key_eqb_rfl in Hmin.
    - pose proof (ret_of_none _ _ _ Ed j (EDone t k) Hj1 Hj3) as Hx. cbn in Hx. now rewrite Z.eqb_refl, key_eqb_rfl in Hx.
  Qed.
End Accepted.

(* every accepted history passes these clauses of SpecRace.v.  Full statement (see ProofsLtsCount.v for the third clause):
     accepted l = Some st -> check_removed (number l) ++ check_collections (number l) ++ check_exclusive (number l) = [] *)
Theorem accepted_trace_meets_spec_race_partial_lemma : forall l st,
  accepted l = Some st -> check_removed (number l) = [] /\ check_exclusive (number l) = [].
Proof. intros l st H. split; [now apply (accepted_check_removed l st)|now apply (accepted_check_exclusive l st)]. Qed.

(* ------------------------------------------------------------------ non-vacuity *)
Definition xk0 : key := (0%nat, 0, 0).
Definition xk1 : key := (1%nat, 1, 1).
Definition lts_setup : list ev :=
  [EBA (-1) xk0; ELock (-1); EUnlock (-1); ERA (-1) xk0; EBA (-1) xk1; ELock (-1); EUnlock (-1); ERA (-1) xk1].
(* thread 1 asks for the removal of xk1 while thread 0's pass is inside the first callback: it gets the lock only after the
   pass has released it, so its RemoveCallback returns after the pass - in which xk1 was still called once *)
Definition lts_waits : list ev :=
  lts_setup ++ [EBC 0 0; ELock 0; ECall 0 xk0; EBR 1 xk1; EDone 0 xk0; ECall 0 xk1; EDone 0 xk1; EUnlock 0; ELock 1; EUnlock 1; EEC 0 0; ERR 1 xk1;
                EBC 2 1; ELock 2; ECall 2 xk0; EDone 2 xk0; EUnlock 2; EEC 2 1].
(* the removal takes the lock in the middle of the pass *)
Definition lts_steals : list ev :=
  lts_setup ++ [EBC 0 0; ELock 0; ECall 0 xk0; EBR 1 xk1; ELock 1; EUnlock 1; ERR 1 xk1; EDone 0 xk0; ECall 0 xk1].
(* the pass releases the lock before it has called every record (it works on a copy): the seeded change C17_e *)
Definition lts_copy : list ev :=
  lts_setup ++ [EBC 0 0; ELock 0; EUnlock 0; ECall 0 xk0; EBR 1 xk1; ELock 1; EUnlock 1; ERR 1 xk1; EDone 0 xk0; ECall 0 xk1].
(* a removed callback called in a later pass *)
Definition lts_stale : list ev :=
  lts_setup ++ [EBR 1 xk1; ELock 1; EUnlock 1; ERR 1 xk1; EBC 0 0; ELock 0; ECall 0 xk0; EDone 0 xk0; ECall 0 xk1].

Lemma lts_examples :
  first_rejected linit lts_waits = None /\
  (check_removed (number lts_waits) ++ check_collections (number lts_waits) ++ check_exclusive (number lts_waits) = []) /\
  first_rejected linit lts_steals = Some 12%nat /\
  first_rejected linit lts_copy = Some 10%nat /\
  first_rejected linit lts_stale = Some 16%nat /\
  check_removed (number lts_copy) = fail "removed_never_invoked:after_removal_returned".
Proof. repeat split; vm_compute; reflexivity. Qed.
