(* C17 proofs, part 4: last-value instruments (observable gauges and the synchronous last-value path) under a clock that
   strictly increases in call order.  One instrument's storage against the abstract state (latest value per attribute set,
   per reader what was reported since it last collected). *)
From V Require Import C17.Glue C17.ProofsBase C17.ProofsSum.
From Coq Require Import Lia ZifyBool ZifyNat.
Local Open Scope Z_scope.

Lemma top_snoc_none : forall l, top (l ++ [None]) = top l.
Proof. intros. rewrite top_app. reflexivity. Qed.
Lemma top_snoc_some : forall l x, top (l ++ [Some x]) = Some x.
Proof. intros. rewrite top_app. reflexivity. Qed.
Lemma top_in : forall l x, top l = Some x -> In (Some x) l.
Proof.
  induction l as [|o l IH]; intros x H; cbn [top] in H; [discriminate|].
  destruct (top l) as [y|] eqn:E; [injection H as <-; right; now apply IH|]. subst o. now left.
Qed.
Lemma bounded_app : forall T l1 l2, bounded T (l1 ++ l2) <-> bounded T l1 /\ bounded T l2.
Proof.
  intros T l1 l2. unfold bounded. split.
  - intros H. split; intros x Hx; apply H; apply in_or_app; [now left|now right].
  - intros [H1 H2] x Hx. apply in_app_or in Hx as [Hx|Hx]; [now apply H1|now apply H2].
Qed.
Lemma bounded_weaken : forall T T' l, T <= T' -> bounded T l -> bounded T' l.
Proof. intros T T' l Hle H x Hx. specialize (H x Hx). lia. Qed.
Lemma bounded_none : forall T, bounded T [None].
Proof. intros T x [H|[]]. discriminate. Qed.
Lemma bounded_nil : forall T, bounded T [].
Proof. intros T x []. Qed.

(* appending a sample newer than everything keeps the sequence increasing *)
Lemma sorted_snoc : forall l T x, 0 <= T -> sorted_from 0 l -> bounded T l -> T < a_ts x -> a_valid x = true ->
  sorted_from 0 (l ++ [Some x]).
Proof.
  intros l T x HT Hs Hb Hx Hv. apply sorted_from_app. split; [exact Hs|]. cbn [sorted_from].
  destruct (top l) as [y|] eqn:E; repeat split; try assumption; try lia.
  apply top_in in E. specialize (Hb y E). lia.
Qed.
Lemma sorted_front : forall l o lo, sorted_from lo (l ++ [o]) -> sorted_from lo l.
Proof. intros l o lo H. apply sorted_from_app in H. tauto. Qed.

Section LastInstrument.
  Variables (c : cfg) (i : nat).
  Let k := kind_of c i.
  Hypothesis Hk : is_last k = true.

  (* ---------------------------------------------------------------- Observe on a gauge *)
  Lemma obs_last : forall w step, 0 < step -> forall cbs clk S,
    (forall a x, st_cum S a = Some x -> a_ts x <= clk) ->
    (forall a x, st_delta S a = Some x -> a_ts x <= clk) ->
    st_unrep (obs_i c i w cbs clk step S) = st_unrep S /\ st_last (obs_i c i w cbs clk step S) = st_last S /\
    (forall a x, st_cum (obs_i c i w cbs clk step S) a = Some x -> a_ts x <= clk + step * Z.of_nat (length cbs)) /\
    (forall a x, st_delta (obs_i c i w cbs clk step S) a = Some x -> a_ts x <= clk + step * Z.of_nat (length cbs)) /\
    forall a, In a attrs ->
      match last_report (reports cbs w i) a with
      | Some v => exists t, clk < t <= clk + step * Z.of_nat (length cbs) /\
                            st_delta (obs_i c i w cbs clk step S) a = Some (mk_agg v t true)
      | None => st_delta (obs_i c i w cbs clk step S) a = st_delta S a
      end.
  Proof.
    intros w step Hstep. induction cbs as [|[[j f] s] cbs IH]; intros clk S Hb Hbd.
    - cbn [obs_i reports flat_map last_report length]. split; [reflexivity|split; [reflexivity|split; [|split]]].
      + intros a x H. specialize (Hb a x H). lia.
      + intros a x H. specialize (Hbd a x H). lia.
      + intros a _. reflexivity.
    - cbn [obs_i length]. rewrite reports_cons. cbn [fst snd].
      assert (Hlen : clk + step + step * Z.of_nat (length cbs) = clk + step * Z.of_nat (Datatypes.S (length cbs))) by lia.
      destruct (Nat.eqb j i) eqn:Ej.
      + set (S1 := record (kind_of c i) (clk + step) (w s) S).
        assert (Hnew : forall a v, w s a = Some v -> st_delta S1 a = Some (mk_agg v (clk + step) true)).
        { intros a v Ew. unfold S1. cbn [record st_delta]. rewrite Ew. fold k. rewrite (agg_new_last k Hk). f_equal.
          destruct (st_cum S a) as [prev|] eqn:Ep; [|reflexivity].
          assert (Hd : diff k prev (mk_agg v (clk + step) true) = mk_agg v (clk + step) true).
          { rewrite (diff_last k Hk). unfold lv_later. specialize (Hb a prev Ep). cbn [a_ts].
            destruct (a_ts prev >? clk + step) eqn:E; [lia|reflexivity]. }
          rewrite Hd. destruct (st_delta S a) as [p|] eqn:Epd; [|reflexivity].
          unfold merge. rewrite Hk. unfold lv_later. specialize (Hbd a p Epd). cbn [a_ts].
          destruct (a_ts p >? clk + step) eqn:E; [lia|reflexivity]. }
        assert (Hb1 : forall a x, st_cum S1 a = Some x -> a_ts x <= clk + step).
        { intros a x. unfold S1. cbn [record st_cum]. destruct (w s a).
          - intros H. injection H as <-. fold k. rewrite (agg_new_last k Hk). cbn [a_ts]. lia.
          - intros H. specialize (Hb a x H). lia. }
        assert (Hbd1 : forall a x, st_delta S1 a = Some x -> a_ts x <= clk + step).
        { intros a x H. destruct (w s a) as [v|] eqn:Ew.
          - rewrite (Hnew a v Ew) in H. injection H as <-. cbn [a_ts]. lia.
          - unfold S1 in H. cbn [record st_delta] in H. rewrite Ew in H. specialize (Hbd a x H). lia. }
        destruct (IH (clk + step) S1 Hb1 Hbd1) as (Hu & Hl & Hc & Hcd & Ha). rewrite Hu, Hl.
        split; [reflexivity|split; [reflexivity|split; [|split]]].
        * intros a x H. specialize (Hc a x H). lia.
        * intros a x H. specialize (Hcd a x H). lia.
        * intros a Hin. specialize (Ha a Hin). rewrite last_report_app, last_report_meas by exact Hin.
          destruct (last_report (reports cbs w i) a) as [v|].
          -- destruct Ha as (t & Ht & Hd). exists t. split; [lia|exact Hd].
          -- rewrite Ha. destruct (w s a) as [v|] eqn:Ew.
             ++ exists (clk + step). split; [nia|]. now apply Hnew.
             ++ unfold S1. cbn [record st_delta]. now rewrite Ew.
      + cbn [app]. assert (Hb1 : forall a x, st_cum S a = Some x -> a_ts x <= clk + step) by (intros a x H; specialize (Hb a x H); lia).
        assert (Hbd1 : forall a x, st_delta S a = Some x -> a_ts x <= clk + step) by (intros a x H; specialize (Hbd a x H); lia).
        destruct (IH (clk + step) S Hb1 Hbd1) as (Hu & Hl & Hc & Hcd & Ha).
        split; [exact Hu|split; [exact Hl|split; [|split]]].
        * intros a x H. specialize (Hc a x H). lia.
        * intros a x H. specialize (Hcd a x H). lia.
        * intros a Hin. specialize (Ha a Hin). destruct (last_report (reports cbs w i) a) as [v|]; [|exact Ha].
          destruct Ha as (t & Ht & Hd). exists t. split; [lia|exact Hd].
  Qed.

  (* ---------------------------------------------------------------- the sample sequence of reader r for attribute set a *)
  Definition seqU (S : storage) (r : nat) (a : Z) : list (option agg) := map (fun m => m a) (UL S r).
  Definition front (S : storage) (r : nat) (a : Z) : list (option agg) :=
    if fastcfg c then [] else (if cumulative c r then [olast S r a] else []) ++ seqU S r a.
  Definition smp (S : storage) (r : nat) (a : Z) : list (option agg) := front S r a ++ [st_delta S a].

  Definition rel (lat : Z -> option Z) (tch : nat -> Z -> bool) (r : nat) (a : Z) (t : option agg) : Prop :=
    if cumulative c r then option_map a_val t = lat a
    else is_none t = negb (tch r a) /\ forall x, t = Some x -> lat a = Some (a_val x).

  Record LastInv (T : Z) (S : storage) (lat : Z -> option Z) (tch : nat -> Z -> bool) : Prop := {
    li_cum : forall a x, st_cum S a = Some x -> a_ts x <= T;
    li_delta : forall a x, st_delta S a = Some x -> a_ts x <= T;
    li_tl : forall r a, In a attrs -> tch r a = true -> lat a <> None;
    li_none : forall r, st_unrep S r = None -> st_last S r = None;
    li_seq : forall r, (r < nreaders c)%nat -> forall a, In a attrs ->
      sorted_from 0 (smp S r a) /\ bounded T (smp S r a) /\ rel lat tch r a (top (smp S r a))
  }.

  Lemma LastInv_init : forall T, LastInv T storage0 (fun _ => None) (fun _ _ => false).
  Proof.
    intros T. constructor; cbn; intros; try reflexivity; try discriminate.
    clear H0. unfold smp, front, seqU, UL, olast, rel. cbn [storage0 st_unrep st_last st_delta unrep_list map]. unfold aempty.
    assert (Hb : forall l, (forall o, In o l -> o = None) -> bounded T l).
    { intros l Hl x Hx. apply Hl in Hx. discriminate. }
    destruct (fastcfg c), (cumulative c r); cbn [app top sorted_from option_map is_none negb];
      (split; [exact I|split; [apply Hb; intros o Ho; cbn in Ho; intuition congruence|]]); try reflexivity; (split; [reflexivity|discriminate]).
  Qed.

  Lemma LastInv_time : forall T T' S lat tch, T <= T' -> LastInv T S lat tch -> LastInv T' S lat tch.
  Proof.
    intros T T' S lat tch Hle [H1 H1d H2 H3 H4]. constructor; try assumption.
    - intros a x H. specialize (H1 a x H). lia.
    - intros a x H. specialize (H1d a x H). lia.
    - intros r Hr a Hin. destruct (H4 r Hr a Hin) as (Ha & Hb & Hc). repeat split; try assumption. now apply (bounded_weaken T).
  Qed.

  (* replacing the pending entry of attribute set a by a sample newer than everything *)
  Lemma seq_new_sample : forall T S S' lat tch r a v t,
    0 <= T -> LastInv T S lat tch -> (r < nreaders c)%nat -> In a attrs ->
    st_unrep S' = st_unrep S -> st_last S' = st_last S -> st_delta S' a = Some (mk_agg v t true) -> T < t ->
    sorted_from 0 (smp S' r a) /\ top (smp S' r a) = Some (mk_agg v t true) /\ forall T', t <= T' -> T <= T' -> bounded T' (smp S' r a).
  Proof.
    intros T S S' lat tch r a v t HT Inv Hr Hin Hu Hl Hd Ht.
    destruct (li_seq _ _ _ _ Inv r Hr a Hin) as (Hs & Hb & _).
    assert (Hf : front S' r a = front S r a).
    { unfold front, seqU, UL, olast. now rewrite Hu, Hl. }
    unfold smp in *. rewrite Hf, Hd. apply bounded_app in Hb as [Hb1 _]. repeat split.
    - apply (sorted_snoc _ T); try assumption; [now apply sorted_front in Hs|reflexivity].
    - apply top_snoc_some.
    - intros T' H1 H2. apply bounded_app. split; [now apply (bounded_weaken T)|]. intros x [Hx|[]]. injection Hx as <-. cbn [a_ts]. lia.
  Qed.

  Lemma seq_same : forall S S' r a,
    st_unrep S' = st_unrep S -> st_last S' = st_last S -> st_delta S' a = st_delta S a -> smp S' r a = smp S r a.
  Proof. intros S S' r a Hu Hl Hd. unfold smp, front, seqU, UL, olast. now rewrite Hu, Hl, Hd. Qed.

  (* ---------------------------------------------------------------- Observe keeps the invariant (observable gauge) *)
  Lemma last_observe : forall w step cbs T S lat tch,
    0 < step -> 0 <= T -> LastInv T S lat tch ->
    let rep := reports cbs w i in
    LastInv (T + step * Z.of_nat (length cbs)) (obs_i c i w cbs T step S) (lat_after rep lat) (tch_after rep tch).
  Proof.
    intros w step cbs T S lat tch Hstep HT Inv rep.
    destruct (obs_last w step Hstep cbs T S (li_cum _ _ _ _ Inv) (li_delta _ _ _ _ Inv)) as (Hu & Hl & Hc & Hcd & Ha). fold rep in Ha.
    set (S1 := obs_i c i w cbs T step S) in *. set (T1 := T + step * Z.of_nat (length cbs)) in *.
    assert (HT1 : T <= T1) by (unfold T1; nia).
    constructor.
    - exact Hc.
    - exact Hcd.
    - intros r a Hin. unfold tch_after, lat_after. destruct (last_report rep a); cbn [is_none]; [discriminate|].
      now apply (li_tl _ _ _ _ Inv).
    - intros r. rewrite Hu, Hl. apply (li_none _ _ _ _ Inv).
    - intros r Hr a Hin. specialize (Ha a Hin). unfold rel, lat_after, tch_after.
      destruct (last_report rep a) as [v|] eqn:El.
      + destruct Ha as (t & Ht & Hd).
        destruct (seq_new_sample T S S1 lat tch r a v t HT Inv Hr Hin Hu Hl Hd (proj1 Ht)) as (Hs & Htop & Hb).
        split; [exact Hs|]. split; [apply Hb; lia|]. rewrite Htop. cbn [is_none option_map a_val negb].
        destruct (cumulative c r); [reflexivity|]. split; [reflexivity|]. intros x Hx. injection Hx as <-. reflexivity.
      + rewrite (seq_same S S1 r a Hu Hl Ha). destruct (li_seq _ _ _ _ Inv r Hr a Hin) as (Hs & Hb & Hrel).
        split; [exact Hs|]. split; [now apply (bounded_weaken T)|]. cbn [is_none]. exact Hrel.
  Qed.

  (* a synchronous Record *)
  Lemma last_record : forall T S lat tch step a v,
    0 < step -> 0 <= T -> LastInv T S lat tch ->
    LastInv (T + step) (record_sync (T + step) a v S) (lat_after [(a, v)] lat) (tch_after [(a, v)] tch).
  Proof.
    intros T S lat tch step a v Hstep HT Inv.
    set (S1 := record_sync (T + step) a v S).
    assert (Hlr : forall b, last_report [(a, v)] b = if a =? b then Some v else None) by reflexivity.
    constructor.
    - intros b x H. unfold S1 in H. cbn [record_sync st_cum] in H. pose proof (li_cum _ _ _ _ Inv b x H). lia.
    - intros b x H. unfold S1 in H. cbn [record_sync st_delta] in H. unfold aset in H. destruct (b =? a).
      + injection H as <-. unfold lv_aggregate. cbn [a_ts]. lia.
      + pose proof (li_delta _ _ _ _ Inv b x H). lia.
    - intros r b Hin. unfold tch_after, lat_after. rewrite Hlr. destruct (a =? b); cbn [is_none]; [discriminate|].
      now apply (li_tl _ _ _ _ Inv).
    - intros r. unfold S1. cbn [record_sync st_unrep st_last]. apply (li_none _ _ _ _ Inv).
    - intros r Hr b Hin. unfold rel, lat_after, tch_after. rewrite Hlr. destruct (a =? b) eqn:Eab.
      + apply Z.eqb_eq in Eab. subst b.
        assert (Hd : st_delta S1 a = Some (mk_agg v (T + step) true)).
        { unfold S1. cbn [record_sync st_delta]. unfold aset. now rewrite Z.eqb_refl. }
        destruct (seq_new_sample T S S1 lat tch r a v (T + step) HT Inv Hr Hin eq_refl eq_refl Hd ltac:(lia)) as (Hs & Htop & Hb).
        split; [exact Hs|]. split; [apply Hb; lia|]. rewrite Htop. cbn [is_none option_map a_val negb].
        destruct (cumulative c r); [reflexivity|]. split; [reflexivity|]. intros x Hx. injection Hx as <-. reflexivity.
      + assert (Hd : st_delta S1 b = st_delta S b).
        { unfold S1. cbn [record_sync st_delta]. unfold aset. rewrite Z.eqb_sym, Eab. reflexivity. }
        rewrite (seq_same S S1 r b eq_refl eq_refl Hd). destruct (li_seq _ _ _ _ Inv r Hr b Hin) as (Hs & Hb & Hrel).
        split; [exact Hs|]. split; [apply (bounded_weaken T); [lia|exact Hb]|]. cbn [is_none]. exact Hrel.
  Qed.

  (* ---------------------------------------------------------------- buildMetrics on the merge path, read per attribute set *)
  Lemma build_multi_last : forall n r cumul D S,
    Nat.eqb n 1 && negb cumul = false ->
    let S2 := fst (build k n r cumul D S) in
    let out := snd (build k n r cumul D S) in
    st_cum S2 = st_cum S /\ st_delta S2 = st_delta S /\
    (forall r', r' <> r -> st_last S2 r' = st_last S r') /\
    (forall r', (st_unrep S r' = None -> st_last S r' = None) -> st_unrep S2 r' = None -> st_last S2 r' = None) /\
    (forall r' a, In a attrs -> r' <> r ->
       map (fun m => m a) (UL S2 r') = map (fun m => m a) (UL S r') ++ [D a] \/
       (D a = None /\ map (fun m => m a) (UL S2 r') = map (fun m => m a) (UL S r'))) /\
    match out with
    | None => S2 = S /\ st_unrep S r = None /\ (forall a, In a attrs -> D a = None)
    | Some res =>
        st_last S2 r = Some res /\ st_unrep S2 r = Some [] /\
        forall a, In a attrs ->
          let full := (if cumul then [olast S r a] else []) ++ map (fun m => m a) (UL S r) ++ [D a] in
          sorted_from 0 full -> res a = top full
    end.
  Proof.
    intros n r cumul D S Hpath. unfold build. rewrite Hpath.
    set (unrep1 := if a_is_empty D then st_unrep S else fun c0 => Some (unrep_list (st_unrep S c0) ++ [D])).
    assert (Hpush : forall r' a, In a attrs ->
              map (fun m => m a) (unrep_list (unrep1 r')) = map (fun m => m a) (UL S r') ++ [D a] \/
              (D a = None /\ map (fun m => m a) (unrep_list (unrep1 r')) = map (fun m => m a) (UL S r'))).
    { intros r' a Hin. unfold unrep1, UL. destruct (a_is_empty D) eqn:Ee.
      - right. rewrite a_is_empty_true in Ee. split; [now apply Ee|reflexivity].
      - left. cbn [unrep_list]. now rewrite map_app. }
    destruct (unrep1 r) as [l|] eqn:Er; cbn [fst snd st_cum st_delta st_unrep st_last].
    - set (merged := fold_left (mmerge k) l aempty).
      set (result := match st_last S r with Some lastm => if cumul then mmerge k merged lastm else merged | None => merged end).
      split; [reflexivity|]. split; [reflexivity|]. split; [intros r' Hne; now apply upd_other|].
      split.
      { intros r' Himp. unfold upd. destruct (Nat.eqb r' r); [discriminate|]. unfold unrep1. destruct (a_is_empty D); [exact Himp|discriminate]. }
      split.
      { intros r' a Hin Hne. unfold UL at 1 3. cbn [st_unrep]. rewrite upd_other by exact Hne. now apply Hpush. }
      split; [apply upd_same|]. split; [apply upd_same|].
      intros a Hin Hsorted.
      (* the merge of the unreported tables is the most recent unreported sample *)
      assert (Hrest : exists rest, map (fun m => m a) l = rest /\ top rest = top (map (fun m => m a) (UL S r) ++ [D a]) /\
                                   (forall lo, sorted_from lo (map (fun m => m a) (UL S r) ++ [D a]) -> sorted_from lo rest)).
      { exists (map (fun m => m a) l). split; [reflexivity|]. destruct (Hpush r a Hin) as [H|[H1 H2]]; rewrite Er in *; cbn [unrep_list] in *.
        - rewrite H. split; [reflexivity|trivial].
        - rewrite H2, H1. split; [now rewrite top_snoc_none|]. intros lo. apply sorted_front. }
      destruct Hrest as (rest & Hrest & Htop & Hsort).
      assert (Hmerged : sorted_from 0 (map (fun m => m a) (UL S r) ++ [D a]) -> merged a = top (map (fun m => m a) (UL S r) ++ [D a])).
      { intros Hs. unfold merged. rewrite (fold_mmerge_last k Hk), Hrest. rewrite lv_fold_sorted by (cbn [aempty agg0 a_ts]; now apply Hsort).
        rewrite Htop. now destruct (top (map (fun m => m a) (UL S r) ++ [D a])). }
      unfold result, olast in *. destruct cumul.
      + destruct (st_last S r) as [lastm|] eqn:Elast.
        * cbn [app] in Hsorted. cbn [app top].
          rewrite (mmerge_last k Hk). destruct (lastm a) as [y|] eqn:Ey.
          -- cbn [sorted_from] in Hsorted. destruct Hsorted as (Hy1 & Hy2 & Hs3).
             rewrite Hmerged by (apply (sorted_from_weaken _ (a_ts y)); [lia|exact Hs3]).
             destruct (top (map (fun m => m a) (UL S r) ++ [D a])) as [x|] eqn:Ex; cbn [lvf_step].
             ++ destruct (sorted_top_bound _ _ _ Hs3 Ex) as [Hlt _]. unfold lv_later.
                destruct (a_ts x >? a_ts y) eqn:E; [reflexivity|lia].
             ++ unfold lv_later. cbn [agg0 a_ts]. destruct (0 >? a_ts y) eqn:E; [lia|reflexivity].
          -- cbn [sorted_from] in Hsorted. rewrite Hmerged by exact Hsorted. cbn [lvf_step].
             now destruct (top (map (fun m => m a) (UL S r) ++ [D a])).
        * cbn [app aempty] in *. cbn [sorted_from top] in *. rewrite Hmerged by exact Hsorted.
          now destruct (top (map (fun m => m a) (UL S r) ++ [D a])).
      + cbn [app] in *. assert (Hres : (match st_last S r with Some _ => merged | None => merged end) = merged) by (now destruct (st_last S r)).
        rewrite Hres. now apply Hmerged.
    - assert (Hempty : a_is_empty D = true /\ st_unrep S r = None).
      { unfold unrep1 in Er. destruct (a_is_empty D); [now split|discriminate]. }
      destruct Hempty as [He Hn].
      assert (Hu1 : unrep1 = st_unrep S) by (unfold unrep1; now rewrite He).
      split; [reflexivity|]. split; [reflexivity|]. split; [reflexivity|]. split; [rewrite Hu1; trivial|].
      split.
      { intros r' a Hin Hne. unfold UL at 1 3. cbn [st_unrep]. now apply Hpush. }
      split; [rewrite Hu1; now destruct S|]. split; [exact Hn|now apply a_is_empty_true].
  Qed.

  (* ---------------------------------------------------------------- a collection by reader r *)
  Definition exp_last (r : nat) (lat : Z -> option Z) (tch : nat -> Z -> bool) : Z -> option point :=
    fun a => match lat a with
             | None => None
             | Some v => if cumulative c r then Some (PLast v true) else if tch r a then Some (PLast v true) else None
             end.

  Lemma rel_point : forall lat tch r a full,
    In a attrs -> sorted_from 0 full -> rel lat tch r a (top full) -> (forall r' b, In b attrs -> tch r' b = true -> lat b <> None) ->
    option_map (point_of k) (top full) = exp_last r lat tch a.
  Proof.
    intros lat tch r a full Hin Hs Hrel Htl. unfold exp_last, rel in *.
    destruct (top full) as [x|] eqn:Et; cbn [option_map is_none] in *.
    - destruct (sorted_top_bound _ _ _ Hs Et) as [_ Hv]. rewrite (point_of_last k Hk), Hv.
      destruct (cumulative c r).
      + rewrite <- Hrel. reflexivity.
      + destruct Hrel as [H1 H2]. rewrite (H2 x eq_refl). destruct (tch r a); [reflexivity|discriminate].
    - destruct (cumulative c r).
      + now rewrite <- Hrel.
      + destruct Hrel as [H1 _]. destruct (tch r a); [discriminate|]. now destruct (lat a).
  Qed.

  Theorem last_collect : forall T S lat tch r,
    0 <= T -> LastInv T S lat tch -> (r < nreaders c)%nat ->
    let S2 := fst (collect_storage k (nreaders c) r (cumulative c r) S) in
    let out := snd (collect_storage k (nreaders c) r (cumulative c r) S) in
    LastInv T S2 lat (tch_given r tch) /\
    match out with
    | None => forall a, In a attrs -> exp_last r lat tch a = None
    | Some m => forall a, In a attrs -> option_map (point_of k) (m a) = exp_last r lat tch a
    end.
  Proof.
    intros T S lat tch r HT Inv Hr S2 out.
    set (D := st_delta S).
    set (S' := mk_storage (st_cum S) aempty (st_unrep S) (st_last S)).
    assert (HS2 : S2 = fst (build k (nreaders c) r (cumulative c r) D S')) by reflexivity.
    assert (Hout : out = snd (build k (nreaders c) r (cumulative c r) D S')) by reflexivity.
    clearbody S2 out.
    assert (Htlg : forall r' a, In a attrs -> tch_given r tch r' a = true -> lat a <> None).
    { intros r' a Hin. unfold tch_given. destruct (Nat.eqb r' r); [discriminate|]. now apply (li_tl _ _ _ _ Inv). }
    destruct (fastcfg c) eqn:Efast.
    - (* the single delta reader: the pending table is reported as it is *)
      assert (Hpath : Nat.eqb (nreaders c) 1 && negb (cumulative c r) = true) by (now rewrite path_is_fastcfg).
      assert (Hr0 : r = O).
      { apply andb_prop in Hpath as [H _]. apply Nat.eqb_eq in H. lia. }
      unfold build in HS2, Hout. rewrite Hpath in HS2, Hout. cbn [fst snd] in HS2, Hout. subst r S2.
      assert (Hseq : forall a, smp S O a = [D a]) by (intros a; unfold smp, front; now rewrite Efast).
      assert (Hexp : forall a, In a attrs -> option_map (point_of k) (D a) = exp_last O lat tch a).
      { intros a Hin. destruct (li_seq _ _ _ _ Inv O Hr a Hin) as (Hs & _ & Hrel). rewrite Hseq in Hs, Hrel.
        change (D a) with (top [D a]) at 1. apply rel_point; try assumption. apply (li_tl _ _ _ _ Inv). }
      split.
      + constructor.
        * apply (li_cum _ _ _ _ Inv).
        * intros a x H. discriminate.
        * exact Htlg.
        * apply (li_none _ _ _ _ Inv).
        * intros r' Hr' a Hin. assert (r' = O).
          { apply andb_prop in Hpath as [H _]. apply Nat.eqb_eq in H. lia. } subst r'.
          unfold smp, front. rewrite Efast. cbn [app S' st_delta aempty top sorted_from].
          split; [exact I|]. split; [apply bounded_none|]. unfold rel, tch_given. cbn [Nat.eqb is_none negb option_map].
          assert (Hcu : cumulative c 0 = false) by (apply andb_prop in Hpath as [_ H]; now destruct (cumulative c 0)).
          rewrite Hcu. split; [reflexivity|discriminate].
      + subst out. destruct (a_is_empty D) eqn:Ee.
        * intros a Hin. rewrite <- Hexp by exact Hin. rewrite a_is_empty_true in Ee. now rewrite Ee.
        * intros a Hin. now apply Hexp.
    - (* the merge path *)
      assert (Hpath : Nat.eqb (nreaders c) 1 && negb (cumulative c r) = false) by (now rewrite path_is_fastcfg).
      pose proof (build_multi_last (nreaders c) r (cumulative c r) D S' Hpath) as HB.
      cbn zeta in HB. rewrite <- HS2, <- Hout in HB. destruct HB as (Hbc & Hbd & Hbl & Hbn & Hbu & Hbo).
      assert (HUL : forall r', UL S' r' = UL S r') by reflexivity.
      assert (HOL : forall r', olast S' r' = olast S r') by reflexivity.
      (* the sequence of reader r', as the invariant knows it *)
      assert (Hseq : forall r' a, smp S r' a = (if cumulative c r' then [olast S r' a] else []) ++ map (fun m => m a) (UL S r') ++ [D a]).
      { intros r' a. unfold smp, front, seqU. rewrite Efast. now rewrite <- app_assoc. }
      split.
      + constructor.
        * rewrite Hbc. apply (li_cum _ _ _ _ Inv).
        * rewrite Hbd. intros a x H. discriminate.
        * exact Htlg.
        * intros r'. apply Hbn. apply (li_none _ _ _ _ Inv).
        * intros r' Hr' a Hin. destruct (li_seq _ _ _ _ Inv r' Hr' a Hin) as (Hs & Hb & Hrel). rewrite Hseq in Hs, Hb, Hrel.
          unfold smp, front, seqU. rewrite Efast, Hbd. cbn [S' st_delta]. unfold aempty.
          destruct (Nat.eqb r' r) eqn:Er.
          { apply Nat.eqb_eq in Er. subst r'. destruct out as [res|] eqn:Eout.
            - destruct Hbo as (Hlast & Hun & Hres). specialize (Hres a Hin). cbn zeta in Hres. rewrite HUL, HOL in Hres.
              specialize (Hres Hs). unfold olast, UL. rewrite Hlast, Hun. cbn [unrep_list map app].
              unfold rel, tch_given in *. rewrite Nat.eqb_refl. destruct (cumulative c r) eqn:Ecu; cbn [app top sorted_from].
              + rewrite Hres.
                destruct (top ([olast S r a] ++ map (fun m => m a) (UL S r) ++ [D a])) as [x|] eqn:Et.
                * destruct (sorted_top_bound _ _ _ Hs Et) as [H1 H2]. split; [repeat split; assumption|].
                  split; [|exact Hrel]. intros y [Hy|[Hy|[]]]; [|discriminate]. injection Hy as <-. apply Hb. now apply top_in.
                * split; [exact I|]. split; [|exact Hrel]. intros y [Hy|[Hy|[]]]; discriminate.
              + split; [exact I|]. split; [apply bounded_none|]. cbn [is_none negb]. split; [reflexivity|discriminate].
            - destruct Hbo as (HSeq & Hun & Hdn). rewrite HSeq. cbn [S' st_unrep st_last] in *.
              assert (HU0 : UL S r = []) by (unfold UL; now rewrite Hun).
              assert (HL0 : olast S r a = None) by (unfold olast; now rewrite (li_none _ _ _ _ Inv r Hun)).
              unfold olast, UL in *. cbn [S' st_unrep st_last]. rewrite HU0, HL0 in *. rewrite (Hdn a Hin) in *. cbn [map app] in *.
              unfold rel, tch_given in *. rewrite Nat.eqb_refl.
              destruct (cumulative c r) eqn:Ecu; cbn [app top sorted_from is_none negb option_map] in *.
              + split; [exact I|]. split; [|exact Hrel]. intros y [Hy|[Hy|[]]]; discriminate.
              + split; [exact I|]. split; [apply bounded_none|]. split; [reflexivity|discriminate]. }
          { assert (Hne : r' <> r) by (intros ->; now rewrite Nat.eqb_refl in Er).
            assert (Hol : olast S2 r' a = olast S r' a) by (unfold olast; now rewrite (Hbl r' Hne)).
            rewrite Hol.
            assert (Hrelg : rel lat (tch_given r tch) r' a = rel lat tch r' a).
            { unfold rel, tch_given. now rewrite Er. }
            rewrite Hrelg.
            destruct (Hbu r' a Hin Hne) as [Hu|[Hd0 Hu]]; rewrite HUL in Hu; rewrite Hu.
            - split; [apply sorted_from_app; split; [exact Hs|exact I]|]. rewrite top_snoc_none.
              split; [|exact Hrel]. apply bounded_app. split; [exact Hb|apply bounded_none].
            - rewrite Hd0 in *. rewrite <- app_assoc. split; [exact Hs|]. split; [exact Hb|exact Hrel]. }
      + destruct out as [res|] eqn:Eout.
        * destruct Hbo as (Hlast & Hun & Hres). intros a Hin. destruct (li_seq _ _ _ _ Inv r Hr a Hin) as (Hs & Hb & Hrel).
          rewrite Hseq in Hs, Hrel. specialize (Hres a Hin). cbn zeta in Hres. rewrite HUL, HOL in Hres. rewrite (Hres Hs).
          apply rel_point; try assumption. apply (li_tl _ _ _ _ Inv).
        * destruct Hbo as (HSeq & Hun & Hdn). cbn [S' st_unrep] in Hun. intros a Hin.
          destruct (li_seq _ _ _ _ Inv r Hr a Hin) as (Hs & Hb & Hrel). rewrite Hseq in Hs, Hrel.
          assert (HU0 : UL S r = []) by (unfold UL; now rewrite Hun).
          assert (HL0 : olast S r a = None) by (unfold olast; now rewrite (li_none _ _ _ _ Inv r Hun)).
          rewrite HU0, HL0, (Hdn a Hin) in Hs, Hrel. cbn [map app] in Hs, Hrel.
          assert (Htop : top ((if cumulative c r then [None] else []) ++ [None]) = None) by (now destruct (cumulative c r)).
          rewrite <- (rel_point lat tch r a _ Hin Hs Hrel (li_tl _ _ _ _ Inv)). now rewrite Htop.
  Qed.
End LastInstrument.
