(* C17, ORACE cases: the race SPEC is evaluated on implementation histories only (no model of the interleavings).  These two
   computations show it is neither vacuous nor unsatisfiable: it accepts the history of the unchanged library in which a
   RemoveCallback overlaps an observation pass (the removal waits for the pass, the callback is still called once in it), and it
   rejects the history in which the removal returns during the pass and the callback is entered afterwards. *)
From V Require Import C17.Glue.
Local Open Scope Z_scope.

Definition k0 : key := (0%nat, 0, 0).
Definition k1 : key := (1%nat, 1, 1).
Definition race_init : list rop := [RAdd k0; RAdd k1].
Definition race_threads : list (list rop) := [[RCollect 0]; [RRem k1]].
Definition race_prefix : list ev := [EBA (-1) k0; ERA (-1) k0; EBA (-1) k1; ERA (-1) k1; EBC 0 0; ECall 0 k0].
Definition race_suffix : list ev := [EEC 0 0; EBC (-1) 1; ECall (-1) k0; EDone (-1) k0; EEC (-1) 1].
(* the removal begins while the pass is inside the first callback and returns after the pass *)
Definition history_waits : list ev :=
  race_prefix ++ [EBR 1 k1; EDone 0 k0; ECall 0 k1; EDone 0 k1] ++ [EEC 0 0; ERR 1 k1] ++ tl race_suffix.
(* the removal returns at once; the pass, working on a copy of the list, enters the removed callback *)
Definition history_copy : list ev :=
  race_prefix ++ [EBR 1 k1; ERR 1 k1; EDone 0 k0; ECall 0 k1; EDone 0 k1] ++ race_suffix.

Lemma race_spec_examples :
  spec_race race_init race_threads true history_waits = [] /\
  spec_race race_init race_threads true history_copy = fail "removed_never_invoked:after_removal_returned" /\
  (* removed before the collection began and called in it: reported by the count clause as well *)
  spec_race [RAdd k0] [[RRem k0]; [RCollect 0]] true
    [EBA (-1) k0; ERA (-1) k0; EBR 0 k0; ERR 0 k0; EBC 1 0; ECall 1 k0; EDone 1 k0; EEC 1 0; EBC (-1) 1; EEC (-1) 1]
    = [tag "removed_never_invoked:after_removal_returned"; tag "removed_never_invoked:invoked_in_later_collection"] /\
  (* registered throughout and not called *)
  spec_race [RAdd k0] [[RCollect 0]] true [EBA (-1) k0; ERA (-1) k0; EBC 0 0; EEC 0 0; EBC (-1) 1; ECall (-1) k0; EDone (-1) k0; EEC (-1) 1]
    = fail "callback_once_per_collection:not_invoked".
Proof. repeat split; vm_compute; reflexivity. Qed.
