(* C17 proofs, part 5: the simulation between the model (what the SDK computes) and the abstract state of the SPEC, and
   model_meets_spec: for every well-formed history the SPEC checker accepts what the model prints. *)
From V Require Import C17.Glue C17.ProofsReg C17.ProofsBase C17.ProofsSum C17.ProofsGauge.
From Coq Require Import Lia ZifyBool ZifyNat.
Local Open Scope Z_scope.

(* what the case parser guarantees about a history *)
Definition op_ok (c : cfg) (o : op) : Prop :=
  match o with
  | OCollect r => (r < nreaders c)%nat
  | OAdd _ f s => In f funs /\ In s states
  | _ => True
  end.

Record Sim (c : cfg) (st : state) (ss : sstate) : Prop := {
  sim_regs : s_cbs st = p_regs ss;
  sim_dead : forall i, s_dead st i = p_dead ss i;
  sim_world : forall s a, s_world st s a = p_world ss s a;
  sim_keys : forall k, In k (s_cbs st) -> In (snd (fst k)) funs /\ In (snd k) states;
  sim_clock : p_clock_ok ss = true -> 0 < s_step st /\ 0 <= s_clk st;
  sim_sum : forall i, is_last (kind_of c i) = false -> p_skip ss i = false ->
            SumInv c (s_stor st i) (p_latest ss i) (p_base ss i) (p_touched ss i);
  sim_last : forall i, is_last (kind_of c i) = true -> p_clock_ok ss = true ->
            LastInv c (s_clk st) (s_stor st i) (p_latest ss i) (p_touched ss i)
}.

Lemma sim_init : forall c, Sim c init sinit.
Proof.
  intros c. constructor; cbn; intros; try reflexivity; try contradiction.
  - unfold clock0. lia.
  - apply SumInv_init.
  - apply LastInv_init.
Qed.

Lemma LastInv_time' : forall c T T' S lat tch, T <= T' -> LastInv c T S lat tch -> LastInv c T' S lat tch.
Proof.
  intros c T T' S lat tch Hle [H1 H1d H2 H3 H4]. constructor; try assumption.
  - intros a x H. specialize (H1 a x H). lia.
  - intros a x H. specialize (H1d a x H). lia.
  - intros r Hr a Hin. destruct (H4 r Hr a Hin) as (Ha & Hb & Hc). repeat split; try assumption. now apply (bounded_weaken T).
Qed.

Lemma reports_ext : forall (w w' : Z -> Z -> option Z) l i, (forall s a, w s a = w' s a) -> reports l w i = reports l w' i.
Proof.
  intros w w' l i H. unfold reports. induction l as [|k l IH]; [reflexivity|]. cbn [flat_map]. rewrite IH. f_equal.
  destruct (Nat.eqb (fst (fst k)) i); [|reflexivity]. unfold meas_list. generalize attrs. induction l0 as [|a l0 IH0]; [reflexivity|].
  cbn [flat_map]. now rewrite IH0, H.
Qed.

Lemma async_or_last : forall k, is_async k = false -> is_last k = true.
Proof. intros k H. unfold is_async, is_last in *. lia. Qed.

(* ------------------------------------------------------------------ one operation other than a collection *)
Lemma usable_eq : forall c st ss i b, Sim c st ss -> usable c st i b = susable c ss i b.
Proof. intros c st ss i b H. unfold usable, susable. now rewrite (sim_dead _ _ _ H). Qed.

Lemma in_filter_sub : forall A (p : A -> bool) l x, In x (filter p l) -> In x l.
Proof. intros A p l x H. apply filter_In in H. tauto. Qed.

Lemma sim_step_other : forall c st ss o,
  Sim c st ss -> op_ok c o -> (forall r, o <> OCollect r) -> Sim c (fst (step c st o)) (sstep c ss o) /\ snd (step c st o) = None.
Proof.
  intros c st ss o H Hok Hnc. destruct H as [Hr Hd Hw Hk Hc Hs Hl].
  assert (H : Sim c st ss) by (constructor; assumption).
  destruct o; cbn [step sstep fst snd]; try rewrite <- (usable_eq c st ss _ _ H).
  - (* OAdd *)
    split; [|reflexivity]. destruct (usable c st i true) eqn:U; [|exact H]. cbn [op_ok] in Hok.
    constructor; cbn [s_cbs p_regs s_dead p_dead s_world p_world s_stor s_clk s_step p_latest p_base p_touched p_multi p_skip p_clock_ok]; try assumption.
    + now rewrite Hr.
    + intros k Hin. apply in_app_or in Hin as [Hin|[<-|[]]]; [now apply Hk|exact Hok].
  - (* ORem *)
    split; [|reflexivity]. destruct (usable c st i true) eqn:U; [|exact H].
    constructor; cbn [s_cbs p_regs s_dead p_dead s_world p_world s_stor s_clk s_step p_latest p_base p_touched p_multi p_skip p_clock_ok]; try assumption.
    + now rewrite Hr.
    + intros k Hin. apply in_filter_sub in Hin. now apply Hk.
  - (* ODestroy *)
    split; [|reflexivity].
    constructor; cbn [s_cbs p_regs s_dead p_dead s_world p_world s_stor s_clk s_step p_latest p_base p_touched p_multi p_skip p_clock_ok]; try assumption.
    + now rewrite Hr.
    + intros j. unfold upd. now rewrite Hd.
    + intros k Hin. apply in_filter_sub in Hin. now apply Hk.
  - (* OSet *)
    split; [|reflexivity].
    constructor; cbn [s_cbs p_regs s_dead p_dead s_world p_world s_stor s_clk s_step p_latest p_base p_touched p_multi p_skip p_clock_ok]; try assumption.
    intros s' a'. now rewrite Hw.
  - (* OUnset *)
    split; [|reflexivity].
    constructor; cbn [s_cbs p_regs s_dead p_dead s_world p_world s_stor s_clk s_step p_latest p_base p_touched p_multi p_skip p_clock_ok]; try assumption.
    intros s' a'. now rewrite Hw.
  - (* ORec *)
    split; [|reflexivity]. destruct (usable c st i false) eqn:U; [|exact H].
    assert (Hki : is_last (kind_of c i) = true).
    { unfold usable in U. apply andb_prop in U as [U _]. apply andb_prop in U as [_ U]. apply eqb_prop in U. now apply async_or_last. }
    unfold sreport.
    constructor; cbn [s_cbs p_regs s_dead p_dead s_world p_world s_stor s_clk s_step p_latest p_base p_touched p_multi p_skip p_clock_ok]; try assumption.
    + intros Hcok. specialize (Hc Hcok). lia.
    + intros j Hkj Hsk. assert (Hji : j <> i) by (intros ->; congruence).
      rewrite !upd_other in * by exact Hji. now apply Hs.
    + intros j Hkj Hcok. destruct (Hc Hcok) as [Hstep HT]. destruct (Nat.eq_dec j i) as [->|Hji].
      * rewrite !upd_same. apply (last_record c i Hki); try assumption. now apply Hl.
      * rewrite !upd_other by exact Hji. apply (LastInv_time' c (s_clk st)); [lia|]. now apply Hl.
  - (* OStep *)
    split; [|reflexivity]. destruct (c_scripted c); [|exact H].
    constructor; cbn [s_cbs p_regs s_dead p_dead s_world p_world s_stor s_clk s_step p_latest p_base p_touched p_multi p_skip p_clock_ok]; try assumption.
    + intros Hcok. apply andb_prop in Hcok as [H1 H2]. specialize (Hc H1). lia.
    + intros j Hkj Hcok. apply andb_prop in Hcok as [H1 _]. now apply Hl.
  - exfalso. now apply (Hnc r).
Qed.

(* ------------------------------------------------------------------ a collection *)
Lemma inv_count_map : forall l f s, inv_count (map (fun k : key => (snd (fst k), snd k)) l) f s = reg_count l f s.
Proof.
  intros l f s. unfold inv_count, reg_count. induction l as [|k l IH]; [reflexivity|]. cbn [map filter fst snd].
  destruct ((snd (fst k) =? f) && (snd k =? s)); cbn [length]; now rewrite IH.
Qed.

Lemma check_inv_ok : forall regs,
  (forall k, In k regs -> In (snd (fst k)) funs /\ In (snd k) states) ->
  check_inv regs (map (fun k : key => (snd (fst k), snd k)) regs) = [].
Proof.
  intros regs Hk. unfold check_inv.
  match goal with |- ?a ++ ?b = [] => assert (Ha : a = []); [|rewrite Ha; cbn [app]] end.
  - apply flat_map_nil_iff. intros fs _. rewrite inv_count_map. now rewrite Nat.eqb_refl.
  - assert (Hf : forallb (fun p : Z * Z => existsb (Z.eqb (fst p)) funs && existsb (Z.eqb (snd p)) states)
                   (map (fun k : key => (snd (fst k), snd k)) regs) = true).
    { apply forallb_forall. intros p Hp. apply in_map_iff in Hp as (k & <- & Hin). destruct (Hk k Hin) as [H1 H2]. cbn [fst snd].
      apply andb_true_intro. split; apply existsb_exists; eexists; (split; [eassumption|apply Z.eqb_refl]). }
    now rewrite Hf.
Qed.

Lemma combine_seq_map : forall A (f : nat -> A) n s, combine (seq s n) (map f (seq s n)) = map (fun i => (i, f i)) (seq s n).
Proof. intros A f n. induction n as [|n IH]; intros s; cbn [seq map combine]; [reflexivity|]. now rewrite IH. Qed.

Lemma expected_sum : forall c ss i r a, is_last (kind_of c i) = false ->
  expected c ss i r a = exp_sum c i r (p_latest ss i) (p_base ss i) (p_touched ss i) a.
Proof.
  intros c ss i r a Hk. unfold expected, exp_sum, mkpoint. rewrite Hk. reflexivity.
Qed.
Lemma expected_last : forall c ss i r a, is_last (kind_of c i) = true ->
  expected c ss i r a = exp_last c r (p_latest ss i) (p_touched ss i) a.
Proof.
  intros c ss i r a Hk. unfold expected, exp_last, mkpoint. rewrite Hk. reflexivity.
Qed.

Lemma existsb_neg_false : forall (l : list (Z * Z)), existsb (fun av => snd av <? 0) l = false -> forall a v, In (a, v) l -> 0 <= v.
Proof.
  intros l H a v Hin. destruct (v <? 0) eqn:E; [|lia].
  assert (existsb (fun av => snd av <? 0) l = true) by (apply existsb_exists; exists (a, v); split; [exact Hin|exact E]). congruence.
Qed.

(* the points handed out for one instrument (None: no MetricData at all) are the ones the abstract state prescribes *)
Definition pts_ok (c : cfg) (ss1 : sstate) (r i : nat) (t : option amap) : Prop :=
  match t with
  | None => forall a, In a attrs -> expected c ss1 i r a = None
  | Some m => forall a, In a attrs -> option_map (point_of (kind_of c i)) (m a) = expected c ss1 i r a
  end.
(* the instrument is inside the property's domain: no negative total on a monotonic counter, an increasing clock for gauges *)
Definition dom (c : cfg) (ss1 : sstate) (i : nat) : Prop :=
  p_skip ss1 i = false /\ (is_last (kind_of c i) = true -> p_clock_ok ss1 = true).

Theorem sim_collect_gen : forall c st ss r,
  Sim c st ss -> (r < nreaders c)%nat ->
  exists o, snd (step c st (OCollect r)) = Some o /\ 
            Sim c (fst (step c st (OCollect r))) (sstep c ss (OCollect r)) /\ 
            co_inv o = s_cbs st /\ length (co_tabs o) = ninstr c /\ 
            forall i, (i < ninstr c)%nat -> dom c (sobserve c ss) i -> pts_ok c (sobserve c ss) r i (nth i (co_tabs o) None).
Proof.
  intros c st ss r H Hr. destruct H as [Hrg Hd Hw Hk Hc Hs Hl].
  cbn [step sstep].
  destruct (observe_proj c (s_world st) (s_step st) (s_cbs st) (s_clk st) (s_stor st)) as [Hclk Hstor].
  destruct (observe c (s_cbs st) (s_world st) (s_clk st) (s_step st) (s_stor st)) as [clk' stor1] eqn:Eobs.
  cbn [fst snd] in Hclk, Hstor.
  set (coll := fun i => collect_storage (kind_of c i) (nreaders c) r (cumulative c r) (stor1 i)).
  eexists. split; [reflexivity|]. cbn [fst].
  set (ss1 := sobserve c ss).
  (* the reports of the spec are the reports of the model's vector and world *)
  assert (Hrep : forall i, reports (p_regs ss) (p_world ss) i = reports (s_cbs st) (s_world st) i).
  { intros i. rewrite <- Hrg. apply reports_ext. intros s a. now rewrite Hw. }
  (* per instrument: the storage after the collection, and the points handed out *)
  assert (Hsum : forall i, is_last (kind_of c i) = false -> p_skip ss1 i = false ->
            SumInv c (fst (coll i)) (p_latest (sgiven ss1 r) i) (p_base (sgiven ss1 r) i) (p_touched (sgiven ss1 r) i) /\
            match snd (coll i) with
            | None => forall a, In a attrs -> expected c ss1 i r a = None
            | Some m => forall a, In a attrs -> option_map (point_of (kind_of c i)) (m a) = expected c ss1 i r a
            end).
  { intros i Hki Hsk. unfold ss1, sobserve in Hsk. cbn [p_skip] in Hsk.
    apply orb_false_elim in Hsk as [Hsk1 Hsk2]. rewrite Hrep in Hsk2.
    assert (Hpos : forall a v, In (a, v) (reports (s_cbs st) (s_world st) i) -> 0 <= v \/ is_mono (kind_of c i) = false).
    { intros a v Hin. destruct (is_mono (kind_of c i)); [left|now right]. cbn [andb] in Hsk2. now apply (existsb_neg_false _ Hsk2 a v). }
    assert (Hcd : forall b, st_cum (s_stor st i) b = None -> st_delta (s_stor st i) b = None) by (apply (si_cd _ _ _ _ _ (Hs i Hki Hsk1))).
    pose proof (sum_collect c i Hki (s_world st) (s_step st) (s_cbs st) (s_clk st) (s_stor st i) _ _ _ r (Hs i Hki Hsk1) Hr Hpos Hcd) as HC.
    cbn zeta in HC. rewrite <- Hstor in HC. fold (coll i) in HC. destruct HC as [HI HO]. split.
    - unfold ss1, sobserve, sgiven. cbn [p_latest p_base p_touched]. rewrite Hrep. exact HI.
    - destruct (snd (coll i)) as [m|]; intros a Hin; rewrite (expected_sum c ss1 i r a Hki); unfold ss1, sobserve; cbn [p_latest p_base p_touched];
        rewrite Hrep; now apply HO. }
  assert (Hlast : forall i, is_last (kind_of c i) = true -> p_clock_ok ss = true ->
            LastInv c clk' (fst (coll i)) (p_latest (sgiven ss1 r) i) (p_touched (sgiven ss1 r) i) /\
            match snd (coll i) with
            | None => forall a, In a attrs -> expected c ss1 i r a = None
            | Some m => forall a, In a attrs -> option_map (point_of (kind_of c i)) (m a) = expected c ss1 i r a
            end).
  { intros i Hki Hcok. destruct (Hc Hcok) as [Hstep HT].
    pose proof (last_observe c i Hki (s_world st) (s_step st) (s_cbs st) (s_clk st) (s_stor st i) _ _ Hstep HT (Hl i Hki Hcok)) as HO1.
    cbn zeta in HO1. rewrite <- Hstor, <- Hclk in HO1.
    assert (HT' : 0 <= clk') by (rewrite Hclk; nia).
    pose proof (last_collect c i Hki clk' (stor1 i) _ _ r HT' HO1 Hr) as HC. cbn zeta in HC. fold (coll i) in HC. destruct HC as [HI HO]. split.
    - unfold ss1, sobserve, sgiven. cbn [p_latest p_touched]. rewrite Hrep. exact HI.
    - destruct (snd (coll i)) as [m|]; intros a Hin; rewrite (expected_last c ss1 i r a Hki); unfold ss1, sobserve; cbn [p_latest p_touched];
        rewrite Hrep; now apply HO. }
  split.
  - (* the simulation continues *)
    constructor; cbn [s_cbs p_regs s_dead p_dead s_world p_world s_stor s_clk s_step p_latest p_base p_touched p_multi p_skip p_clock_ok sgiven sobserve];
      try assumption.
    + intros Hcok. destruct (Hc Hcok) as [Hstep HT]. split; [exact Hstep|]. rewrite Hclk. nia.
    + intros i Hki Hsk. now apply (Hsum i Hki).
    + intros i Hki Hcok. now apply (Hlast i Hki).
  - cbn [co_inv co_tabs]. split; [reflexivity|]. split; [now rewrite map_length, seq_length|].
    intros i Hi [Hsk Hdom].
    assert (Hnth : nth i (map (fun i0 => snd (coll i0)) (List.seq 0 (ninstr c))) None = snd (coll i)).
    { rewrite (nth_indep _ None (snd (coll O))) by (now rewrite map_length, seq_length).
      rewrite (map_nth (fun i0 => snd (coll i0))). now rewrite seq_nth. }
    change (pts_ok c ss1 r i (nth i (map (fun i0 => snd (coll i0)) (List.seq 0 (ninstr c))) None)).
    rewrite Hnth. unfold pts_ok. fold ss1 in Hsk, Hdom. destruct (is_last (kind_of c i)) eqn:Eki.
    + now apply (Hlast i Eki (Hdom eq_refl)).
    + now apply (Hsum i Eki).
Qed.

Lemma flat_map_combine_seq : forall A (F : nat -> A -> list tok) (l : list A) s,
  (forall i x, nth_error l i = Some x -> F (s + i)%nat x = []) ->
  flat_map (fun io => F (fst io) (snd io)) (combine (List.seq s (length l)) l) = [].
Proof.
  intros A F. induction l as [|x l IH]; intros s H; cbn [length List.seq combine flat_map fst snd]; [reflexivity|].
  rewrite <- (Nat.add_0_r s) at 1. rewrite (H O x eq_refl). cbn [app]. apply IH.
  intros i y Hy. replace (Datatypes.S s + i)%nat with (s + Datatypes.S i)%nat by lia. now apply (H (Datatypes.S i)).
Qed.

Lemma combine_seq_map_combine : forall A B (g : nat * A -> B) (l : list A) s,
  combine (List.seq s (length l)) (map g (combine (List.seq s (length l)) l)) =
  map (fun ix => (fst ix, g ix)) (combine (List.seq s (length l)) l).
Proof.
  intros A B g. induction l as [|x l IH]; intros s; cbn [length List.seq combine map fst]; [reflexivity|]. now rewrite IH.
Qed.

Theorem sim_collect : forall c st ss r,
  Sim c st ss -> (r < nreaders c)%nat ->
  exists o, snd (step c st (OCollect r)) = Some o /\
            Sim c (fst (step c st (OCollect r))) (sstep c ss (OCollect r)) /\
            check_collect c ss r (print_cobs c r o) = [].
Proof.
  intros c st ss r H Hr. destruct (sim_collect_gen c st ss r H Hr) as (o & Ho & HS & Hinv & Hlen & Hpts).
  exists o. split; [exact Ho|]. split; [exact HS|].
  set (ss1 := sobserve c ss) in *.
  unfold check_collect, print_cobs. cbn [cp_inv cp_instr]. fold ss1.
  rewrite Hinv, (sim_regs _ _ _ H), check_inv_ok by (rewrite <- (sim_regs _ _ _ H); apply (sim_keys _ _ _ H)). cbn [app].
  rewrite map_length, combine_length, seq_length, Nat.min_id, Hlen, Nat.eqb_refl. cbn [check app].
  rewrite <- Hlen. rewrite combine_seq_map_combine, flat_map_concat_map, map_map, <- flat_map_concat_map. cbn [fst snd].
  apply (flat_map_combine_seq _ (fun i (x : option amap) => check_instr c ss1 r i
           match x with Some m => Some (if cumulative c r then 1 else 0, points_of (point_of (kind_of c i)) m) | None => None end)).
  intros i x Hx. cbn [Nat.add].
  assert (Hi : (i < ninstr c)%nat) by (rewrite <- Hlen; apply nth_error_Some; congruence).
  assert (Hnth : nth i (co_tabs o) None = x) by (now apply nth_error_nth).
  unfold check_instr. destruct (p_skip ss1 i) eqn:Esk; [reflexivity|].
  assert (Hfin : forall t, pts_ok c ss1 r i t ->
            (let exp := points_of (fun p => p) (expected c ss1 i r) in
             match match t with Some m => Some (if cumulative c r then 1 else 0, points_of (point_of (kind_of c i)) m) | None => None end with
             | Some (t0, pts) => check (t0 =? (if cumulative c r then 1 else 0)) "reader_temporality:as_configured" ++ check (pts_eqb pts exp) (value_tag c ss1 i r)
             | None => check (is_nil exp) (value_tag c ss1 i r)
             end) = []).
  { intros t Ht. cbn zeta. unfold pts_ok in Ht. destruct t as [m|].
    - rewrite Z.eqb_refl. cbn [check app].
      rewrite (points_of_ext _ _ (point_of (kind_of c i)) (fun p => p) m (expected c ss1 i r)).
      + now rewrite pts_eqb_refl.
      + intros a Hin. rewrite (Ht a Hin). now destruct (expected c ss1 i r a).
    - rewrite points_of_nil by exact Ht. reflexivity. }
  destruct (is_last (kind_of c i)) eqn:Eki.
  - destruct (p_clock_ok ss1) eqn:Eok; cbn [negb andb]; [|reflexivity].
    apply Hfin. rewrite <- Hnth. apply Hpts; [exact Hi|]. unfold dom. now split.
  - cbn [andb]. apply Hfin. rewrite <- Hnth. apply Hpts; [exact Hi|]. unfold dom. split; [exact Esk|intros Hf; rewrite Eki in Hf; discriminate].
Qed.

(* ------------------------------------------------------------------ whole histories *)
Definition run_print_from (c : cfg) (st : state) (ops : list op) : list cprint :=
  map (fun ro => print_cobs c (fst ro) (snd ro)) (combine (collects_of ops) (snd (run_from c st ops))).

Lemma spec_from_ok : forall c ops st ss,
  Sim c st ss -> Forall (op_ok c) ops ->
  spec_from c ss ops (run_print_from c st ops) = [].
Proof.
  intros c. induction ops as [|o ops IH]; intros st ss HS Hok; [reflexivity|].
  inversion Hok as [|? ? Ho Hoks]; subst.
  assert (Hcases : (exists r, o = OCollect r) \/ (forall r, o <> OCollect r)).
  { destruct o; try (right; intros r' Heq; discriminate). left. now exists r. }
  destruct Hcases as [[r ->]|Hnc].
  - destruct (sim_collect c st ss r HS Ho) as (x & Hx & HS1 & Hchk).
    unfold run_print_from. cbn [run_from collects_of flat_map app].
    destruct (step c st (OCollect r)) as [st1 out] eqn:Est. cbn [fst snd] in Hx, HS1. subst out.
    destruct (run_from c st1 ops) as [st2 outs] eqn:Erun. cbn [snd combine map fst spec_from].
    rewrite Hchk. cbn [app]. specialize (IH st1 _ HS1 Hoks). unfold run_print_from in IH. rewrite Erun in IH. exact IH.
  - destruct (sim_step_other c st ss o HS Ho Hnc) as [HS1 Hout].
    unfold run_print_from. cbn [run_from].
    destruct (step c st o) as [st1 out] eqn:Est. cbn [fst snd] in HS1, Hout. subst out.
    destruct (run_from c st1 ops) as [st2 outs] eqn:Erun. cbn [snd].
    assert (Hcol : collects_of (o :: ops) = collects_of ops).
    { unfold collects_of. cbn [flat_map]. destruct o; try reflexivity. exfalso. now apply (Hnc r). }
    rewrite Hcol. specialize (IH st1 _ HS1 Hoks). unfold run_print_from in IH. rewrite Erun in IH.
    destruct o; try exact IH. exfalso. now apply (Hnc r).
Qed.

(* the SPEC checker accepts the model's output on every history the case parser accepts *)
Theorem model_meets_spec_obs : forall c ops,
  Forall (op_ok c) ops -> spec_obs c ops (run_print c ops) = [].
Proof.
  intros c ops Hok. unfold spec_obs, run_print, run. apply (spec_from_ok c ops init sinit (sim_init c) Hok).
Qed.

(* non-vacuity: a history with two readers, a counter and a gauge, registration, removal and re-registration *)
Example meets_example :
  let c := mk_cfg true [0; 1] [0; 2; 6] in
  let ops := [OAdd 0 0 0; OAdd 1 1 1; OSet 0 0 10; OSet 1 2 (-4); OCollect 0; OCollect 1; ORec 2 1 5; OSet 0 0 7; OCollect 1; ORem 0 0 0;
              OStep 3; OCollect 0; OCollect 1] in
  Forall (op_ok c) ops /\
  map cp_instr (run_print c ops) =
    [[Some (0, [(0, PSum 10 true)]); Some (0, [(2, PLast (-4) true)]); None];
     [Some (1, [(0, PSum 10 true)]); Some (1, [(2, PLast (-4) true)]); None];
     [Some (1, [(0, PSum 7 true)]); Some (1, [(2, PLast (-4) true)]); Some (1, [(1, PLast 5 true)])];
     [Some (0, [(0, PSum (-3) true)]); Some (0, [(2, PLast (-4) true)]); Some (0, [(1, PLast 5 true)])];
     [Some (1, [(0, PSum 7 true)]); Some (1, [(2, PLast (-4) true)]); Some (1, [(1, PLast 5 true)])]].
Proof.
  cbn zeta. split.
  - repeat constructor; cbn; tauto.
  - vm_compute. reflexivity.
Qed.

(* regression for finding F27 (fixed in 93457c3): with the same callback registered twice the cumulative reader is given the
   reported total 10 (it was 0), and two callbacks reporting different totals for one attribute set: the last report counts *)
Definition f27_cfg : cfg := mk_cfg false [1; 0] [0].
Definition f27_ops : list op := [OAdd 0 0 0; OAdd 0 0 0; OSet 0 0 10; OCollect 0; OCollect 1].
Definition f27b_ops : list op := [OAdd 0 0 0; OAdd 0 1 2; OSet 0 0 10; OSet 2 0 12; OCollect 0; OSet 0 0 20; OSet 2 0 15; OCollect 1; OCollect 0].
Lemma repeated_report_lemma :
  Forall (op_ok f27_cfg) f27_ops /\
  map cp_instr (run_print f27_cfg f27_ops) = [[Some (1, [(0, PSum 10 true)])]; [Some (0, [(0, PSum 10 true)])]] /\
  map cp_instr (run_print f27_cfg f27b_ops) =
    [[Some (1, [(0, PSum 12 true)])]; [Some (0, [(0, PSum 15 true)])]; [Some (1, [(0, PSum 15 true)])]].
Proof. split; [repeat constructor; cbn; tauto|]. split; vm_compute; reflexivity. Qed.
