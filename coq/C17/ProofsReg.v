(* C17 proofs, part 1: the callback registry.  For every operation sequence, the callbacks a collection invokes are exactly the
   live registrations, each once per registration - in closed form over the history. *)
From V Require Import C17.Glue.
From Coq Require Import Lia ZifyBool ZifyNat.
Local Open Scope Z_scope.

(* ------------------------------------------------------------------ running *)
Definition steps (c : cfg) (st : state) (ops : list op) : state := fold_left (fun s o => fst (step c s o)) ops st.
Definition mstate (c : cfg) (ops : list op) : state := steps c init ops.

Lemma run_from_fst : forall c ops st, fst (run_from c st ops) = steps c st ops.
Proof.
  induction ops as [|o ops IH]; intros st; cbn [run_from steps fold_left]; [reflexivity|].
  destruct (step c st o) as [st1 out] eqn:E. specialize (IH st1). destruct (run_from c st1 ops) as [st2 outs].
  cbn [fst] in *. now rewrite IH.
Qed.

Lemma run_from_app : forall c l1 l2 st,
  run_from c st (l1 ++ l2) =
  (fst (run_from c (fst (run_from c st l1)) l2), snd (run_from c st l1) ++ snd (run_from c (fst (run_from c st l1)) l2)).
Proof.
  induction l1 as [|o l1 IH]; intros l2 st; cbn [app run_from fst snd].
  - now destruct (run_from c st l2).
  - destruct (step c st o) as [st1 out]. rewrite IH.
    destruct (run_from c st1 l1) as [st2 outs]. cbn [fst snd].
    destruct (run_from c st2 l2) as [st3 outs2]. cbn [fst snd]. now destruct out.
Qed.

Lemma steps_app : forall c l1 l2 st, steps c st (l1 ++ l2) = steps c (steps c st l1) l2.
Proof. intros. unfold steps. now rewrite fold_left_app. Qed.

Lemma step_collect_some : forall c st r, exists o, snd (step c st (OCollect r)) = Some o /\ co_inv o = s_cbs st.
Proof.
  intros c st r. cbn [step]. destruct (observe c (s_cbs st) (s_world st) (s_clk st) (s_step st) (s_stor st)) as [clk' stor1].
  cbn [snd]. eexists. split; [reflexivity|reflexivity].
Qed.

(* the observation of a collection appended to a history is the step's observation in the state the history leads to *)
Lemma run_snoc_collect : forall c ops r o,
  snd (step c (mstate c ops) (OCollect r)) = Some o -> snd (run c (ops ++ [OCollect r])) = snd (run c ops) ++ [o].
Proof.
  intros c ops r o H. unfold run. rewrite run_from_app. cbn [snd]. f_equal.
  rewrite run_from_fst. fold (mstate c ops). cbn [run_from].
  destruct (step c (mstate c ops) (OCollect r)) as [st1 out]. cbn [snd] in *. now subst out.
Qed.

(* ------------------------------------------------------------------ keys *)
Lemma key_eqb_eq : forall x y : key, key_eqb x y = true <-> x = y.
Proof.
  intros [[i f] s] [[j g] t]. unfold key_eqb. split.
  - intros H. apply andb_prop in H as [H H3]. apply andb_prop in H as [H1 H2].
    apply Nat.eqb_eq in H1. apply Z.eqb_eq in H2. apply Z.eqb_eq in H3. now subst.
  - intros H. injection H as -> -> ->. now rewrite Nat.eqb_refl, !Z.eqb_refl.
Qed.
Lemma key_eqb_refl : forall x, key_eqb x x = true.
Proof. intros. now apply key_eqb_eq. Qed.

Definition count_key (k : key) (l : list key) : nat := length (filter (key_eqb k) l).

Lemma count_key_app : forall k l1 l2, count_key k (l1 ++ l2) = (count_key k l1 + count_key k l2)%nat.
Proof. intros. unfold count_key. now rewrite filter_app, app_length. Qed.

Lemma count_key_filter_out : forall k (p : key -> bool) l, p k = false -> count_key k (filter p l) = O.
Proof.
  intros k p l Hp. unfold count_key. induction l as [|x l IH]; cbn [filter]; [reflexivity|].
  destruct (p x) eqn:Ex; [cbn [filter]|exact IH].
  destruct (key_eqb k x) eqn:Ek; [|exact IH]. apply key_eqb_eq in Ek. subst x. congruence.
Qed.
Lemma count_key_filter_keep : forall k (p : key -> bool) l, p k = true -> count_key k (filter p l) = count_key k l.
Proof.
  intros k p l Hp. unfold count_key. induction l as [|x l IH]; cbn [filter]; [reflexivity|].
  destruct (p x) eqn:Ex; cbn [filter]; destruct (key_eqb k x) eqn:Ek; cbn [length]; try (now rewrite IH).
  apply key_eqb_eq in Ek. subst x. congruence.
Qed.

(* ------------------------------------------------------------------ the history in closed form *)
Definition is_add (k : key) (o : op) : bool := match o with OAdd i f s => key_eqb k (i, f, s) | _ => false end.
Definition is_rem (k : key) (o : op) : bool := match o with ORem i f s => key_eqb k (i, f, s) | _ => false end.
Definition is_destroy (i : nat) (o : op) : bool := match o with ODestroy j => Nat.eqb j i | _ => false end.

(* the part of the history after the last RemoveCallback of k (all of it when there is none) *)
Fixpoint after_last_rem (k : key) (ops : list op) : list op :=
  match ops with
  | [] => []
  | o :: rest => if existsb (is_rem k) rest then after_last_rem k rest else if is_rem k o then rest else o :: rest
  end.
Definition adds (k : key) (ops : list op) : nat := length (filter (is_add k) ops).
Definition registrable (c : cfg) (i : nat) : bool := Nat.ltb i (ninstr c) && is_async (kind_of c i).

(* live registrations of k at the end of the history: none if its instrument is not an observable one or has been destroyed,
   otherwise the AddCallback calls since the last RemoveCallback *)
Definition live_count (c : cfg) (ops : list op) (k : key) : nat :=
  if negb (registrable c (fst (fst k))) || existsb (is_destroy (fst (fst k))) ops then O
  else adds k (after_last_rem k ops).

(* the same, as a recursion from the end of the history *)
Lemma after_last_rem_snoc : forall k ops o,
  after_last_rem k (ops ++ [o]) = if is_rem k o then [] else after_last_rem k ops ++ [o].
Proof.
  intros k ops o. induction ops as [|x ops IH]; cbn [app after_last_rem existsb].
  - now destruct (is_rem k o).
  - rewrite existsb_app. cbn [existsb]. rewrite orb_false_r. rewrite IH.
    destruct (is_rem k o) eqn:Eo.
    + now rewrite orb_true_r.
    + rewrite orb_false_r. destruct (existsb (is_rem k) ops); [reflexivity|]. now destruct (is_rem k x).
Qed.

Lemma adds_app : forall k l1 l2, adds k (l1 ++ l2) = (adds k l1 + adds k l2)%nat.
Proof. intros. unfold adds. now rewrite filter_app, app_length. Qed.

Lemma after_last_rem_sub : forall k l x, In x (after_last_rem k l) -> In x l.
Proof.
  intros k l. induction l as [|y l IH]; [intros x []|]. cbn [after_last_rem]. intros x.
  destruct (existsb (is_rem k) l); [intros H; right; now apply IH|]. destruct (is_rem k y); [now right|intros H; exact H].
Qed.
Lemma after_last_rem_prefix : forall k l, existsb (is_rem k) l = true -> forall pre, after_last_rem k (pre ++ l) = after_last_rem k l.
Proof.
  intros k l H pre. induction pre as [|x pre IH]; [reflexivity|]. cbn [app after_last_rem].
  now rewrite existsb_app, H, orb_true_r.
Qed.
Lemma after_last_rem_cons_rem : forall k o post x, is_rem k o = true -> In x (after_last_rem k (o :: post)) -> In x post.
Proof.
  intros k o post x Ho. cbn [after_last_rem]. rewrite Ho. destruct (existsb (is_rem k) post); [apply after_last_rem_sub|trivial].
Qed.

Lemma adds_snoc_other : forall k l o, is_add k o = false -> adds k (l ++ [o]) = adds k l.
Proof. intros k l o H. rewrite adds_app. unfold adds at 2. cbn [filter]. rewrite H. cbn [length]. lia. Qed.

(* ------------------------------------------------------------------ invariant: dead flags, and what the vector holds *)
Lemma steps_snoc : forall c ops o, mstate c (ops ++ [o]) = fst (step c (mstate c ops) o).
Proof. intros. unfold mstate. now rewrite steps_app. Qed.

Lemma dead_iff_destroyed : forall c ops i, s_dead (mstate c ops) i = existsb (is_destroy i) ops.
Proof.
  intros c ops i. induction ops as [|o ops IH] using rev_ind; [reflexivity|].
  rewrite steps_snoc, existsb_app. cbn [existsb]. rewrite orb_false_r, <- IH.
  set (st := mstate c ops) in *.
  destruct o; cbn [step fst is_destroy];
    try (match goal with |- context [if ?b then _ else _] => destruct b end); cbn [s_dead]; try now rewrite orb_false_r.
  - unfold upd. destruct (Nat.eqb i i0) eqn:E.
    + apply Nat.eqb_eq in E. subst. rewrite Nat.eqb_refl. now rewrite orb_true_r.
    + rewrite Nat.eqb_sym, E. now rewrite orb_false_r.
  - destruct (observe c (s_cbs st) (s_world st) (s_clk st) (s_step st) (s_stor st)). cbn [fst s_dead]. now rewrite orb_false_r.
Qed.

Lemma cbs_registrable : forall c ops k, In k (s_cbs (mstate c ops)) -> registrable c (fst (fst k)) = true.
Proof.
  intros c ops. induction ops as [|o ops IH] using rev_ind; intros k; [intros []|].
  rewrite steps_snoc. set (st := mstate c ops) in *.
  destruct o; cbn [step fst]; try (now apply IH).
  - destruct (usable c st i true) eqn:U; [|now apply IH]. cbn [s_cbs]. rewrite in_app_iff. intros [H|[<-|[]]]; [now apply IH|].
    cbn [fst]. unfold usable in U. unfold registrable. apply andb_prop in U as [U _]. apply andb_prop in U as [U1 U2].
    rewrite U1. apply eqb_prop in U2. now rewrite U2.
  - destruct (usable c st i true); [|now apply IH]. cbn [s_cbs]. intros H. apply filter_In in H. now apply IH.
  - cbn [s_cbs]. intros H. apply filter_In in H. now apply IH.
  - destruct (usable c st i false); now apply IH.
  - destruct (c_scripted c); now apply IH.
  - destruct (observe c (s_cbs st) (s_world st) (s_clk st) (s_step st) (s_stor st)). cbn [fst s_cbs]. now apply IH.
Qed.

Lemma count_not_registrable : forall c ops k, registrable c (fst (fst k)) = false -> count_key k (s_cbs (mstate c ops)) = O.
Proof.
  intros c ops k H. unfold count_key. destruct (filter (key_eqb k) (s_cbs (mstate c ops))) as [|x l] eqn:E; [reflexivity|].
  assert (Hin : In x (filter (key_eqb k) (s_cbs (mstate c ops)))) by (rewrite E; now left).
  apply filter_In in Hin as [Hin Hk]. apply key_eqb_eq in Hk. subst x. apply cbs_registrable in Hin. congruence.
Qed.

(* the central lemma: the vector holds every key exactly live_count times *)
Lemma count_is_live_count : forall c ops k, count_key k (s_cbs (mstate c ops)) = live_count c ops k.
Proof.
  intros c ops k. destruct (registrable c (fst (fst k))) eqn:Hreg.
  2:{ unfold live_count. rewrite Hreg. cbn [negb orb]. now apply count_not_registrable. }
  induction ops as [|o ops IH] using rev_ind.
  - unfold live_count. rewrite Hreg. reflexivity.
  - rewrite steps_snoc. unfold live_count in *. rewrite Hreg in *. cbn [negb orb] in *.
    rewrite existsb_app, after_last_rem_snoc. cbn [existsb]. rewrite orb_false_r.
    pose proof (dead_iff_destroyed c ops (fst (fst k))) as Hdead.
    set (st := mstate c ops) in *. destruct k as [[ki kf] ks]. cbn [fst] in *.
    assert (Hfin : forall o', is_add (ki, kf, ks) o' = false ->
              count_key (ki, kf, ks) (s_cbs st) =
              (if existsb (is_destroy ki) ops || false then 0%nat else adds (ki, kf, ks) (after_last_rem (ki, kf, ks) ops ++ [o']))).
    { intros o' Ho'. rewrite orb_false_r, IH. destruct (existsb (is_destroy ki) ops); [reflexivity|]. now rewrite adds_snoc_other. }
    destruct o; cbn [step fst is_destroy is_rem].
    + (* OAdd *)
      rewrite orb_false_r. destruct (Nat.eqb i ki) eqn:Ei.
      * apply Nat.eqb_eq in Ei. subst i. unfold usable. unfold registrable in Hreg. apply andb_prop in Hreg as [H1 H2]. rewrite H1, H2.
        cbn [Bool.eqb andb].
        rewrite Hdead. destruct (existsb (is_destroy ki) ops); cbn [negb]; [exact IH|].
        cbn [s_cbs]. rewrite count_key_app, IH, adds_app. f_equal. unfold adds, count_key. cbn [filter is_add].
        now destruct (key_eqb (ki, kf, ks) (ki, f, s)).
      * assert (Hk : key_eqb (ki, kf, ks) (i, f, s) = false).
        { unfold key_eqb. rewrite Nat.eqb_sym, Ei. reflexivity. }
        assert (Hadds : adds (ki, kf, ks) (after_last_rem (ki, kf, ks) ops ++ [OAdd i f s]) = adds (ki, kf, ks) (after_last_rem (ki, kf, ks) ops)).
        { apply adds_snoc_other. cbn [is_add]. exact Hk. }
        rewrite Hadds. destruct (usable c st i true).
        -- cbn [s_cbs]. rewrite count_key_app. unfold count_key at 2. cbn [filter]. rewrite Hk. cbn [length]. rewrite Nat.add_0_r. exact IH.
        -- exact IH.
    + (* ORem *)
      rewrite orb_false_r. destruct (key_eqb (ki, kf, ks) (i, f, s)) eqn:Hk.
      * apply key_eqb_eq in Hk. injection Hk as <- <- <-.
        unfold usable. unfold registrable in Hreg. apply andb_prop in Hreg as [H1 H2]. rewrite H1, H2. cbn [Bool.eqb andb].
        rewrite Hdead. destruct (existsb (is_destroy ki) ops); cbn [negb]; [exact IH|].
        cbn [s_cbs]. unfold adds. cbn [filter length]. apply count_key_filter_out. now rewrite key_eqb_refl.
      * assert (Hcnt : count_key (ki, kf, ks)
                  (s_cbs (if usable c st i true
                          then mk_state (filter (fun k => negb (key_eqb k (i, f, s))) (s_cbs st)) (s_dead st) (s_world st) (s_stor st) (s_clk st) (s_step st)
                          else st)) = count_key (ki, kf, ks) (s_cbs st)).
        { destruct (usable c st i true); [|reflexivity]. cbn [s_cbs]. apply count_key_filter_keep. now rewrite Hk. }
        rewrite Hcnt, IH. destruct (existsb (is_destroy ki) ops); [reflexivity|].
        now rewrite adds_snoc_other by reflexivity.
    + (* ODestroy *)
      cbn [s_cbs]. destruct (Nat.eqb i ki) eqn:Ei.
      * rewrite orb_true_r. apply count_key_filter_out. cbn [fst]. apply Nat.eqb_eq in Ei. subst. now rewrite Nat.eqb_refl.
      * rewrite orb_false_r. rewrite count_key_filter_keep by (cbn [fst]; now rewrite Nat.eqb_sym, Ei).
        rewrite IH. destruct (existsb (is_destroy ki) ops); [reflexivity|].
        now rewrite adds_snoc_other by reflexivity.
    + now apply Hfin.
    + now apply Hfin.
    + destruct (usable c st i false); now apply Hfin.
    + destruct (c_scripted c); now apply Hfin.
    + destruct (observe c (s_cbs st) (s_world st) (s_clk st) (s_step st) (s_stor st)). cbn [fst s_cbs]. now apply Hfin.
Qed.

(* ------------------------------------------------------------------ the property theorems about invocations *)
(* "at each collection by a reader every callback registered on an observable instrument is invoked exactly once":
   for every history, the collection invokes each key exactly as often as it is registered (once per registration) *)
Lemma callback_once_per_collection_lemma : forall c ops r,
  exists o, snd (run c (ops ++ [OCollect r])) = snd (run c ops) ++ [o] /\
            forall k, count_key k (co_inv o) = live_count c ops k.
Proof.
  intros c ops r. destruct (step_collect_some c (mstate c ops) r) as (o & Ho & Hinv).
  exists o. split; [now apply run_snoc_collect|]. intros k. rewrite Hinv. apply count_is_live_count.
Qed.

(* the headline reading: registered once since the last removal, instrument alive => invoked exactly once *)
Lemma registered_once_invoked_once : forall c pre post r i f s,
  registrable c i = true ->
  existsb (is_destroy i) (pre ++ OAdd i f s :: post) = false ->
  existsb (is_rem (i, f, s)) post = false -> existsb (is_add (i, f, s)) post = false ->
  adds (i, f, s) (after_last_rem (i, f, s) pre) = O ->
  exists o, snd (run c ((pre ++ OAdd i f s :: post) ++ [OCollect r])) = snd (run c (pre ++ OAdd i f s :: post)) ++ [o] /\
            count_key (i, f, s) (co_inv o) = 1%nat.
Proof.
  intros c pre post r i f s Hreg Hd Hr Ha Hpre.
  destruct (callback_once_per_collection_lemma c (pre ++ OAdd i f s :: post) r) as (o & Ho & Hc).
  exists o. split; [exact Ho|]. rewrite Hc. unfold live_count. cbn [fst]. rewrite Hreg, Hd. cbn [negb orb].
  assert (Hal : forall l, existsb (is_rem (i, f, s)) l = false -> after_last_rem (i, f, s) l = l).
  { induction l as [|x l IH]; [reflexivity|]. cbn [existsb after_last_rem]. intros H. apply orb_false_elim in H as [H1 H2].
    now rewrite H2, H1. }
  assert (Hsplit : forall l1 l2, existsb (is_rem (i, f, s)) l2 = false ->
                   after_last_rem (i, f, s) (l1 ++ l2) = after_last_rem (i, f, s) l1 ++ l2).
  { intros l1 l2 H2. induction l1 as [|x l1 IH]; cbn [app after_last_rem]; [now apply Hal|].
    rewrite existsb_app, H2, orb_false_r. destruct (existsb (is_rem (i, f, s)) l1); [exact IH|].
    destruct (is_rem (i, f, s) x); reflexivity. }
  rewrite Hsplit by (cbn [existsb is_rem]; exact Hr).
  rewrite adds_app, Hpre. unfold adds. cbn [filter is_add]. rewrite key_eqb_refl. cbn [length].
  assert (Hz : length (filter (is_add (i, f, s)) post) = O).
  { clear -Ha. induction post as [|x l IH]; [reflexivity|]. cbn [existsb filter] in *. apply orb_false_elim in Ha as [H1 H2].
    rewrite H1. now apply IH. }
  rewrite Hz. reflexivity.
Qed.

(* "a removed callback ... is never invoked again": after RemoveCallback (and no new AddCallback of it) - never *)
Lemma removed_never_invoked_lemma : forall c pre post r i f s,
  existsb (is_add (i, f, s)) post = false ->
  exists o, snd (run c ((pre ++ ORem i f s :: post) ++ [OCollect r])) = snd (run c (pre ++ ORem i f s :: post)) ++ [o] /\
            count_key (i, f, s) (co_inv o) = O.
Proof.
  intros c pre post r i f s Ha.
  destruct (callback_once_per_collection_lemma c (pre ++ ORem i f s :: post) r) as (o & Ho & Hc).
  exists o. split; [exact Ho|]. rewrite Hc. unfold live_count.
  destruct (negb (registrable c (fst (fst (i, f, s)))) || existsb (is_destroy (fst (fst (i, f, s)))) (pre ++ ORem i f s :: post)); [reflexivity|].
  assert (Hrem : is_rem (i, f, s) (ORem i f s) = true) by (cbn [is_rem]; apply key_eqb_refl).
  assert (Hin : forall x, In x (after_last_rem (i, f, s) (pre ++ ORem i f s :: post)) -> In x post).
  { intros x. rewrite after_last_rem_prefix by (cbn [existsb]; now rewrite Hrem). now apply after_last_rem_cons_rem. }
  set (suf := after_last_rem (i, f, s) (pre ++ ORem i f s :: post)) in *. unfold adds.
  destruct (filter (is_add (i, f, s)) suf) as [|x l] eqn:E; [reflexivity|].
  assert (Hx : In x (filter (is_add (i, f, s)) suf)) by (rewrite E; now left).
  apply filter_In in Hx as [Hx1 Hx2]. apply Hin in Hx1.
  assert (existsb (is_add (i, f, s)) post = true) by (apply existsb_exists; now exists x). congruence.
Qed.

(* "(or one whose instrument was destroyed)": after the instrument's destruction - never, whatever is attempted afterwards *)
Lemma destroyed_never_invoked_lemma : forall c pre post r i f s,
  exists o, snd (run c ((pre ++ ODestroy i :: post) ++ [OCollect r])) = snd (run c (pre ++ ODestroy i :: post)) ++ [o] /\
            count_key (i, f, s) (co_inv o) = O.
Proof.
  intros c pre post r i f s.
  destruct (callback_once_per_collection_lemma c (pre ++ ODestroy i :: post) r) as (o & Ho & Hc).
  exists o. split; [exact Ho|]. rewrite Hc. unfold live_count. cbn [fst].
  rewrite existsb_app. cbn [existsb is_destroy]. rewrite Nat.eqb_refl. cbn [orb]. now rewrite !orb_true_r.
Qed.

(* a callback that was never registered is never invoked *)
Lemma unregistered_never_invoked_lemma : forall c ops r k,
  existsb (is_add k) ops = false ->
  exists o, snd (run c (ops ++ [OCollect r])) = snd (run c ops) ++ [o] /\ count_key k (co_inv o) = O.
Proof.
  intros c ops r k Ha. destruct (callback_once_per_collection_lemma c ops r) as (o & Ho & Hc).
  exists o. split; [exact Ho|]. rewrite Hc. unfold live_count.
  destruct (negb (registrable c (fst (fst k))) || existsb (is_destroy (fst (fst k))) ops); [reflexivity|].
  pose proof (after_last_rem_sub k ops) as Hsub.
  unfold adds. destruct (filter (is_add k) (after_last_rem k ops)) as [|x l] eqn:E; [reflexivity|].
  assert (Hx : In x (filter (is_add k) (after_last_rem k ops))) by (rewrite E; now left).
  apply filter_In in Hx as [Hx1 Hx2]. apply Hsub in Hx1.
  assert (existsb (is_add k) ops = true) by (apply existsb_exists; now exists x). congruence.
Qed.

(* non-vacuity: a history in which a callback is registered twice, removed, registered again on a second instrument *)
Example registry_example :
  let c := mk_cfg false [0; 1] [0; 2] in
  let ops := [OAdd 0 0 1; OAdd 0 0 1; OAdd 1 0 1; OCollect 0; ORem 0 0 1; OCollect 1; ODestroy 1; OAdd 1 0 1; OCollect 0] in
  map co_inv (snd (run c ops)) = [[(0%nat, 0, 1); (0%nat, 0, 1); (1%nat, 0, 1)]; [(1%nat, 0, 1)]; []].
Proof. vm_compute. reflexivity. Qed.
