(* C17, the callback registry at lock granularity: an acceptor for event histories (the events the scheduler shim logs for ORACE
   cases), for ANY number of threads.  Mirrors sdk/src/metrics/state/observable_registry.cc:
     AddCallback / RemoveCallback / CleanupCallback (instrument destruction):  lock callbacks_m_; mutate callbacks_; unlock
     Observe (one observation pass of a collection): lock callbacks_m_; for every record of callbacks_, in order: call it; unlock
   - the lock is held for the WHOLE pass.  The mutation is modelled at the lock acquisition (nothing else can touch the list
   until the unlock).  The public calls are bracketed by their begin / return events (bc/ec, ba/ra, br/rr, bx/rx).
   Assumption: a callback does not itself call AddCallback / RemoveCallback or drop an instrument (on the real code it would
   self-deadlock on the non-recursive mutex); data races inside the critical section and weak-memory effects are outside.
   Ghost data (positions in the history) is carried for the proofs only: it does not influence acceptance.  Definitions only. *)
From V Require Export C17.SpecRace.
Local Open Scope Z_scope.

Definition entry := (key * nat)%type.     (* a record of callbacks_ ; ghost: the position of the begin event of its AddCallback *)

Inductive tstate :=
| TIdle
| TCol (r : Z) (b : nat)                                                                  (* Collect begun, lock not yet taken *)
| TPass (r : Z) (b : nat) (snap : list entry) (called : list key) (todo : list entry)     (* inside the pass, lock held *)
| TInCb (r : Z) (b : nat) (snap : list entry) (called : list key) (k : key) (pc : nat) (todo : list entry)   (* inside callback k *)
| TColU (r : Z) (b : nat) (snap : list entry)                                             (* pass over, lock released *)
| TAdd (k : key) (b : nat) | TAddL (k : key) (b : nat) | TAddU (k : key) (b : nat)
| TRem (k : key) (b : nat) | TRemL (k : key) (b : nat) | TRemU (k : key) (b : nat)
| TDes (i : nat) (b : nat) | TDesL (i : nat) (b : nat) | TDesU (i : nat) (b : nat).

Record lstate := mk_l {
  l_n : nat;                      (* ghost: the number of events accepted so far *)
  l_regs : list entry;            (* callbacks_, in registration order *)
  l_owner : option Z;             (* the thread holding callbacks_m_ *)
  l_thr : Z -> tstate
}.
Definition linit : lstate := mk_l O [] None (fun _ => TIdle).

Definition setthr (f : Z -> tstate) (t : Z) (x : tstate) : Z -> tstate := fun u => if u =? t then x else f u.
Definition is_idle (x : tstate) : bool := match x with TIdle => true | _ => false end.
Definition instr_of (k : key) : nat := fst (fst k).

Definition accept (st : lstate) (e : ev) : option lstate :=
  let n := l_n st in
  let upd := fun t x => Some (mk_l (S n) (l_regs st) (l_owner st) (setthr (l_thr st) t x)) in
  match e with
  | EBC t r => if is_idle (l_thr st t) then upd t (TCol r n) else None
  | EBA t k => if is_idle (l_thr st t) then upd t (TAdd k n) else None
  | EBR t k => if is_idle (l_thr st t) then upd t (TRem k n) else None
  | EBX t i => if is_idle (l_thr st t) then upd t (TDes i n) else None
  | ELock t =>
      match l_owner st with
      | Some _ => None
      | None =>
          match l_thr st t with
          | TCol r b => Some (mk_l (S n) (l_regs st) (Some t) (setthr (l_thr st) t (TPass r b (l_regs st) [] (l_regs st))))
          | TAdd k b => Some (mk_l (S n) (l_regs st ++ [(k, b)]) (Some t) (setthr (l_thr st) t (TAddL k b)))
          | TRem k b => Some (mk_l (S n) (filter (fun x => negb (key_eqb (fst x) k)) (l_regs st)) (Some t) (setthr (l_thr st) t (TRemL k b)))
          | TDes i b => Some (mk_l (S n) (filter (fun x => negb (Nat.eqb (instr_of (fst x)) i)) (l_regs st)) (Some t)
                                   (setthr (l_thr st) t (TDesL i b)))
          | _ => None
          end
      end
  | ECall t k =>
      match l_thr st t with
      | TPass r b snap called ((k', _) :: todo) => if key_eqb k' k then upd t (TInCb r b snap called k n todo) else None
      | _ => None
      end
  | EDone t k =>
      match l_thr st t with
      | TInCb r b snap called k' _ todo => if key_eqb k' k then upd t (TPass r b snap (called ++ [k]) todo) else None
      | _ => None
      end
  | EUnlock t =>
      let rel := fun x => Some (mk_l (S n) (l_regs st) None (setthr (l_thr st) t x)) in
      match l_thr st t with
      | TPass r b snap _ [] => rel (TColU r b snap)
      | TAddL k b => rel (TAddU k b)
      | TRemL k b => rel (TRemU k b)
      | TDesL i b => rel (TDesU i b)
      | _ => None
      end
  | EEC t r => match l_thr st t with TColU r' _ _ => if r' =? r then upd t TIdle else None | _ => None end
  | ERA t k => match l_thr st t with TAddU k' _ => if key_eqb k' k then upd t TIdle else None | _ => None end
  | ERR t k => match l_thr st t with TRemU k' _ => if key_eqb k' k then upd t TIdle else None | _ => None end
  | ERX t i => match l_thr st t with TDesU i' _ => if Nat.eqb i' i then upd t TIdle else None | _ => None end
  end.

Fixpoint run_lts (st : lstate) (l : list ev) : option lstate :=
  match l with
  | [] => Some st
  | e :: l' => match accept st e with Some st' => run_lts st' l' | None => None end
  end.
Definition accepted (l : list ev) : option lstate := run_lts linit l.

(* for the differential run: None = the whole history is accepted, Some n = event number n is the first one rejected *)
Fixpoint first_rejected (st : lstate) (l : list ev) : option nat :=
  match l with
  | [] => None
  | e :: l' => match accept st e with Some st' => first_rejected st' l' | None => Some (l_n st) end
  end.
