(* C17 proofs, part 9: the wire format.  What the model prints is parsed back to itself, so the statement
   "the SPEC accepts the model" also holds at the level of token lines: run_spec_seq l (run_model_seq l) = []. *)
From V Require Import C17.Glue C17.ProofsReg C17.ProofsBase C17.ProofsSum C17.ProofsGauge C17.ProofsMeets C17.ProofsHist C17.ProofsLv C17.ProofsTop.
From Coq Require Import Lia ZifyBool ZifyNat.
Local Open Scope Z_scope.

(* ------------------------------------------------------------------ split_toks on separator-led chunks *)
Definition no_sep (sep : string) (l : list tok) : Prop := forall t, In t l -> is_tag sep t = false.

Lemma split_aux_body : forall sep body rest cur, no_sep sep body ->
  split_toks_aux sep (body ++ rest) cur = split_toks_aux sep rest (rev body ++ cur).
Proof.
  intros sep. induction body as [|t body IH]; intros rest cur H; cbn [app split_toks_aux rev]; [reflexivity|].
  rewrite (H t (or_introl eq_refl)). rewrite IH by (intros x Hx; apply H; now right). now rewrite <- app_assoc.
Qed.

Lemma split_aux_chunks : forall A sep (f : A -> list tok) l cur,
  is_tag sep (tag sep) = true -> (forall x, no_sep sep (f x)) ->
  split_toks_aux sep (flat_map (fun x => tag sep :: f x) l) cur = rev cur :: map f l.
Proof.
  intros A sep f l cur Hs Hf. revert cur. induction l as [|x l IH]; intros cur; cbn [flat_map split_toks_aux map]; [reflexivity|].
  cbn [app split_toks_aux]. rewrite Hs. f_equal. rewrite split_aux_body by apply Hf. rewrite IH. cbn [app]. now rewrite app_nil_r, rev_involutive.
Qed.

Lemma split_chunks : forall A sep (f : A -> list tok) pre l,
  is_tag sep (tag sep) = true -> no_sep sep pre -> (forall x, no_sep sep (f x)) ->
  split_toks sep (pre ++ flat_map (fun x => tag sep :: f x) l) = pre :: map f l.
Proof.
  intros A sep f pre l Hs Hp Hf. unfold split_toks. rewrite split_aux_body by exact Hp.
  rewrite (split_aux_chunks _ sep f l _ Hs Hf). now rewrite app_nil_r, rev_involutive.
Qed.

(* ------------------------------------------------------------------ the pieces *)
Lemma no_sep_point : forall sep p, is_tag sep (tag "S") = false -> is_tag sep (tag "L") = false -> no_sep sep (print_point p).
Proof. intros sep p H1 H2 t Ht. destruct p as [v m|v m]; cbn in Ht; destruct Ht as [<-|[<-|[<-|[]]]]; try assumption; try reflexivity; now destruct m. Qed.

Lemma parse_print_point : forall a p, parse_point (TZ a :: print_point p) = Some (a, p).
Proof. intros a [v m|v m]; destruct m; reflexivity. Qed.

Lemma map_opt_map : forall A B C (g : A -> B) (f : B -> option C) l, map_opt f (map g l) = map_opt (fun x => f (g x)) l.
Proof. intros A B C g f. induction l as [|x l IH]; cbn [map map_opt]; [reflexivity|]. now rewrite IH. Qed.
Lemma map_opt_id : forall A B (f : A -> option B) (g : A -> B) l, (forall x, f x = Some (g x)) -> map_opt f l = Some (map g l).
Proof. intros A B f g l H. induction l as [|x l IH]; cbn [map map_opt]; [reflexivity|]. now rewrite H, IH. Qed.

Definition instr_body (io : nat * option (Z * list (Z * point))) : list tok :=
  tnat (fst io) ::
  match snd io with
  | None => [tag "NONE"]
  | Some (t, pts) => tag "T" :: TZ t :: flat_map (fun ap => tag "K" :: TZ (fst ap) :: print_point (snd ap)) pts
  end.
Lemma print_instr_body : forall io, print_instr io = tag "M" :: instr_body io.
Proof. reflexivity. Qed.

Lemma parse_instr_body : forall i x, parse_instr i (instr_body (i, x)) = Some x.
Proof.
  intros i [[t pts]|]; unfold parse_instr, instr_body; cbn [fst snd].
  - change (tnat i :: tag "T" :: TZ t :: flat_map (fun ap => tag "K" :: TZ (fst ap) :: print_point (snd ap)) pts)
      with ([tnat i; tag "T"; TZ t] ++ flat_map (fun ap : Z * point => tag "K" :: (TZ (fst ap) :: print_point (snd ap))) pts).
    rewrite (split_chunks _ "K" (fun ap : Z * point => TZ (fst ap) :: print_point (snd ap))).
    + cbn [tnat]. rewrite Z.eqb_refl. cbn [andb]. change (is_tag "T" (tag "T")) with true. cbn iota.
      rewrite map_opt_map. rewrite (map_opt_id _ _ _ (fun ap => ap)) by (intros [a p]; apply parse_print_point). now rewrite map_id.
    + reflexivity.
    + intros t0 [<-|[<-|[<-|[]]]]; reflexivity.
    + intros [a p] t0 [<-|Ht]; [reflexivity|]. now apply (no_sep_point "K" p).
  - unfold tnat. replace (split_toks "K" [TZ (Z.of_nat i); tag "NONE"]) with [[TZ (Z.of_nat i); tag "NONE"]] by reflexivity.
    cbv iota. rewrite Z.eqb_refl. reflexivity.
Qed.

Lemma parse_instrs_bodies : forall l s,
  parse_instrs s (map instr_body (combine (List.seq s (length l)) l)) = Some l.
Proof.
  induction l as [|x l IH]; intros s; cbn [length List.seq combine map parse_instrs]; [reflexivity|].
  now rewrite parse_instr_body, IH.
Qed.

Lemma pairs_flat : forall l, pairs (flat_map (fun fs : Z * Z => [TZ (fst fs); TZ (snd fs)]) l) = Some l.
Proof. induction l as [|[f s] l IH]; cbn [flat_map app pairs fst snd]; [reflexivity|]. now rewrite IH. Qed.

Lemma no_sep_instr_body : forall io, no_sep "M" (instr_body io).
Proof.
  intros [i [[t pts]|]] t0 Ht; unfold instr_body in Ht; cbn [fst snd] in Ht.
  - destruct Ht as [<-|[<-|[<-|Ht]]]; try reflexivity. apply in_flat_map in Ht as ([a p] & _ & Hin). cbn [fst snd] in Hin.
    destruct Hin as [<-|[<-|Hin]]; try reflexivity. now apply (no_sep_point "M" p).
  - destruct Ht as [<-|[<-|[]]]; reflexivity.
Qed.

Definition cprint_body (o : cprint) : list tok :=
  tag "I" :: tnat (length (cp_inv o)) :: flat_map (fun fs => [TZ (fst fs); TZ (snd fs)]) (cp_inv o)
  ++ flat_map print_instr (combine (List.seq 0 (length (cp_instr o))) (cp_instr o)).
Lemma print_cprint_body : forall o, print_cprint o = tag "/" :: cprint_body o.
Proof. reflexivity. Qed.

Lemma parse_cprint_body : forall o, parse_cprint (cprint_body o) = Some o.
Proof.
  intros [inv ins]. unfold parse_cprint, cprint_body. cbn [cp_inv cp_instr].
  change (tag "I" :: tnat (length inv) :: flat_map (fun fs : Z * Z => [TZ (fst fs); TZ (snd fs)]) inv ++
          flat_map print_instr (combine (List.seq 0 (length ins)) ins))
    with ((tag "I" :: tnat (length inv) :: flat_map (fun fs : Z * Z => [TZ (fst fs); TZ (snd fs)]) inv) ++
          flat_map (fun io => tag "M" :: instr_body io) (combine (List.seq 0 (length ins)) ins)).
  rewrite (split_chunks _ "M" instr_body).
  - cbn [tnat]. change (is_tag "I" (tag "I")) with true. cbn iota. rewrite pairs_flat, parse_instrs_bodies, Z.eqb_refl. reflexivity.
  - reflexivity.
  - intros t [<-|[<-|Ht]]; try reflexivity. apply in_flat_map in Ht as ([f s] & _ & [<-|[<-|[]]]); reflexivity.
  - apply no_sep_instr_body.
Qed.

Lemma no_sep_cprint_body : forall o, no_sep "/" (cprint_body o).
Proof.
  intros [inv ins] t Ht. unfold cprint_body in Ht. cbn [cp_inv cp_instr] in Ht.
  destruct Ht as [<-|[<-|Ht]]; try reflexivity. apply in_app_or in Ht as [Ht|Ht].
  - apply in_flat_map in Ht as ([f s] & _ & [<-|[<-|[]]]); reflexivity.
  - apply in_flat_map in Ht as ([i x] & _ & Hin). rewrite print_instr_body in Hin. destruct Hin as [<-|Hin]; [reflexivity|].
    unfold instr_body in Hin. cbn [fst snd] in Hin. destruct Hin as [<-|Hin]; [reflexivity|].
    destruct x as [[t0 pts]|].
    + destruct Hin as [<-|[<-|Hin]]; try reflexivity. apply in_flat_map in Hin as ([a p] & _ & Hp). cbn [fst snd] in Hp.
      destruct Hp as [<-|[<-|Hp]]; try reflexivity. now apply (no_sep_point "/" p).
    + destruct Hin as [<-|[]]. reflexivity.
Qed.

Theorem parse_print_obs : forall l, parse_obs (print_obs l) = Some l.
Proof.
  intros l. unfold parse_obs, print_obs.
  change (tag "OK" :: flat_map print_cprint l) with ([tag "OK"] ++ flat_map (fun o => tag "/" :: cprint_body o) l).
  rewrite (split_chunks _ "/" cprint_body).
  - change (is_tag "OK" (tag "OK")) with true. cbn iota.
    rewrite (map_opt_map _ _ _ cprint_body parse_cprint). rewrite (map_opt_id _ _ _ (fun o => o)) by apply parse_cprint_body. now rewrite map_id.
  - reflexivity.
  - intros t [<-|[]]. reflexivity.
  - apply no_sep_cprint_body.
Qed.

Theorem parse_print_lv : forall l, parse_lv_obs (print_lv l) = Some l.
Proof.
  intros l. unfold parse_lv_obs, print_lv.
  change (tag "OK" :: flat_map (fun p => tag "P" :: print_point p) l) with ([tag "OK"] ++ flat_map (fun p => tag "P" :: print_point p) l).
  rewrite (split_chunks _ "P" print_point).
  - change (is_tag "OK" (tag "OK")) with true. cbn iota. rewrite map_opt_map.
    rewrite (map_opt_id _ _ _ (fun p => p)); [now rewrite map_id|]. intros p. now rewrite parse_print_point.
  - reflexivity.
  - intros t [<-|[]]. reflexivity.
  - intros p. now apply no_sep_point.
Qed.

(* ------------------------------------------------------------------ model_meets_spec on token lines *)
Theorem model_meets_spec_wire_lemma : forall l cs, parse_case l = Some cs -> run_spec_seq l (run_model_seq l) = [].
Proof.
  intros l cs Hp. pose proof (parsed_case_good l cs Hp) as Hg. unfold run_spec_seq, run_model_seq. rewrite Hp. destruct cs as [c ops|sc ops].
  - rewrite parse_print_obs. now apply (model_meets_spec_lemma (CObs c ops)).
  - rewrite parse_print_lv. now apply (model_meets_spec_lemma (CLv sc ops)).
Qed.
