(* C17 proofs, part 13: every accepted history passes the count clause of SpecRace.v, hence the whole race SPEC. *)
From V Require Import C17.Lts C17.ProofsLts C17.ProofsLtsSpec C17.ProofsLtsCount.
From Coq Require Import Lia.
Local Open Scope Z_scope.

(* ------------------------------------------------------------------ numbered lists *)
Lemma number_app : forall (l1 l2 : list ev), number (l1 ++ l2) = number l1 ++ combine (seq (length l1) (length l2)) l2.
Proof.
  intros l1 l2. unfold number. rewrite app_length, seq_app. cbn [Nat.add].
  assert (H : forall A B (a1 a2 : list A) (b1 b2 : list B), length a1 = length b1 -> combine (a1 ++ a2) (b1 ++ b2) = combine a1 b1 ++ combine a2 b2).
  { intros A B. induction a1 as [|x a1 IH]; intros a2 b1 b2 Hl; destruct b1; try discriminate; [reflexivity|]. cbn. f_equal. apply IH. now injection Hl. }
  apply H. now rewrite seq_length.
Qed.

Lemma combine_seq_ge : forall (l : list ev) s pe, In pe (combine (seq s (length l)) l) -> (s <= fst pe)%nat.
Proof.
  induction l as [|x l IH]; intros s pe H; cbn [length seq combine In] in H; [contradiction|].
  destruct H as [<-|H]; [cbn; lia|]. apply IH in H. lia.
Qed.

Lemma map_fst_number : forall (l : list ev), map fst (number l) = seq 0 (length l).
Proof.
  intros l. unfold number. generalize 0%nat. induction l as [|x l IH]; intros s; cbn [length seq combine map fst]; [reflexivity|]. now rewrite IH.
Qed.

(* a flat_map that produces, for the event at position p, at most one element and that with first component p *)
Lemma nodup_fst_flat_map : forall (F : pev -> list (nat * option nat)) (h : list pev),
  NoDup (map fst h) -> (forall pe y, In y (F pe) -> F pe = [y] /\ fst y = fst pe) -> NoDup (map fst (flat_map F h)).
Proof.
  intros F. induction h as [|pe h IH]; intros Hn HF; [constructor|]. cbn [map] in Hn. inversion Hn as [|? ? Hx Hl]; subst. cbn [flat_map].
  destruct (F pe) as [|y ys] eqn:E; [now apply IH|].
  destruct (HF pe y ltac:(rewrite E; now left)) as [H1 H2]. rewrite E in H1. injection H1 as ->. cbn [app map]. constructor; [|now apply IH].
  intros Hin. apply Hx. rewrite <- H2. apply in_map_iff in Hin as (z & Hz1 & Hz2). apply in_flat_map in Hz2 as (pe' & Hp1 & Hp2).
  destruct (HF pe' z Hp2) as [_ H3]. apply in_map_iff. exists pe'. split; [congruence|exact Hp1].
Qed.

Lemma adds_of_nodup : forall l k, NoDup (map fst (adds_of (number l) k)).
Proof.
  intros l k. unfold adds_of. apply nodup_fst_flat_map; [rewrite map_fst_number; apply seq_NoDup|].
  intros [p e] y Hy. cbn [fst snd] in *. destruct e; try contradiction. destruct (key_eqb k0 k); [|contradiction].
  destruct Hy as [<-|[]]. split; reflexivity.
Qed.

Lemma adds_of_inv : forall l k A, In A (adds_of (number l) k) ->
  exists ua, nth_error l (fst A) = Some (EBA ua k) /\ snd A = ret_of (number l) (fst A) (is_ra ua k).
Proof.
  intros l k A H. unfold adds_of in H. apply in_flat_map in H as ([p e] & Hin & HA). apply number_spec in Hin. cbn [fst snd] in HA.
  destruct e; try contradiction. destruct (key_eqb k0 k) eqn:Ek; [|contradiction]. apply key_eqb_true in Ek. subst k0.
  destruct HA as [<-|[]]. exists t. now split.
Qed.

Lemma removals_of_in_rem : forall l k rb t', nth_error l rb = Some (EBR t' k) -> In (rb, ret_of (number l) rb (is_rr t' k)) (removals_of (number l) k).
Proof.
  intros l k rb t' H. unfold removals_of. apply in_flat_map. exists (rb, EBR t' k). split; [now apply number_spec|].
  cbn [fst snd]. rewrite key_eqb_rfl. now left.
Qed.
Lemma removals_of_in_des : forall l k rb t', nth_error l rb = Some (EBX t' (instr_of k)) ->
  In (rb, ret_of (number l) rb (is_rx t' (instr_of k))) (removals_of (number l) k).
Proof.
  intros l k rb t' H. unfold removals_of. apply in_flat_map. exists (rb, EBX t' (instr_of k)). split; [now apply number_spec|].
  cbn [fst snd]. unfold instr_of. rewrite Nat.eqb_refl. now left.
Qed.

Lemma nodup_filter_fst : forall A B (f : A * B -> bool) l, NoDup (map fst l) -> NoDup (map fst (filter f l)).
Proof.
  intros A B f. induction l as [|x l IH]; intros H; [constructor|]. cbn [map] in H. inversion H as [|? ? Hx Hl]; subst. cbn [filter].
  destruct (f x); [|now apply IH]. cbn [map]. constructor; [|now apply IH].
  intros Hin. apply Hx. apply in_map_iff in Hin as (y & Hy1 & Hy2). apply in_map_iff. exists y. split; [exact Hy1|]. now apply filter_In in Hy2.
Qed.

(* ------------------------------------------------------------------ the calls of a collection *)
Definition key_is (k : key) (x : key) : bool := key_eqb x k.

Lemma filter_none : forall A (f : A -> bool) h, (forall x, In x h -> f x = false) -> filter f h = [].
Proof.
  intros A f. induction h as [|x h IH]; intros H; [reflexivity|]. cbn [filter]. rewrite (H x (or_introl eq_refl)). apply IH. intros y Hy. apply H. now right.
Qed.

Lemma calls_in_prefix : forall l e t k b, (e <= length l)%nat ->
  calls_in (number l) t k b e = length (filter (key_is k) (calls_by (firstn e l) t b)).
Proof.
  intros l e t k b He. rewrite <- (firstn_skipn e l) at 1. rewrite number_app.
  assert (Hlen : length (firstn e l) = e) by (rewrite firstn_length; lia).
  unfold calls_in. rewrite filter_app, app_length.
  rewrite (filter_none _ _ (combine (seq (length (firstn e l)) (length (skipn e l))) (skipn e l))).
  2:{ intros pe Hin. apply combine_seq_ge in Hin. rewrite Hlen in Hin. destruct (snd pe); try reflexivity.
      assert (E : Nat.ltb (fst pe) e = false) by (apply Nat.ltb_ge; lia). rewrite E. apply andb_false_r. }
  cbn [length]. rewrite Nat.add_0_r. unfold calls_by.
  assert (Hpos : forall pe, In pe (number (firstn e l)) -> (fst pe < e)%nat).
  { intros [p x] Hin. apply number_spec in Hin. apply nth_some_lt in Hin. cbn. lia. }
  induction (number (firstn e l)) as [|pe h IH]; [reflexivity|]. cbn [filter flat_map]. rewrite filter_app, app_length.
  rewrite <- IH by (intros y Hy; apply Hpos; now right). specialize (Hpos pe (or_introl eq_refl)).
  destruct (snd pe); cbn [filter length app]; try reflexivity.
  assert (E : Nat.ltb (fst pe) e = true) by (now apply Nat.ltb_lt). rewrite E, andb_true_r.
  destruct (t0 =? t), (Nat.ltb b (fst pe)); cbn [andb filter length]; unfold key_is; destruct (key_eqb k0 k); cbn [andb length]; reflexivity.
Qed.

Lemma filter_map_fst : forall (k : key) (gs : list entry),
  length (filter (key_is k) (map fst gs)) = length (filter (fun en => key_is k (fst en)) gs).
Proof. intros k. induction gs as [|x gs IH]; [reflexivity|]. cbn [map filter]. destruct (key_is k (fst x)); cbn [length]; now rewrite IH. Qed.

(* ------------------------------------------------------------------ the count clause *)
Section Count.
  Variables (l : list ev) (st : lstate).
  Hypothesis Hacc : accepted l = Some st.

  Lemma accepted_collection_counts : forall b t r e k,
    nth_error l b = Some (EBC t r) -> ret_of (number l) b (is_ec t r) = Some e ->
    (min_calls (number l) k b e <= calls_in (number l) t k b e)%nat /\ (calls_in (number l) t k b e <= max_calls (number l) k b e)%nat.
  Proof.
    intros b t r e k Hb He.
    destruct (ret_of_some _ _ _ _ He) as (Hbe & (ee & Hee & Hfe) & Hmin).
    assert (ee = EEC t r).
    { destruct ee; try discriminate. cbn in Hfe. apply andb_prop in Hfe as [H1 H2]. apply Z.eqb_eq in H1. apply Z.eqb_eq in H2. now subst. }
    subst ee.
    destruct (accepted_at l st e _ Hacc Hee) as (st1 & st2 & H1 & Ha & Hlen & Hpre).
    pose proof (accepted_inv _ _ H1) as I. pose proof (accepted_inv2 _ _ H1) as I2. apply accept_trans in Ha. inversion Ha; subst.
    rename b0 into gb. rename snap into gs.
    (* the collection that returns at e is the one begun at b *)
    assert (Hgb : gb = b).
    { destruct (i2_begun _ _ I2 b t r) as [Ho|(j & Hj & Hx)].
      - rewrite Hpre by exact Hbe. exact Hb.
      - match goal with Hs : l_thr st1 t = TColU _ _ _ |- _ => rewrite Hs in Ho end. cbn [op_of] in Ho. now injection Ho.
      - exfalso. assert (Hje : (j < e)%nat) by (apply nth_some_lt in Hx; lia). rewrite Hpre in Hx by exact Hje.
        specialize (Hmin j _ Hj Hje Hx). cbn in Hmin. now rewrite !Z.eqb_refl in Hmin. }
    subst gb.
    match goal with Hs : l_thr st1 t = TColU _ _ _ |- _ => rename Hs into Hst end.
    pose proof (i2_called _ _ I2 t) as Hcalled. rewrite Hst in Hcalled.
    destruct (i2_colu _ _ I2 t r b gs Hst) as (C4 & C1 & C3).
    assert (Hel : (e <= length l)%nat) by (apply nth_some_lt in Hee; lia).
    rewrite (calls_in_prefix l e t k b Hel), Hcalled, filter_map_fst.
    match goal with |- context [filter ?f gs] => set (Sk := filter f gs) end.
    assert (HSk : forall en, In en Sk -> In en gs /\ fst en = k).
    { intros en Hin. apply filter_In in Hin as [H2 H3]. split; [exact H2|]. now apply key_eqb_true in H3. }
    assert (HSnd : NoDup (map snd Sk)) by (apply nodup_filter_snd; exact C4).
    assert (Hlen_le : length (firstn e l) = e) by exact Hlen.
    split.
    - (* every AddCallback certainly registered throughout has its record in the list of the pass *)
      unfold min_calls.
      set (M := filter (fun A : nat * option nat => lt_opt (snd A) b &&
                        forallb (fun R : nat * option nat => lt_opt (snd R) (fst A) || Nat.ltb e (fst R)) (removals_of (number l) k)) (adds_of (number l) k)).
      rewrite <- (map_length fst M), <- (map_length snd Sk).
      apply NoDup_incl_length; [apply nodup_filter_fst, adds_of_nodup|].
      intros ab Hab. apply in_map_iff in Hab as (A & <- & HA). apply filter_In in HA as [HA1 HA2]. apply andb_prop in HA2 as [Hret Hall].
      rewrite forallb_forall in Hall.
      destruct (adds_of_inv l k A HA1) as (ua & Hua & Hra). destruct (snd A) as [ar|] eqn:Ear; [|discriminate]. cbn [lt_opt] in Hret.
      apply Nat.ltb_lt in Hret. symmetry in Hra. destruct (ret_of_some _ _ _ _ Hra) as (Har1 & (ea & Hea & Hfa) & _). apply is_ra_true in Hfa. subst ea.
      destruct (C3 (fst A) ua k ar) as [Hin|Hg]; try lia; try (rewrite Hpre by lia; assumption).
      + apply in_map_iff. exists (k, fst A). split; [reflexivity|]. apply filter_In. split; [exact Hin|]. apply key_eqb_rfl.
      + exfalso. destruct Hg as (rb & t' & Hrb & Hrem). rewrite Hlen_le in Hrb.
        destruct Hrem as [[Hr1 Hr2]|[Hr1 Hr2]]; rewrite Hpre in Hr1 by exact Hrb.
        * specialize (Hall _ (removals_of_in_rem l k rb t' Hr1)). cbn [fst snd] in Hall.
          assert (E : Nat.ltb e rb = false) by (apply Nat.ltb_ge; lia). rewrite E, orb_false_r in Hall.
          destruct (ret_of (number l) rb (is_rr t' k)) as [rr|] eqn:Err; [|discriminate]. cbn [lt_opt] in Hall. apply Nat.ltb_lt in Hall.
          destruct (ret_of_some _ _ _ _ Err) as (Hrr1 & (er & Her & Hfr) & _). apply is_rr_true in Hfr. subst er.
          assert (Hrre : (rr < e)%nat) by lia. specialize (Hr2 rr Hrr1). rewrite Hpre in Hr2 by exact Hrre. specialize (Hr2 Her). lia.
        * specialize (Hall _ (removals_of_in_des l k rb t' Hr1)). cbn [fst snd] in Hall.
          assert (E : Nat.ltb e rb = false) by (apply Nat.ltb_ge; lia). rewrite E, orb_false_r in Hall.
          destruct (ret_of (number l) rb (is_rx t' (instr_of k))) as [rr|] eqn:Err; [|discriminate]. cbn [lt_opt] in Hall. apply Nat.ltb_lt in Hall.
          destruct (ret_of_some _ _ _ _ Err) as (Hrr1 & (er & Her & Hfr) & _). apply is_rx_true in Hfr. subst er.
          assert (Hrre : (rr < e)%nat) by lia. specialize (Hr2 rr Hrr1). rewrite Hpre in Hr2 by exact Hrre. specialize (Hr2 Her). lia.
    - (* every record of the list of the pass belongs to an AddCallback that is possibly registered *)
      unfold max_calls.
      set (M := filter (fun A : nat * option nat => Nat.ltb (fst A) e &&
                        negb (existsb (fun R : nat * option nat => match snd A with Some ar => Nat.ltb ar (fst R) | None => false end && lt_opt (snd R) b)
                                      (removals_of (number l) k))) (adds_of (number l) k)).
      rewrite <- (map_length snd Sk), <- (map_length fst M).
      apply NoDup_incl_length; [exact HSnd|].
      intros ab Hab. apply in_map_iff in Hab as ([k' ab'] & Hs & Hen). cbn [snd] in Hs. subst ab'. destruct (HSk _ Hen) as [Hin Hk]. cbn [fst] in Hk. subst k'.
      destruct (C1 k ab Hin) as (ua & Hua & Hablt & Hncr). rewrite Hlen_le in Hablt. rewrite Hpre in Hua by exact Hablt.
      apply in_map_iff. exists (ab, ret_of (number l) ab (is_ra ua k)). split; [reflexivity|]. apply filter_In. split; [now apply adds_of_in|].
      cbn [fst snd]. apply andb_true_intro. split; [now apply Nat.ltb_lt|]. apply negb_true_iff.
      destruct (existsb _ (removals_of (number l) k)) eqn:Eex; [|reflexivity]. exfalso. apply Hncr.
      apply existsb_exists in Eex as (R & HR & Hc). apply andb_prop in Hc as [Hc1 Hc2].
      destruct (ret_of (number l) ab (is_ra ua k)) as [ar|] eqn:Ear; [|discriminate]. apply Nat.ltb_lt in Hc1.
      destruct (ret_of_some _ _ _ _ Ear) as (Har1 & (ea & Hea & Hfa) & _). apply is_ra_true in Hfa. subst ea.
      destruct (snd R) as [rr|] eqn:Err; [|discriminate]. cbn [lt_opt] in Hc2. apply Nat.ltb_lt in Hc2.
      destruct (removals_of_inv l k R HR) as [(t' & Hrb & Hrs)|(t' & Hrb & Hrs)]; rewrite Err in Hrs; symmetry in Hrs;
        destruct (ret_of_some _ _ _ _ Hrs) as (Hrr1 & (er & Her & Hfr) & _).
      + apply is_rr_true in Hfr. subst er. exists ar, (fst R), rr, t'. rewrite !Hpre by lia. repeat split; try assumption; try lia. left. now split.
      + apply is_rx_true in Hfr. subst er. exists ar, (fst R), rr, t'. rewrite !Hpre by lia. repeat split; try assumption; try lia. right. now split.
  Qed.

  Lemma accepted_check_collections : check_collections (number l) = [].
  Proof.
    unfold check_collections. apply flat_map_nil. intros [b ev0] Hin. apply number_spec in Hin. cbn [fst snd]. destruct ev0; try reflexivity.
    destruct (ret_of (number l) b (is_ec t r)) as [e|] eqn:Ee; [|reflexivity].
    unfold check_collection. apply flat_map_nil. intros k _.
    destruct (accepted_collection_counts b t r e k Hin Ee) as [H1 H2]. cbn zeta.
    assert (E1 : Nat.ltb (calls_in (number l) t k b e) (min_calls (number l) k b e) = false) by (apply Nat.ltb_ge; lia).
    assert (E2 : Nat.ltb (max_calls (number l) k b e) (calls_in (number l) t k b e) = false) by (apply Nat.ltb_ge; lia).
    now rewrite E1, E2.
  Qed.
End Count.

(* every accepted history - every interleaving of any number of collecting and mutating threads - passes the race SPEC *)
Theorem accepted_trace_meets_spec_race_lemma : forall l st,
  accepted l = Some st -> check_removed (number l) ++ check_collections (number l) ++ check_exclusive (number l) = [].
Proof.
  intros l st H. rewrite (accepted_check_removed l st H), (accepted_check_collections l st H), (accepted_check_exclusive l st H). reflexivity.
Qed.
