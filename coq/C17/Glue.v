(* Glue between the token wire format and the C17 model/spec.  Extracted.

   case  ::= OBS <RC|SC> n t1..tn m k1..km { | <op> }        RC real clock, SC scripted clock; t: 0 delta, 1 cumulative
             op ::= A i f s | R i f s | X i | S s a v | U s a | G i a v | T d | C r
           | LV <RC|SC> { | <lvop> }                          lvop ::= A r v | M r a b | D r a b | P r | N r | T d
   obs   ::= OK { / I cnt {f s} { M i ( NONE | T t { K a ( S v mono | L v valid ) } ) } }      for OBS
           | OK { P L v valid }                                                                  for LV *)
From V Require Export C17.Spec C17.SpecRace C17.Lts.
Local Open Scope Z_scope.

Inductive case :=
| CObs (c : cfg) (ops : list op)
| CLv (scripted : bool) (ops : list lvop).

Definition vmax : Z := 1099511627776.    (* 2^40: every sum of a case stays far inside int64 and is exact in a double *)

Definition in_range (z lo hi : Z) : bool := (lo <=? z) && (z <? hi).
Definition znat (z : Z) : nat := Z.to_nat z.

Definition parse_mode (t : tok) : option bool :=
  if is_tag "SC" t then Some true else if is_tag "RC" t then Some false else None.

Fixpoint all_ints (l : list tok) : option (list Z) :=
  match l with
  | [] => Some []
  | TZ z :: l' => option_map (cons z) (all_ints l')
  | _ => None
  end.

Definition parse_header (l : list tok) : option cfg :=
  match l with
  | _ :: md :: rest =>
      match parse_mode md, all_ints rest with
      | Some sc, Some (n :: rest1) =>
          if in_range n 1 5 then
            let temps := firstn (znat n) rest1 in
            match skipn (znat n) rest1 with
            | m :: kinds =>
                if in_range m 1 5 && Nat.eqb (length temps) (znat n) && Nat.eqb (length kinds) (znat m)
                   && forallb (fun t => in_range t 0 2) temps && forallb (fun k => in_range k 0 8) kinds
                then Some (mk_cfg sc temps kinds) else None
            | [] => None
            end
          else None
      | _, _ => None
      end
  | _ => None
  end.

Definition parse_op (c : cfg) (l : list tok) : option op :=
  let m := Z.of_nat (ninstr c) in
  let n := Z.of_nat (nreaders c) in
  match l with
  | [t; TZ x; TZ y; TZ z] =>
      if is_tag "A" t then (if in_range x 0 m && in_range y 0 2 && in_range z 0 4 then Some (OAdd (znat x) y z) else None)
      else if is_tag "R" t then (if in_range x 0 m && in_range y 0 2 && in_range z 0 4 then Some (ORem (znat x) y z) else None)
      else if is_tag "G" t then (if in_range x 0 m && in_range y 0 4 && in_range z (- vmax) (vmax + 1) then Some (ORec (znat x) y z) else None)
      else if is_tag "S" t then (if in_range x 0 4 && in_range y 0 4 && in_range z (- vmax) (vmax + 1) then Some (OSet x y z) else None)
      else None
  | [t; TZ x; TZ y] =>
      if is_tag "U" t then (if in_range x 0 4 && in_range y 0 4 then Some (OUnset x y) else None) else None
  | [t; TZ x] =>
      if is_tag "X" t then (if in_range x 0 m then Some (ODestroy (znat x)) else None)
      else if is_tag "C" t then (if in_range x 0 n then Some (OCollect (znat x)) else None)
      else if is_tag "T" t then (if in_range x (-1000) 1001 then Some (OStep x) else None)
      else None
  | _ => None
  end.

Definition parse_lvop (l : list tok) : option lvop :=
  match l with
  | [t; TZ r; TZ a; TZ b] =>
      if in_range r 0 8 && in_range a 0 8 && in_range b 0 8 then
        if is_tag "M" t then Some (LMerge (znat r) (znat a) (znat b))
        else if is_tag "D" t then Some (LDiff (znat r) (znat a) (znat b))
        else None
      else None
  | [t; TZ r; TZ v] =>
      if is_tag "A" t then (if in_range r 0 8 && in_range v (- vmax) (vmax + 1) then Some (LAgg (znat r) v) else None) else None
  | [t; TZ r] =>
      if is_tag "T" t then (if in_range r (-1000) 1001 then Some (LStep r) else None)
      else if in_range r 0 8 then
        if is_tag "P" t then Some (LPrint (znat r)) else if is_tag "N" t then Some (LNew (znat r)) else None
      else None
  | _ => None
  end.

Fixpoint map_opt {A B} (f : A -> option B) (l : list A) : option (list B) :=
  match l with
  | [] => Some []
  | x :: l' => match f x, map_opt f l' with Some y, Some r => Some (y :: r) | _, _ => None end
  end.

Definition parse_case (l : list tok) : option case :=
  match split_toks "|" l with
  | hd :: chunks =>
      match hd with
      | t :: _ =>
          if is_tag "OBS" t then
            match parse_header hd with
            | Some c => option_map (CObs c) (map_opt (parse_op c) chunks)
            | None => None
            end
          else if is_tag "LV" t then
            match hd with
            | [_; md] => match parse_mode md with
                         | Some sc => option_map (CLv sc) (map_opt parse_lvop chunks)
                         | None => None
                         end
            | _ => None
            end
          else None
      | [] => None
      end
  | [] => None
  end.

(* ------------------------------------------------------------------ printing *)
Definition print_point (p : point) : list tok :=
  match p with
  | PSum v m => [tag "S"; TZ v; tbool m]
  | PLast v b => [tag "L"; TZ v; tbool b]
  end.
Definition print_instr (io : nat * option (Z * list (Z * point))) : list tok :=
  tag "M" :: tnat (fst io) ::
  match snd io with
  | None => [tag "NONE"]
  | Some (t, pts) => tag "T" :: TZ t :: flat_map (fun ap => tag "K" :: TZ (fst ap) :: print_point (snd ap)) pts
  end.
Definition print_cprint (o : cprint) : list tok :=
  tag "/" :: tag "I" :: tnat (length (cp_inv o)) :: flat_map (fun fs => [TZ (fst fs); TZ (snd fs)]) (cp_inv o)
  ++ flat_map print_instr (combine (seq 0 (length (cp_instr o))) (cp_instr o)).
Definition print_obs (l : list cprint) : list tok := tag "OK" :: flat_map print_cprint l.
Definition print_lv (l : list point) : list tok := tag "OK" :: flat_map (fun p => tag "P" :: print_point p) l.

(* ------------------------------------------------------------------ parsing of observations *)
Definition parse_point (l : list tok) : option (Z * point) :=
  match l with
  | [TZ a; t; TZ v; TZ b] =>
      if negb (in_range b 0 2) then None
      else if is_tag "S" t then Some (a, PSum v (b =? 1))
      else if is_tag "L" t then Some (a, PLast v (b =? 1))
      else None
  | _ => None
  end.
Fixpoint pairs (l : list tok) : option (list (Z * Z)) :=
  match l with
  | [] => Some []
  | TZ f :: TZ s :: l' => option_map (cons (f, s)) (pairs l')
  | _ => None
  end.
(* one "M" section: i NONE | i T t {K point} ; the instrument numbers must be 0, 1, 2, ... *)
Definition parse_instr (idx : nat) (l : list tok) : option (option (Z * list (Z * point))) :=
  match split_toks "K" l with
  | [TZ i; t] :: [] => if (i =? Z.of_nat idx) && is_tag "NONE" t then Some None else None
  | [TZ i; t; TZ tmp] :: pts =>
      if (i =? Z.of_nat idx) && is_tag "T" t
      then match map_opt parse_point pts with Some ps => Some (Some (tmp, ps)) | None => None end
      else None
  | _ => None
  end.
Fixpoint parse_instrs (idx : nat) (l : list (list tok)) : option (list (option (Z * list (Z * point)))) :=
  match l with
  | [] => Some []
  | x :: l' => match parse_instr idx x, parse_instrs (S idx) l' with Some y, Some r => Some (y :: r) | _, _ => None end
  end.
Definition parse_cprint (l : list tok) : option cprint :=
  match split_toks "M" l with
  | (t :: TZ cnt :: inv) :: instrs =>
      if is_tag "I" t then
        match pairs inv, parse_instrs 0 instrs with
        | Some ps, Some is => if Z.of_nat (length ps) =? cnt then Some (mk_cprint ps is) else None
        | _, _ => None
        end
      else None
  | _ => None
  end.
Definition parse_obs (l : list tok) : option (list cprint) :=
  match split_toks "/" l with
  | [t] :: chunks => if is_tag "OK" t then map_opt parse_cprint chunks else None
  | _ => None
  end.
Definition parse_lv_obs (l : list tok) : option (list point) :=
  match split_toks "P" l with
  | [t] :: chunks => if is_tag "OK" t then map_opt (fun ch => option_map snd (parse_point (TZ 0 :: ch))) chunks else None
  | _ => None
  end.

(* ------------------------------------------------------------------ entry points *)
Definition run_model_seq (l : list tok) : list tok :=
  match parse_case l with
  | Some (CObs c ops) => print_obs (run_print c ops)
  | Some (CLv sc ops) => print_lv (lv_run sc ops)
  | None => bad_case
  end.

Definition run_spec_seq (l obs : list tok) : list tok :=
  match parse_case l with
  | Some (CObs c ops) => match parse_obs obs with Some o => spec_obs c ops o | None => fail "observation:unparsable" end
  | Some (CLv sc ops) => match parse_lv_obs obs with Some o => spec_lv sc ops o | None => fail "observation:unparsable" end
  | None => bad_case
  end.

(* branch tag for coverage accounting *)
Definition final_sstate (c : cfg) (ops : list op) : sstate := fold_left (sstep c) ops sinit.
Definition any_instr (c : cfg) (p : nat -> bool) : bool := existsb p (seq 0 (ninstr c)).
Definition run_tag_seq (l : list tok) : list tok :=
  match parse_case l with
  | Some (CObs c ops) =>
      let ss := final_sstate c ops in
      [TT (bs (if c_scripted c then "obs_sc_" else "obs_rc_") ++
           bs (if is_nil (collects_of ops) then "nocollect_"
               else if Nat.eqb (nreaders c) 1 then (if cumulative c 0 then "one_cumulative_" else "fast_delta_")
               else "multi_") ++
           bs (if any_instr c (p_skip ss) then "negative_total"
               else if any_instr c (p_multi ss) then "multi_observation"
               else if negb (p_clock_ok ss) then "clock_not_increasing"
               else "clean"))]
  | Some (CLv sc ops) =>
      [TT (bs (if sc then "lv_sc_" else "lv_rc_") ++
           bs (if existsb (fun o => match o with LPrint _ => true | _ => false end) ops then "prints" else "noprint"))]
  | None => bad_case
  end.

(* ------------------------------------------------------------------ ORACE cases (engine E-sched) and the trace convention
   The runner hands every case over as  <case> || <event history of the implementation>  (empty for OBS and LV cases).
     ORACE m k1..km | I <rop> ; ... | T <rop> ; ... | T ... | s <schedule>        rop ::= A i f s | R i f s | X i | C r
   history: entries "<tid> <event> <args>" separated by ";", tid -1 = the controller; the entries of the scheduler shim itself
   (lock, unlock, xchg, st, yield, ...) are skipped.  The observation proper is the tag OK (or what the shim reports). *)
Fixpoint cut_bars (l : list tok) : list tok * list tok :=
  match l with
  | [] => ([], [])
  | t :: r => if is_tag "||" t then ([], r) else let '(a, b) := cut_bars r in (t :: a, b)
  end.

Definition parse_rop (m : Z) (l : list tok) : option rop :=
  match l with
  | [t; TZ x; TZ y; TZ z] =>
      if in_range x 0 m && in_range y 0 2 && in_range z 0 4 then
        if is_tag "A" t then Some (RAdd (znat x, y, z)) else if is_tag "R" t then Some (RRem (znat x, y, z)) else None
      else None
  | [t; TZ x] =>
      if is_tag "X" t then (if in_range x 0 m then Some (RDestroy (znat x)) else None)
      else if is_tag "C" t then (if in_range x 0 2 then Some (RCollect x) else None)
      else None
  | _ => None
  end.
Definition parse_rops (m : Z) (sec : list tok) : option (list rop) :=
  match sec with
  | [] => None
  | [_] => Some []
  | _ :: rest => map_opt (parse_rop m) (split_toks ";" rest)
  end.
Fixpoint parse_threads (m : Z) (secs : list (list tok)) : option (list (list rop)) :=
  match secs with
  | [] => Some []
  | sec :: rest =>
      match sec with
      | t :: _ =>
          if is_tag "s" t then (match rest with [] => Some [] | _ => None end)
          else if is_tag "T" t then
            match parse_rops m sec, parse_threads m rest with Some ops, Some ths => Some (ops :: ths) | _, _ => None end
          else None
      | [] => None
      end
  end.
Definition parse_race (l : list tok) : option (list rop * list (list rop)) :=
  match split_toks "|" l with
  | (_ :: TZ m :: kinds) :: isec :: rest =>
      if in_range m 1 5 && Nat.eqb (length kinds) (znat m) then
        match isec with
        | t :: _ => if is_tag "I" t
                    then match parse_rops m isec, parse_threads m rest with Some i, Some ths => Some (i, ths) | _, _ => None end
                    else None
        | [] => None
        end
      else None
  | _ => None
  end.

Definition parse_event (l : list tok) : list ev :=
  match l with
  | [TZ t; n; TZ r] =>
      if is_tag "bc" n then [EBC t r] else if is_tag "ec" n then [EEC t r]
      else if is_tag "bx" n then [EBX t (znat r)] else if is_tag "rx" n then [ERX t (znat r)] else []
  | [TZ t; n; TT _] =>
      (* the only verif::mutex of the shimmed binary is the registry's callbacks_m_ (spin locks log xchg / st) *)
      if is_tag "lock" n then [ELock t] else if is_tag "unlock" n then [EUnlock t] else []
  | [TZ t; n; TZ i; TZ f; TZ s] =>
      let k := (znat i, f, s) in
      if is_tag "call" n then [ECall t k] else if is_tag "done" n then [EDone t k]
      else if is_tag "ba" n then [EBA t k] else if is_tag "ra" n then [ERA t k]
      else if is_tag "br" n then [EBR t k] else if is_tag "rr" n then [ERR t k] else []
  | _ => []
  end.
Definition parse_history (tr : list tok) : list ev := flat_map parse_event (split_toks ";" tr).

Definition is_race (main : list tok) : bool := match main with t :: _ => is_tag "ORACE" t | [] => false end.

(* PURITY <size> <threads> <rounds> <iters>: the independence probe harness/c17_purity.cc (real threads under ThreadSanitizer,
   every thread collecting its own MeterProvider; one provider collected while a registry of it is mutated).  The model treats
   distinct providers and registries as independent values, so the only observation it predicts is PURE; the probe's other
   observations name the failed clause.  A run-time probe of that assumption, not a theorem. *)
Definition is_purity (main : list tok) : bool :=
  match main with [t; TZ _; TZ _; TZ _; TZ _] => is_tag "PURITY" t | _ => false end.
Definition spec_purity_ok (obs : list tok) : list tok :=
  match obs with
  | [t] => if is_tag "PURE" t then [] else fail "observation:unparsable"
  | t :: _ => if is_tag "RACE" t then fail "purity:data_race"
              else if is_tag "DIFFERS" t then fail "purity:result_differs"
              else if is_tag "HARNESSRACE" t then fail "harness:probe_race"
              else if is_tag "HANG" t then fail "purity:hang"
              else if is_tag "CRASH" t then fail "purity:crash"
              else fail "observation:unparsable"
  | [] => fail "observation:unparsable"
  end.

(* ORACE: the lock-granularity acceptor of Lts.v replays the implementation's history event by event *)
Definition run_model (l : list tok) : list tok :=
  let '(main, tr) := cut_bars l in
  if is_purity main then [tag "PURE"]
  else if is_race main then
    match parse_race main with
    | Some _ => match first_rejected linit (parse_history tr) with None => [tag "OK"] | Some n => [tag "REJECT"; tnat n] end
    | None => bad_case
    end
  else run_model_seq main.

Definition run_spec (l obs : list tok) : list tok :=
  let '(main, tr) := cut_bars l in
  if is_purity main then spec_purity_ok obs
  else if is_race main then
    match parse_race main with
    | Some (init, threads) =>
        spec_race init threads (match obs with [t] => is_tag "OK" t | _ => false end) (parse_history tr)
        ++ check (is_none (first_rejected linit (parse_history tr))) "registry_lock_protocol:history_rejected"
    | None => bad_case
    end
  else run_spec_seq main obs.

Definition run_tag (l : list tok) : list tok :=
  let '(main, _) := cut_bars l in
  if is_purity main then [tag "purity_probe"]
  else if is_race main then
    match parse_race main with
    | Some (init, threads) =>
        let ops := concat threads in
        [TT (bs "orace_" ++
             bs (if existsb (fun o => match o with RDestroy _ => true | _ => false end) ops then "destroy"
                 else if existsb (fun o => match o with RRem _ => true | _ => false end) ops then "remove"
                 else if existsb (fun o => match o with RAdd _ => true | _ => false end) ops then "add"
                 else "collect_only"))]
    | None => bad_case
    end
  else run_tag_seq main.
