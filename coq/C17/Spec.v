(* SPEC for C17, written independently of how the SDK computes its points: no delta tables, no unreported lists, no merges.
   The abstract state is what the property text talks about:
     - which callbacks are registered (added and not removed since; none of a destroyed instrument),
     - per instrument and attribute set the running total / value most recently reported (by a callback at some collection,
       or by a synchronous Record),
     - per reader the total it was last given, and which attribute sets were reported since it last collected.
   The checkers are run by ./check on the IMPLEMENTATION's observations (and, in Proofs, shown to accept the model's). *)
From V Require Export C17.Model.
Local Open Scope Z_scope.

Record sstate := mk_ss {
  p_regs : list key;                      (* live registrations, in registration order *)
  p_dead : nat -> bool;
  p_world : Z -> Z -> option Z;           (* the script: what a callback with state s observes for attribute set a *)
  p_latest : nat -> Z -> option Z;        (* instrument, attribute set: the most recently reported total / value *)
  p_base : nat -> nat -> Z -> Z;          (* instrument, reader, attribute set: the total the reader was last given (0: never) *)
  p_touched : nat -> nat -> Z -> bool;    (* instrument, reader, attribute set: reported since the reader's last collection *)
  p_multi : nat -> bool;                  (* some collection reported one attribute set of the instrument more than once
                                             (the last report counts; kept for the coverage tags only) *)
  p_skip : nat -> bool;                   (* outside the property's domain: a negative total on a monotonic counter *)
  p_clock_ok : bool                       (* the clock has been strictly increasing in call order so far *)
}.
Definition sinit : sstate :=
  mk_ss [] (fun _ => false) (fun _ _ => None) (fun _ _ => None) (fun _ _ _ => 0) (fun _ _ _ => false)
        (fun _ => false) (fun _ => false) true.

(* the measurements of one callback invocation, and of one collection for instrument i (in invocation order) *)
Definition meas_list (m : Z -> option Z) : list (Z * Z) :=
  flat_map (fun a => match m a with Some v => [(a, v)] | None => [] end) attrs.
Definition reports (regs : list key) (w : Z -> Z -> option Z) (i : nat) : list (Z * Z) :=
  flat_map (fun k => if Nat.eqb (fst (fst k)) i then meas_list (w (snd k)) else []) regs.

Fixpoint has_dup (l : list Z) : bool :=
  match l with [] => false | x :: l' => existsb (Z.eqb x) l' || has_dup l' end.
(* the last report of attribute set a in a list of reports *)
Fixpoint last_report (l : list (Z * Z)) (a : Z) : option Z :=
  match l with
  | [] => None
  | (b, v) :: l' => match last_report l' a with Some w => Some w | None => if b =? a then Some v else None end
  end.

(* a report (a, v) for instrument i: the latest value of a is v, and every reader has something new for a *)
Definition sreport (ss : sstate) (i : nat) (rep : list (Z * Z)) : sstate :=
  mk_ss (p_regs ss) (p_dead ss) (p_world ss)
        (upd (p_latest ss) i (fun a => match last_report rep a with Some v => Some v | None => p_latest ss i a end))
        (p_base ss)
        (upd (p_touched ss) i (fun r a => if is_none (last_report rep a) then p_touched ss i r a else true))
        (upd (p_multi ss) i (p_multi ss i || has_dup (map fst rep)))
        (p_skip ss) (p_clock_ok ss).
(* a collection begins: every registered callback reports what the script says *)
Definition sobserve (c : cfg) (ss : sstate) : sstate :=
  let rep := reports (p_regs ss) (p_world ss) in
  mk_ss (p_regs ss) (p_dead ss) (p_world ss)
        (fun i a => match last_report (rep i) a with Some v => Some v | None => p_latest ss i a end)
        (p_base ss)
        (fun i r a => if is_none (last_report (rep i) a) then p_touched ss i r a else true)
        (fun i => p_multi ss i || has_dup (map fst (rep i)))
        (fun i => p_skip ss i || (is_mono (kind_of c i) && existsb (fun av => snd av <? 0) (rep i)))
        (p_clock_ok ss).
(* reader r has been given its points: it is up to date *)
Definition sgiven (ss : sstate) (r : nat) : sstate :=
  mk_ss (p_regs ss) (p_dead ss) (p_world ss) (p_latest ss)
        (fun i r' a => if Nat.eqb r' r
                       then (if p_touched ss i r a then match p_latest ss i a with Some v => v | None => 0 end else p_base ss i r a)
                       else p_base ss i r' a)
        (fun i r' a => if Nat.eqb r' r then false else p_touched ss i r' a)
        (p_multi ss) (p_skip ss) (p_clock_ok ss).

Definition susable (c : cfg) (ss : sstate) (i : nat) (async : bool) : bool :=
  Nat.ltb i (ninstr c) && Bool.eqb (is_async (kind_of c i)) async && negb (p_dead ss i).

Definition sstep (c : cfg) (ss : sstate) (o : op) : sstate :=
  match o with
  | OAdd i f s =>
      if susable c ss i true
      then mk_ss (p_regs ss ++ [(i, f, s)]) (p_dead ss) (p_world ss) (p_latest ss) (p_base ss) (p_touched ss) (p_multi ss) (p_skip ss) (p_clock_ok ss)
      else ss
  | ORem i f s =>
      if susable c ss i true
      then mk_ss (filter (fun k => negb (key_eqb k (i, f, s))) (p_regs ss)) (p_dead ss) (p_world ss) (p_latest ss) (p_base ss) (p_touched ss)
                 (p_multi ss) (p_skip ss) (p_clock_ok ss)
      else ss
  | ODestroy i =>
      mk_ss (filter (fun k => negb (Nat.eqb (fst (fst k)) i)) (p_regs ss)) (upd (p_dead ss) i true) (p_world ss) (p_latest ss) (p_base ss)
            (p_touched ss) (p_multi ss) (p_skip ss) (p_clock_ok ss)
  | OSet s a v =>
      mk_ss (p_regs ss) (p_dead ss) (fun s' a' => if (s' =? s) && (a' =? a) then Some v else p_world ss s' a') (p_latest ss) (p_base ss)
            (p_touched ss) (p_multi ss) (p_skip ss) (p_clock_ok ss)
  | OUnset s a =>
      mk_ss (p_regs ss) (p_dead ss) (fun s' a' => if (s' =? s) && (a' =? a) then None else p_world ss s' a') (p_latest ss) (p_base ss)
            (p_touched ss) (p_multi ss) (p_skip ss) (p_clock_ok ss)
  | ORec i a v =>
      if susable c ss i false then sreport ss i [(a, v)] else ss
  | OStep d =>
      if c_scripted c
      then mk_ss (p_regs ss) (p_dead ss) (p_world ss) (p_latest ss) (p_base ss) (p_touched ss) (p_multi ss) (p_skip ss) (p_clock_ok ss && (0 <? d))
      else ss
  | OCollect r => sgiven (sobserve c ss) r
  end.

(* ------------------------------------------------------------------ what reader r must be given for instrument i *)
Definition mkpoint (k v : Z) : point := if is_last k then PLast v true else PSum v (is_mono k).
Definition expected (c : cfg) (ss : sstate) (i r : nat) : Z -> option point :=
  fun a => match p_latest ss i a with
           | None => None
           | Some v =>
               if cumulative c r then Some (mkpoint (kind_of c i) v)
               else if p_touched ss i r a
                    then Some (mkpoint (kind_of c i) (if is_last (kind_of c i) then v else v - p_base ss i r a))
                    else None
           end.

Definition point_eqb (p q : point) : bool :=
  match p, q with
  | PSum v m, PSum w n => (v =? w) && Bool.eqb m n
  | PLast v m, PLast w n => (v =? w) && Bool.eqb m n
  | _, _ => false
  end.
Fixpoint pts_eqb (l1 l2 : list (Z * point)) : bool :=
  match l1, l2 with
  | [], [] => true
  | (a, p) :: l1', (b, q) :: l2' => (a =? b) && point_eqb p q && pts_eqb l1' l2'
  | _, _ => false
  end.
Definition is_nil {A} (l : list A) : bool := match l with [] => true | _ => false end.

Definition value_tag (c : cfg) (ss : sstate) (i r : nat) : string :=
  let k := kind_of c i in
  if is_last k then (if is_async k then "gauge_reports_latest:observable" else "gauge_reports_latest:synchronous")
  else if cumulative c r then "cumulative_reader_gets_reported_total:value"
  else "delta_reader_gets_difference_from_own_last:value".

(* [ss] is the state after the collection's reports and before the reader is marked up to date *)
Definition check_instr (c : cfg) (ss : sstate) (r i : nat) (obs : option (Z * list (Z * point))) : list tok :=
  if p_skip ss i then []
  else if is_last (kind_of c i) && negb (p_clock_ok ss) then []
  else
    let exp := points_of (fun p => p) (expected c ss i r) in
    match obs with
    | None => check (is_nil exp) (value_tag c ss i r)          (* no MetricData at all = no points *)
    | Some (t, pts) =>
        check (t =? (if cumulative c r then 1 else 0)) "reader_temporality:as_configured" ++ check (pts_eqb pts exp) (value_tag c ss i r)
    end.

(* every registration is invoked exactly once, nothing else is invoked *)
Definition inv_count (l : list (Z * Z)) (f s : Z) : nat := length (filter (fun p => (fst p =? f) && (snd p =? s)) l).
Definition reg_count (l : list key) (f s : Z) : nat := length (filter (fun k => (snd (fst k) =? f) && (snd k =? s)) l).
Definition check_inv (regs : list key) (inv : list (Z * Z)) : list tok :=
  flat_map (fun fs => let e := reg_count regs (fst fs) (snd fs) in
                      let o := inv_count inv (fst fs) (snd fs) in
                      if Nat.eqb e o then []
                      else if Nat.eqb e 0 then fail "removed_never_invoked:invoked"
                      else fail "callback_once_per_collection:count")
           (list_prod funs states)
  ++ check (forallb (fun p => existsb (Z.eqb (fst p)) funs && existsb (Z.eqb (snd p)) states) inv) "callback_once_per_collection:unknown_callback".

Definition check_collect (c : cfg) (ss : sstate) (r : nat) (o : cprint) : list tok :=
  let ss1 := sobserve c ss in
  check_inv (p_regs ss) (cp_inv o)
  ++ check (Nat.eqb (length (cp_instr o)) (ninstr c)) "observation:shape"
  ++ flat_map (fun io => check_instr c ss1 r (fst io) (snd io)) (combine (seq 0 (ninstr c)) (cp_instr o)).

Fixpoint spec_from (c : cfg) (ss : sstate) (ops : list op) (obs : list cprint) : list tok :=
  match ops with
  | [] => check (is_nil obs) "observation:shape"
  | OCollect r :: rest =>
      match obs with
      | [] => fail "observation:shape"
      | o :: obs' => check_collect c ss r o ++ spec_from c (sstep c ss (OCollect r)) rest obs'
      end
  | o :: rest => spec_from c (sstep c ss o) rest obs
  end.
Definition spec_obs (c : cfg) (ops : list op) (obs : list cprint) : list tok := spec_from c sinit ops obs.

(* ------------------------------------------------------------------ last-value aggregations driven directly:
   a register holds (the number of the Aggregate call that produced its sample, 0 = none; the value);
   Merge and Diff both yield the operand whose sample is the more recent one *)
Record lvs := mk_lvs { q_regs : nat -> (nat * Z); q_n : nat; q_ok : bool }.
Definition lvs_init : lvs := mk_lvs (fun _ => (O, 0)) O true.
Definition lvs_point (x : nat * Z) : point := PLast (snd x) (negb (Nat.eqb (fst x) 0)).
Fixpoint spec_lv_from (scripted : bool) (st : lvs) (ops : list lvop) (obs : list point) : list tok :=
  match ops with
  | [] => check (is_nil obs) "observation:shape"
  | o :: rest =>
      match o with
      | LAgg r v => spec_lv_from scripted (mk_lvs (upd (q_regs st) r (S (q_n st), v)) (S (q_n st)) (q_ok st)) rest obs
      | LMerge r a b | LDiff r a b =>
          let x := q_regs st a in let y := q_regs st b in
          spec_lv_from scripted (mk_lvs (upd (q_regs st) r (if Nat.ltb (fst y) (fst x) then x else y)) (q_n st) (q_ok st)) rest obs
      | LNew r => spec_lv_from scripted (mk_lvs (upd (q_regs st) r (O, 0)) (q_n st) (q_ok st)) rest obs
      | LStep d => spec_lv_from scripted (mk_lvs (q_regs st) (q_n st) (q_ok st && (negb scripted || (0 <? d)))) rest obs
      | LPrint r =>
          match obs with
          | [] => fail "observation:shape"
          | p :: obs' =>
              (if q_ok st then check (point_eqb p (lvs_point (q_regs st r))) "gauge_reports_latest:aggregation" else [])
              ++ spec_lv_from scripted st rest obs'
          end
      end
  end.
Definition spec_lv (scripted : bool) (ops : list lvop) (obs : list point) : list tok := spec_lv_from scripted lvs_init ops obs.
