(* SPEC for the ORACE cases of C17 (engine E-sched): the callback registry while collections are running on other threads.
   The checker is evaluated on the IMPLEMENTATION's event history under the schedule of the case; there is no model of the
   interleaving semantics (the sequential model of Model.v says nothing about overlapping calls) and no theorem over all
   interleavings: concurrency is covered on the explored schedules, under sequential consistency.

   An operation is the interval between its begin event and its return event (the return events are logged at the instant the
   library call returns).  Key k = (instrument, function, state).  What the property text demands of a history:

   removed_never_invoked:  no callback k is ENTERED after a RemoveCallback of k (or the destruction of its instrument) has
       RETURNED, unless an AddCallback of k may have taken effect after that removal, i.e. some AddCallback of k that began
       before the call had not yet returned when the removal began.
       When a removal OVERLAPS an observation pass (it begins before the pass ends and returns after the pass began) the
       callback may be entered in that pass or not (0 or 1 calls per registration) - but never after the removal has returned.
   callback_once_per_collection:  in every collection (begin b, end e, thread t) the number of calls of k by t lies between
         min = the registrations certainly present throughout [b, e]: AddCallback returned before b, and every removal of k
               either returned before that AddCallback began or begins after e;
         max = the registrations possibly present at some instant of [b, e]: AddCallback began before e, and no removal of k
               that began after the AddCallback returned has returned before b.
       For a callback registered once before the collection and not being removed during it, min = max = 1: exactly once.
   and no callback is entered by one thread while another thread is inside it (the registry runs one observation pass at a time).
   The history must be complete: the run finished (no deadlock / step limit / crash) and every operation of the script appears. *)
From V Require Export C17.Model.
Local Open Scope Z_scope.

Inductive ev :=
| EBC (t r : Z) | EEC (t r : Z)
| ECall (t : Z) (k : key) | EDone (t : Z) (k : key)
| EBA (t : Z) (k : key) | ERA (t : Z) (k : key)
| EBR (t : Z) (k : key) | ERR (t : Z) (k : key)
| EBX (t : Z) (i : nat) | ERX (t : Z) (i : nat)
| ELock (t : Z) | EUnlock (t : Z).       (* the registry mutex callbacks_m_; ignored by the clauses below, used by Lts.v *)

(* the operations of a script *)
Inductive rop := RAdd (k : key) | RRem (k : key) | RDestroy (i : nat) | RCollect (r : Z).

Definition pev := (nat * ev)%type.       (* an event with its position in the history *)
Definition number (l : list ev) : list pev := combine (seq 0 (length l)) l.

Definition ret_of (h : list pev) (p : nat) (is_ret : ev -> bool) : option nat :=
  option_map fst (find (fun pe => Nat.ltb p (fst pe) && is_ret (snd pe)) h).
Definition lt_opt (o : option nat) (n : nat) : bool := match o with Some q => Nat.ltb q n | None => false end.

Definition is_ra (t : Z) (k : key) (e : ev) : bool := match e with ERA t' k' => (t' =? t) && key_eqb k' k | _ => false end.
Definition is_rr (t : Z) (k : key) (e : ev) : bool := match e with ERR t' k' => (t' =? t) && key_eqb k' k | _ => false end.
Definition is_rx (t : Z) (i : nat) (e : ev) : bool := match e with ERX t' i' => (t' =? t) && Nat.eqb i' i | _ => false end.
Definition is_ec (t r : Z) (e : ev) : bool := match e with EEC t' r' => (t' =? t) && (r' =? r) | _ => false end.
Definition is_done (t : Z) (k : key) (e : ev) : bool := match e with EDone t' k' => (t' =? t) && key_eqb k' k | _ => false end.

(* the AddCallback operations of k and the removals of k (RemoveCallback of k, destruction of its instrument): (begin, return) *)
Definition adds_of (h : list pev) (k : key) : list (nat * option nat) :=
  flat_map (fun pe => match snd pe with
                      | EBA t k' => if key_eqb k' k then [(fst pe, ret_of h (fst pe) (is_ra t k))] else []
                      | _ => []
                      end) h.
Definition removals_of (h : list pev) (k : key) : list (nat * option nat) :=
  flat_map (fun pe => match snd pe with
                      | EBR t k' => if key_eqb k' k then [(fst pe, ret_of h (fst pe) (is_rr t k))] else []
                      | EBX t i => if Nat.eqb i (fst (fst k)) then [(fst pe, ret_of h (fst pe) (is_rx t i))] else []
                      | _ => []
                      end) h.

(* ---- removed_never_invoked *)
Definition call_after_removal (h : list pev) (p : nat) (k : key) : bool :=
  existsb (fun R => lt_opt (snd R) p &&
                    forallb (fun A => negb (Nat.ltb (fst A) p) || lt_opt (snd A) (fst R)) (adds_of h k))
          (removals_of h k).
Definition check_removed (h : list pev) : list tok :=
  flat_map (fun pe => match snd pe with
                      | ECall _ k => check (negb (call_after_removal h (fst pe) k)) "removed_never_invoked:after_removal_returned"
                      | _ => []
                      end) h.

(* ---- callback_once_per_collection *)
Fixpoint key_mem (k : key) (l : list key) : bool := match l with [] => false | x :: l' => key_eqb x k || key_mem k l' end.
Fixpoint key_nodup (l : list key) : list key :=
  match l with [] => [] | x :: l' => if key_mem x l' then key_nodup l' else x :: key_nodup l' end.
Definition keys_of (h : list pev) : list key :=
  key_nodup (flat_map (fun pe => match snd pe with EBA _ k => [k] | ECall _ k => [k] | _ => [] end) h).

Definition calls_in (h : list pev) (t : Z) (k : key) (b e : nat) : nat :=
  length (filter (fun pe => match snd pe with
                            | ECall t' k' => (t' =? t) && key_eqb k' k && Nat.ltb b (fst pe) && Nat.ltb (fst pe) e
                            | _ => false
                            end) h).
Definition min_calls (h : list pev) (k : key) (b e : nat) : nat :=
  length (filter (fun A => lt_opt (snd A) b &&
                           forallb (fun R => lt_opt (snd R) (fst A) || Nat.ltb e (fst R)) (removals_of h k))
                 (adds_of h k)).
Definition max_calls (h : list pev) (k : key) (b e : nat) : nat :=
  length (filter (fun A => Nat.ltb (fst A) e &&
                           negb (existsb (fun R => match snd A with Some ar => Nat.ltb ar (fst R) | None => false end && lt_opt (snd R) b)
                                         (removals_of h k)))
                 (adds_of h k)).
Definition check_collection (h : list pev) (t : Z) (b e : nat) : list tok :=
  flat_map (fun k => let n := calls_in h t k b e in
                     if Nat.ltb n (min_calls h k b e) then fail "callback_once_per_collection:not_invoked"
                     else if Nat.ltb (max_calls h k b e) n
                          then (if Nat.eqb (max_calls h k b e) 0 then fail "removed_never_invoked:invoked_in_later_collection"
                                else fail "callback_once_per_collection:invoked_twice")
                          else [])
           (keys_of h).
Definition check_collections (h : list pev) : list tok :=
  flat_map (fun pe => match snd pe with
                      | EBC t r => match ret_of h (fst pe) (is_ec t r) with
                                   | Some e => check_collection h t (fst pe) e
                                   | None => []
                                   end
                      | _ => []
                      end) h.

(* ---- no callback runs concurrently with itself *)
Definition check_exclusive (h : list pev) : list tok :=
  flat_map (fun pe => match snd pe with
                      | ECall t k =>
                          let d := match ret_of h (fst pe) (is_done t k) with Some d => d | None => length h end in
                          check (negb (existsb (fun qe => match snd qe with
                                                          | ECall t' k' => negb (t' =? t) && key_eqb k' k && Nat.ltb (fst pe) (fst qe) && Nat.ltb (fst qe) d
                                                          | _ => false
                                                          end) h))
                                "callback_once_per_collection:concurrent_with_itself"
                      | _ => []
                      end) h.

(* ---- the history is the history of the script: per thread, the operations begun are the script's, each has returned.
   An operation on an instrument whose handle the same thread (or the controller, before) has dropped is not performed. *)
Definition begins_of (l : list ev) (tid : Z) : list rop :=
  flat_map (fun e => match e with
                     | EBC t r => if t =? tid then [RCollect r] else []
                     | EBA t k => if t =? tid then [RAdd k] else []
                     | EBR t k => if t =? tid then [RRem k] else []
                     | EBX t i => if t =? tid then [RDestroy i] else []
                     | _ => []
                     end) l.
Definition returns_of (l : list ev) (tid : Z) : nat :=
  length (filter (fun e => match e with
                           | EEC t _ | ERA t _ | ERR t _ | ERX t _ => t =? tid
                           | _ => false
                           end) l).
Fixpoint performed (dead : list nat) (ops : list rop) : list rop :=
  match ops with
  | [] => []
  | RAdd k :: r => if existsb (Nat.eqb (fst (fst k))) dead then performed dead r else RAdd k :: performed dead r
  | RRem k :: r => if existsb (Nat.eqb (fst (fst k))) dead then performed dead r else RRem k :: performed dead r
  | RDestroy i :: r => if existsb (Nat.eqb i) dead then performed dead r else RDestroy i :: performed (i :: dead) r
  | RCollect x :: r => RCollect x :: performed dead r
  end.
Definition dead_after (ops : list rop) : list nat := flat_map (fun o => match o with RDestroy i => [i] | _ => [] end) ops.

Definition rop_eqb (a b : rop) : bool :=
  match a, b with
  | RAdd k, RAdd k' | RRem k, RRem k' => key_eqb k k'
  | RDestroy i, RDestroy j => Nat.eqb i j
  | RCollect r, RCollect r' => r =? r'
  | _, _ => false
  end.
Fixpoint rops_eqb (a b : list rop) : bool :=
  match a, b with [], [] => true | x :: a', y :: b' => rop_eqb x y && rops_eqb a' b' | _, _ => false end.

Definition check_complete (init : list rop) (threads : list (list rop)) (l : list ev) : list tok :=
  let ok_thread := fun (tid : Z) (expected : list rop) =>
    rops_eqb (begins_of l tid) expected && Nat.eqb (returns_of l tid) (length expected) in
  check (ok_thread (-1) (performed [] init ++ [RCollect 1]) &&
         forallb (fun it => ok_thread (Z.of_nat (fst it)) (performed (dead_after init) (snd it)))
                 (combine (seq 0 (length threads)) threads))
        "observation:history_incomplete".

Definition spec_race (init : list rop) (threads : list (list rop)) (finished : bool) (l : list ev) : list tok :=
  let h := number l in
  check finished "collection_completes:deadlock_or_crash"
  ++ (if finished then check_complete init threads l else [])
  ++ check_removed h ++ check_collections h ++ check_exclusive h.
