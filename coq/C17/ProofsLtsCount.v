(* C17 proofs, part 12: the count clause of SpecRace.v on every accepted history: in every collection each key is called
   at least as often as it is certainly registered throughout and at most as often as it is possibly registered. *)
From V Require Import C17.Lts C17.ProofsLts C17.ProofsLtsSpec.
From Coq Require Import Lia.
Local Open Scope Z_scope.

(* ------------------------------------------------------------------ the calls a thread has made since position b *)
Definition calls_by (l : list ev) (u : Z) (b : nat) : list key :=
  flat_map (fun pe => match snd pe with ECall t k => if (t =? u) && Nat.ltb b (fst pe) then [k] else [] | _ => [] end) (number l).

Lemma number_snoc : forall (l : list ev) e, number (l ++ [e]) = number l ++ [(length l, e)].
Proof.
  intros l e. unfold number. rewrite app_length. cbn [length]. rewrite seq_app. cbn [seq Nat.add].
  assert (H : forall A B (a1 a2 : list A) (b1 b2 : list B), length a1 = length b1 -> combine (a1 ++ a2) (b1 ++ b2) = combine a1 b1 ++ combine a2 b2).
  { intros A B. induction a1 as [|x a1 IH]; intros a2 b1 b2 Hl; destruct b1; try discriminate; [reflexivity|]. cbn. f_equal. apply IH. now injection Hl. }
  rewrite H by (now rewrite seq_length). reflexivity.
Qed.

Lemma calls_by_snoc : forall l e u b,
  calls_by (l ++ [e]) u b = calls_by l u b ++ match e with ECall t k => if (t =? u) && Nat.ltb b (length l) then [k] else [] | _ => [] end.
Proof. intros. unfold calls_by. rewrite number_snoc, flat_map_app. cbn [flat_map fst snd]. now rewrite app_nil_r. Qed.

Lemma calls_by_other : forall l e u b, ev_tid e <> u -> calls_by (l ++ [e]) u b = calls_by l u b.
Proof.
  intros l e u b H. rewrite calls_by_snoc. destruct e; try apply app_nil_r. cbn in H.
  destruct (t =? u) eqn:E; [apply Z.eqb_eq in E; contradiction|]. apply app_nil_r.
Qed.
Lemma calls_by_noncall : forall l e u b, (forall t k, e <> ECall t k) -> calls_by (l ++ [e]) u b = calls_by l u b.
Proof. intros l e u b H. rewrite calls_by_snoc. destruct e; try apply app_nil_r. exfalso. now apply (H t k). Qed.
Lemma calls_by_fresh : forall l u b, (length l <= S b)%nat -> calls_by l u b = [].
Proof.
  intros l u b H. unfold calls_by. apply flat_map_nil. intros [p e] Hin. apply number_spec in Hin. apply nth_some_lt in Hin. cbn [fst snd].
  destruct e; try reflexivity. assert (E : Nat.ltb b p = false) by (apply Nat.ltb_ge; lia). rewrite E. now rewrite andb_false_r.
Qed.

(* ------------------------------------------------------------------ removals that have taken effect *)
(* the record of the AddCallback begun at ab has been taken out of the list by a removal that began at rb: every return of
   that removal lies after ab (it took the lock after the AddCallback did) *)
Definition removed_by (l : list ev) (k : key) (ab rb : nat) (t' : Z) : Prop :=
  (nth_error l rb = Some (EBR t' k) /\ forall j, (rb < j)%nat -> nth_error l j = Some (ERR t' k) -> (ab < j)%nat) \/
  (nth_error l rb = Some (EBX t' (instr_of k)) /\ forall j, (rb < j)%nat -> nth_error l j = Some (ERX t' (instr_of k)) -> (ab < j)%nat).
Definition gone (l : list ev) (k : key) (ab : nat) : Prop := exists rb t', (rb < length l)%nat /\ removed_by l k ab rb t'.

Lemma removed_by_snoc : forall l e k ab rb t', (ab < length l)%nat -> (rb < length l)%nat -> removed_by l k ab rb t' -> removed_by (l ++ [e]) k ab rb t'.
Proof.
  intros l e k ab rb t' Hab Hrb [[H1 H2]|[H1 H2]]; [left|right]; (split; [now rewrite nth_snoc_lt|]); intros j Hj Hx;
    apply nth_snoc_inv in Hx as [[_ Hx]|[Hx _]]; try (now apply (H2 j)); lia.
Qed.
Lemma gone_snoc : forall l e k ab, (ab < length l)%nat -> gone l k ab -> gone (l ++ [e]) k ab.
Proof.
  intros l e k ab Hab (rb & t' & Hrb & H). exists rb, t'. split; [rewrite app_length; cbn; lia|]. now apply removed_by_snoc.
Qed.

(* a removal that began after the AddCallback had returned, and has itself returned before position b *)
Definition certainly_removed (l : list ev) (k : key) (ua : Z) (ab b : nat) : Prop :=
  exists ar rb rr t', nth_error l ar = Some (ERA ua k) /\ (ab < ar)%nat /\ (ar < rb)%nat /\ (rb < rr)%nat /\ (rr < b)%nat /\
    ((nth_error l rb = Some (EBR t' k) /\ nth_error l rr = Some (ERR t' k)) \/
     (nth_error l rb = Some (EBX t' (instr_of k)) /\ nth_error l rr = Some (ERX t' (instr_of k)))).

(* ------------------------------------------------------------------ the second invariant *)
Record Inv2 (l : list ev) (st : lstate) : Prop := {
  i2_nodup : NoDup (map snd (l_regs st));
  i2_fresh : forall u k b, l_thr st u = TAdd k b -> forall k', ~ In (k', b) (l_regs st);
  (* where the record of every AddCallback is: not yet in the list, in the list, or taken out by a removal *)
  i2_where : forall ab ua k, nth_error l ab = Some (EBA ua k) ->
             l_thr st ua = TAdd k ab \/ In (k, ab) (l_regs st) \/ gone l k ab;
  i2_called : forall u, match l_thr st u with
                        | TCol r b => calls_by l u b = []
                        | TPass r b _ called _ => calls_by l u b = called
                        | TInCb r b _ called k _ _ => calls_by l u b = called ++ [k]
                        | TColU r b gs => calls_by l u b = map fst gs
                        | _ => True
                        end;
  (* what is known about the list a finished pass worked on *)
  i2_colu : forall u r b gs, l_thr st u = TColU r b gs ->
            NoDup (map snd gs) /\
            (forall k ab, In (k, ab) gs -> exists ua, nth_error l ab = Some (EBA ua k) /\ (ab < length l)%nat /\ ~ certainly_removed l k ua ab b) /\
            (forall ab ua k ar, nth_error l ab = Some (EBA ua k) -> nth_error l ar = Some (ERA ua k) -> (ab < ar)%nat -> (ar < b)%nat ->
                                In (k, ab) gs \/ gone l k ab);
  i2_begun : forall b u r, nth_error l b = Some (EBC u r) ->
             op_of u (l_thr st u) = Some (b, EBC u r, EEC u r) \/ exists j, (b < j)%nat /\ nth_error l j = Some (EEC u r)
}.

Lemma Inv2_init : Inv2 [] linit.
Proof.
  constructor; cbn [linit l_regs l_thr map].
  - constructor.
  - discriminate.
  - intros ab ua k H. destruct ab; discriminate.
  - intros u. exact I.
  - discriminate.
  - intros b u r H. destruct b; discriminate.
Qed.

Lemma certainly_removed_prefix : forall l e k ua ab b, (b <= length l)%nat -> certainly_removed (l ++ [e]) k ua ab b -> certainly_removed l k ua ab b.
Proof.
  intros l e k ua ab b Hb (ar & rb & rr & t' & H1 & H2 & H3 & H4 & H5 & H6). exists ar, rb, rr, t'.
  rewrite nth_snoc_lt in H1 by lia. repeat split; try assumption.
  destruct H6 as [[Ha Hc]|[Ha Hc]]; [left|right]; rewrite !nth_snoc_lt in * by lia; now split.
Qed.

Lemma in_filter_or : forall A (f : A -> bool) l x, In x l -> In x (filter f l) \/ f x = false.
Proof. intros A f l x H. destruct (f x) eqn:E; [left; apply filter_In; now split|now right]. Qed.

Lemma nodup_filter_snd : forall (f : entry -> bool) l, NoDup (map snd l) -> NoDup (map snd (filter f l)).
Proof.
  intros f. induction l as [|x l IH]; intros H; [constructor|]. cbn [map] in H. inversion H as [|? ? Hx Hl]; subst. cbn [filter].
  destruct (f x); [|now apply IH]. cbn [map]. constructor; [|now apply IH].
  intros Hin. apply Hx. apply in_map_iff in Hin as (y & Hy1 & Hy2). apply in_map_iff. exists y. split; [exact Hy1|]. now apply filter_In in Hy2.
Qed.

Lemma NoDup_app_snoc : forall A (l : list A) x, NoDup l -> ~ In x l -> NoDup (l ++ [x]).
Proof.
  intros A l x. induction l as [|y l IH]; intros Hn Hx; cbn [app]; [constructor; [intros []|constructor]|].
  inversion Hn as [|? ? Hy Hl]; subst. constructor.
  - intros Hin. apply in_app_or in Hin as [Hin|[Hin|[]]]; [contradiction|]. subst. apply Hx. now left.
  - apply IH; [exact Hl|]. intros Hin. apply Hx. now right.
Qed.

Lemma Inv2_step : forall l st e st', Inv l st -> Inv2 l st -> trans st e st' -> Inv2 (l ++ [e]) st'.
Proof.
  intros l st e st' I I2 T. pose proof (inv_n _ _ I) as Hn.
  assert (Hlen : length (l ++ [e]) = S (length l)) by (rewrite app_length; cbn; lia).
  assert (Hold : forall j x, nth_error l j = Some x -> nth_error (l ++ [e]) j = Some x).
  { intros j x H. rewrite nth_snoc_lt; [exact H|]. now apply nth_some_lt in H. }
  pose proof (inv_op _ _ I) as Hop. pose proof (inv_entry _ _ I) as Hent.
  constructor.
  - (* i2_nodup *)
    pose proof (i2_nodup _ _ I2) as Hnd. pose proof (i2_fresh _ _ I2) as Hfr.
    inversion T; subst; unfold upd_st, lck_st, rel_st; cbn [l_regs]; try exact Hnd; try (now apply nodup_filter_snd).
    rewrite map_app. cbn [map snd]. apply NoDup_app_snoc; [exact Hnd|].
    intros Hin. apply in_map_iff in Hin as ([k' b'] & Hb & Hin). cbn [snd] in Hb. subst b'. now apply (Hfr t k b H0 k').
  - (* i2_fresh *)
    intros u k0 b0 Hu k' Hin. pose proof (i2_fresh _ _ I2) as Hfr.
    assert (Hsub : l_thr st u = TAdd k0 b0 -> In (k', b0) (l_regs st) -> False) by (intros H1 H2; now apply (Hfr u k0 b0 H1 k')).
    inversion T; subst; unfold upd_st, lck_st, rel_st in *; cbn [l_thr l_regs] in *; thr_cases u t; try discriminate; try (now apply Hsub);
      try (apply filter_In in Hin as [Hin _]; now apply Hsub).
    + (* a new AddCallback: its position is new *)
      injection Hu as <- <-. destruct (Hent k' (l_n st) Hin) as (ua & Hua). apply nth_some_lt in Hua. lia.
    + (* another thread's record is appended: different begin positions *)
      apply in_app_or in Hin as [Hin|[Hin|[]]]; [now apply Hsub|]. injection Hin as <- <-.
      pose proof (Hop u b (EBA u k0) (ERA u k0)) as H1. rewrite Hu in H1. destruct (H1 eq_refl) as [H1a _].
      pose proof (Hop t b (EBA t k) (ERA t k)) as H2. rewrite H0 in H2. destruct (H2 eq_refl) as [H2a _]. congruence.
  - (* i2_where *)
    intros ab ua k0 Hab. pose proof (i2_where _ _ I2) as Hw.
    apply nth_snoc_inv in Hab as [[Hlt Hab]|[Hp He]].
    + assert (Hgone : gone l k0 ab -> gone (l ++ [e]) k0 ab) by (now apply gone_snoc).
      destruct (Hw ab ua k0 Hab) as [H1|[H1|H1]]; [| |right; right; now apply Hgone].
      * (* not yet in the list: unless this step is its lock *)
        inversion T; subst; unfold upd_st, lck_st, rel_st; cbn [l_thr l_regs]; thr_cases ua t; try congruence; try (now left).
        assert (Heq : TAdd k0 ab = TAdd k b) by congruence. injection Heq as <- <-. right. left. apply in_or_app. right. now left.
      * (* in the list: unless this step is the lock of a removal of its key / instrument *)
        inversion T; subst; unfold upd_st, lck_st, rel_st; cbn [l_thr l_regs]; try (right; left; exact H1).
        -- right. left. apply in_or_app. now left.
        -- destruct (in_filter_or _ (fun x => negb (key_eqb (fst x) k)) _ _ H1) as [Hin|Hf]; [right; left; exact Hin|].
           cbn [fst] in Hf. apply negb_false_iff, key_eqb_true in Hf. subst k0. right. right.
           pose proof (Hop t b (EBR t k) (ERR t k)) as Hb. rewrite H0 in Hb. destruct (Hb eq_refl) as [Hb1 Hb2].
           exists b, t. split; [rewrite Hlen; apply nth_some_lt in Hb1; lia|]. left. split; [now apply Hold|].
           intros j Hj Hx. apply nth_snoc_inv in Hx as [[_ Hx]|[Hx _]]; [exfalso; now apply (Hb2 j Hj)|lia].
        -- destruct (in_filter_or _ (fun x => negb (Nat.eqb (instr_of (fst x)) i)) _ _ H1) as [Hin|Hf]; [right; left; exact Hin|].
           cbn [fst] in Hf. apply negb_false_iff, Nat.eqb_eq in Hf. subst i. right. right.
           pose proof (Hop t b (EBX t (instr_of k0)) (ERX t (instr_of k0))) as Hb. rewrite H0 in Hb. destruct (Hb eq_refl) as [Hb1 Hb2].
           exists b, t. split; [rewrite Hlen; apply nth_some_lt in Hb1; lia|]. right. split; [now apply Hold|].
           intros j Hj Hx. apply nth_snoc_inv in Hx as [[_ Hx]|[Hx _]]; [exfalso; now apply (Hb2 j Hj)|lia].
    + subst e ab. inversion T; subst; unfold upd_st; cbn [l_thr]. rewrite setthr_same. left. now rewrite Hn.
  - (* i2_called *)
    intros u. pose proof (i2_called _ _ I2 u) as Hc.
    destruct (Z.eq_dec u (ev_tid e)) as [Heq|Hne].
    2:{ rewrite (trans_frame _ _ _ T u Hne). destruct (l_thr st u); cbn iota in *; try exact Logic.I; rewrite calls_by_other by congruence; exact Hc. }
    subst u.
    assert (Hb_lt : forall b eb er, op_of (ev_tid e) (l_thr st (ev_tid e)) = Some (b, eb, er) -> (b < length l)%nat).
    { intros b eb er H. destruct (Hop _ b eb er H) as [H1 _]. now apply nth_some_lt in H1. }
    inversion T; subst; unfold upd_st, lck_st, rel_st; cbn [l_thr ev_tid] in *; rewrite setthr_same;
      try exact Logic.I;
      try (rewrite H in Hc; rewrite calls_by_noncall by (intros; discriminate); exact Hc);
      try (rewrite H0 in Hc; rewrite calls_by_noncall by (intros; discriminate); exact Hc).
    + (* begin collect *) apply calls_by_fresh. rewrite Hlen, Hn. lia.
    + (* call *) rewrite H in Hc. rewrite calls_by_snoc, Hc, Z.eqb_refl. cbn [andb].
      assert (Hlt : Nat.ltb b (length l) = true) by (apply Nat.ltb_lt; apply (Hb_lt b (EBC t r) (EEC t r)); rewrite H; reflexivity).
      now rewrite Hlt.
    + (* unlock after the pass *)
      rewrite H in Hc. rewrite calls_by_noncall by (intros; discriminate). destruct (inv_pass _ _ I t r b snap called [] H) as [_ Hk].
      rewrite Hk, Hc. cbn [map]. now rewrite app_nil_r.
  - (* i2_colu *)
    intros u r0 b0 gs Hu. pose proof (i2_colu _ _ I2) as Hcu.
    assert (Hkeep : l_thr st u = TColU r0 b0 gs ->
              NoDup (map snd gs) /\
              (forall k ab, In (k, ab) gs -> exists ua, nth_error (l ++ [e]) ab = Some (EBA ua k) /\ (ab < length (l ++ [e]))%nat /\ ~ certainly_removed (l ++ [e]) k ua ab b0) /\
              (forall ab ua k ar, nth_error (l ++ [e]) ab = Some (EBA ua k) -> nth_error (l ++ [e]) ar = Some (ERA ua k) -> (ab < ar)%nat -> (ar < b0)%nat ->
                                  In (k, ab) gs \/ gone (l ++ [e]) k ab)).
    { intros Hst. destruct (Hcu u r0 b0 gs Hst) as (C4 & C1 & C3).
      assert (Hb0 : (b0 < length l)%nat).
      { pose proof (Hop u b0 (EBC u r0) (EEC u r0)) as Hx. rewrite Hst in Hx. destruct (Hx eq_refl) as [Hx1 _]. now apply nth_some_lt in Hx1. }
      split; [exact C4|]. split.
      - intros k ab Hin. destruct (C1 k ab Hin) as (ua & H1 & H2 & H3). exists ua. split; [now apply Hold|]. split; [rewrite Hlen; lia|].
        intros Hcr. apply H3. apply (certainly_removed_prefix l e); [lia|exact Hcr].
      - intros ab ua k ar Hab Har H1 H2. rewrite nth_snoc_lt in Hab by lia. rewrite nth_snoc_lt in Har by lia.
        destruct (C3 ab ua k ar Hab Har H1 H2) as [Hin|Hg]; [now left|right]. apply gone_snoc; [lia|exact Hg]. }
    inversion T; subst; unfold upd_st, lck_st, rel_st in *; cbn [l_thr] in *; thr_cases u t; try discriminate; try (now apply Hkeep).
    (* the unlock that ends the pass: the list is the registry as it is now *)
    injection Hu as <- <- <-. destruct (inv_pass _ _ I t r b snap called [] H) as [Hsnap _].
    assert (Hb0 : (b < length l)%nat).
    { pose proof (Hop t b (EBC t r) (EEC t r)) as Hx. rewrite H in Hx. destruct (Hx eq_refl) as [Hx1 _]. now apply nth_some_lt in Hx1. }
    split; [rewrite Hsnap; apply (i2_nodup _ _ I2)|]. split.
    + intros k ab Hin. rewrite Hsnap in Hin. destruct (Hent k ab Hin) as (ua & Hua). exists ua. split; [now apply Hold|].
      split; [rewrite Hlen; apply nth_some_lt in Hua; lia|].
      intros Hcr. apply (certainly_removed_prefix l _) in Hcr; [|lia].
      destruct Hcr as (ar & rb & rr & t' & H1 & H2 & H3 & H4 & H5 & H6).
      destruct H6 as [[Ha Hc]|[Ha Hc]].
      * destruct (inv_rem _ _ I k ab ua ar rb t' Hin Hua H1 H2 H3) as [Hrem _]. specialize (Hrem Ha).
        pose proof (Hop t' rb (EBR t' k) (ERR t' k)) as Hx. rewrite Hrem in Hx. destruct (Hx eq_refl) as [_ Hx2]. now apply (Hx2 rr H4).
      * destruct (inv_rem _ _ I k ab ua ar rb t' Hin Hua H1 H2 H3) as [_ Hdes]. specialize (Hdes Ha).
        pose proof (Hop t' rb (EBX t' (instr_of k)) (ERX t' (instr_of k))) as Hx. rewrite Hdes in Hx. destruct (Hx eq_refl) as [_ Hx2]. now apply (Hx2 rr H4).
    + intros ab ua k ar Hab Har H1 H2. rewrite nth_snoc_lt in Hab by lia. rewrite nth_snoc_lt in Har by lia.
      destruct (i2_where _ _ I2 ab ua k Hab) as [Hw|[Hw|Hw]].
      * exfalso. pose proof (Hop ua ab (EBA ua k) (ERA ua k)) as Hx. rewrite Hw in Hx. destruct (Hx eq_refl) as [_ Hx2]. now apply (Hx2 ar H1).
      * left. now rewrite Hsnap.
      * right. apply gone_snoc; [lia|exact Hw].
  - (* i2_begun *)
    intros b0 u r0 Hb. pose proof (i2_begun _ _ I2) as Hbg.
    apply nth_snoc_inv in Hb as [[Hlt Hb]|[Hp He]].
    + destruct (Hbg b0 u r0 Hb) as [H1|(j & Hj & Hx)]; [|right; exists j; split; [exact Hj|now apply Hold]].
      inversion T; subst; unfold upd_st, lck_st, rel_st; cbn [l_thr]; thr_cases u t; try (now left);
        try (rewrite H in H1; cbn [op_of] in H1; discriminate); try (rewrite H0 in H1; cbn [op_of] in H1; discriminate);
        try (left; rewrite H in H1; cbn [op_of] in *; exact H1); try (left; rewrite H0 in H1; cbn [op_of] in *; exact H1).
      (* its own return *)
      rewrite H in H1. cbn [op_of] in H1. injection H1 as <- <-. right. exists (length l). split; [exact Hlt|apply nth_snoc_eq].
    + subst e b0. inversion T; subst; unfold upd_st; cbn [l_thr]. rewrite setthr_same. left. cbn [op_of]. now rewrite Hn.
Qed.

Theorem accepted_inv2 : forall l st, accepted l = Some st -> Inv2 l st.
Proof.
  induction l as [|e l IH] using rev_ind; intros st H.
  - injection H as <-. apply Inv2_init.
  - apply accepted_snoc in H as (st0 & H0 & Ha). apply (Inv2_step l st0 e st (accepted_inv l st0 H0) (IH st0 H0)). now apply accept_trans.
Qed.
