(* C17 proofs, part 6: what a reader is given, in closed form over the history of reports.
   [groups c ops i] lists, in order, the reports made for instrument i: one group per collection (what the registered callbacks
   report, in invocation order) and one singleton group per synchronous Record; [events] is their concatenation. *)
From V Require Import C17.Glue C17.ProofsReg C17.ProofsBase C17.ProofsSum C17.ProofsGauge C17.ProofsMeets.
From Coq Require Import Lia ZifyBool ZifyNat.
Local Open Scope Z_scope.

(* ------------------------------------------------------------------ the simulation holds along every admissible history *)
Lemma final_snoc : forall c ops o, final_sstate c (ops ++ [o]) = sstep c (final_sstate c ops) o.
Proof. intros. unfold final_sstate. now rewrite fold_left_app. Qed.

Lemma sim_run : forall c ops, Forall (op_ok c) ops -> Sim c (mstate c ops) (final_sstate c ops).
Proof.
  intros c ops. induction ops as [|o ops IH] using rev_ind; intros Hok; [apply sim_init|].
  apply Forall_app in Hok as [Hok Ho]. inversion Ho as [|? ? Ho1 _]; subst. specialize (IH Hok).
  rewrite steps_snoc, final_snoc.
  assert (Hcases : (exists r, o = OCollect r) \/ (forall r, o <> OCollect r)).
  { destruct o; try (right; intros r' Heq; discriminate). left. now exists r. }
  destruct Hcases as [[r ->]|Hnc].
  - destruct (sim_collect_gen c _ _ r IH Ho1) as (x & _ & HS & _). exact HS.
  - now destruct (sim_step_other c _ _ o IH Ho1 Hnc).
Qed.

(* the point reader r is given for attribute set a of instrument i (None: no point) *)
Definition given (c : cfg) (i : nat) (t : option amap) (a : Z) : option point :=
  match t with None => None | Some m => option_map (point_of (kind_of c i)) (m a) end.

Theorem collect_points : forall c ops r,
  Forall (op_ok c) ops -> (r < nreaders c)%nat ->
  exists o, snd (run c (ops ++ [OCollect r])) = snd (run c ops) ++ [o] /\
            forall i, (i < ninstr c)%nat -> dom c (sobserve c (final_sstate c ops)) i ->
            forall a, In a attrs -> given c i (nth i (co_tabs o) None) a = expected c (sobserve c (final_sstate c ops)) i r a.
Proof.
  intros c ops r Hok Hr. destruct (sim_collect_gen c _ _ r (sim_run c ops Hok) Hr) as (o & Ho & _ & _ & _ & Hpts).
  exists o. split; [now apply run_snoc_collect|]. intros i Hi Hdom a Hin. specialize (Hpts i Hi Hdom). unfold pts_ok, given in *.
  destruct (nth i (co_tabs o) None); [now apply Hpts|]. symmetry. now apply Hpts.
Qed.

(* ------------------------------------------------------------------ the reports of a history *)
Definition head_group (c : cfg) (ss : sstate) (o : op) (i : nat) : list (list (Z * Z)) :=
  match o with
  | OCollect _ => [reports (p_regs ss) (p_world ss) i]
  | ORec j a v => if susable c ss j false && Nat.eqb j i then [[(a, v)]] else []
  | _ => []
  end.
Fixpoint groups_from (c : cfg) (ss : sstate) (ops : list op) (i : nat) : list (list (Z * Z)) :=
  match ops with
  | [] => []
  | o :: rest => head_group c ss o i ++ groups_from c (sstep c ss o) rest i
  end.
Definition events_from (c : cfg) (ss : sstate) (ops : list op) (i : nat) : list (Z * Z) := concat (groups_from c ss ops i).
Definition groups (c : cfg) (ops : list op) (i : nat) : list (list (Z * Z)) := groups_from c sinit ops i.
Definition events (c : cfg) (ops : list op) (i : nat) : list (Z * Z) := events_from c sinit ops i.
(* the reports made after history h1, by the continuation h2 *)
Definition events_after (c : cfg) (h1 h2 : list op) (i : nat) : list (Z * Z) := events_from c (final_sstate c h1) h2 i.
(* the running total (latest value) of attribute set a at the end of history h, 0 if it was never reported *)
Definition total_at (c : cfg) (h : list op) (i : nat) (a : Z) : Z :=
  match last_report (events c h i) a with Some w => w | None => 0 end.

Lemma groups_from_app : forall c l1 l2 ss i,
  groups_from c ss (l1 ++ l2) i = groups_from c ss l1 i ++ groups_from c (fold_left (sstep c) l1 ss) l2 i.
Proof.
  intros c. induction l1 as [|o l1 IH]; intros l2 ss i; cbn [app groups_from fold_left]; [reflexivity|].
  now rewrite IH, app_assoc.
Qed.
Lemma events_from_app : forall c l1 l2 ss i,
  events_from c ss (l1 ++ l2) i = events_from c ss l1 i ++ events_from c (fold_left (sstep c) l1 ss) l2 i.
Proof. intros. unfold events_from. now rewrite groups_from_app, concat_app. Qed.
Lemma events_split : forall c h1 h2 i, events c (h1 ++ h2) i = events c h1 i ++ events_after c h1 h2 i.
Proof. intros. unfold events, events_after, final_sstate. apply events_from_app. Qed.

Definition head_events (c : cfg) (ss : sstate) (o : op) (i : nat) : list (Z * Z) := concat (head_group c ss o i).
Lemma events_from_cons : forall c ss o rest i,
  events_from c ss (o :: rest) i = head_events c ss o i ++ events_from c (sstep c ss o) rest i.
Proof. intros. unfold events_from, head_events. cbn [groups_from]. now rewrite concat_app. Qed.

(* ------------------------------------------------------------------ the abstract state in closed form *)
Lemma latest_step : forall c ss o i a,
  p_latest (sstep c ss o) i a = match last_report (head_events c ss o i) a with Some v => Some v | None => p_latest ss i a end.
Proof.
  intros c ss o i a. unfold head_events. destruct o as [j f s|j f s|j|s a' v|s a'|j a' v|d|r']; cbn [sstep head_group concat last_report].
  1,2: destruct (susable c ss j true); reflexivity.
  1,2,3: reflexivity.
  - (* ORec *) destruct (susable c ss j false) eqn:U; cbn [andb]; [|reflexivity].
    cbn [sreport p_latest]. unfold upd. rewrite Nat.eqb_sym. destruct (Nat.eqb j i) eqn:E; [|reflexivity].
    apply Nat.eqb_eq in E. subst j. cbn [concat app]. reflexivity.
  - destruct (c_scripted c); reflexivity.
  - (* OCollect *) cbn [sgiven sobserve p_latest concat]. now rewrite app_nil_r.
Qed.

Lemma latest_events : forall c ops ss i a,
  p_latest (fold_left (sstep c) ops ss) i a =
  match last_report (events_from c ss ops i) a with Some v => Some v | None => p_latest ss i a end.
Proof.
  intros c. induction ops as [|o ops IH]; intros ss i a; cbn [fold_left]; [reflexivity|].
  rewrite IH, events_from_cons, last_report_app, latest_step.
  now destruct (last_report (events_from c (sstep c ss o) ops i) a).
Qed.

Lemma touched_step : forall c ss o i r a, o <> OCollect r ->
  p_touched (sstep c ss o) i r a = p_touched ss i r a || negb (is_none (last_report (head_events c ss o i) a)).
Proof.
  intros c ss o i r a Hne. unfold head_events. destruct o as [j f s|j f s|j|s a' v|s a'|j a' v|d|r0]; cbn [sstep head_group concat last_report is_none negb].
  1,2: destruct (susable c ss j true); now rewrite orb_false_r.
  1,2,3: now rewrite orb_false_r.
  - destruct (susable c ss j false) eqn:U; cbn [andb concat last_report is_none negb]; [|now rewrite orb_false_r].
    cbn [sreport p_touched]. destruct (Nat.eq_dec i j) as [->|Hji].
    + rewrite upd_same, Nat.eqb_refl. cbn [concat app]. destruct (last_report [(a', v)] a); cbn [is_none negb]; [now rewrite orb_true_r|now rewrite orb_false_r].
    + rewrite upd_other by exact Hji. assert (E : Nat.eqb j i = false) by (apply Nat.eqb_neq; congruence). rewrite E. cbn [concat last_report is_none negb]. now rewrite orb_false_r.
  - destruct (c_scripted c); now rewrite orb_false_r.
  - cbn [sgiven sobserve p_touched concat]. rewrite app_nil_r.
    destruct (Nat.eqb r r0) eqn:E; [apply Nat.eqb_eq in E; subst; congruence|].
    destruct (last_report (reports (p_regs ss) (p_world ss) i) a); cbn [is_none negb]; [now rewrite orb_true_r|now rewrite orb_false_r].
Qed.

Lemma base_step : forall c ss o i r a, o <> OCollect r -> p_base (sstep c ss o) i r a = p_base ss i r a.
Proof.
  intros c ss o i r a Hne. destruct o as [j f s|j f s|j|s a' v|s a'|j a' v|d|r0]; cbn [sstep].
  1,2: destruct (susable c ss j true); reflexivity.
  1,2,3: reflexivity.
  - destruct (susable c ss j false); reflexivity.
  - destruct (c_scripted c); reflexivity.
  - cbn [sgiven sobserve p_base]. destruct (Nat.eqb r r0) eqn:E; [apply Nat.eqb_eq in E; subst; congruence|reflexivity].
Qed.

Lemma touched_events : forall c ops ss i r a, Forall (fun o => o <> OCollect r) ops ->
  p_touched (fold_left (sstep c) ops ss) i r a = p_touched ss i r a || negb (is_none (last_report (events_from c ss ops i) a)) /\
  p_base (fold_left (sstep c) ops ss) i r a = p_base ss i r a.
Proof.
  intros c. induction ops as [|o ops IH]; intros ss i r a Hno; cbn [fold_left].
  - cbn. now rewrite orb_false_r.
  - inversion Hno as [|? ? Ho Hrest]; subst. destruct (IH (sstep c ss o) i r a Hrest) as [H1 H2].
    rewrite H1, H2, events_from_cons, last_report_app, touched_step, base_step by exact Ho. split; [|reflexivity].
    destruct (last_report (events_from c (sstep c ss o) ops i) a); cbn [is_none negb]; [now rewrite !orb_true_r|].
    now rewrite orb_false_r.
Qed.

(* a reader that has nothing new for an attribute set was last given its current total *)
Definition binv (ss : sstate) : Prop :=
  forall i r a, p_touched ss i r a = false -> p_base ss i r a = lv (p_latest ss i) a.

Lemma binv_step : forall c ss o, binv ss -> binv (sstep c ss o).
Proof.
  intros c ss o H i r a. destruct o as [j f s|j f s|j|s a' v|s a'|j a' v|d|r0]; cbn [sstep].
  1,2: destruct (susable c ss j true); apply H.
  1,2,3: apply H.
  - destruct (susable c ss j false); [|apply H]. cbn [sreport p_touched p_base p_latest].
    destruct (Nat.eq_dec i j) as [->|Hji]; [rewrite !upd_same|rewrite !upd_other by exact Hji; apply H].
    unfold lv. destruct (last_report [(a', v)] a); cbn [is_none]; [discriminate|apply H].
  - destruct (c_scripted c); apply H.
  - cbn [sgiven sobserve p_touched p_base p_latest]. destruct (Nat.eqb r r0) eqn:E.
    + intros _. apply Nat.eqb_eq in E. subst r0. unfold lv.
      destruct (last_report (reports (p_regs ss) (p_world ss) i) a) eqn:El; cbn [is_none]; [reflexivity|].
      destruct (p_touched ss i r a) eqn:Et; [reflexivity|]. rewrite ?El. now apply H.
    + destruct (last_report (reports (p_regs ss) (p_world ss) i) a) eqn:El; cbn [is_none]; [discriminate|]. intros Ht. unfold lv. rewrite El. now apply H.
Qed.
Lemma binv_run : forall c ops ss, binv ss -> binv (fold_left (sstep c) ops ss).
Proof. intros c. induction ops as [|o ops IH]; intros ss H; cbn [fold_left]; [exact H|]. apply IH. now apply binv_step. Qed.
Lemma binv_init : binv sinit.
Proof. intros i r a _. reflexivity. Qed.

Lemma after_own_collect : forall c ss r i a, binv ss ->
  p_touched (sstep c ss (OCollect r)) i r a = false /\
  p_base (sstep c ss (OCollect r)) i r a = lv (p_latest (sstep c ss (OCollect r)) i) a.
Proof.
  intros c ss r i a H. pose proof (binv_step c ss (OCollect r) H i r a) as H1.
  assert (Ht : p_touched (sstep c ss (OCollect r)) i r a = false) by (cbn [sstep sgiven p_touched]; now rewrite Nat.eqb_refl).
  split; [exact Ht|now apply H1].
Qed.

(* the flags of the SPEC in closed form *)
Lemma skip_step : forall c ss o i,
  p_skip (sstep c ss o) i = p_skip ss i || (is_mono (kind_of c i) && existsb (fun av => snd av <? 0) (match o with OCollect _ => head_events c ss o i | _ => [] end)).
Proof.
  intros c ss o i. destruct o as [j f s|j f s|j|s a' v|s a'|j a' v|d|r0]; cbn [sstep existsb].
  1,2: destruct (susable c ss j true); now rewrite andb_false_r, orb_false_r.
  1,2,3: now rewrite andb_false_r, orb_false_r.
  - destruct (susable c ss j false); cbn [sreport p_skip]; now rewrite andb_false_r, orb_false_r.
  - destruct (c_scripted c); now rewrite andb_false_r, orb_false_r.
  - cbn [sgiven sobserve p_skip]. unfold head_events. cbn [head_group concat]. now rewrite app_nil_r.
Qed.

(* ------------------------------------------------------------------ what is expected, in closed form *)
Section Closed.
  Variables (c : cfg) (i : nat).
  Let k := kind_of c i.

  Lemma observe_is_collect_latest : forall ss r a, p_latest (sobserve c ss) i a = p_latest (sstep c ss (OCollect r)) i a.
  Proof. reflexivity. Qed.

  Lemma expected_cumulative : forall ops r a, cumulative c r = true ->
    expected c (sobserve c (final_sstate c ops)) i r a = option_map (mkpoint k) (last_report (events c (ops ++ [OCollect r]) i) a).
  Proof.
    intros ops r a Hcu. unfold expected. rewrite Hcu. rewrite (observe_is_collect_latest _ r), <- final_snoc.
    unfold final_sstate. rewrite latest_events. cbn [sinit p_latest]. fold (events c (ops ++ [OCollect r]) i).
    now destruct (last_report (events c (ops ++ [OCollect r]) i) a).
  Qed.

  (* reader r collected at the end of [pre ++ [OCollect r]] and not in [post] *)
  Lemma expected_delta : forall pre post r a, cumulative c r = false -> Forall (fun o => o <> OCollect r) post ->
    expected c (sobserve c (final_sstate c (pre ++ OCollect r :: post))) i r a =
    match last_report (events_after c (pre ++ [OCollect r]) (post ++ [OCollect r]) i) a with
    | Some v => Some (mkpoint k (if is_last k then v else v - total_at c (pre ++ [OCollect r]) i a))
    | None => None
    end.
  Proof.
    intros pre post r a Hcu Hno.
    set (ssr := final_sstate c (pre ++ [OCollect r])).
    assert (Hfin : final_sstate c (pre ++ OCollect r :: post) = fold_left (sstep c) post ssr).
    { unfold ssr, final_sstate. rewrite !fold_left_app. reflexivity. }
    assert (Hb : binv (final_sstate c pre)) by (apply binv_run, binv_init).
    destruct (after_own_collect c (final_sstate c pre) r i a Hb) as [Ht0 Hb0]. rewrite <- final_snoc in Ht0, Hb0. fold ssr in Ht0, Hb0.
    destruct (touched_events c post ssr i r a Hno) as [Ht Hbase]. rewrite <- Hfin in Ht, Hbase.
    set (ss := final_sstate c (pre ++ OCollect r :: post)) in *.
    (* the continuation's events: those of [post], then those of this collection *)
    assert (Hseg : events_after c (pre ++ [OCollect r]) (post ++ [OCollect r]) i =
                   events_from c ssr post i ++ reports (p_regs ss) (p_world ss) i).
    { unfold events_after. fold ssr. rewrite events_from_app, <- Hfin. f_equal. unfold events_from. cbn [groups_from head_group concat app]. now rewrite app_nil_r. }
    rewrite Hseg, last_report_app.
    unfold expected. rewrite Hcu. cbn [sobserve p_latest p_touched p_base]. rewrite Ht, Ht0, Hbase, Hb0. cbn [orb].
    assert (Hlat : p_latest ss i a = match last_report (events_from c ssr post i) a with Some v => Some v | None => p_latest ssr i a end).
    { rewrite Hfin. apply latest_events. }
    assert (Htot : lv (p_latest ssr i) a = total_at c (pre ++ [OCollect r]) i a).
    { unfold lv, total_at, ssr, final_sstate. rewrite latest_events. cbn [sinit p_latest]. fold (events c (pre ++ [OCollect r]) i).
      now destruct (last_report (events c (pre ++ [OCollect r]) i) a). }
    rewrite Htot, Hlat.
    destruct (last_report (reports (p_regs ss) (p_world ss) i) a) as [v|]; cbn [is_none]; [reflexivity|].
    destruct (last_report (events_from c ssr post i) a) as [v|]; cbn [is_none negb]; [reflexivity|].
    now destruct (p_latest ssr i a).
  Qed.

  (* reader r has not collected before *)
  Lemma expected_delta_first : forall ops r a, cumulative c r = false -> Forall (fun o => o <> OCollect r) ops ->
    expected c (sobserve c (final_sstate c ops)) i r a =
    match last_report (events c (ops ++ [OCollect r]) i) a with
    | Some v => Some (mkpoint k (if is_last k then v else v - 0))
    | None => None
    end.
  Proof.
    intros ops r a Hcu Hno.
    destruct (touched_events c ops sinit i r a Hno) as [Ht Hbase]. fold (final_sstate c ops) in Ht, Hbase.
    set (ss := final_sstate c ops) in *.
    assert (Hev : events c (ops ++ [OCollect r]) i = events c ops i ++ reports (p_regs ss) (p_world ss) i).
    { unfold events. rewrite events_from_app. fold (final_sstate c ops). fold ss. f_equal. unfold events_from. cbn [groups_from head_group concat app]. now rewrite app_nil_r. }
    rewrite Hev, last_report_app.
    unfold expected. rewrite Hcu. cbn [sobserve p_latest p_touched p_base]. rewrite Ht, Hbase. cbn [sinit p_touched p_base orb].
    assert (Hlat : p_latest ss i a = last_report (events c ops i) a).
    { unfold ss, final_sstate. rewrite latest_events. cbn [sinit p_latest]. fold (events c ops i). now destruct (last_report (events c ops i) a). }
    rewrite Hlat.
    destruct (last_report (reports (p_regs ss) (p_world ss) i) a) as [v|]; cbn [is_none]; [reflexivity|].
    fold (events c ops i). now destruct (last_report (events c ops i) a).
  Qed.
End Closed.

(* ------------------------------------------------------------------ the domain, in closed form over the history *)
(* no negative total was reported for a monotonic counter *)
Definition no_negative_total (c : cfg) (ops : list op) (i : nat) : Prop := p_skip (final_sstate c ops) i = false.
(* the clock strictly increases in call order: it is the real one, or every scripted step is positive *)
Definition clock_increasing (c : cfg) (ops : list op) : Prop := p_clock_ok (final_sstate c ops) = true.

Lemma clock_ok_step : forall c ss o,
  p_clock_ok (sstep c ss o) = p_clock_ok ss && match o with OStep d => negb (c_scripted c) || (0 <? d) | _ => true end.
Proof.
  intros c ss o. destruct o as [j f s|j f s|j|s a' v|s a'|j a' v|d|r0]; cbn [sstep].
  1,2: destruct (susable c ss j true); now rewrite andb_true_r.
  1,2,3: now rewrite andb_true_r.
  - destruct (susable c ss j false); cbn [sreport p_clock_ok]; now rewrite andb_true_r.
  - destruct (c_scripted c); cbn [p_clock_ok negb orb]; [reflexivity|now rewrite andb_true_r].
  - cbn [sgiven sobserve p_clock_ok]. now rewrite andb_true_r.
Qed.
Theorem clock_increasing_iff : forall c ops,
  clock_increasing c ops <-> (c_scripted c = false \/ forall d, In (OStep d) ops -> 0 < d).
Proof.
  intros c ops. unfold clock_increasing, final_sstate.
  assert (H : forall ss, p_clock_ok (fold_left (sstep c) ops ss) = true <->
                         p_clock_ok ss = true /\ (c_scripted c = false \/ forall d, In (OStep d) ops -> 0 < d)).
  { induction ops as [|o ops IH]; intros ss; cbn [fold_left].
    - split; [intros H; split; [exact H|right; intros d []]|tauto].
    - rewrite IH, clock_ok_step. split.
      + intros [H1 H2]. apply andb_prop in H1 as [H1 H3]. split; [exact H1|]. destruct H2 as [H2|H2]; [now left|].
        destruct (c_scripted c) eqn:Es; [|now left]. right. intros d [Hd|Hd]; [subst o; cbn [negb orb] in H3; lia|now apply H2].
      + intros [H1 H2]. split.
        * rewrite H1. cbn [andb]. destruct o; try reflexivity. destruct H2 as [->|H2]; [reflexivity|].
          specialize (H2 d (or_introl eq_refl)). apply orb_true_intro. right. lia.
        * destruct H2 as [H2|H2]; [now left|]. right. intros d Hd. apply H2. now right. }
  rewrite H. cbn [sinit p_clock_ok]. tauto.
Qed.

(* ------------------------------------------------------------------ the property theorems about values *)
Section Values.
  Variables (c : cfg) (i : nat).
  Let k := kind_of c i.
  Hypothesis Hi : (i < ninstr c)%nat.

  Lemma dom_of_final : forall ops r, p_skip (final_sstate c (ops ++ [OCollect r])) i = false ->
    (is_last k = true -> p_clock_ok (final_sstate c (ops ++ [OCollect r])) = true) ->
    dom c (sobserve c (final_sstate c ops)) i.
  Proof. intros ops r H1 H2. rewrite final_snoc in H1, H2. split; [exact H1|exact H2]. Qed.

  (* "a cumulative reader receives the reported total": exactly the attribute sets reported so far, each with the total most
     recently reported for it - the reports of this very collection included *)
  Lemma cumulative_reader_gets_reported_total_lemma : forall ops r,
    Forall (op_ok c) ops -> (r < nreaders c)%nat -> cumulative c r = true -> is_last k = false ->
    no_negative_total c (ops ++ [OCollect r]) i ->
    exists o, snd (run c (ops ++ [OCollect r])) = snd (run c ops) ++ [o] /\
              forall a, In a attrs ->
                given c i (nth i (co_tabs o) None) a =
                option_map (fun v => PSum v (is_mono k)) (last_report (events c (ops ++ [OCollect r]) i) a).
  Proof.
    intros ops r Hok Hr Hcu Hk Hs. destruct (collect_points c ops r Hok Hr) as (o & Ho & Hpts).
    exists o. split; [exact Ho|]. intros a Hin.
    rewrite (Hpts i Hi) by (try exact Hin; apply (dom_of_final ops r Hs); fold k; rewrite Hk; discriminate).
    rewrite expected_cumulative by exact Hcu. fold k. unfold mkpoint. now rewrite Hk.
  Qed.

  (* "a delta reader receives the difference from what that same reader was last given": the attribute sets reported since its
     own previous collection, each with (latest total - total at that previous collection), whatever other readers did *)
  Lemma delta_reader_gets_difference_from_own_last_lemma : forall pre post r,
    Forall (op_ok c) (pre ++ OCollect r :: post) -> (r < nreaders c)%nat -> cumulative c r = false -> is_last k = false ->
    Forall (fun o => o <> OCollect r) post ->
    no_negative_total c ((pre ++ OCollect r :: post) ++ [OCollect r]) i ->
    exists o, snd (run c ((pre ++ OCollect r :: post) ++ [OCollect r])) = snd (run c (pre ++ OCollect r :: post)) ++ [o] /\
              forall a, In a attrs ->
                given c i (nth i (co_tabs o) None) a =
                match last_report (events_after c (pre ++ [OCollect r]) (post ++ [OCollect r]) i) a with
                | Some v => Some (PSum (v - total_at c (pre ++ [OCollect r]) i a) (is_mono k))
                | None => None
                end.
  Proof.
    intros pre post r Hok Hr Hcu Hk Hno Hs. destruct (collect_points c _ r Hok Hr) as (o & Ho & Hpts).
    exists o. split; [exact Ho|]. intros a Hin.
    rewrite (Hpts i Hi) by (try exact Hin; apply (dom_of_final _ r Hs); fold k; rewrite Hk; discriminate).
    rewrite expected_delta by assumption. fold k. unfold mkpoint. now rewrite Hk.
  Qed.

  Lemma delta_reader_first_collection_lemma : forall ops r,
    Forall (op_ok c) ops -> (r < nreaders c)%nat -> cumulative c r = false -> is_last k = false ->
    Forall (fun o => o <> OCollect r) ops ->
    no_negative_total c (ops ++ [OCollect r]) i ->
    exists o, snd (run c (ops ++ [OCollect r])) = snd (run c ops) ++ [o] /\
              forall a, In a attrs ->
                given c i (nth i (co_tabs o) None) a =
                option_map (fun v => PSum v (is_mono k)) (last_report (events c (ops ++ [OCollect r]) i) a).
  Proof.
    intros ops r Hok Hr Hcu Hk Hno Hs. destruct (collect_points c ops r Hok Hr) as (o & Ho & Hpts).
    exists o. split; [exact Ho|]. intros a Hin.
    rewrite (Hpts i Hi) by (try exact Hin; apply (dom_of_final ops r Hs); fold k; rewrite Hk; discriminate).
    rewrite expected_delta_first by assumption. fold k. unfold mkpoint. rewrite Hk.
    destruct (last_report (events c (ops ++ [OCollect r]) i) a); cbn [option_map]; [now rewrite Z.sub_0_r|reflexivity].
  Qed.

  (* "observable and synchronous gauges report, per attribute set, the most recently observed or recorded value" - under the
     stated hypothesis that the clock strictly increases in call order *)
  Lemma gauge_reports_latest_cumulative_lemma : forall ops r,
    Forall (op_ok c) ops -> (r < nreaders c)%nat -> cumulative c r = true -> is_last k = true ->
    clock_increasing c (ops ++ [OCollect r]) ->
    exists o, snd (run c (ops ++ [OCollect r])) = snd (run c ops) ++ [o] /\
              forall a, In a attrs ->
                given c i (nth i (co_tabs o) None) a =
                option_map (fun v => PLast v true) (last_report (events c (ops ++ [OCollect r]) i) a).
  Proof.
    intros ops r Hok Hr Hcu Hk Hclk. destruct (collect_points c ops r Hok Hr) as (o & Ho & Hpts).
    assert (Hskip : p_skip (final_sstate c (ops ++ [OCollect r])) i = false).
    { assert (Hgen : forall l ss, p_skip ss i = false -> p_skip (fold_left (sstep c) l ss) i = false).
      { induction l as [|x l IH]; intros ss H; cbn [fold_left]; [exact H|]. apply IH. rewrite skip_step, H. cbn [orb].
        fold k. assert (Hm : is_mono k = false) by (unfold is_mono, is_last in *; lia). now rewrite Hm. }
      apply Hgen. reflexivity. }
    exists o. split; [exact Ho|]. intros a Hin.
    rewrite (Hpts i Hi) by (try exact Hin; apply (dom_of_final ops r Hskip); intros _; exact Hclk).
    rewrite expected_cumulative by exact Hcu. fold k. unfold mkpoint. now rewrite Hk.
  Qed.

  Lemma gauge_reports_latest_delta_lemma : forall pre post r,
    Forall (op_ok c) (pre ++ OCollect r :: post) -> (r < nreaders c)%nat -> cumulative c r = false -> is_last k = true ->
    Forall (fun o => o <> OCollect r) post ->
    clock_increasing c ((pre ++ OCollect r :: post) ++ [OCollect r]) ->
    exists o, snd (run c ((pre ++ OCollect r :: post) ++ [OCollect r])) = snd (run c (pre ++ OCollect r :: post)) ++ [o] /\
              forall a, In a attrs ->
                given c i (nth i (co_tabs o) None) a =
                option_map (fun v => PLast v true) (last_report (events_after c (pre ++ [OCollect r]) (post ++ [OCollect r]) i) a).
  Proof.
    intros pre post r Hok Hr Hcu Hk Hno Hclk. destruct (collect_points c _ r Hok Hr) as (o & Ho & Hpts).
    assert (Hskip : p_skip (final_sstate c ((pre ++ OCollect r :: post) ++ [OCollect r])) i = false).
    { assert (Hgen : forall l ss, p_skip ss i = false -> p_skip (fold_left (sstep c) l ss) i = false).
      { induction l as [|x l IH]; intros ss H; cbn [fold_left]; [exact H|]. apply IH. rewrite skip_step, H. cbn [orb].
        fold k. assert (Hm : is_mono k = false) by (unfold is_mono, is_last in *; lia). now rewrite Hm. }
      apply Hgen. reflexivity. }
    exists o. split; [exact Ho|]. intros a Hin.
    rewrite (Hpts i Hi) by (try exact Hin; apply (dom_of_final _ r Hskip); intros _; exact Hclk).
    rewrite expected_delta by assumption. fold k. unfold mkpoint. rewrite Hk.
    now destruct (last_report (events_after c (pre ++ [OCollect r]) (post ++ [OCollect r]) i) a).
  Qed.
End Values.

(* non-vacuity of the hypotheses: a counter with two callbacks reporting different attribute sets, totals going up and down,
   an attribute set that disappears, two readers of different temporality interleaved *)
Example values_example :
  let c := mk_cfg false [0; 1] [0; 2] in
  let pre := [OAdd 0 0 0; OAdd 0 1 1; OSet 0 0 10; OSet 1 2 4; OCollect 1] in
  let post := [OSet 0 0 25; OCollect 1; OUnset 1 2; OSet 0 0 20] in
  Forall (op_ok c) (pre ++ OCollect 0 :: post) /\ cumulative c 0 = false /\ Forall (fun o => o <> OCollect 0%nat) post /\
  no_negative_total c ((pre ++ OCollect 0 :: post) ++ [OCollect 0]) 0 /\
  clock_increasing c ((pre ++ OCollect 0 :: post) ++ [OCollect 0]) /\
  events_after c (pre ++ [OCollect 0]) (post ++ [OCollect 0]) 0 = [(0, 25); (2, 4); (0, 20)] /\
  total_at c (pre ++ [OCollect 0]) 0 0 = 10.
Proof.
  cbn zeta. split; [repeat constructor; cbn; tauto|]. split; [reflexivity|]. split; [repeat constructor; discriminate|].
  repeat split; vm_compute; reflexivity.
Qed.
