(* C17 proofs, part 3: observable counters and up-down counters.  One instrument's storage against the abstract state
   (latest total per attribute set, per reader the total it was last given and what was reported since). *)
From V Require Import C17.Glue C17.ProofsBase.
From Coq Require Import Lia.
Local Open Scope Z_scope.

Definition lv (lat : Z -> option Z) (a : Z) : Z := match lat a with Some v => v | None => 0 end.
Definition olast (S : storage) (r : nat) : amap := match st_last S r with Some m => m | None => aempty end.
Definition UL (S : storage) (r : nat) : list amap := unrep_list (st_unrep S r).
Definition fastcfg (c : cfg) : bool := Nat.eqb (nreaders c) 1 && negb (cumulative c 0).

(* the abstract state after the reports [rep] of one collection, and after reader r has been given its points *)
Definition lat_after (rep : list (Z * Z)) (lat : Z -> option Z) : Z -> option Z :=
  fun a => match last_report rep a with Some v => Some v | None => lat a end.
Definition tch_after (rep : list (Z * Z)) (tch : nat -> Z -> bool) : nat -> Z -> bool :=
  fun r a => if is_none (last_report rep a) then tch r a else true.
Definition base_given (r : nat) (lat : Z -> option Z) (base : nat -> Z -> Z) (tch : nat -> Z -> bool) : nat -> Z -> Z :=
  fun r' a => if Nat.eqb r' r then (if tch r a then lv lat a else base r a) else base r' a.
Definition tch_given (r : nat) (tch : nat -> Z -> bool) : nat -> Z -> bool :=
  fun r' a => if Nat.eqb r' r then false else tch r' a.

Lemma val_aempty : forall a, val aempty a = 0.
Proof. reflexivity. Qed.
Lemma some_aempty : forall a, some aempty a = false.
Proof. reflexivity. Qed.

Lemma path_is_fastcfg : forall c r, (r < nreaders c)%nat -> Nat.eqb (nreaders c) 1 && negb (cumulative c r) = fastcfg c.
Proof.
  intros c r Hr. unfold fastcfg. destruct (Nat.eqb (nreaders c) 1) eqn:E; [|reflexivity].
  apply Nat.eqb_eq in E. assert (r = O) by lia. now subst.
Qed.

(* lia on the arithmetic hypotheses only (the contexts below are large) *)
Ltac keep_arith :=
  repeat match goal with
  | H : ?T |- _ =>
      lazymatch type of T with Prop => idtac | _ => fail end;
      lazymatch T with
      | @eq Z _ _ => fail
      | (_ <= _)%Z => fail
      | (_ < _)%Z => fail
      | @eq nat _ _ => fail
      | (_ < _)%nat => fail
      | (_ <= _)%nat => fail
      | _ => clear H
      end
  end.
Ltac flia := repeat match goal with x := _ |- _ => clearbody x end; keep_arith; lia.

Section SumInstrument.
  Variables (c : cfg) (i : nat).
  Let k := kind_of c i.
  Hypothesis Hk : is_last k = false.

  (* ---------------------------------------------------------------- Observe on a sum instrument: per attribute set the last report
     of the collection is the new total, and the pending difference grows by (last report - previous total) *)
  Lemma record_sum : forall clk m S a,
    (forall b, st_cum S b = None -> st_delta S b = None) ->
    (forall v, m a = Some v -> 0 <= v \/ is_mono k = false) ->
    st_cum (record k clk m S) a = match m a with Some v => Some (mk_agg v 0 false) | None => st_cum S a end /\
    val (st_delta (record k clk m S)) a = match m a with Some v => v - val (st_cum S) a + val (st_delta S) a | None => val (st_delta S) a end /\
    some (st_delta (record k clk m S)) a = match m a with Some _ => true | None => some (st_delta S) a end.
  Proof.
    intros clk m S a Hcd Hpos. unfold val, some, get_def. cbn [record st_cum st_delta]. destruct (m a) as [v|]; [|repeat split].
    rewrite (agg_new_sum k Hk _ _ (Hpos v eq_refl)). cbn [is_none negb]. split; [reflexivity|]. split; [|reflexivity].
    destruct (st_cum S a) as [prev|] eqn:Ec.
    - destruct (st_delta S a) as [p|]; unfold merge, diff; rewrite Hk; cbn [a_val agg0]; lia.
    - rewrite (Hcd a Ec). cbn [a_val agg0]. lia.
  Qed.

  Lemma obs_sum : forall w step cbs clk S,
    (forall b, st_cum S b = None -> st_delta S b = None) ->
    (forall a v, In (a, v) (reports cbs w i) -> 0 <= v \/ is_mono k = false) ->
    st_unrep (obs_i c i w cbs clk step S) = st_unrep S /\ st_last (obs_i c i w cbs clk step S) = st_last S /\
    forall a, In a attrs ->
      st_cum (obs_i c i w cbs clk step S) a =
        match last_report (reports cbs w i) a with Some v => Some (mk_agg v 0 false) | None => st_cum S a end /\
      val (st_delta (obs_i c i w cbs clk step S)) a =
        match last_report (reports cbs w i) a with
        | Some v => v - val (st_cum S) a + val (st_delta S) a
        | None => val (st_delta S) a
        end /\
      some (st_delta (obs_i c i w cbs clk step S)) a =
        match last_report (reports cbs w i) a with Some _ => true | None => some (st_delta S) a end.
  Proof.
    intros w step. induction cbs as [|[[j f] s] cbs IH]; intros clk S Hcd Hpos.
    - cbn [obs_i reports flat_map last_report]. split; [reflexivity|split; [reflexivity|intros a _; repeat split]].
    - rewrite reports_cons in Hpos. cbn [fst snd] in Hpos. cbn [obs_i].
      destruct (Nat.eqb j i) eqn:Ej.
      + assert (Hpos2 : forall a v, In (a, v) (reports cbs w i) -> 0 <= v \/ is_mono k = false).
        { intros a v H. apply (Hpos a v). apply in_or_app. now right. }
        assert (Hpos1 : forall a, In a attrs -> forall v, w s a = Some v -> 0 <= v \/ is_mono k = false).
        { intros a Hin v Ew. apply (Hpos a v). apply in_or_app. left. unfold meas_list. apply in_flat_map. exists a. split; [exact Hin|]. rewrite Ew. now left. }
        set (S1 := record (kind_of c i) (clk + step) (w s) S).
        assert (Hcd1 : forall b, st_cum S1 b = None -> st_delta S1 b = None).
        { intros b. unfold S1. cbn [record st_cum st_delta]. destruct (w s b); [discriminate|apply Hcd]. }
        destruct (IH (clk + step) S1 Hcd1 Hpos2) as (Hu & Hl & Ha).
        rewrite Hu, Hl. unfold S1 at 1 2. cbn [record st_unrep st_last]. split; [reflexivity|split; [reflexivity|]]. intros a Hin.
        destruct (Ha a Hin) as (Hc & Hv & Hs). rewrite Hc, Hv, Hs. clear Hc Hv Hs Ha IH.
        rewrite reports_cons. cbn [fst snd]. rewrite Ej, last_report_app, last_report_meas by exact Hin.
        destruct (record_sum (clk + step) (w s) S a Hcd (Hpos1 a Hin)) as (Rc & Rv & Rs). fold k in S1. fold S1 in Rc, Rv, Rs.
        destruct (last_report (reports cbs w i) a) as [v|] eqn:El.
        * split; [reflexivity|]. split; [|reflexivity]. rewrite Rv. unfold val at 1. unfold get_def. rewrite Rc.
          destruct (w s a) as [v1|]; [cbn [a_val]; lia|reflexivity].
        * rewrite Rc, Rv, Rs. destruct (w s a); repeat split.
      + cbn [app] in Hpos. rewrite reports_cons. cbn [fst snd]. rewrite Ej. cbn [app]. now apply IH.
  Qed.

  (* ---------------------------------------------------------------- buildMetrics on the merge path, read per attribute set *)
  Lemma build_multi_sum : forall n r cumul D S,
    Nat.eqb n 1 && negb cumul = false ->
    let S2 := fst (build k n r cumul D S) in
    let out := snd (build k n r cumul D S) in
    st_cum S2 = st_cum S /\ st_delta S2 = st_delta S /\
    (forall r' a, In a attrs -> usum (UL S2 r') a = if Nat.eqb r' r then 0 else usum (UL S r') a + val D a) /\
    (forall r' a, In a attrs -> uany (UL S2 r') a = if Nat.eqb r' r then false else uany (UL S r') a || some D a) /\
    (forall r', r' <> r -> st_last S2 r' = st_last S r') /\
    (forall r', (st_unrep S r' = None -> st_last S r' = None) -> st_unrep S2 r' = None -> st_last S2 r' = None) /\
    match out with
    | None => st_last S2 r = st_last S r /\ st_unrep S r = None /\ (forall a, In a attrs -> D a = None)
    | Some res =>
        st_last S2 r = Some res /\
        forall a, In a attrs ->
          val res a = usum (UL S r) a + val D a + (if cumul then val (olast S r) a else 0) /\
          some res a = uany (UL S r) a || some D a || (if cumul then some (olast S r) a else false)
    end.
  Proof.
    intros n r cumul D S Hpath. unfold build. rewrite Hpath.
    set (unrep1 := if a_is_empty D then st_unrep S else fun c0 => Some (unrep_list (st_unrep S c0) ++ [D])).
    (* what the push does, per attribute set of the universe *)
    assert (Hpush : forall r' a, In a attrs ->
              usum (unrep_list (unrep1 r')) a = usum (UL S r') a + val D a /\
              uany (unrep_list (unrep1 r')) a = uany (UL S r') a || some D a).
    { intros r' a Hin. unfold unrep1, UL. destruct (a_is_empty D) eqn:Ee.
      - rewrite a_is_empty_true in Ee. rewrite val_none by (now apply Ee). unfold some. rewrite (Ee a Hin). cbn [is_none negb].
        split; [lia|now rewrite orb_false_r].
      - cbn [unrep_list]. rewrite usum_app, uany_app. cbn [usum uany]. split; [lia|now rewrite orb_false_r]. }
    destruct (unrep1 r) as [l|] eqn:Er; cbn [fst snd st_cum st_delta st_unrep st_last].
    - set (merged := fold_left (mmerge k) l aempty).
      set (result := match st_last S r with Some lastm => if cumul then mmerge k merged lastm else merged | None => merged end).
      repeat split.
      + intros r' a Hin. unfold UL. cbn [st_unrep]. unfold upd. destruct (Nat.eqb r' r); [reflexivity|]. now apply Hpush.
      + intros r' a Hin. unfold UL. cbn [st_unrep]. unfold upd. destruct (Nat.eqb r' r); [reflexivity|]. now apply Hpush.
      + intros r' Hne. apply upd_other. exact Hne.
      + intros r' Himp. unfold upd. destruct (Nat.eqb r' r); [discriminate|].
        unfold unrep1. destruct (a_is_empty D); [exact Himp|discriminate].
      + apply upd_same.
      + destruct (Hpush r a H) as [Hs _]. rewrite Er in Hs. cbn [unrep_list] in Hs.
        destruct (fold_mmerge_sum k Hk l aempty a) as [Hv _]. fold merged in Hv.
        assert (Hm : val merged a = usum (UL S r) a + val D a) by (rewrite Hv, Hs, val_aempty; lia).
        unfold result, olast. destruct (st_last S r) as [lastm|]; destruct cumul; try rewrite mmerge_sum_val by exact Hk;
          rewrite ?val_aempty; lia.
      + destruct (Hpush r a H) as [_ Hs]. rewrite Er in Hs. cbn [unrep_list] in Hs.
        destruct (fold_mmerge_sum k Hk l aempty a) as [_ Hv]. fold merged in Hv.
        assert (Hm : some merged a = uany (UL S r) a || some D a) by (rewrite Hv, Hs, some_aempty; reflexivity).
        unfold result, olast. destruct (st_last S r) as [lastm|]; destruct cumul; try rewrite mmerge_some by exact Hk;
          rewrite Hm, ?some_aempty; now rewrite ?orb_false_r.
    - assert (Hempty : a_is_empty D = true /\ st_unrep S r = None).
      { unfold unrep1 in Er. destruct (a_is_empty D); [now split|discriminate]. }
      destruct Hempty as [He Hn]. repeat split.
      + intros r' a Hin. unfold UL at 1. cbn [st_unrep]. destruct (Hpush r' a Hin) as [Hs _]. rewrite Hs.
        destruct (Nat.eqb r' r) eqn:E; [|reflexivity]. apply Nat.eqb_eq in E. subst r'.
        unfold UL. rewrite Hn. cbn [unrep_list usum]. rewrite a_is_empty_true in He. rewrite val_none by (now apply He). lia.
      + intros r' a Hin. unfold UL at 1. cbn [st_unrep]. destruct (Hpush r' a Hin) as [_ Hs]. rewrite Hs.
        destruct (Nat.eqb r' r) eqn:E; [|reflexivity]. apply Nat.eqb_eq in E. subst r'.
        unfold UL. rewrite Hn. cbn [unrep_list uany]. rewrite a_is_empty_true in He. unfold some. now rewrite (He a Hin).
      + intros r' Himp. unfold unrep1. rewrite He. exact Himp.
      + exact Hn.
      + now apply a_is_empty_true.
  Qed.

  (* ---------------------------------------------------------------- the invariant *)
  Record SumInv (S : storage) (lat : Z -> option Z) (base : nat -> Z -> Z) (tch : nat -> Z -> bool) : Prop := {
    si_delta : forall a, In a attrs -> st_delta S a = None;
    si_cum : forall a, In a attrs -> st_cum S a = option_map (fun v => mk_agg v 0 false) (lat a);
    si_cd : forall b, st_cum S b = None -> st_delta S b = None;
    si_tl : forall r a, In a attrs -> tch r a = true -> lat a <> None;
    si_fast : fastcfg c = true -> forall a, In a attrs -> base O a = lv lat a /\ tch O a = false;
    si_multi : fastcfg c = false -> forall r, (r < nreaders c)%nat -> forall a, In a attrs ->
      (st_unrep S r = None -> st_last S r = None) /\
      if cumulative c r
      then val (olast S r) a + usum (UL S r) a = lv lat a /\ some (olast S r) a || uany (UL S r) a = negb (is_none (lat a))
      else base r a + usum (UL S r) a = lv lat a /\ uany (UL S r) a = tch r a
  }.

  Lemma SumInv_init : SumInv storage0 (fun _ => None) (fun _ _ => 0) (fun _ _ => false).
  Proof.
    constructor; cbn; intros; try reflexivity; try discriminate.
    - split; reflexivity.
    - split; [reflexivity|]. destruct (cumulative c r); split; reflexivity.
  Qed.

  (* what reader r is owed after this collection's reports *)
  Definition exp_sum (r : nat) (lat : Z -> option Z) (base : nat -> Z -> Z) (tch : nat -> Z -> bool) : Z -> option point :=
    fun a => match lat a with
             | None => None
             | Some v => if cumulative c r then Some (PSum v (is_mono k))
                         else if tch r a then Some (PSum (v - base r a) (is_mono k)) else None
             end.

  Theorem sum_collect : forall w step cbs clk S lat base tch r,
    SumInv S lat base tch ->
    (r < nreaders c)%nat ->
    (forall a v, In (a, v) (reports cbs w i) -> 0 <= v \/ is_mono k = false) ->
    (forall b, st_cum S b = None -> st_delta S b = None) ->
    let rep := reports cbs w i in
    let S1 := obs_i c i w cbs clk step S in
    let S2 := fst (collect_storage k (nreaders c) r (cumulative c r) S1) in
    let out := snd (collect_storage k (nreaders c) r (cumulative c r) S1) in
    let lat1 := lat_after rep lat in
    let tch1 := tch_after rep tch in
    SumInv S2 lat1 (base_given r lat1 base tch1) (tch_given r tch1) /\
    match out with
    | None => forall a, In a attrs -> exp_sum r lat1 base tch1 a = None
    | Some m => forall a, In a attrs -> option_map (point_of k) (m a) = exp_sum r lat1 base tch1 a
    end.
  Proof.
    intros w step cbs clk S lat base tch r Inv Hr Hpos Hcd rep S1 S2 out lat1 tch1.
    destruct (obs_sum w step cbs clk S Hcd Hpos) as (Hu & Hl & Ha). fold S1 in Hu, Hl, Ha. fold rep in Ha.
    (* the table handed to the temporal storage, per attribute set *)
    set (D := st_delta S1).
    assert (HD : forall a, In a attrs ->
              val D a = lv lat1 a - lv lat a /\ some D a = negb (is_none (last_report rep a)) /\
              (last_report rep a = None -> lat1 a = lat a)).
    { intros a Hin. destruct (Ha a Hin) as (_ & Hv & Hs). unfold D. rewrite Hv, Hs. unfold lat1, lat_after, lv.
      rewrite (val_none (st_delta S) a) by (now apply (si_delta _ _ _ _ Inv)).
      unfold some. rewrite (si_delta _ _ _ _ Inv a Hin). unfold val, get_def. rewrite (si_cum _ _ _ _ Inv a Hin).
      destruct (last_report rep a) as [v|]; cbn [is_none negb].
      - destruct (lat a); cbn [option_map a_val agg0]; repeat split; try lia; discriminate.
      - repeat split; lia. }
    assert (Hcum1 : forall a, In a attrs -> st_cum S1 a = option_map (fun v => mk_agg v 0 false) (lat1 a)).
    { intros a Hin. destruct (Ha a Hin) as (Hc & _ & _). rewrite Hc. unfold lat1, lat_after.
      destruct (last_report rep a); [reflexivity|]. now apply (si_cum _ _ _ _ Inv). }
    assert (Htl1 : forall r' a, In a attrs -> tch1 r' a = true -> lat1 a <> None).
    { intros r' a Hin. unfold tch1, tch_after, lat1, lat_after. destruct (last_report rep a); cbn [is_none]; [discriminate|].
      now apply (si_tl _ _ _ _ Inv). }
    set (S1' := mk_storage (st_cum S1) aempty (st_unrep S1) (st_last S1)).
    assert (HS2 : S2 = fst (build k (nreaders c) r (cumulative c r) D S1')) by reflexivity.
    assert (Hout : out = snd (build k (nreaders c) r (cumulative c r) D S1')) by reflexivity.
    clearbody S2 out.
    destruct (fastcfg c) eqn:Efast.
    - (* the single delta reader *)
      assert (Hpath : Nat.eqb (nreaders c) 1 && negb (cumulative c r) = true) by (now rewrite path_is_fastcfg).
      assert (Hr0 : r = O).
      { apply andb_prop in Hpath as [H _]. apply Nat.eqb_eq in H. flia. }
      assert (Hcu : cumulative c r = false).
      { apply andb_prop in Hpath as [_ H]. now destruct (cumulative c r). }
      unfold build in HS2, Hout. rewrite Hpath in HS2, Hout. cbn [fst snd] in HS2, Hout. subst r.
      pose proof (si_fast _ _ _ _ Inv Efast) as Hf.
      assert (Hexp : forall a, In a attrs -> exp_sum O lat1 base tch1 a = option_map (point_of k) (D a)).
      { intros a Hin. destruct (HD a Hin) as (Hv & Hs & Hsame). destruct (Hf a Hin) as [Hb Ht].
        unfold exp_sum. rewrite Hcu. unfold tch1, tch_after. rewrite Ht.
        unfold some in Hs. unfold val, get_def in Hv.
        destruct (D a) as [x|] eqn:EDa; cbn [is_none negb option_map] in *.
        - destruct (last_report rep a) as [v|] eqn:El; [|discriminate]. cbn [is_none].
          unfold lat1, lat_after in *. rewrite ?El in *. unfold lv in Hv at 1. rewrite ?El in Hv. rewrite (point_of_sum k Hk). f_equal. f_equal. rewrite Hb. flia.
        - destruct (last_report rep a) eqn:El; [discriminate|]. cbn [is_none]. now destruct (lat1 a). }
      split.
      + constructor; subst S2; cbn [st_delta st_cum st_unrep st_last].
        * reflexivity.
        * exact Hcum1.
        * reflexivity.
        * intros r' a Hin. unfold tch_given. destruct (Nat.eqb r' 0); [discriminate|]. now apply Htl1.
        * intros _ a Hin. unfold base_given, tch_given. cbn [Nat.eqb]. split; [|reflexivity].
          destruct (Hf a Hin) as [Hb Ht]. destruct (HD a Hin) as (_ & _ & Hsame).
          unfold tch1, tch_after. rewrite Ht. destruct (last_report rep a) eqn:El; cbn [is_none]; [reflexivity|].
          rewrite Hb. unfold lv. now rewrite Hsame.
        * intros Hne. congruence.
      + subst out. destruct (a_is_empty D) eqn:Ee.
        * intros a Hin. rewrite Hexp by exact Hin. rewrite a_is_empty_true in Ee. now rewrite Ee.
        * intros a Hin. now rewrite Hexp.
    - (* the merge path *)
      assert (Hpath : Nat.eqb (nreaders c) 1 && negb (cumulative c r) = false) by (now rewrite path_is_fastcfg).
      pose proof (build_multi_sum (nreaders c) r (cumulative c r) D S1' Hpath) as HB.
      cbn zeta in HB. rewrite <- HS2, <- Hout in HB. destruct HB as (Hbc & Hbd & Hbu & Hba & Hbl & Hbn & Hbo).
      pose proof (si_multi _ _ _ _ Inv Efast) as Hm.
      assert (HUL : forall r', UL S1' r' = UL S r') by (intros; unfold UL, S1'; cbn [st_unrep]; now rewrite Hu).
      assert (HOL : forall r', olast S1' r' = olast S r') by (intros; unfold olast, S1'; cbn [st_last]; now rewrite Hl).
      split.
      + constructor.
        * intros a Hin. rewrite Hbd. reflexivity.
        * intros a Hin. rewrite Hbc. unfold S1'. cbn [st_cum]. now apply Hcum1.
        * intros b _. rewrite Hbd. reflexivity.
        * intros r' a Hin. unfold tch_given. destruct (Nat.eqb r' r); [discriminate|]. now apply Htl1.
        * intros Hne. congruence.
        * intros _ r' Hr' a Hin. destruct (Hm r' Hr' a Hin) as [Hnone Hrest].
          split.
          { apply Hbn. unfold S1'. cbn [st_unrep st_last]. now rewrite Hu, Hl. }
          destruct (HD a Hin) as (Hv & Hs & Hsame).
          rewrite (Hbu r' a Hin), (Hba r' a Hin), HUL.
          destruct (Nat.eqb r' r) eqn:Er.
          { apply Nat.eqb_eq in Er. subst r'. destruct (Hm r Hr a Hin) as [_ Hrr].
            destruct out as [res|] eqn:Eout.
            - destruct Hbo as [Hlast Hres]. destruct (Hres a Hin) as [Hrv Hrs]. rewrite HUL, HOL in Hrv, Hrs.
              unfold olast at 1 2. rewrite Hlast. fold (val res a) (some res a).
              destruct (cumulative c r) eqn:Ecu.
              + destruct Hrr as [H1 H2]. split; [flia|]. rewrite orb_false_r, Hrs.
                rewrite <- orb_assoc, (orb_comm (some D a)), orb_assoc, (orb_comm (uany (UL S r) a)), H2, Hs.
                unfold lat1, lat_after. destruct (last_report rep a); cbn [is_none negb]; [now rewrite orb_true_r|now rewrite orb_false_r].
              + destruct Hrr as [H1 H2]. unfold base_given, tch_given. rewrite Nat.eqb_refl. split; [|reflexivity].
                unfold tch1, tch_after. destruct (last_report rep a) as [v|] eqn:El; cbn [is_none]; [flia|].
                rewrite H2 in *. destruct (tch r a) eqn:Et; [flia|]. rewrite (uany_false_usum _ _ H2) in H1.
                unfold lv in *. rewrite (Hsame eq_refl). flia.
            - destruct Hbo as (Hlast & Hun & Hdn). unfold S1' in Hlast, Hun. cbn [st_last st_unrep] in Hlast, Hun.
              rewrite Hu in Hun. rewrite Hl in Hlast.
              assert (HU0 : UL S r = []) by (unfold UL; now rewrite Hun).
              rewrite HU0 in Hrr. cbn [usum uany] in Hrr.
              assert (Hl0 : last_report rep a = None).
              { unfold some in Hs. rewrite (Hdn a Hin) in Hs. cbn [is_none negb] in Hs. now destruct (last_report rep a). }
              pose proof (Hsame Hl0) as Hsm. unfold olast at 1 2. rewrite Hlast. fold (olast S r).
              destruct (cumulative c r) eqn:Ecu.
              + destruct Hrr as [H1 H2]. unfold lv in *. rewrite Hsm. split; [flia|exact H2].
              + destruct Hrr as [H1 H2]. unfold base_given, tch_given. rewrite Nat.eqb_refl. split; [|reflexivity].
                unfold tch1, tch_after. rewrite Hl0. cbn [is_none]. rewrite <- H2. unfold lv in *. rewrite Hsm. flia. }
          { assert (Hne : r' <> r) by (intros ->; now rewrite Nat.eqb_refl in Er).
            unfold olast at 1 2. rewrite (Hbl r' Hne). fold (olast S1' r'). rewrite HOL.
            destruct (cumulative c r') eqn:Ecu.
            - destruct Hrest as [H1 H2]. split; [flia|]. rewrite orb_assoc, H2, Hs.
              unfold lat1, lat_after. destruct (last_report rep a) eqn:El; cbn [is_none negb]; [now rewrite orb_true_r|].
              rewrite orb_false_r. reflexivity.
            - destruct Hrest as [H1 H2]. unfold base_given, tch_given. rewrite Er. split; [flia|].
              rewrite H2, Hs. unfold tch1, tch_after. destruct (last_report rep a); cbn [is_none negb]; [now rewrite orb_true_r|now rewrite orb_false_r]. }
      + destruct out as [res|] eqn:Eout.
        * destruct Hbo as [Hlast Hres]. intros a Hin. destruct (Hres a Hin) as [Hrv Hrs]. rewrite HUL, HOL in Hrv, Hrs.
          destruct (HD a Hin) as (Hv & Hs & Hsame). destruct (Hm r Hr a Hin) as [_ Hrr].
          unfold exp_sum. unfold some in Hrs at 1. unfold val in Hrv at 1. unfold get_def in Hrv at 1.
          destruct (cumulative c r) eqn:Ecu.
          -- destruct Hrr as [H1 H2].
             assert (Hpres : negb (is_none (res a)) = negb (is_none (lat1 a))).
             { rewrite Hrs. rewrite <- orb_assoc, (orb_comm (some D a)), orb_assoc, (orb_comm (uany (UL S r) a)), H2, Hs.
               unfold lat1, lat_after. destruct (last_report rep a); cbn [is_none negb]; [now rewrite orb_true_r|now rewrite orb_false_r]. }
             destruct (res a) as [x|], (lat1 a) as [v|] eqn:El1; cbn [is_none negb option_map] in *; try discriminate; [|reflexivity].
             rewrite (point_of_sum k Hk). f_equal. f_equal. unfold lv in Hv at 1. rewrite El1 in Hv. flia.
          -- destruct Hrr as [H1 H2]. rewrite orb_false_r in Hrs.
             assert (Htch : negb (is_none (res a)) = tch1 r a).
             { rewrite Hrs, H2, Hs. unfold tch1, tch_after. destruct (last_report rep a); cbn [is_none negb]; [now rewrite orb_true_r|now rewrite orb_false_r]. }
             destruct (res a) as [x|]; cbn [is_none negb option_map] in *.
             ++ pose proof (Htl1 r a Hin (eq_sym Htch)) as Hne. destruct (lat1 a) as [v|] eqn:El1; [|congruence].
                rewrite <- Htch. rewrite (point_of_sum k Hk). f_equal. f_equal. unfold lv in Hv at 1. rewrite El1 in Hv. flia.
             ++ rewrite <- Htch. now destruct (lat1 a).
        * destruct Hbo as (Hlast & Hun & Hdn). unfold S1' in Hun. cbn [st_unrep] in Hun. rewrite Hu in Hun.
          intros a Hin. destruct (HD a Hin) as (Hv & Hs & Hsame). destruct (Hm r Hr a Hin) as [Hnone Hrr].
          assert (HU0 : UL S r = []) by (unfold UL; now rewrite Hun). rewrite HU0 in Hrr. cbn [usum uany] in Hrr.
          assert (Hl0 : last_report rep a = None).
          { unfold some in Hs. rewrite (Hdn a Hin) in Hs. cbn [is_none negb] in Hs. now destruct (last_report rep a). }
          unfold exp_sum. rewrite (Hsame Hl0).
          destruct (cumulative c r) eqn:Ecu.
          -- destruct Hrr as [_ H2]. unfold olast in H2. rewrite (Hnone Hun) in H2. unfold some, aempty in H2. cbn in H2.
             destruct (lat a); [discriminate|reflexivity].
          -- destruct Hrr as [_ H2]. unfold tch1, tch_after. rewrite Hl0. cbn [is_none]. rewrite <- H2. now destruct (lat a).
  Qed.
End SumInstrument.
