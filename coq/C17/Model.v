(* MODEL for C17: observable instruments and the last-value aggregation, as the code at /repo does it.
   Mirrors  sdk/src/metrics/state/observable_registry.cc (callbacks_ vector, AddCallback / RemoveCallback / CleanupCallback / Observe),
            sdk/src/metrics/async_instruments.cc (~ObservableInstrument -> CleanupCallback),
            sdk/include/.../state/async_metric_storage.h (Record: cumulative_hash_map_ / delta_hash_map_, Diff; Collect),
            sdk/include/.../state/sync_metric_storage.h + sync_metric_storage.cc (the synchronous last-value path),
            sdk/src/metrics/state/temporal_metric_storage.cc (buildMetrics: fast path, unreported_metrics_, last_reported_metrics_),
            sdk/src/metrics/aggregation/{sum,lastvalue}_aggregation.cc (Aggregate / Merge / Diff), default_aggregation.h (which aggregation),
            sdk/src/metrics/meter.cc (Collect = Observe, then every storage of the registry).
   An AttributesHashMap is modelled by its specification, a finite partial function from attribute sets to aggregations
   (attribute sets are the identifiers in [attrs]; the cardinality limit of 2000 is never reached: C08's subject).
   The clock is an oracle: the state carries the current reading [s_clk] and the amount [s_step] by which it advances before every
   callback invocation / synchronous Record (the C++ driver scripts exactly that through the clock shim; with the real clock the
   step is taken to be 1, i.e. strictly increasing).   Definitions only, no proofs. *)
From V Require Export Base.Tok.
Local Open Scope Z_scope.

(* ------------------------------------------------------------------ universe of the cases *)
Definition attrs : list Z := [0; 1; 2; 3].          (* attribute-set identifiers: 0 = no attributes, a = {k: a} *)
Definition states : list Z := [0; 1; 2; 3].         (* callback state pointers *)
Definition funs : list Z := [0; 1].                 (* callback function pointers *)

(* ------------------------------------------------------------------ aggregations *)
(* one record for both families: a sum uses [a_val] only (ts 0, valid false); a last value uses all three *)
Record agg := mk_agg { a_val : Z; a_ts : Z; a_valid : bool }.
Definition agg0 : agg := mk_agg 0 0 false.          (* a freshly created aggregation of either family *)

(* instrument kinds of the case header:
   0/3 observable counter (int64/double), 1/4 observable up-down counter, 2/5 observable gauge,
   6/7 synchronous up-down counter with a kLastValue view (the storage path of the ABI-v2 synchronous gauge) *)
Definition is_async (k : Z) : bool := k <? 6.
Definition is_last (k : Z) : bool := (k =? 2) || (k =? 5) || (6 <=? k).
Definition is_mono (k : Z) : bool := (k =? 0) || (k =? 3).

(* a new aggregation of the instrument's family with one Aggregate(v) at clock reading [clk]
   ({Long,Double}SumAggregation::Aggregate drops a negative value of a monotonic sum) *)
Definition agg_new (k clk v : Z) : agg :=
  if is_last k then mk_agg v clk true
  else mk_agg (if is_mono k && (v <? 0) then 0 else v) 0 false.
(* LastValue Aggregate on an existing aggregation overwrites it *)
Definition lv_aggregate (clk v : Z) : agg := mk_agg v clk true.

(* x.Merge(y) and x.Diff(y) *)
Definition lv_later (x y : agg) : agg := if a_ts x >? a_ts y then x else y.
Definition merge (k : Z) (x y : agg) : agg := if is_last k then lv_later x y else mk_agg (a_val y + a_val x) 0 false.
Definition diff (k : Z) (x y : agg) : agg := if is_last k then lv_later x y else mk_agg (a_val y - a_val x) 0 false.

(* ------------------------------------------------------------------ attribute tables *)
Definition amap := Z -> option agg.
Definition aempty : amap := fun _ => None.
Definition aset (m : amap) (a : Z) (x : agg) : amap := fun b => if b =? a then Some x else m b.
Definition is_none {A} (o : option A) : bool := match o with None => true | Some _ => false end.
Definition a_is_empty (m : amap) : bool := forallb (fun a => is_none (m a)) attrs.          (* Size() == 0 *)
Definition get_def (m : amap) (a : Z) : agg := match m a with Some x => x | None => agg0 end.

(* for every entry (a, y) of [m]:  acc[a] := GetOrSetDefault(acc, a).Merge(y) *)
Definition mmerge (k : Z) (acc m : amap) : amap :=
  fun a => match m a with Some y => Some (merge k (get_def acc a) y) | None => acc a end.

(* ------------------------------------------------------------------ one metric storage (async or sync) with its temporal storage *)
Record storage := mk_storage {
  st_cum : amap;                          (* AsyncMetricStorage::cumulative_hash_map_ *)
  st_delta : amap;                        (* AsyncMetricStorage::delta_hash_map_ / SyncMetricStorage::attributes_hashmap_ *)
  st_unrep : nat -> option (list amap);   (* TemporalMetricStorage::unreported_metrics_, keyed by reader; None = no entry *)
  st_last : nat -> option amap            (* TemporalMetricStorage::last_reported_metrics_ *)
}.
Definition storage0 : storage := mk_storage aempty aempty (fun _ => None) (fun _ => None).

Definition upd {A} (f : nat -> A) (i : nat) (x : A) : nat -> A := fun j => if Nat.eqb j i then x else f j.

(* AsyncMetricStorage::Record of one callback's measurements [meas] (ObserverResult::data_: one value per attribute set) *)
Definition record (k clk : Z) (meas : Z -> option Z) (st : storage) : storage :=
  mk_storage
    (fun a => match meas a with Some v => Some (agg_new k clk v) | None => st_cum st a end)
    (fun a => match meas a with
              | Some v => Some (match st_cum st a with
                                | Some prev =>
                                    (* the difference is folded into a pending entry of the same collection (fix 93457c3) *)
                                    match st_delta st a with
                                    | Some pending => merge k pending (diff k prev (agg_new k clk v))
                                    | None => diff k prev (agg_new k clk v)
                                    end
                                | None => agg_new k clk v
                                end)
              | None => st_delta st a
              end)
    (st_unrep st) (st_last st).

(* SyncMetricStorage::RecordLong/RecordDouble with a last-value aggregation *)
Definition record_sync (clk a v : Z) (st : storage) : storage :=
  mk_storage (st_cum st) (aset (st_delta st) a (lv_aggregate clk v)) (st_unrep st) (st_last st).

(* TemporalMetricStorage::buildMetrics for reader [r] of [n] readers; [cumul] = the reader's temporality is cumulative.
   Result: the storage afterwards and the points handed to the callback (None = the callback is not invoked: no MetricData) *)
Definition unrep_list (o : option (list amap)) : list amap := match o with Some l => l | None => [] end.
Definition build (k : Z) (n r : nat) (cumul : bool) (delta : amap) (st : storage) : storage * option amap :=
  if Nat.eqb n 1 && negb cumul then
    (* fast path: the delta table is reported as it is (the bookkeeping of last_reported_metrics_ there only carries time stamps) *)
    (st, if a_is_empty delta then None else Some delta)
  else
    let unrep1 := if a_is_empty delta then st_unrep st
                  else fun c => Some (unrep_list (st_unrep st c) ++ [delta]) in
    match unrep1 r with
    | None => (mk_storage (st_cum st) (st_delta st) unrep1 (st_last st), None)
    | Some l =>
        let merged := fold_left (mmerge k) l aempty in
        let result := match st_last st r with
                      | Some lastm => if cumul then mmerge k merged lastm else merged
                      | None => merged
                      end in
        (mk_storage (st_cum st) (st_delta st) (upd unrep1 r (Some [])) (upd (st_last st) r (Some result)), Some result)
    end.

(* {Async,Sync}MetricStorage::Collect: the pending table is moved out and handed to the temporal storage *)
Definition collect_storage (k : Z) (n r : nat) (cumul : bool) (st : storage) : storage * option amap :=
  build k n r cumul (st_delta st) (mk_storage (st_cum st) aempty (st_unrep st) (st_last st)).

(* ------------------------------------------------------------------ the meter *)
Record cfg := mk_cfg {
  c_scripted : bool;          (* the driver scripts the clock (T ops are honoured) *)
  c_temps : list Z;           (* one per reader: 0 delta, otherwise cumulative *)
  c_kinds : list Z            (* one per instrument *)
}.
Definition nreaders (c : cfg) : nat := length (c_temps c).
Definition ninstr (c : cfg) : nat := length (c_kinds c).
Definition kind_of (c : cfg) (i : nat) : Z := nth i (c_kinds c) 0.
Definition cumulative (c : cfg) (r : nat) : bool := negb (nth r (c_temps c) 0 =? 0).

Definition key := (nat * Z * Z)%type.      (* ObservableCallbackRecord: (instrument, callback function, state) *)
Definition key_eqb (x y : key) : bool :=
  let '(i, f, s) := x in let '(j, g, t) := y in Nat.eqb i j && (f =? g) && (s =? t).

Inductive op :=
| OAdd (i : nat) (f s : Z)        (* instrument i ->AddCallback(fn f, state s) *)
| ORem (i : nat) (f s : Z)        (* instrument i ->RemoveCallback(fn f, state s) *)
| ODestroy (i : nat)              (* the last handle of instrument i is dropped *)
| OSet (s a v : Z)                (* from now on a callback with state s observes value v for attribute set a *)
| OUnset (s a : Z)                (* ... no longer observes attribute set a *)
| ORec (i : nat) (a v : Z)        (* synchronous Record/Add(v, a) on instrument i *)
| OStep (d : Z)                   (* scripted clock: from now on it advances by d before every sample *)
| OCollect (r : nat).             (* reader r ->Collect *)

Record state := mk_state {
  s_cbs : list key;               (* ObservableRegistry::callbacks_, in registration order *)
  s_dead : nat -> bool;           (* instrument handle destroyed *)
  s_world : Z -> Z -> option Z;   (* state s, attribute set a -> the value a callback observes *)
  s_stor : nat -> storage;        (* Meter::storage_registry_ (one stream per instrument) *)
  s_clk : Z;
  s_step : Z
}.
Definition clock0 : Z := 1000000.
Definition init : state := mk_state [] (fun _ => false) (fun _ _ => None) (fun _ => storage0) clock0 1.

(* one collection's observation: the callbacks invoked, in order, and per instrument None (no MetricData) or the table reported *)
Record cobs := mk_cobs { co_inv : list key; co_tabs : list (option amap) }.

(* ObservableRegistry::Observe *)
Fixpoint observe (c : cfg) (cbs : list key) (w : Z -> Z -> option Z) (clk step : Z) (stor : nat -> storage)
  : Z * (nat -> storage) :=
  match cbs with
  | [] => (clk, stor)
  | (i, _, s) :: rest =>
      let clk' := clk + step in
      observe c rest w clk' step (upd stor i (record (kind_of c i) clk' (w s) (stor i)))
  end.

Definition usable (c : cfg) (st : state) (i : nat) (async : bool) : bool :=
  Nat.ltb i (ninstr c) && Bool.eqb (is_async (kind_of c i)) async && negb (s_dead st i).

Definition step (c : cfg) (st : state) (o : op) : state * option cobs :=
  match o with
  | OAdd i f s =>
      (if usable c st i true
       then mk_state (s_cbs st ++ [(i, f, s)]) (s_dead st) (s_world st) (s_stor st) (s_clk st) (s_step st) else st, None)
  | ORem i f s =>
      (if usable c st i true
       then mk_state (filter (fun k => negb (key_eqb k (i, f, s))) (s_cbs st)) (s_dead st) (s_world st) (s_stor st) (s_clk st) (s_step st)
       else st, None)
  | ODestroy i =>
      (mk_state (filter (fun k => negb (Nat.eqb (fst (fst k)) i)) (s_cbs st)) (upd (s_dead st) i true)
                (s_world st) (s_stor st) (s_clk st) (s_step st), None)
  | OSet s a v =>
      (mk_state (s_cbs st) (s_dead st) (fun s' a' => if (s' =? s) && (a' =? a) then Some v else s_world st s' a')
                (s_stor st) (s_clk st) (s_step st), None)
  | OUnset s a =>
      (mk_state (s_cbs st) (s_dead st) (fun s' a' => if (s' =? s) && (a' =? a) then None else s_world st s' a')
                (s_stor st) (s_clk st) (s_step st), None)
  | ORec i a v =>
      (if usable c st i false
       then let clk' := s_clk st + s_step st in
            mk_state (s_cbs st) (s_dead st) (s_world st) (upd (s_stor st) i (record_sync clk' a v (s_stor st i))) clk' (s_step st)
       else st, None)
  | OStep d =>
      (if c_scripted c then mk_state (s_cbs st) (s_dead st) (s_world st) (s_stor st) (s_clk st) d else st, None)
  | OCollect r =>
      let '(clk', stor1) := observe c (s_cbs st) (s_world st) (s_clk st) (s_step st) (s_stor st) in
      let coll := fun i => collect_storage (kind_of c i) (nreaders c) r (cumulative c r) (stor1 i) in
      (mk_state (s_cbs st) (s_dead st) (s_world st) (fun i => fst (coll i)) clk' (s_step st),
       Some (mk_cobs (s_cbs st) (map (fun i => snd (coll i)) (seq 0 (ninstr c)))))
  end.

Fixpoint run_from (c : cfg) (st : state) (ops : list op) : state * list cobs :=
  match ops with
  | [] => (st, [])
  | o :: rest =>
      let '(st1, out) := step c st o in
      let '(st2, outs) := run_from c st1 rest in
      (st2, match out with Some x => x :: outs | None => outs end)
  end.
Definition run (c : cfg) (ops : list op) : state * list cobs := run_from c init ops.

(* ------------------------------------------------------------------ the points a reader is given *)
Inductive point := PSum (v : Z) (mono : bool) | PLast (v : Z) (valid : bool).
Definition point_of (k : Z) (x : agg) : point :=
  if is_last k then PLast (a_val x) (a_valid x) else PSum (a_val x) (is_mono k).
Definition points_of {A} (f : A -> point) (m : Z -> option A) : list (Z * point) :=
  flat_map (fun a => match m a with Some x => [(a, f x)] | None => [] end) attrs.

(* what the driver prints for one collection: the invocations as (function, state) pairs (a callback does not learn which
   instrument it is invoked for), and per instrument the temporality and the points sorted by attribute identifier *)
Record cprint := mk_cprint { cp_inv : list (Z * Z); cp_instr : list (option (Z * list (Z * point))) }.
Definition print_cobs (c : cfg) (r : nat) (o : cobs) : cprint :=
  mk_cprint (map (fun k => (snd (fst k), snd k)) (co_inv o))
            (map (fun it => match snd it with
                            | None => None
                            | Some m => Some (if cumulative c r then 1 else 0, points_of (point_of (kind_of c (fst it))) m)
                            end)
                 (combine (seq 0 (length (co_tabs o))) (co_tabs o))).

Definition collects_of (ops : list op) : list nat :=
  flat_map (fun o => match o with OCollect r => [r] | _ => [] end) ops.
Definition run_print (c : cfg) (ops : list op) : list cprint :=
  map (fun ro => print_cobs c (fst ro) (snd ro)) (combine (collects_of ops) (snd (run c ops))).

(* ------------------------------------------------------------------ last-value aggregations driven directly (LV cases) *)
Inductive lvop :=
| LAgg (r : nat) (v : Z) | LMerge (r a b : nat) | LDiff (r a b : nat) | LPrint (r : nat) | LNew (r : nat) | LStep (d : Z).
Record lvstate := mk_lv { lv_regs : nat -> agg; lv_clk : Z; lv_step : Z }.
Definition lv_init : lvstate := mk_lv (fun _ => agg0) clock0 1.
Definition lv_do (scripted : bool) (st : lvstate) (o : lvop) : lvstate * option point :=
  match o with
  | LAgg r v => let clk' := lv_clk st + lv_step st in (mk_lv (upd (lv_regs st) r (lv_aggregate clk' v)) clk' (lv_step st), None)
  | LMerge r a b => (mk_lv (upd (lv_regs st) r (lv_later (lv_regs st a) (lv_regs st b))) (lv_clk st) (lv_step st), None)
  | LDiff r a b => (mk_lv (upd (lv_regs st) r (lv_later (lv_regs st a) (lv_regs st b))) (lv_clk st) (lv_step st), None)
  | LPrint r => (st, Some (PLast (a_val (lv_regs st r)) (a_valid (lv_regs st r))))
  | LNew r => (mk_lv (upd (lv_regs st) r agg0) (lv_clk st) (lv_step st), None)
  | LStep d => (if scripted then mk_lv (lv_regs st) (lv_clk st) d else st, None)
  end.
Fixpoint lv_run_from (scripted : bool) (st : lvstate) (ops : list lvop) : list point :=
  match ops with
  | [] => []
  | o :: rest => let '(st1, out) := lv_do scripted st o in
                 match out with Some p => p :: lv_run_from scripted st1 rest | None => lv_run_from scripted st1 rest end
  end.
Definition lv_run (scripted : bool) (ops : list lvop) : list point := lv_run_from scripted lv_init ops.
