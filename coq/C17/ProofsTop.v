(* C17 proofs, part 8: every case the parser accepts is a well-formed history; model_meets_spec at the level of cases. *)
From V Require Import C17.Glue C17.ProofsReg C17.ProofsBase C17.ProofsSum C17.ProofsGauge C17.ProofsMeets C17.ProofsHist C17.ProofsLv.
From Coq Require Import Lia ZifyBool ZifyNat.
Local Open Scope Z_scope.

Lemma in_range_nat : forall x n, in_range x 0 (Z.of_nat n) = true -> (znat x < n)%nat.
Proof. intros x n H. unfold in_range, znat in *. lia. Qed.
Lemma in_range_funs : forall x, in_range x 0 2 = true -> In x funs.
Proof. intros x H. unfold in_range in H. assert (x = 0 \/ x = 1) as [->| ->] by lia; cbn; tauto. Qed.
Lemma in_range_states : forall x, in_range x 0 4 = true -> In x states.
Proof. intros x H. unfold in_range in H. assert (x = 0 \/ x = 1 \/ x = 2 \/ x = 3) as [->|[->|[->| ->]]] by lia; cbn; tauto. Qed.

Lemma parse_op_ok : forall c l o, parse_op c l = Some o -> op_ok c o.
Proof.
  intros c l o H. unfold parse_op in H.
  destruct l as [|t [|[b1|x|b1] [|[b2|y|b2] [|[b3|z|b3] [|? ?]]]]]; try discriminate.
  - (* [t; x] *)
    destruct (is_tag "X" t); [destruct (in_range x 0 (Z.of_nat (ninstr c))); [injection H as <-; exact I|discriminate]|].
    destruct (is_tag "C" t).
    { destruct (in_range x 0 (Z.of_nat (nreaders c))) eqn:E; [|discriminate]. injection H as <-. cbn [op_ok]. now apply in_range_nat. }
    destruct (is_tag "T" t); [|discriminate]. destruct (in_range x (-1000) 1001); [injection H as <-; exact I|discriminate].
  - (* [t; x; y] *)
    destruct (is_tag "U" t); [|discriminate]. destruct (in_range x 0 4 && in_range y 0 4); [injection H as <-; exact I|discriminate].
  - (* [t; x; y; z] *)
    destruct (is_tag "A" t).
    { destruct (in_range x 0 (Z.of_nat (ninstr c)) && in_range y 0 2 && in_range z 0 4) eqn:E; [|discriminate].
      injection H as <-. apply andb_prop in E as [E E3]. apply andb_prop in E as [E1 E2]. cbn [op_ok].
      split; [now apply in_range_funs|now apply in_range_states]. }
    destruct (is_tag "R" t).
    { destruct (in_range x 0 (Z.of_nat (ninstr c)) && in_range y 0 2 && in_range z 0 4); [injection H as <-; exact I|discriminate]. }
    destruct (is_tag "G" t).
    { destruct (in_range x 0 (Z.of_nat (ninstr c)) && in_range y 0 4 && in_range z (- vmax) (vmax + 1)); [injection H as <-; exact I|discriminate]. }
    destruct (is_tag "S" t); [|discriminate].
    destruct (in_range x 0 4 && in_range y 0 4 && in_range z (- vmax) (vmax + 1)); [injection H as <-; exact I|discriminate].
Qed.

Lemma map_opt_forall : forall A B (f : A -> option B) (P : B -> Prop) l r,
  (forall x y, f x = Some y -> P y) -> map_opt f l = Some r -> Forall P r.
Proof.
  intros A B f P l. induction l as [|x l IH]; intros r Hf H; cbn [map_opt] in H.
  - injection H as <-. constructor.
  - destruct (f x) as [y|] eqn:Ey; [|discriminate]. destruct (map_opt f l) as [r'|] eqn:Er; [|discriminate].
    injection H as <-. constructor; [now apply (Hf x)|now apply IH].
Qed.

(* every OBS case the parser accepts is a well-formed history *)
Theorem parse_case_ok : forall l c ops, parse_case l = Some (CObs c ops) -> Forall (op_ok c) ops.
Proof.
  intros l c ops H. unfold parse_case in H. destruct (split_toks "|" l) as [|hd chunks]; [discriminate|].
  destruct hd as [|t hd']; [discriminate|]. destruct (is_tag "OBS" t).
  - destruct (parse_header (t :: hd')) as [c'|]; [|discriminate].
    destruct (map_opt (parse_op c') chunks) as [ops'|] eqn:E; [|discriminate]. cbn [option_map] in H. injection H as <- <-.
    apply (map_opt_forall _ _ (parse_op c') (op_ok c') chunks ops'); [apply parse_op_ok|exact E].
  - destruct (is_tag "LV" t); [|discriminate]. destruct hd' as [|md [|? ?]]; try discriminate.
    destruct (parse_mode md); [|discriminate]. destruct (map_opt parse_lvop chunks); discriminate.
Qed.

(* ------------------------------------------------------------------ model_meets_spec *)
Definition spec_on (cs : case) : list tok :=
  match cs with
  | CObs c ops => spec_obs c ops (run_print c ops)
  | CLv sc ops => spec_lv sc ops (lv_run sc ops)
  end.
(* what the case parser guarantees (parse_case_ok); nothing is excluded *)
Definition case_good (cs : case) : Prop :=
  match cs with
  | CObs c ops => Forall (op_ok c) ops
  | CLv _ _ => True
  end.

Lemma model_meets_spec_lemma : forall cs, case_good cs -> spec_on cs = [].
Proof.
  intros [c ops|sc ops] H; cbn [spec_on case_good] in *.
  - now apply model_meets_spec_obs.
  - apply model_meets_spec_lv.
Qed.

Lemma parsed_case_good : forall l cs, parse_case l = Some cs -> case_good cs.
Proof. intros l [c ops|sc ops] H; cbn [case_good]; [now apply (parse_case_ok l)|exact I]. Qed.
