(* C17 proofs, part 7: last-value aggregations driven directly (Aggregate / Merge / Diff), and what happens on a clock tie. *)
From V Require Import C17.Glue C17.ProofsBase.
From Coq Require Import Lia ZifyBool ZifyNat.
Local Open Scope Z_scope.

(* ------------------------------------------------------------------ ties *)
(* Merge(x, y) and Diff(x, y) of last-value aggregations both keep x only when x's sample is STRICTLY later *)
Lemma lv_later_spec : forall x y, lv_later x y = if a_ts y <? a_ts x then x else y.
Proof. intros x y. unfold lv_later. destruct (a_ts x >? a_ts y) eqn:E, (a_ts y <? a_ts x) eqn:F; try reflexivity; lia. Qed.

(* on a tie the argument wins: Diff(previous, next) = next (the new observation is kept), x.Merge(delta) = delta *)
Lemma gauge_tie_argument_wins : forall k x y, is_last k = true -> a_ts x = a_ts y -> merge k x y = y /\ diff k x y = y.
Proof.
  intros k x y Hk Ht. unfold merge, diff. rewrite Hk, lv_later_spec. rewrite Ht, Z.ltb_irrefl. now split.
Qed.

(* ... and therefore the cumulative path of the temporal storage, which computes merged.Merge(last_reported), keeps the
   value it reported before when the new sample carries the same time stamp (or an earlier one) *)
Lemma gauge_tie_cumulative_keeps_old : forall k merged lastm a x y,
  is_last k = true -> merged a = Some x -> lastm a = Some y -> a_ts x <= a_ts y -> mmerge k merged lastm a = Some y.
Proof.
  intros k merged lastm a x y Hk Hm Hl Hle. unfold mmerge, get_def, merge. rewrite Hl, Hm, Hk, lv_later_spec.
  destruct (a_ts y <? a_ts x) eqn:E; [lia|reflexivity].
Qed.

(* end to end, for every pair of values: one cumulative reader, one observable gauge, the second observation is made at the
   same clock reading as the first (or at an earlier one): the reader is given the FIRST value again *)
Definition tie_cfg : cfg := mk_cfg true [1] [2].
Definition tie_ops (d v1 v2 : Z) : list op := [OAdd 0 0 0; OSet 0 0 v1; OCollect 0; OStep d; OSet 0 0 v2; OCollect 0].
Lemma gauge_tie_stale_lemma : forall v1 v2,
  map cp_instr (run_print tie_cfg (tie_ops 0 v1 v2)) = [[Some (1, [(0, PLast v1 true)])]; [Some (1, [(0, PLast v1 true)])]] /\
  map cp_instr (run_print tie_cfg (tie_ops (-1) v1 v2)) = [[Some (1, [(0, PLast v1 true)])]; [Some (1, [(0, PLast v1 true)])]] /\
  map cp_instr (run_print tie_cfg (tie_ops 1 v1 v2)) = [[Some (1, [(0, PLast v1 true)])]; [Some (1, [(0, PLast v2 true)])]].
Proof. intros v1 v2. repeat split; vm_compute; reflexivity. Qed.

(* a delta reader (merge path, two readers) is given the new value on a tie: only its own unreported samples are merged,
   in call order, and on a tie the later argument wins *)
Definition tie_cfg2 : cfg := mk_cfg true [0; 1] [2].
Definition tie_ops2 (v1 v2 : Z) : list op := [OAdd 0 0 0; OSet 0 0 v1; OCollect 0; OCollect 1; OStep 0; OSet 0 0 v2; OCollect 0; OCollect 1].
Lemma gauge_tie_delta_lemma : forall v1 v2,
  map cp_instr (run_print tie_cfg2 (tie_ops2 v1 v2)) =
  [[Some (0, [(0, PLast v1 true)])]; [Some (1, [(0, PLast v1 true)])]; [Some (0, [(0, PLast v2 true)])]; [Some (1, [(0, PLast v1 true)])]].
Proof. intros v1 v2. vm_compute. reflexivity. Qed.

(* ------------------------------------------------------------------ LV cases: the SPEC accepts the model *)
Record LvInv (st : lvstate) (q : lvs) (tsof : nat -> Z) : Prop := {
  lvi_regs : forall r, (fst (q_regs q r) <= q_n q)%nat /\
             lv_regs st r = if Nat.eqb (fst (q_regs q r)) 0 then agg0 else mk_agg (snd (q_regs q r)) (tsof (fst (q_regs q r))) true;
  lvi_zero : forall r, fst (q_regs q r) = O -> snd (q_regs q r) = 0;
  lvi_mono : forall m n, (0 < m)%nat -> (m < n)%nat -> (n <= q_n q)%nat -> tsof m < tsof n;
  lvi_pos : forall n, (0 < n)%nat -> (n <= q_n q)%nat -> 0 < tsof n <= lv_clk st;
  lvi_clk : 0 < lv_step st /\ 0 <= lv_clk st
}.

Lemma lv_later_inv : forall st q tsof a b,
  LvInv st q tsof ->
  let x := q_regs q a in let y := q_regs q b in
  let z := if Nat.ltb (fst y) (fst x) then x else y in
  lv_later (lv_regs st a) (lv_regs st b) = if Nat.eqb (fst z) 0 then agg0 else mk_agg (snd z) (tsof (fst z)) true.
Proof.
  intros st q tsof a b Inv x y z. destruct (lvi_regs _ _ _ Inv a) as [Ha1 Ha2]. destruct (lvi_regs _ _ _ Inv b) as [Hb1 Hb2].
  fold x in Ha1, Ha2. fold y in Hb1, Hb2. rewrite Ha2, Hb2, lv_later_spec. unfold z.
  destruct (Nat.eqb (fst x) 0) eqn:Ex, (Nat.eqb (fst y) 0) eqn:Ey; cbn [a_ts agg0].
  - assert (Hlt : Nat.ltb (fst y) (fst x) = false) by lia. rewrite Hlt, Ey. reflexivity.
  - assert (Hlt : Nat.ltb (fst y) (fst x) = false) by lia. rewrite Hlt, Ey.
    pose proof (lvi_pos _ _ _ Inv (fst y) ltac:(lia) Hb1). destruct (tsof (fst y) <? 0) eqn:E; [lia|reflexivity].
  - assert (Hlt : Nat.ltb (fst y) (fst x) = true) by lia. rewrite Hlt, Ex.
    pose proof (lvi_pos _ _ _ Inv (fst x) ltac:(lia) Ha1). destruct (0 <? tsof (fst x)) eqn:E; [reflexivity|lia].
  - destruct (Nat.ltb (fst y) (fst x)) eqn:Hlt.
    + rewrite Ex. pose proof (lvi_mono _ _ _ Inv (fst y) (fst x) ltac:(lia) ltac:(lia) Ha1).
      destruct (tsof (fst y) <? tsof (fst x)) eqn:E; [reflexivity|lia].
    + rewrite Ey. destruct (Nat.eq_dec (fst x) (fst y)) as [He|Hne].
      * rewrite He, Z.ltb_irrefl. reflexivity.
      * pose proof (lvi_mono _ _ _ Inv (fst x) (fst y) ltac:(lia) ltac:(lia) Hb1).
        destruct (tsof (fst y) <? tsof (fst x)) eqn:E; [lia|reflexivity].
Qed.

Lemma lv_set_reg : forall st q tsof r (z : nat * Z) regs',
  LvInv st q tsof -> (fst z <= q_n q)%nat -> (fst z = O -> snd z = 0) ->
  regs' = upd (lv_regs st) r (if Nat.eqb (fst z) 0 then agg0 else mk_agg (snd z) (tsof (fst z)) true) ->
  LvInv (mk_lv regs' (lv_clk st) (lv_step st)) (mk_lvs (upd (q_regs q) r z) (q_n q) (q_ok q)) tsof.
Proof.
  intros st q tsof r z regs' Inv Hz1 Hz2 ->. constructor; cbn [lv_regs lv_clk lv_step q_regs q_n].
  - intros r'. unfold upd. destruct (Nat.eqb r' r); [now split|apply (lvi_regs _ _ _ Inv)].
  - intros r'. unfold upd. destruct (Nat.eqb r' r); [exact Hz2|apply (lvi_zero _ _ _ Inv)].
  - apply (lvi_mono _ _ _ Inv).
  - apply (lvi_pos _ _ _ Inv).
  - apply (lvi_clk _ _ _ Inv).
Qed.

Lemma lv_spec_from_ok : forall sc ops st q,
  (q_ok q = true -> exists tsof, LvInv st q tsof) -> spec_lv_from sc q ops (lv_run_from sc st ops) = [].
Proof.
  intros sc. induction ops as [|o ops IH]; intros st q H; [reflexivity|].
  destruct o as [r v|r a b|r a b|r|r|d]; cbn [spec_lv_from lv_run_from lv_do].
  - (* Aggregate *)
    apply IH. cbn [q_ok]. intros Hok. destruct (H Hok) as (tsof & Inv). destruct (lvi_clk _ _ _ Inv) as [Hs Hc].
    exists (fun m => if Nat.eqb m (Datatypes.S (q_n q)) then lv_clk st + lv_step st else tsof m).
    constructor; cbn [lv_regs lv_clk lv_step q_regs q_n].
    + intros r'. unfold upd. destruct (Nat.eqb r' r).
      * cbn [fst snd]. split; [lia|]. rewrite Nat.eqb_refl. reflexivity.
      * destruct (lvi_regs _ _ _ Inv r') as [H1 H2]. split; [lia|]. rewrite H2.
        destruct (Nat.eqb (fst (q_regs q r')) 0); [reflexivity|].
        assert (E : Nat.eqb (fst (q_regs q r')) (Datatypes.S (q_n q)) = false) by lia. now rewrite E.
    + intros r'. unfold upd. destruct (Nat.eqb r' r); [cbn [fst]; discriminate|apply (lvi_zero _ _ _ Inv)].
    + intros m n Hm Hmn Hn. assert (Em : Nat.eqb m (Datatypes.S (q_n q)) = false) by lia. rewrite Em.
      destruct (Nat.eqb n (Datatypes.S (q_n q))) eqn:En.
      * pose proof (lvi_pos _ _ _ Inv m Hm ltac:(lia)). lia.
      * apply (lvi_mono _ _ _ Inv); lia.
    + intros n Hn Hle. destruct (Nat.eqb n (Datatypes.S (q_n q))) eqn:En; [lia|].
      pose proof (lvi_pos _ _ _ Inv n Hn ltac:(lia)). lia.
    + lia.
  - (* Merge *)
    apply IH. cbn [q_ok]. intros Hok. destruct (H Hok) as (tsof & Inv). exists tsof.
    pose proof (lv_later_inv st q tsof a b Inv) as HL. cbn zeta in HL.
    apply (lv_set_reg st q tsof r _ _ Inv).
    + destruct (Nat.ltb (fst (q_regs q b)) (fst (q_regs q a))); apply (lvi_regs _ _ _ Inv).
    + destruct (Nat.ltb (fst (q_regs q b)) (fst (q_regs q a))); apply (lvi_zero _ _ _ Inv).
    + now rewrite HL.
  - (* Diff *)
    apply IH. cbn [q_ok]. intros Hok. destruct (H Hok) as (tsof & Inv). exists tsof.
    pose proof (lv_later_inv st q tsof a b Inv) as HL. cbn zeta in HL.
    apply (lv_set_reg st q tsof r _ _ Inv).
    + destruct (Nat.ltb (fst (q_regs q b)) (fst (q_regs q a))); apply (lvi_regs _ _ _ Inv).
    + destruct (Nat.ltb (fst (q_regs q b)) (fst (q_regs q a))); apply (lvi_zero _ _ _ Inv).
    + now rewrite HL.
  - (* Print *)
    rewrite (IH st q H). rewrite app_nil_r. destruct (q_ok q) eqn:Hok; [|reflexivity]. destruct (H eq_refl) as (tsof & Inv).
    destruct (lvi_regs _ _ _ Inv r) as [_ Hr]. rewrite Hr. unfold lvs_point.
    destruct (Nat.eqb (fst (q_regs q r)) 0) eqn:E; cbn [a_val a_valid agg0 negb point_eqb].
    + apply Nat.eqb_eq in E. rewrite (lvi_zero _ _ _ Inv r E). reflexivity.
    + now rewrite Z.eqb_refl.
  - (* New *)
    apply IH. cbn [q_ok]. intros Hok. destruct (H Hok) as (tsof & Inv). exists tsof.
    apply (lv_set_reg st q tsof r (O, 0) _ Inv); cbn [fst snd]; [lia|reflexivity|reflexivity].
  - (* Step *)
    apply IH. cbn [q_ok]. intros Hok. apply andb_prop in Hok as [Hok Hd]. destruct (H Hok) as (tsof & Inv). exists tsof.
    destruct sc; cbn [negb orb] in Hd.
    + destruct Inv as [I1 I2 I3 I4 I5]. constructor; cbn [lv_regs lv_clk lv_step q_regs q_n]; try assumption. lia.
    + destruct Inv as [I1 I2 I3 I4 I5]. constructor; cbn [lv_regs lv_clk lv_step q_regs q_n]; assumption.
Qed.

Lemma model_meets_spec_lv : forall sc ops, spec_lv sc ops (lv_run sc ops) = [].
Proof.
  intros sc ops. unfold spec_lv, lv_run. apply lv_spec_from_ok. intros _. exists (fun _ => 0).
  constructor; cbn; intros; try reflexivity; try lia.
  - split; [lia|reflexivity].
  - unfold clock0. lia.
Qed.

(* the most recently aggregated sample wins, whatever the order of the operands: with a strictly increasing clock *)
Example lv_example :
  lv_run true [LAgg 0 5; LAgg 1 6; LMerge 2 0 1; LPrint 2; LMerge 3 1 0; LPrint 3; LDiff 4 1 0; LPrint 4; LPrint 7]
  = [PLast 6 true; PLast 6 true; PLast 6 true; PLast 0 false].
Proof. vm_compute. reflexivity. Qed.
