(* C17 proofs, part 2: generic facts about the model's pieces - Observe projected on one instrument, reports, the tables. *)
From V Require Import C17.Glue.
From Coq Require Import Lia ZifyBool ZifyNat.
Local Open Scope Z_scope.

(* ------------------------------------------------------------------ small things *)
Lemma upd_same : forall A (f : nat -> A) i x, upd f i x i = x.
Proof. intros. unfold upd. now rewrite Nat.eqb_refl. Qed.
Lemma upd_other : forall A (f : nat -> A) i j x, j <> i -> upd f i x j = f j.
Proof. intros. unfold upd. destruct (Nat.eqb j i) eqn:E; [apply Nat.eqb_eq in E; contradiction|reflexivity]. Qed.

Lemma attrs_nodup : NoDup attrs.
Proof. unfold attrs. repeat constructor; cbn; intuition lia. Qed.

Lemma flat_map_nil_iff : forall A B (f : A -> list B) l, flat_map f l = [] <-> forall x, In x l -> f x = [].
Proof.
  intros A B f l. induction l as [|x l IH]; cbn [flat_map]; [split; [intros _ y []|reflexivity]|].
  split.
  - intros H. apply app_eq_nil in H as [H1 H2]. intros y [<-|Hy]; [exact H1|]. now apply IH.
  - intros H. rewrite (H x (or_introl eq_refl)). cbn [app]. apply IH. intros y Hy. apply H. now right.
Qed.

(* ------------------------------------------------------------------ Observe, projected on instrument i *)
Fixpoint obs_i (c : cfg) (i : nat) (w : Z -> Z -> option Z) (cbs : list key) (clk step : Z) (S : storage) : storage :=
  match cbs with
  | [] => S
  | (j, _, s) :: rest =>
      let clk' := clk + step in
      obs_i c i w rest clk' step (if Nat.eqb j i then record (kind_of c i) clk' (w s) S else S)
  end.

Lemma observe_proj : forall c w step cbs clk stor,
  fst (observe c cbs w clk step stor) = clk + step * Z.of_nat (length cbs) /\
  forall i, snd (observe c cbs w clk step stor) i = obs_i c i w cbs clk step (stor i).
Proof.
  intros c w step. induction cbs as [|[[j f] s] cbs IH]; intros clk stor; cbn [observe obs_i length fst snd].
  - split; [lia|reflexivity].
  - destruct (IH (clk + step) (upd stor j (record (kind_of c j) (clk + step) (w s) (stor j)))) as [H1 H2].
    split; [rewrite H1; lia|]. intros i. rewrite H2. f_equal. unfold upd.
    destruct (Nat.eqb i j) eqn:E.
    + apply Nat.eqb_eq in E. subst. now rewrite Nat.eqb_refl.
    + now rewrite Nat.eqb_sym, E.
Qed.

(* ------------------------------------------------------------------ reports *)
Definition meas_on (l : list Z) (m : Z -> option Z) : list (Z * Z) :=
  flat_map (fun a => match m a with Some v => [(a, v)] | None => [] end) l.

Lemma reports_cons : forall k cbs w i,
  reports (k :: cbs) w i = (if Nat.eqb (fst (fst k)) i then meas_list (w (snd k)) else []) ++ reports cbs w i.
Proof. reflexivity. Qed.

Lemma last_report_app : forall l1 l2 a,
  last_report (l1 ++ l2) a = match last_report l2 a with Some w => Some w | None => last_report l1 a end.
Proof.
  induction l1 as [|[b v] l1 IH]; intros l2 a; cbn [app last_report].
  - now destruct (last_report l2 a).
  - rewrite IH. destruct (last_report l2 a); [reflexivity|]. reflexivity.
Qed.

Lemma last_report_meas_on : forall l m a, NoDup l ->
  last_report (meas_on l m) a = if existsb (Z.eqb a) l then m a else None.
Proof.
  induction l as [|x l IH]; intros m a Hnd; [reflexivity|].
  inversion Hnd as [|? ? Hx Hl]; subst. unfold meas_on in *. cbn [flat_map existsb]. rewrite last_report_app, IH by assumption.
  destruct (Z.eqb a x) eqn:E.
  - apply Z.eqb_eq in E. subst x. cbn [orb].
    assert (Hn : existsb (Z.eqb a) l = false).
    { destruct (existsb (Z.eqb a) l) eqn:Ee; [|reflexivity]. apply existsb_exists in Ee as (y & Hy & Hey).
      apply Z.eqb_eq in Hey. subst y. contradiction. }
    rewrite Hn. destruct (m a); cbn [last_report]; [now rewrite Z.eqb_refl|reflexivity].
  - cbn [orb]. destruct (existsb (Z.eqb a) l).
    + destruct (m a); [reflexivity|]. destruct (m x); cbn [last_report]; [|reflexivity].
      rewrite Z.eqb_sym, E. reflexivity.
    + destruct (m x); cbn [last_report]; [|reflexivity]. rewrite Z.eqb_sym, E. reflexivity.
Qed.

Lemma in_attrs_existsb : forall a, In a attrs -> existsb (Z.eqb a) attrs = true.
Proof. intros a H. apply existsb_exists. exists a. split; [exact H|apply Z.eqb_refl]. Qed.

Lemma last_report_meas : forall m a, In a attrs -> last_report (meas_list m) a = m a.
Proof.
  intros m a H. change (meas_list m) with (meas_on attrs m).
  rewrite last_report_meas_on by apply attrs_nodup. now rewrite in_attrs_existsb.
Qed.

Lemma last_report_in : forall l a, last_report l a <> None <-> In a (map fst l).
Proof.
  induction l as [|[b v] l IH]; intros a; cbn [last_report map fst In]; [tauto|].
  destruct (last_report l a) eqn:E.
  - split; [intros _; right; apply IH; congruence|congruence].
  - destruct (Z.eqb b a) eqn:Eb.
    + apply Z.eqb_eq in Eb. subst. split; [now left|congruence].
    + split; [congruence|]. intros [H|H]; [lia|]. apply IH in H. congruence.
Qed.

Lemma has_dup_app : forall l1 l2, has_dup (l1 ++ l2) = false ->
  has_dup l1 = false /\ has_dup l2 = false /\ forall a, In a l1 -> In a l2 -> False.
Proof.
  induction l1 as [|x l1 IH]; intros l2 H; cbn [app has_dup] in *.
  - repeat split; [exact H|intros a []].
  - apply orb_false_elim in H as [H1 H2]. destruct (IH l2 H2) as (Ha & Hb & Hc).
    rewrite existsb_app in H1. apply orb_false_elim in H1 as [H11 H12].
    repeat split.
    + now rewrite H11, Ha.
    + exact Hb.
    + intros a [<-|Ha1] Ha2.
      * assert (existsb (Z.eqb x) l2 = true) by (apply existsb_exists; exists x; split; [exact Ha2|apply Z.eqb_refl]). congruence.
      * now apply (Hc a).
Qed.

(* ------------------------------------------------------------------ printing points *)
Lemma points_of_ext : forall A B (f : A -> point) (g : B -> point) (m : Z -> option A) (e : Z -> option B),
  (forall a, In a attrs -> option_map f (m a) = option_map g (e a)) -> points_of f m = points_of g e.
Proof.
  intros A B f g m e H. unfold points_of. generalize H. generalize attrs. induction l as [|a l IH]; intros Hl; [reflexivity|].
  cbn [flat_map]. rewrite IH by (intros b Hb; apply Hl; now right).
  specialize (Hl a (or_introl eq_refl)). destruct (m a), (e a); cbn [option_map] in Hl; try discriminate; [|reflexivity].
  injection Hl as ->. reflexivity.
Qed.

Lemma points_of_nil : forall A (f : A -> point) (m : Z -> option A),
  (forall a, In a attrs -> m a = None) -> points_of f m = [].
Proof.
  intros A f m H. unfold points_of. apply flat_map_nil_iff. intros a Ha. now rewrite H.
Qed.

Lemma a_is_empty_true : forall m, a_is_empty m = true <-> forall a, In a attrs -> m a = None.
Proof.
  intros m. unfold a_is_empty. rewrite forallb_forall. split; intros H a Ha; specialize (H a Ha).
  - now destruct (m a).
  - now rewrite H.
Qed.

Lemma pts_eqb_refl : forall l, pts_eqb l l = true.
Proof.
  induction l as [|[a p] l IH]; [reflexivity|]. cbn [pts_eqb]. rewrite Z.eqb_refl, IH.
  destruct p as [v m|v m]; cbn [point_eqb]; rewrite Z.eqb_refl; now destruct m.
Qed.

(* ------------------------------------------------------------------ tables of sums *)
Definition val (m : amap) (a : Z) : Z := a_val (get_def m a).
Definition some (m : amap) (a : Z) : bool := negb (is_none (m a)).
Fixpoint usum (U : list amap) (a : Z) : Z := match U with [] => 0 | m :: U' => val m a + usum U' a end.
Fixpoint uany (U : list amap) (a : Z) : bool := match U with [] => false | m :: U' => some m a || uany U' a end.

Lemma usum_app : forall U V a, usum (U ++ V) a = usum U a + usum V a.
Proof. induction U as [|m U IH]; intros V a; cbn [app usum]; [lia|]. rewrite IH. lia. Qed.
Lemma uany_app : forall U V a, uany (U ++ V) a = uany U a || uany V a.
Proof. induction U as [|m U IH]; intros V a; cbn [app uany]; [reflexivity|]. rewrite IH. now rewrite orb_assoc. Qed.

Lemma val_none : forall m a, m a = None -> val m a = 0.
Proof. intros m a H. unfold val, get_def. now rewrite H. Qed.
Lemma uany_false_usum : forall U a, uany U a = false -> usum U a = 0.
Proof.
  induction U as [|m U IH]; intros a H; cbn [uany usum] in *; [reflexivity|].
  apply orb_false_elim in H as [H1 H2]. rewrite (IH a H2). unfold some in H1.
  destruct (m a) eqn:E; [discriminate|]. rewrite val_none by assumption. lia.
Qed.

Section Sums.
  Variable k : Z.
  Hypothesis Hk : is_last k = false.

  Lemma mmerge_sum_val : forall acc m a, val (mmerge k acc m) a = val acc a + val m a.
  Proof.
    intros acc m a. unfold val, mmerge, get_def. destruct (m a) as [y|]; [|cbn [a_val agg0]; lia].
    unfold merge. rewrite Hk. cbn [a_val]. lia.
  Qed.
  Lemma mmerge_some : forall acc m a, some (mmerge k acc m) a = some acc a || some m a.
  Proof. intros acc m a. unfold some, mmerge. destruct (m a); [now rewrite orb_true_r|now rewrite orb_false_r]. Qed.

  Lemma fold_mmerge_sum : forall U acc a,
    val (fold_left (mmerge k) U acc) a = val acc a + usum U a /\
    some (fold_left (mmerge k) U acc) a = some acc a || uany U a.
  Proof.
    induction U as [|m U IH]; intros acc a; cbn [fold_left usum uany].
    - split; [lia|now rewrite orb_false_r].
    - destruct (IH (mmerge k acc m) a) as [H1 H2]. rewrite H1, H2, mmerge_sum_val, mmerge_some. split; [lia|now rewrite orb_assoc].
  Qed.

  Lemma point_of_sum : forall x, point_of k x = PSum (a_val x) (is_mono k).
  Proof. intros x. unfold point_of. now rewrite Hk. Qed.
  Lemma agg_new_sum : forall clk v, 0 <= v \/ is_mono k = false -> agg_new k clk v = mk_agg v 0 false.
  Proof.
    intros clk v H. unfold agg_new. rewrite Hk. destruct (is_mono k) eqn:Em; cbn [andb]; [|reflexivity].
    destruct H as [H|H]; [|discriminate]. destruct (v <? 0) eqn:E; [lia|reflexivity].
  Qed.
End Sums.

(* ------------------------------------------------------------------ sequences of last-value samples *)
(* the most recent entry of a sequence of optional samples *)
Fixpoint top (l : list (option agg)) : option agg :=
  match l with [] => None | o :: l' => match top l' with Some x => Some x | None => o end end.
(* time stamps strictly increase along the sequence (above lo), every entry is a valid sample *)
Fixpoint sorted_from (lo : Z) (l : list (option agg)) : Prop :=
  match l with
  | [] => True
  | None :: l' => sorted_from lo l'
  | Some x :: l' => lo < a_ts x /\ a_valid x = true /\ sorted_from (a_ts x) l'
  end.
Definition bounded (hi : Z) (l : list (option agg)) : Prop := forall x, In (Some x) l -> a_ts x <= hi.
Definition lvf_step (x : option agg) (o : option agg) : option agg :=
  match o with Some y => Some (lv_later (match x with Some z => z | None => agg0 end) y) | None => x end.

Lemma top_app : forall l1 l2, top (l1 ++ l2) = match top l2 with Some x => Some x | None => top l1 end.
Proof.
  induction l1 as [|o l1 IH]; intros l2; cbn [app top]; [now destruct (top l2)|].
  rewrite IH. now destruct (top l2).
Qed.

Lemma sorted_from_weaken : forall l lo lo', lo' <= lo -> sorted_from lo l -> sorted_from lo' l.
Proof.
  induction l as [|[x|] l IH]; intros lo lo' Hle H; cbn [sorted_from] in *; [exact I| |exact (IH lo lo' Hle H)].
  destruct H as (H1 & H2 & H3). repeat split; [lia|assumption|assumption].
Qed.

Lemma sorted_from_app : forall l1 l2 lo,
  sorted_from lo (l1 ++ l2) <->
  sorted_from lo l1 /\ sorted_from (match top l1 with Some x => a_ts x | None => lo end) l2.
Proof.
  induction l1 as [|[x|] l1 IH]; intros l2 lo; cbn [app sorted_from top].
  - tauto.
  - rewrite IH. destruct (top l1); tauto.
  - rewrite IH. destruct (top l1); tauto.
Qed.

Lemma sorted_top_bound : forall l lo x, sorted_from lo l -> top l = Some x -> lo < a_ts x /\ a_valid x = true.
Proof.
  induction l as [|[y|] l IH]; intros lo x H Ht; cbn [sorted_from top] in *; [discriminate| |].
  2:{ destruct (top l) eqn:E; [|discriminate]. exact (IH lo x H Ht). }
  destruct H as (H1 & H2 & H3). destruct (top l) as [z|] eqn:E.
  - injection Ht as <-. destruct (IH (a_ts y) z H3 eq_refl). split; [lia|assumption].
  - injection Ht as <-. now split.
Qed.

(* folding Merge over an increasing sequence yields its most recent entry *)
Lemma lv_fold_sorted : forall l acc,
  sorted_from (a_ts (match acc with Some z => z | None => agg0 end)) l ->
  fold_left lvf_step l acc = match top l with Some x => Some x | None => acc end.
Proof.
  induction l as [|[y|] l IH]; intros acc H; cbn [fold_left top sorted_from] in *; [reflexivity| |].
  2:{ cbn [lvf_step]. rewrite IH by exact H. now destruct (top l). }
  destruct H as (H1 & H2 & H3). unfold lvf_step at 2.
  assert (Hl : lv_later (match acc with Some z => z | None => agg0 end) y = y).
  { unfold lv_later. destruct (a_ts (match acc with Some z => z | None => agg0 end) >? a_ts y) eqn:E; [lia|reflexivity]. }
  rewrite Hl. rewrite IH by exact H3. now destruct (top l).
Qed.

Section Lasts.
  Variable k : Z.
  Hypothesis Hk : is_last k = true.

  Lemma mmerge_last : forall acc m a, mmerge k acc m a = lvf_step (acc a) (m a).
  Proof. intros acc m a. unfold mmerge, lvf_step, get_def, merge. rewrite Hk. reflexivity. Qed.

  Lemma fold_mmerge_last : forall U acc a,
    fold_left (mmerge k) U acc a = fold_left lvf_step (map (fun m => m a) U) (acc a).
  Proof.
    induction U as [|m U IH]; intros acc a; cbn [fold_left map]; [reflexivity|]. rewrite IH. now rewrite mmerge_last.
  Qed.

  Lemma point_of_last : forall x, point_of k x = PLast (a_val x) (a_valid x).
  Proof. intros x. unfold point_of. now rewrite Hk. Qed.
  Lemma agg_new_last : forall clk v, agg_new k clk v = mk_agg v clk true.
  Proof. intros. unfold agg_new. now rewrite Hk. Qed.
  Lemma diff_last : forall x y, diff k x y = lv_later x y.
  Proof. intros. unfold diff. now rewrite Hk. Qed.
End Lasts.
