(* C17 proofs, part 10: the registry at lock granularity (Lts.v).  Inductive invariant over ALL accepted histories
   (= all interleavings of any number of collecting and mutating threads), and the theorems that follow from it. *)
From V Require Import C17.Lts.
From Coq Require Import Lia.
Local Open Scope Z_scope.

(* ------------------------------------------------------------------ basics *)
Lemma key_eqb_true : forall x y : key, key_eqb x y = true -> x = y.
Proof.
  intros [[i f] s] [[j g] t]. unfold key_eqb. intros H. apply andb_prop in H as [H H3]. apply andb_prop in H as [H1 H2].
  apply Nat.eqb_eq in H1. apply Z.eqb_eq in H2. apply Z.eqb_eq in H3. now subst.
Qed.
Lemma key_eqb_rfl : forall x : key, key_eqb x x = true.
Proof. intros [[i f] s]. unfold key_eqb. now rewrite Nat.eqb_refl, !Z.eqb_refl. Qed.

Definition ev_tid (e : ev) : Z :=
  match e with
  | EBC t _ | EEC t _ | ECall t _ | EDone t _ | EBA t _ | ERA t _ | EBR t _ | ERR t _ | EBX t _ | ERX t _ | ELock t | EUnlock t => t
  end.

Lemma setthr_same : forall f t x, setthr f t x t = x.
Proof. intros. unfold setthr. now rewrite Z.eqb_refl. Qed.
Lemma setthr_other : forall f t x u, u <> t -> setthr f t x u = f u.
Proof. intros. unfold setthr. destruct (u =? t) eqn:E; [apply Z.eqb_eq in E; contradiction|reflexivity]. Qed.

Lemma nth_snoc_lt : forall A (l : list A) e j, (j < length l)%nat -> nth_error (l ++ [e]) j = nth_error l j.
Proof. intros. now apply nth_error_app1. Qed.
Lemma nth_snoc_eq : forall A (l : list A) e, nth_error (l ++ [e]) (length l) = Some e.
Proof. intros. rewrite nth_error_app2 by lia. now rewrite Nat.sub_diag. Qed.
Lemma nth_snoc_inv : forall A (l : list A) e j x, nth_error (l ++ [e]) j = Some x ->
  ((j < length l)%nat /\ nth_error l j = Some x) \/ (j = length l /\ x = e).
Proof.
  intros A l e j x H. destruct (Nat.lt_ge_cases j (length l)) as [Hlt|Hge].
  - left. split; [exact Hlt|]. now rewrite nth_error_app1 in H.
  - right. rewrite nth_error_app2 in H by exact Hge. destruct (j - length l)%nat as [|m] eqn:E.
    + cbn in H. injection H as <-. split; [lia|reflexivity].
    + cbn in H. destruct m; discriminate.
Qed.
Lemma nth_some_lt : forall A (l : list A) j x, nth_error l j = Some x -> (j < length l)%nat.
Proof. intros A l j x H. apply nth_error_Some. congruence. Qed.

(* ------------------------------------------------------------------ the transitions, as a relation *)
Definition upd_st (st : lstate) (t : Z) (x : tstate) : lstate := mk_l (S (l_n st)) (l_regs st) (l_owner st) (setthr (l_thr st) t x).
Definition lck_st (st : lstate) (t : Z) (regs : list entry) (x : tstate) : lstate := mk_l (S (l_n st)) regs (Some t) (setthr (l_thr st) t x).
Definition rel_st (st : lstate) (t : Z) (x : tstate) : lstate := mk_l (S (l_n st)) (l_regs st) None (setthr (l_thr st) t x).

Section Trans.
  Variable st : lstate.
  Notation n := (l_n st).
  Notation upd := (upd_st st).
  Notation lck := (lck_st st).
  Notation rel := (rel_st st).

  Inductive trans : ev -> lstate -> Prop :=
  | tr_bc t r : l_thr st t = TIdle -> trans (EBC t r) (upd t (TCol r n))
  | tr_ba t k : l_thr st t = TIdle -> trans (EBA t k) (upd t (TAdd k n))
  | tr_br t k : l_thr st t = TIdle -> trans (EBR t k) (upd t (TRem k n))
  | tr_bx t i : l_thr st t = TIdle -> trans (EBX t i) (upd t (TDes i n))
  | tr_lock_col t r b : l_owner st = None -> l_thr st t = TCol r b ->
      trans (ELock t) (lck t (l_regs st) (TPass r b (l_regs st) [] (l_regs st)))
  | tr_lock_add t k b : l_owner st = None -> l_thr st t = TAdd k b -> trans (ELock t) (lck t (l_regs st ++ [(k, b)]) (TAddL k b))
  | tr_lock_rem t k b : l_owner st = None -> l_thr st t = TRem k b ->
      trans (ELock t) (lck t (filter (fun x => negb (key_eqb (fst x) k)) (l_regs st)) (TRemL k b))
  | tr_lock_des t i b : l_owner st = None -> l_thr st t = TDes i b ->
      trans (ELock t) (lck t (filter (fun x => negb (Nat.eqb (instr_of (fst x)) i)) (l_regs st)) (TDesL i b))
  | tr_call t r b snap called k ab todo : l_thr st t = TPass r b snap called ((k, ab) :: todo) ->
      trans (ECall t k) (upd t (TInCb r b snap called k n todo))
  | tr_done t r b snap called k pc todo : l_thr st t = TInCb r b snap called k pc todo ->
      trans (EDone t k) (upd t (TPass r b snap (called ++ [k]) todo))
  | tr_unlock_col t r b snap called : l_thr st t = TPass r b snap called [] -> trans (EUnlock t) (rel t (TColU r b snap))
  | tr_unlock_add t k b : l_thr st t = TAddL k b -> trans (EUnlock t) (rel t (TAddU k b))
  | tr_unlock_rem t k b : l_thr st t = TRemL k b -> trans (EUnlock t) (rel t (TRemU k b))
  | tr_unlock_des t i b : l_thr st t = TDesL i b -> trans (EUnlock t) (rel t (TDesU i b))
  | tr_ec t r b snap : l_thr st t = TColU r b snap -> trans (EEC t r) (upd t TIdle)
  | tr_ra t k b : l_thr st t = TAddU k b -> trans (ERA t k) (upd t TIdle)
  | tr_rr t k b : l_thr st t = TRemU k b -> trans (ERR t k) (upd t TIdle)
  | tr_rx t i b : l_thr st t = TDesU i b -> trans (ERX t i) (upd t TIdle).

  Lemma accept_trans : forall e st', accept st e = Some st' -> trans e st'.
  Proof.
    intros e st' H. destruct e; cbn [accept] in H;
      try (destruct (l_owner st) eqn:Eo; [discriminate|]);
      destruct (l_thr st t) eqn:E; cbn [is_idle] in H; try discriminate;
      repeat (match type of H with context [match ?x with _ => _ end] => destruct x eqn:?; try discriminate end);
      repeat (match goal with
              | H0 : (_ =? _) = true |- _ => apply Z.eqb_eq in H0; subst
              | H0 : Nat.eqb _ _ = true |- _ => apply Nat.eqb_eq in H0; subst
              | H0 : key_eqb _ _ = true |- _ => apply key_eqb_true in H0; subst
              end);
      injection H as <-; unfold upd_st, lck_st, rel_st; econstructor; eassumption.
  Qed.
End Trans.

Lemma run_lts_app : forall l1 l2 st, run_lts st (l1 ++ l2) = match run_lts st l1 with Some s => run_lts s l2 | None => None end.
Proof.
  induction l1 as [|e l1 IH]; intros l2 st; cbn [app run_lts]; [reflexivity|]. destruct (accept st e); [apply IH|reflexivity].
Qed.
Lemma accepted_snoc : forall l e st', accepted (l ++ [e]) = Some st' -> exists st, accepted l = Some st /\ accept st e = Some st'.
Proof.
  intros l e st' H. unfold accepted in *. rewrite run_lts_app in H. destruct (run_lts linit l) as [st|]; [|discriminate].
  exists st. split; [reflexivity|]. cbn [run_lts] in H. now destruct (accept st e).
Qed.

(* ------------------------------------------------------------------ the invariant *)
Definition holds (x : tstate) : bool :=
  match x with TPass _ _ _ _ _ | TInCb _ _ _ _ _ _ _ | TAddL _ _ | TRemL _ _ | TDesL _ _ => true | _ => false end.

(* the operation a thread is in: its begin event, the position of that event, and its return event *)
Definition op_of (u : Z) (x : tstate) : option (nat * ev * ev) :=
  match x with
  | TIdle => None
  | TCol r b | TPass r b _ _ _ | TInCb r b _ _ _ _ _ | TColU r b _ => Some (b, EBC u r, EEC u r)
  | TAdd k b | TAddL k b | TAddU k b => Some (b, EBA u k, ERA u k)
  | TRem k b | TRemL k b | TRemU k b => Some (b, EBR u k, ERR u k)
  | TDes i b | TDesL i b | TDesU i b => Some (b, EBX u i, ERX u i)
  end.

Record Inv (l : list ev) (st : lstate) : Prop := {
  inv_n : l_n st = length l;
  (* the lock is held by exactly the thread that is between its lock and its unlock *)
  inv_owner : forall u, holds (l_thr st u) = true <-> l_owner st = Some u;
  (* a pass works on the list as it is: nothing has changed it since the pass took the lock; calls so far + rest = the list *)
  inv_pass : forall u r b snap called todo, l_thr st u = TPass r b snap called todo ->
             snap = l_regs st /\ map fst snap = called ++ map fst todo;
  inv_incb : forall u r b snap called k pc todo, l_thr st u = TInCb r b snap called k pc todo ->
             snap = l_regs st /\ map fst snap = called ++ k :: map fst todo /\
             nth_error l pc = Some (ECall u k) /\ (forall j, (pc < j)%nat -> nth_error l j <> Some (EDone u k));
  (* a thread inside an operation: its begin event is where the ghost says, and it has not returned since *)
  inv_op : forall u b eb er, op_of u (l_thr st u) = Some (b, eb, er) ->
           nth_error l b = Some eb /\ (forall j, (b < j)%nat -> nth_error l j <> Some er);
  (* every call that has not returned is the one its thread is inside *)
  inv_calls : forall p u k, nth_error l p = Some (ECall u k) ->
              (exists r b snap called todo, l_thr st u = TInCb r b snap called k p todo) \/
              (exists j, (p < j)%nat /\ nth_error l j = Some (EDone u k));
  (* every record of the list was put there by an AddCallback *)
  inv_entry : forall k b, In (k, b) (l_regs st) -> exists u, nth_error l b = Some (EBA u k);
  (* a record whose AddCallback had returned before a removal of its key / instrument began is still in the list only
     as long as that removal has not taken the lock *)
  inv_rem : forall k b u ar rb t', In (k, b) (l_regs st) -> nth_error l b = Some (EBA u k) -> nth_error l ar = Some (ERA u k) ->
            (b < ar)%nat -> (ar < rb)%nat ->
            (nth_error l rb = Some (EBR t' k) -> l_thr st t' = TRem k rb) /\
            (nth_error l rb = Some (EBX t' (instr_of k)) -> l_thr st t' = TDes (instr_of k) rb)
}.

Lemma Inv_init : Inv [] linit.
Proof.
  constructor; cbn [linit l_n l_regs l_owner l_thr length holds op_of].
  - reflexivity.
  - intros u. split; discriminate.
  - discriminate.
  - discriminate.
  - discriminate.
  - intros p u k H. destruct p; discriminate.
  - intros k b [].
  - intros k b u ar rb t' [].
Qed.

(* the other threads are not affected by a step of thread t *)
Lemma trans_frame : forall st e st', trans st e st' -> forall u, u <> ev_tid e -> l_thr st' u = l_thr st u.
Proof. intros st e st' H u Hu. inversion H; subst; unfold upd_st, lck_st, rel_st; cbn [l_thr ev_tid] in *; now apply setthr_other. Qed.
Lemma trans_n : forall st e st', trans st e st' -> l_n st' = S (l_n st).
Proof. intros st e st' H. inversion H; reflexivity. Qed.

Ltac thr_cases u t :=
  destruct (Z.eq_dec u t) as [->|?]; [rewrite ?setthr_same in *|rewrite ?setthr_other in * by assumption].

Lemma Inv_step : forall l st e st', Inv l st -> trans st e st' -> Inv (l ++ [e]) st'.
Proof.
  intros l st e st' I T. pose proof (inv_n _ _ I) as Hn.
  assert (Hlen : length (l ++ [e]) = S (length l)) by (rewrite app_length; cbn; lia).
  (* facts about positions of the extended history *)
  assert (Hold : forall j x, nth_error l j = Some x -> nth_error (l ++ [e]) j = Some x).
  { intros j x H. rewrite nth_snoc_lt; [exact H|]. now apply nth_some_lt in H. }
  constructor.
  - (* inv_n *) rewrite (trans_n _ _ _ T), Hn, Hlen. reflexivity.
  - (* inv_owner *)
    intros u. pose proof (inv_owner _ _ I) as Ho.
    inversion T; subst; unfold upd_st, lck_st, rel_st in *; cbn [l_thr l_owner]; thr_cases u t; cbn [holds];
      try (pose proof (Ho t) as Ht0; rewrite H in Ht0; cbn [holds] in Ht0);
      try (pose proof (Ho t) as Ht1; rewrite H0 in Ht1; cbn [holds] in Ht1);
      try (pose proof (Ho u) as Hu0); intuition (try discriminate; try congruence).
  - (* inv_pass *)
    intros u r0 b0 snap0 called0 todo0 Hu. pose proof (inv_pass _ _ I) as Hp. pose proof (inv_incb _ _ I) as Hc. pose proof (inv_owner _ _ I) as Ho.
    inversion T; subst; unfold upd_st, lck_st, rel_st in *; cbn [l_thr l_regs] in *; thr_cases u t; try discriminate; try (now apply (Hp u r0 b0 snap0 called0 todo0));
      try (injection Hu as <- <- <- <- <-).
    + (* lock by a collection: the snapshot *) split; reflexivity.
    + (* another thread took the lock for an add: nobody else holds it *)
      exfalso. assert (holds (l_thr st u) = true) by (rewrite Hu; reflexivity). apply Ho in H1. congruence.
    + exfalso. assert (holds (l_thr st u) = true) by (rewrite Hu; reflexivity). apply Ho in H1. congruence.
    + exfalso. assert (holds (l_thr st u) = true) by (rewrite Hu; reflexivity). apply Ho in H1. congruence.
    + (* done *) destruct (Hc t r b snap called k pc todo H) as (H1 & H2 & _). split; [exact H1|]. rewrite H2, <- app_assoc. reflexivity.
  - (* inv_incb *)
    intros u r0 b0 snap0 called0 k0 pc0 todo0 Hu. pose proof (inv_pass _ _ I) as Hp. pose proof (inv_incb _ _ I) as Hc. pose proof (inv_owner _ _ I) as Ho.
    assert (Hother : forall t, u <> t -> ev_tid e = t -> l_thr st u = TInCb r0 b0 snap0 called0 k0 pc0 todo0 -> l_regs st' = l_regs st ->
              snap0 = l_regs st' /\ map fst snap0 = called0 ++ k0 :: map fst todo0 /\ nth_error (l ++ [e]) pc0 = Some (ECall u k0) /\
              (forall j, (pc0 < j)%nat -> nth_error (l ++ [e]) j <> Some (EDone u k0))).
    { intros t Hne Het Hst Hr. destruct (Hc u _ _ _ _ _ _ _ Hst) as (H1 & H2 & H3 & H4). rewrite Hr. repeat split; try assumption; [now apply Hold|].
      intros j Hj Hx. apply nth_snoc_inv in Hx as [[_ Hx]|[_ Hx]]; [now apply (H4 j Hj)|]. rewrite <- Hx in Het. cbn in Het. congruence. }
    inversion T; subst; unfold upd_st, lck_st, rel_st in *; cbn [l_thr l_regs] in *; thr_cases u t; try discriminate;
      try (apply (Hother t); [assumption|reflexivity|assumption|reflexivity]).
    + exfalso. assert (holds (l_thr st u) = true) by (rewrite Hu; reflexivity). apply Ho in H1. congruence.
    + exfalso. assert (holds (l_thr st u) = true) by (rewrite Hu; reflexivity). apply Ho in H1. congruence.
    + exfalso. assert (holds (l_thr st u) = true) by (rewrite Hu; reflexivity). apply Ho in H1. congruence.
    + (* call *) injection Hu as <- <- <- <- <- <- <-. destruct (Hp t r b snap called ((k, ab) :: todo) H) as [H1 H2].
      split; [exact H1|]. split; [exact H2|]. rewrite Hn. split; [apply nth_snoc_eq|].
      intros j Hj Hx. apply nth_some_lt in Hx. rewrite Hlen in Hx. lia.
  - (* inv_op *)
    intros u b0 eb er Hu. pose proof (inv_op _ _ I) as Hop.
    assert (Hkeep : forall t, ev_tid e = t -> er <> e -> op_of u (l_thr st u) = Some (b0, eb, er) ->
              nth_error (l ++ [e]) b0 = Some eb /\ (forall j, (b0 < j)%nat -> nth_error (l ++ [e]) j <> Some er)).
    { intros t Het Hne Hst. destruct (Hop u b0 eb er Hst) as [H1 H2]. split; [now apply Hold|].
      intros j Hj Hx. apply nth_snoc_inv in Hx as [[_ Hx]|[_ Hx]]; [now apply (H2 j Hj)|]. congruence. }
    assert (Hnew : forall x, op_of u x = Some (b0, eb, er) -> b0 = length l -> eb = e ->
              nth_error (l ++ [e]) b0 = Some eb /\ (forall j, (b0 < j)%nat -> nth_error (l ++ [e]) j <> Some er)).
    { intros x _ -> ->. split; [apply nth_snoc_eq|]. intros j Hj Hx. apply nth_some_lt in Hx. rewrite Hlen in Hx. lia. }
    assert (Hfr : forall t, ev_tid e = t -> u <> t -> op_of u (l_thr st u) = Some (b0, eb, er) -> er <> e).
    { intros t Het Hne Hst Heq. subst e. destruct (l_thr st u); cbn [op_of] in Hst; try discriminate; injection Hst as <- <- <-; cbn in Het; congruence. }
    inversion T; subst; unfold upd_st, lck_st, rel_st in *; cbn [l_thr] in *; thr_cases u t;
      try (apply (Hkeep t); [reflexivity|now apply (Hfr t)|assumption]);
      try (cbn [op_of] in Hu; injection Hu as <- <- <-; rewrite Hn; split; [apply nth_snoc_eq|intros j Hj Hx; apply nth_some_lt in Hx; rewrite Hlen in Hx; lia]);
      try discriminate;
      try (apply (Hkeep t); [reflexivity|cbn [op_of] in Hu; injection Hu as <- <- <-; discriminate|rewrite H; exact Hu]);
      try (apply (Hkeep t); [reflexivity|cbn [op_of] in Hu; injection Hu as <- <- <-; discriminate|rewrite H0; exact Hu]).
  - (* inv_calls *)
    intros p u k0 Hp. pose proof (inv_calls _ _ I) as Hc.
    apply nth_snoc_inv in Hp as [[Hlt Hp]|[Hp He]].
    + destruct (Hc p u k0 Hp) as [(r0 & b0 & snap0 & called0 & todo0 & Hs)|(j & Hj & Hx)].
      * inversion T; subst; unfold upd_st, lck_st, rel_st in *; cbn [l_thr] in *; thr_cases u t; try congruence;
          try (left; now exists r0, b0, snap0, called0, todo0).
        (* done by u itself *)
        rewrite Hs in H. injection H as <- <- <- <- <- <- <-. right. exists (length l). split; [exact Hlt|]. apply nth_snoc_eq.
      * right. exists j. split; [exact Hj|now apply Hold].
    + subst e p. inversion T; subst; unfold upd_st, lck_st, rel_st in *. cbn [l_thr]. rewrite setthr_same. left. rewrite <- Hn. now exists r, b, snap, called, todo.
  - (* inv_entry *)
    intros k0 b0 Hin. pose proof (inv_entry _ _ I) as He. pose proof (inv_op _ _ I) as Hop.
    assert (Hsub : In (k0, b0) (l_regs st) -> exists u, nth_error (l ++ [e]) b0 = Some (EBA u k0)).
    { intros H. destruct (He k0 b0 H) as (u & Hu). exists u. now apply Hold. }
    inversion T; subst; unfold upd_st, lck_st, rel_st in *; cbn [l_regs] in Hin; try (now apply Hsub).
    + apply in_app_or in Hin as [Hin|[Hin|[]]]; [now apply Hsub|]. injection Hin as <- <-.
      pose proof (Hop t b (EBA t k) (ERA t k)) as Hx. rewrite H0 in Hx. destruct (Hx eq_refl) as [H1 _]. exists t. now apply Hold.
    + apply filter_In in Hin as [Hin _]. now apply Hsub.
    + apply filter_In in Hin as [Hin _]. now apply Hsub.
  - (* inv_rem *)
    intros k0 b0 u ar rb t' Hin Hb Har Hlt1 Hlt2. pose proof (inv_rem _ _ I) as Hr. pose proof (inv_op _ _ I) as Hop.
    (* rb is at most the new position; ar is an old position *)
    destruct (Nat.eq_dec ar (length l)) as [Heq|Hneq].
    { split; intros Hx; apply nth_some_lt in Hx; rewrite Hlen in Hx; lia. }
    assert (Harl : (ar < length l)%nat) by (pose proof (nth_some_lt _ _ _ _ Har) as Hx; rewrite Hlen in Hx; lia).
    assert (Har' : nth_error l ar = Some (ERA u k0)) by (rewrite nth_snoc_lt in Har; assumption).
    assert (Hb' : nth_error l b0 = Some (EBA u k0)) by (rewrite nth_snoc_lt in Hb by lia; assumption).
    (* the record is an old one: a record appended by this very step belongs to an AddCallback that has not returned *)
    assert (Hin' : In (k0, b0) (l_regs st)).
    { inversion T; subst; unfold upd_st, lck_st, rel_st in *; cbn [l_regs] in Hin; try assumption.
      - apply in_app_or in Hin as [Hin|[Hin|[]]]; [exact Hin|]. injection Hin as <- <-.
        pose proof (Hop t b (EBA t k) (ERA t k)) as Hx. rewrite H0 in Hx. destruct (Hx eq_refl) as [H1 H2].
        rewrite Hb' in H1. injection H1 as ->. exfalso. now apply (H2 ar Hlt1).
      - now apply filter_In in Hin.
      - now apply filter_In in Hin. }
    split; intros Hrb; apply nth_snoc_inv in Hrb as [[Hrl Hrb]|[Hrl Hrb]].
    + (* an older RemoveCallback: still waiting for the lock, unless it is the one that takes it now - then the record is gone *)
      destruct (Hr k0 b0 u ar rb t' Hin' Hb' Har' Hlt1 Hlt2) as [H1 _]. specialize (H1 Hrb).
      inversion T; subst; unfold upd_st, lck_st, rel_st in *; cbn [l_thr l_regs] in *; thr_cases t' t; try congruence.
      exfalso. assert (Heq2 : TRem k0 rb = TRem k b) by congruence. injection Heq2 as <- <-. apply filter_In in Hin as [_ Hf]. cbn [fst] in Hf. now rewrite key_eqb_rfl in Hf.
    + (* the RemoveCallback that begins now *)
      subst e rb. inversion T; subst; unfold upd_st, lck_st, rel_st in *. cbn [l_thr]. rewrite setthr_same. now rewrite Hn.
    + destruct (Hr k0 b0 u ar rb t' Hin' Hb' Har' Hlt1 Hlt2) as [_ H1]. specialize (H1 Hrb).
      inversion T; subst; unfold upd_st, lck_st, rel_st in *; cbn [l_thr l_regs] in *; thr_cases t' t; try congruence.
      exfalso. assert (Heq2 : TDes (instr_of k0) rb = TDes i b) by congruence. injection Heq2 as <- <-. apply filter_In in Hin as [_ Hf]. cbn [fst] in Hf. now rewrite Nat.eqb_refl in Hf.
    + subst e rb. inversion T; subst; unfold upd_st, lck_st, rel_st in *. cbn [l_thr]. rewrite setthr_same. now rewrite Hn.
Qed.

Theorem accepted_inv : forall l st, accepted l = Some st -> Inv l st.
Proof.
  induction l as [|e l IH] using rev_ind; intros st H.
  - injection H as <-. apply Inv_init.
  - apply accepted_snoc in H as (st0 & H0 & Ha). apply (Inv_step l st0 e st (IH st0 H0)). now apply accept_trans.
Qed.
