(* C19 proofs, part 8: every interleaving of concurrent Get* calls, at lock granularity (C19/Lts.v).
   1. find-or-create registries: the entry that answers a request, and that at most one entry answers it
   2. the three provider models as such registries
   3. the invariant of the acceptor over all accepted traces; linearization; accepted traces pass spec_prace *)
From V Require Import C19.Glue C19.ProofsBase C19.ProofsNames C19.ProofsViews C19.ProofsScopes C19.ProofsLoggers C19.ProofsMeters C19.ProofsMeets C19.ProofsWire.
From Coq Require Import Lia ZifyBool ZifyNat ZifyN.

(* ------------------------------------------------------------------------------------------------ 1. registries *)
Lemma find_exists : forall {A} (p : A -> bool) l x, In x l -> p x = true -> exists y, find p l = Some y.
Proof.
  intros A p l x. induction l as [|z l IH]; intros Hin Hp; [destruct Hin|]. cbn. destruct (p z) eqn:E; [eauto|].
  destruct Hin as [-> | Hin]; [congruence | auto].
Qed.

Section Reg2.
  Variables (E Q : Type) (matches : Q -> E -> bool) (mk : Q -> nat -> E) (first : E -> nat) (eqv : Q -> Q -> bool).
  Hypothesis eqv_refl : forall a, eqv a a = true.
  Hypothesis eqv_sym : forall a b, eqv a b = true -> eqv b a = true.
  Hypothesis eqv_trans : forall a b c, eqv a b = true -> eqv b c = true -> eqv a c = true.
  Hypothesis mk_first : forall q n, first (mk q n) = n.
  Hypothesis mk_matches : forall q' n q, matches q (mk q' n) = eqv q' q.
  Let T := fun _ : Q => True.

  Lemma all_T : forall l : list Q, Forall T l.
  Proof. intros l. apply Forall_forall. intros x _. exact I. Qed.

  Lemma ginv_run : forall ops, ginv E Q matches first eqv T ops (grun E Q matches mk first ops).
  Proof.
    intros ops. apply grun_inv.
    - intros a _. apply eqv_refl.
    - intros a b _ _. apply eqv_sym.
    - intros a b c _ _ _. apply eqv_trans.
    - exact mk_first.
    - intros q' n q _ _. apply mk_matches.
    - apply all_T.
  Qed.

  (* the entry numbered [first_pos q ops] exists and answers q *)
  Lemma grun_entry : forall ops q, In q ops ->
    exists e, find (fun e => Nat.eqb (first e) (first_pos eqv q ops)) (fst (fst (grun E Q matches mk first ops))) = Some e /\
              matches q e = true.
  Proof.
    intros ops q Hin. pose proof (ginv_run ops) as I. destruct (grun E Q matches mk first ops) as [[es n] out]. cbn [fst].
    destruct I as (_ & _ & Hes & Hcl). destruct (Hcl q Hin) as (e0 & He0 & Hf0).
    destruct (find_exists (fun e => Nat.eqb (first e) (first_pos eqv q ops)) es e0 He0) as [e Fe]; [now apply Nat.eqb_eq|].
    exists e. split; [exact Fe|]. apply find_some in Fe as [He Hf]. apply Nat.eqb_eq in Hf.
    destruct (Hes e He) as (q' & Hnth & _ & Hm & _). rewrite (Hm q I).
    assert (Hex : existsb (fun y => eqv y q) ops = true) by (apply existsb_exists; exists q; auto).
    destruct (first_pos_nth eqv q ops Hex) as (y & Hy & Hyq). rewrite <- Hf, Hnth in Hy. now injection Hy as <-.
  Qed.

  (* at most one entry answers a request: the registry never holds two entries for one identity *)
  Lemma grun_unique : forall ops q, (length (filter (matches q) (fst (fst (grun E Q matches mk first ops)))) <= 1)%nat.
  Proof.
    intros ops. induction ops as [|x ops IH] using rev_ind; intros q; [cbn; lia|].
    unfold grun in *. rewrite fold_left_app. cbn [fold_left].
    pose proof (ginv_run ops) as I. unfold grun in I.
    destruct (fold_left (gstep E Q matches mk first) ops ([], 0%nat, [])) as [[es n] out] eqn:F. cbn [fst] in IH.
    unfold gstep. destruct (find (matches x) es) as [e|] eqn:Fx; cbn [fst]; [apply IH|].
    rewrite filter_app, app_length. cbn [filter]. rewrite mk_matches.
    destruct (eqv x q) eqn:Exq; cbn [length]; [|specialize (IH q); lia].
    assert (Z : filter (matches q) es = []).
    { destruct (filter (matches q) es) as [|e l] eqn:Fl; [reflexivity|]. exfalso.
      assert (He : In e (filter (matches q) es)) by (rewrite Fl; now left). apply filter_In in He as [He Hm].
      destruct I as (_ & _ & Hes & _). destruct (Hes e He) as (q' & _ & _ & Hmm & _).
      rewrite (Hmm q I) in Hm. pose proof (find_none _ _ Fx e He) as X. cbn in X. rewrite (Hmm x I) in X.
      rewrite (eqv_trans q' q x Hm (eqv_sym x q Exq)) in X. discriminate. }
    rewrite Z. cbn. lia.
  Qed.
End Reg2.

(* ------------------------------------------------------------------------------------------------ 2. the providers *)
(* tracers *)
Lemma run_tr_enabled : forall r d ops t, In t (ts_tracers (run_tr r d ops)) -> t_enabled t = compute_config r d (t_scope t).
Proof.
  intros r d ops. unfold run_tr. induction ops as [|s ops IH] using rev_ind; [intros t []|].
  rewrite fold_left_app. cbn [fold_left]. set (st := fold_left (tstep r d) ops tstate0) in *. unfold tstep.
  destruct (find (fun t => scope_eqb (t_scope t) s) (ts_tracers st)); cbn [ts_tracers]; [exact IH|].
  intros t Ht. apply in_app_or in Ht as [Ht | [<- | []]]; [now apply IH | reflexivity].
Qed.

Lemma tr_entry : forall r d ss s, In s ss ->
  exists t, find (fun t => Nat.eqb (t_first t) (first_pos scope_eqb s ss)) (ts_tracers (run_tr r d ss)) = Some t /\
            t_scope t = s /\ t_enabled t = compute_config r d s.
Proof.
  intros r d ss s Hin.
  destruct (grun_entry tracer scope_id tmatches (fun s n => mk_tracer s (compute_config r d s) n) t_first scope_eqb
              scope_eqb_refl (fun a b H => eq_trans (eq_sym (scope_eqb_sym a b)) H)
              (fun a b c H1 H2 => proj2 (scope_eqb_eq a c) (eq_trans (proj1 (scope_eqb_eq a b) H1) (proj1 (scope_eqb_eq b c) H2)))
              (fun q n => eq_refl) (fun q' n q => eq_refl) ss s Hin) as (t & Ft & Hm).
  rewrite <- run_tr_grun in Ft. cbn [tproj fst] in Ft. exists t. split; [exact Ft|].
  unfold tmatches in Hm. apply scope_eqb_eq in Hm. split; [exact Hm|].
  apply find_some in Ft as [Ht _]. rewrite (run_tr_enabled r d ss t Ht). now rewrite Hm.
Qed.

Lemma tr_unique : forall r d ss s, (length (filter (fun t => scope_eqb (t_scope t) s) (ts_tracers (run_tr r d ss))) <= 1)%nat.
Proof.
  intros r d ss s.
  pose proof (grun_unique tracer scope_id tmatches (fun s n => mk_tracer s (compute_config r d s) n) t_first scope_eqb
              scope_eqb_refl (fun a b H => eq_trans (eq_sym (scope_eqb_sym a b)) H)
              (fun a b c H1 H2 => proj2 (scope_eqb_eq a c) (eq_trans (proj1 (scope_eqb_eq a b) H1) (proj1 (scope_eqb_eq b c) H2)))
              (fun q n => eq_refl) (fun q' n q => eq_refl) ss s) as U.
  rewrite <- run_tr_grun in U. exact U.
Qed.

(* loggers *)
Lemma run_lg_inv : forall r d ops, lg_inv r d (run_lg r d ops).
Proof.
  intros r d ops. unfold run_lg. induction ops as [|q ops IH] using rev_ind; [intros l []|].
  rewrite fold_left_app. cbn [fold_left]. now destruct (lstep_rec r d _ q IH) as (I' & _).
Qed.

Lemma lg_entry : forall r d ops q, In q ops ->
  exists l, find (fun l => Nat.eqb (l_first l) (first_pos lreq_eqb q ops)) (ls_loggers (run_lg r d ops)) = Some l /\
            l_scope l = q_scope q /\ l_enabled l = compute_config r d (q_scope q) /\ attrs_equiv (l_attrs l) (q_attrs q) = true.
Proof.
  intros r d ops q Hin.
  destruct (grun_entry logger lreq logger_matches (lmk r d) l_first lreq_eqb lreq_eqb_refl lreq_eqb_sym lreq_eqb_trans
              (fun q n => eq_refl) (lmk_matches r d) ops q Hin) as (l & Fl & Hm).
  rewrite <- run_lg_grun in Fl. cbn [lproj fst] in Fl. exists l. split; [exact Fl|].
  apply find_some in Fl as [Hl _]. destruct (run_lg_inv r d ops l Hl) as [He (a & Ha)].
  unfold logger_matches in Hm. apply andb_true_iff in Hm as [Hm Hq]. apply andb_true_iff in Hm as [_ Hs]. apply scope_eqb_eq in Hs.
  split; [exact Hs|]. split; [now rewrite He, Hs|].
  rewrite Ha in *. rewrite equal_to_equiv in Hq. apply attrs_equiv_iff. intros k. rewrite last_val_amap_of.
  now apply attrs_equiv_iff.
Qed.

Lemma lg_unique : forall r d ops q, (length (filter (logger_matches q) (ls_loggers (run_lg r d ops))) <= 1)%nat.
Proof.
  intros r d ops q.
  pose proof (grun_unique logger lreq logger_matches (lmk r d) l_first lreq_eqb lreq_eqb_refl lreq_eqb_sym lreq_eqb_trans
              (fun q n => eq_refl) (lmk_matches r d) ops q) as U.
  rewrite <- run_lg_grun in U. exact U.
Qed.

(* meters (GetMeter calls only) *)
Definition mgets (ss : list scope_id) : list mop := map MGet ss.
Lemma gets_of_mgets : forall ss, gets_of (mgets ss) = ss.
Proof. induction ss as [|s ss IH]; [reflexivity|]. unfold mgets in *. cbn [map gets_of]. now rewrite IH. Qed.
Lemma instrs_of_mgets : forall ss cur, instrs_of cur (mgets ss) = [].
Proof. induction ss as [|s ss IH]; intros cur; [reflexivity|]. unfold mgets in *. cbn [map instrs_of]. apply IH. Qed.

Lemma mrun_grun : forall r d ss,
  mproj (mrun r d [] [] (mgets ss)) = grun (scope_id * nat) scope_id smatches (fun s n => (s, n)) snd ss.
Proof. intros r d ss. unfold mrun. rewrite mrun_proj, gets_of_mgets. reflexivity. Qed.

Lemma filter_map_length : forall {A B} (f : A -> B) (p : B -> bool) l, length (filter p (map f l)) = length (filter (fun x => p (f x)) l).
Proof. intros A B f p l. induction l as [|x l IH]; cbn; [reflexivity|]. destruct (p (f x)); cbn; now rewrite IH. Qed.

Lemma mt_entry : forall r d ss s, In s ss ->
  exists m, find (fun m => Nat.eqb (m_first m) (first_pos scope_eqb s ss)) (ms_meters (mrun r d [] [] (mgets ss))) = Some m /\
            m_scope m = s /\ m_enabled m = compute_config r d s.
Proof.
  intros r d ss s Hin.
  destruct (grun_entry (scope_id * nat) scope_id smatches (fun s n => (s, n)) snd scope_eqb
              scope_eqb_refl (fun a b H => eq_trans (eq_sym (scope_eqb_sym a b)) H)
              (fun a b c H1 H2 => proj2 (scope_eqb_eq a c) (eq_trans (proj1 (scope_eqb_eq a b) H1) (proj1 (scope_eqb_eq b c) H2)))
              (fun q n => eq_refl) (fun q' n q => eq_refl) ss s Hin) as (e & Fe & Hm).
  rewrite <- (mrun_grun r d) in Fe. cbn [mproj fst] in Fe. rewrite find_map in Fe. cbn [snd] in Fe.
  destruct (find (fun m => Nat.eqb (m_first m) (first_pos scope_eqb s ss)) (ms_meters (mrun r d [] [] (mgets ss)))) as [m|] eqn:Fm;
    [|discriminate]. cbn in Fe. injection Fe as <-. exists m. split; [reflexivity|].
  unfold smatches in Hm. cbn in Hm. apply scope_eqb_eq in Hm. split; [exact Hm|].
  apply find_some in Fm as [Hin' _].
  assert (WF : wf_met (mgets ss) = true) by (unfold wf_met; now rewrite instrs_of_mgets).
  destruct (mrun_minv r d [] [] (mgets ss) WF) as (Hmm & _). destruct (Hmm m Hin') as [He _]. now rewrite He, Hm.
Qed.

Lemma mt_unique : forall r d ss s, (length (filter (fun m => scope_eqb (m_scope m) s) (ms_meters (mrun r d [] [] (mgets ss)))) <= 1)%nat.
Proof.
  intros r d ss s.
  pose proof (grun_unique (scope_id * nat) scope_id smatches (fun s n => (s, n)) snd scope_eqb
              scope_eqb_refl (fun a b H => eq_trans (eq_sym (scope_eqb_sym a b)) H)
              (fun a b c H1 H2 => proj2 (scope_eqb_eq a c) (eq_trans (proj1 (scope_eqb_eq a b) H1) (proj1 (scope_eqb_eq b c) H2)))
              (fun q n => eq_refl) (fun q' n q => eq_refl) ss s) as U.
  rewrite <- (mrun_grun r d) in U. cbn [mproj fst] in U. rewrite filter_map_length in U. exact U.
Qed.

(* ------------------------------------------------------------------------------------------------ 3. the acceptor *)
Definition pfold (kind : N) (r : rules) (d : bool) (qs : list lreq) : pstate := fold_left (pstep r d) qs (pinit kind).
Definition reqs_good (kind : N) (qs : list lreq) : Prop := kind = 2%N \/ Forall shaped_req qs.
Definition fp (q : lreq) (lin : list lreq) : nat := first_pos lreq_eqb q lin.

Lemma pfold_T : forall kind r d qs, (kind =? 0)%N = true -> pfold kind r d qs = PrT (run_tr r d (map q_scope qs)).
Proof.
  intros kind r d qs K. unfold pfold, pinit, run_tr. rewrite K. generalize tstate0.
  induction qs as [|q qs IH]; intros st; cbn [fold_left map]; [reflexivity | apply IH].
Qed.
Lemma pfold_M : forall kind r d qs, (kind =? 0)%N = false -> (kind =? 1)%N = true ->
  pfold kind r d qs = PrM (mrun r d [] [] (mgets (map q_scope qs))).
Proof.
  intros kind r d qs K0 K1. unfold pfold, pinit, mrun, mgets. rewrite K0, K1. generalize mstate0.
  induction qs as [|q qs IH]; intros st; cbn [fold_left map]; [reflexivity | apply IH].
Qed.
Lemma pfold_L : forall kind r d qs, (kind =? 0)%N = false -> (kind =? 1)%N = false -> pfold kind r d qs = PrL (run_lg r d qs).
Proof.
  intros kind r d qs K0 K1. unfold pfold, pinit, run_lg. rewrite K0, K1. generalize lstate0.
  induction qs as [|q qs IH]; intros st; cbn [fold_left]; [reflexivity | apply IH].
Qed.

Lemma first_pos_map : forall {A B} (P : A -> Prop) (f : A -> B) (eqb1 : A -> A -> bool) (eqb2 : B -> B -> bool) l x,
  (forall a b, P a -> P b -> eqb2 (f a) (f b) = eqb1 a b) -> Forall P l -> P x ->
  first_pos eqb2 (f x) (map f l) = first_pos eqb1 x l.
Proof.
  intros A B P f eqb1 eqb2 l x H HP Px. induction HP as [|y l Py HP IH]; [reflexivity|]. cbn.
  rewrite (H y x Py Px). now rewrite IH.
Qed.

Lemma pouts_prace : forall kind r d qs, pouts (pfold kind r d qs) = prace_indices kind r d qs.
Proof.
  intros kind r d qs. unfold prace_indices. destruct (kind =? 0)%N eqn:K0; [|destruct (kind =? 1)%N eqn:K1].
  - now rewrite pfold_T.
  - rewrite pfold_M by assumption. cbn [pouts]. unfold run_met, mgets. cbn [fst]. now rewrite map_map.
  - now rewrite pfold_L.
Qed.
Lemma pouts_spec : forall kind r d qs, reqs_good kind qs -> pouts (pfold kind r d qs) = expected_indices lreq_eqb qs.
Proof. intros. rewrite pouts_prace. now apply prace_indices_spec. Qed.

Lemma shaped_of_good : forall kind qs, reqs_good kind qs -> (kind =? 0)%N = true \/ (kind =? 1)%N = true -> Forall shaped_req qs.
Proof. intros kind qs [-> | H] K; [destruct K; discriminate | exact H]. Qed.

(* the instance that answers a request: enabled per configurator, the requested scope, the requested attributes *)
Lemma pentry_spec : forall kind r d qs q, reqs_good kind qs -> In q qs ->
  exists en sc at', pentry (pfold kind r d qs) (fp q qs) = Some (en, sc, at') /\
                    en = compute_config r d (q_scope q) /\ sc = q_scope q /\ attrs_equiv at' (q_attrs q) = true.
Proof.
  intros kind r d qs q G Hin. unfold fp. destruct (kind =? 0)%N eqn:K0; [|destruct (kind =? 1)%N eqn:K1].
  - pose proof (shaped_of_good kind qs G (or_introl K0)) as Sh.
    assert (Sq : shaped_req q) by (rewrite Forall_forall in Sh; auto).
    rewrite pfold_T by assumption. cbn [pentry].
    rewrite <- (first_pos_map shaped_req q_scope lreq_eqb scope_eqb qs q shaped_lreq_eqb Sh Sq).
    destruct (tr_entry r d (map q_scope qs) (q_scope q) (in_map q_scope qs q Hin)) as (t & Ft & Hs & He).
    rewrite Ft. cbn. exists (t_enabled t), (t_scope t), []. repeat split; auto. destruct Sq as [_ ->]. reflexivity.
  - pose proof (shaped_of_good kind qs G (or_intror K1)) as Sh.
    assert (Sq : shaped_req q) by (rewrite Forall_forall in Sh; auto).
    rewrite pfold_M by assumption. cbn [pentry].
    rewrite <- (first_pos_map shaped_req q_scope lreq_eqb scope_eqb qs q shaped_lreq_eqb Sh Sq).
    destruct (mt_entry r d (map q_scope qs) (q_scope q) (in_map q_scope qs q Hin)) as (m & Fm & Hs & He).
    rewrite Fm. cbn. exists (m_enabled m), (m_scope m), []. repeat split; auto. destruct Sq as [_ ->]. reflexivity.
  - rewrite pfold_L by assumption. cbn [pentry].
    destruct (lg_entry r d qs q Hin) as (l & Fl & Hs & He & Ha). rewrite Fl. cbn.
    exists (l_enabled l), (l_scope l), (l_attrs l). auto.
Qed.

(* the registry never holds two instances for one identity *)
Lemma pmatching_spec : forall kind r d qs q, (pmatching (pfold kind r d qs) q <= 1)%nat.
Proof.
  intros kind r d qs q. destruct (kind =? 0)%N eqn:K0; [|destruct (kind =? 1)%N eqn:K1].
  - rewrite pfold_T by assumption. apply tr_unique.
  - rewrite pfold_M by assumption. apply mt_unique.
  - rewrite pfold_L by assumption. apply lg_unique.
Qed.

(* instance numbers and identities *)
Lemma fp_app : forall q lin more, In q lin -> fp q (lin ++ more) = fp q lin.
Proof.
  intros q lin more H. unfold fp. apply first_pos_app_in. apply existsb_exists. exists q. split; [assumption | apply lreq_eqb_refl].
Qed.
Lemma fp_iff : forall q1 q2 lin, In q1 lin -> In q2 lin -> (fp q1 lin = fp q2 lin <-> lreq_eqb q1 q2 = true).
Proof.
  intros q1 q2 lin H1 H2. unfold fp. split.
  - intros E. apply (first_pos_eq_class lreq_eqb q1 q2 lin); auto.
    + apply lreq_eqb_refl.
    + apply lreq_eqb_sym.
    + apply lreq_eqb_trans.
  - intros E. apply first_pos_same_class with (P := fun _ => True); auto.
    + intros a b _ _. apply lreq_eqb_sym.
    + intros a b c _ _ _. apply lreq_eqb_trans.
    + apply Forall_forall. auto.
Qed.

(* ---------- Forall2 and update_nth *)
Lemma Forall2_nth_r : forall {A B} (R : A -> B -> Prop) l1 l2 t y,
  Forall2 R l1 l2 -> nth_error l2 t = Some y -> exists x, nth_error l1 t = Some x /\ R x y.
Proof.
  intros A B R l1 l2 t y H. revert t. induction H as [|a b l1 l2 Hab H IH]; intros [|t] Hn; cbn in *; try discriminate.
  - injection Hn as <-. eauto.
  - now apply IH.
Qed.
Lemma Forall2_update_nth : forall {A B} (R : A -> B -> Prop) l1 l2 t y',
  Forall2 R l1 l2 -> (forall x, nth_error l1 t = Some x -> R x y') -> Forall2 R l1 (update_nth t (fun _ => y') l2).
Proof.
  intros A B R l1 l2 t y' H. revert t. induction H as [|a b l1 l2 Hab H IH]; intros [|t] Hy; cbn; constructor; auto.
Qed.
Lemma Forall2_impl_r : forall {A B} (R R' : A -> B -> Prop) l1 l2, (forall x y, R x y -> R' x y) -> Forall2 R l1 l2 -> Forall2 R' l1 l2.
Proof. intros A B R R' l1 l2 H F. induction F; constructor; auto. Qed.

Section Acceptor.
  Variables (kind : N) (r : rules) (d : bool) (scripts : list (list lreq)).
  Hypothesis G : reqs_good kind (concat scripts).

  Definition cur_of (pc : tpc) : list lreq :=
    match pc with TIdle => [] | TCalled q | TLocked q _ | TUnlocked q _ => [q] end.
  (* a thread: the requests it has completed (with the instances it got), the one it is working on, the rest of its script *)
  Definition thr_ok (lin : list lreq) (script : list lreq) (th : thr) : Prop :=
    exists dn, script = dn ++ cur_of (th_pc th) ++ th_todo th /\
               th_done th = map (fun q => fp q lin) dn /\ (forall q, In q dn -> In q lin) /\
               match th_pc th with TLocked q h | TUnlocked q h => In q lin /\ h = fp q lin | _ => True end.
  Definition inv (st : pst) : Prop :=
    p_prov st = pfold kind r d (p_lin st) /\
    (forall q, In q (p_lin st) -> In q (concat scripts)) /\
    Forall2 (thr_ok (p_lin st)) scripts (p_thr st).

  Lemma lin_good : forall lin, (forall q, In q lin -> In q (concat scripts)) -> reqs_good kind lin.
  Proof.
    intros lin H. destruct G as [K | Sh]; [now left | right]. apply Forall_forall. intros q Hq.
    rewrite Forall_forall in Sh. apply Sh. now apply H.
  Qed.

  Lemma thr_ok_mono : forall lin q script th, thr_ok lin script th -> thr_ok (lin ++ [q]) script th.
  Proof.
    intros lin q script th (dn & Hs & Hd & Hin & Hpc). exists dn. split; [exact Hs|]. split; [|split].
    - rewrite Hd. apply map_ext_in. intros x Hx. symmetry. apply fp_app. now apply Hin.
    - intros x Hx. apply in_or_app. left. now apply Hin.
    - destruct (th_pc th); auto; destruct Hpc as [H1 H2]; (split; [apply in_or_app; now left | rewrite fp_app; assumption]).
  Qed.

  Lemma inv0 : inv (pst0 kind scripts).
  Proof.
    unfold inv, pst0. cbn. split; [reflexivity|]. split; [intros q []|].
    assert (H : forall ss, Forall2 (thr_ok []) ss (map (fun s => mk_thr s TIdle []) ss)).
    { induction ss as [|s ss IH]; cbn [map]; constructor; [|exact IH]. exists []. cbn. auto. }
    apply H.
  Qed.

  Lemma script_in_concat : forall t script q, nth_error scripts t = Some script -> In q script -> In q (concat scripts).
  Proof. intros t script q H Hq. apply in_concat. exists script. split; [eapply nth_error_In; eassumption | assumption]. Qed.

  Lemma accept_inv : forall st te st', inv st -> accept r d st te = Some st' -> inv st'.
  Proof.
    intros st [t e] st' (Hp & Hl & Hth) A. unfold accept in A.
    destruct (nth_error (p_thr st) t) as [th|] eqn:Ht; [|discriminate].
    destruct (Forall2_nth_r _ _ _ _ _ Hth Ht) as (script & Hsc & Hok0). pose proof Hok0 as Hok1.
    destruct Hok1 as (dn & Hs & Hd & Hin & Hpc).
    destruct e as [| | |c]; destruct (th_pc th) as [|q|q h|q h] eqn:Epc; try discriminate.
    - (* PCall *)
      destruct (th_todo th) as [|q todo] eqn:Etd; [discriminate|]. injection A as <-. unfold inv. cbn [p_prov p_lin p_thr].
      split; [exact Hp|]. split; [exact Hl|]. unfold set_thr. apply Forall2_update_nth; [exact Hth|].
      intros x Hx. rewrite Hsc in Hx. injection Hx as <-. exists dn. cbn [th_pc th_todo th_done cur_of]. rewrite Hs. cbn. auto.
    - (* PLock *)
      assert (A' : match p_lock st with
                   | Some _ => None
                   | None => Some (mk_pst (pstep r d (p_prov st) q) (Some t)
                                          (set_thr t (mk_thr (th_todo th) (TLocked q (last (pouts (pstep r d (p_prov st) q)) 0%nat)) (th_done th)) st)
                                          (p_lin st ++ [q]) (p_seen st))
                   end = Some st') by (destruct (th_todo th); exact A).
      clear A. destruct (p_lock st); [discriminate|]. injection A' as <-. unfold inv. cbn [p_prov p_lin p_thr].
      assert (Hq : In q (concat scripts)).
      { apply (script_in_concat t script q Hsc). rewrite Hs. cbn [cur_of]. apply in_or_app. right. now left. }
      assert (Hl' : forall x, In x (p_lin st ++ [q]) -> In x (concat scripts)).
      { intros x Hx. apply in_app_or in Hx as [Hx | [<- | []]]; auto. }
      assert (Hp' : pstep r d (p_prov st) q = pfold kind r d (p_lin st ++ [q])).
      { rewrite Hp. unfold pfold. now rewrite fold_left_app. }
      split; [exact Hp'|]. split; [exact Hl'|]. unfold set_thr. apply Forall2_update_nth.
      + eapply Forall2_impl_r; [|exact Hth]. intros x y. apply thr_ok_mono.
      + intros x Hx. rewrite Hsc in Hx. injection Hx as <-.
        destruct (thr_ok_mono (p_lin st) q script th Hok0) as (dn' & Hs' & Hd' & Hin' & _).
        exists dn'. cbn [th_pc th_todo th_done cur_of]. rewrite Epc in Hs'. cbn [cur_of] in Hs'. split; [exact Hs'|]. split; [exact Hd'|].
        split; [exact Hin'|]. split; [apply in_or_app; right; now left|].
        rewrite Hp', (pouts_spec kind r d _ (lin_good _ Hl')). unfold expected_indices. rewrite map_app. cbn [map].
        now rewrite last_last.
    - (* PUnlock *)
      assert (A' : match p_lock st with
                   | Some t' => if Nat.eqb t' t
                                then Some (mk_pst (p_prov st) None (set_thr t (mk_thr (th_todo th) (TUnlocked q h) (th_done th)) st) (p_lin st) (p_seen st))
                                else None
                   | None => None
                   end = Some st') by (destruct (th_todo th); exact A).
      clear A. destruct (p_lock st) as [t'|]; [|discriminate]. destruct (Nat.eqb t' t); [|discriminate]. injection A' as <-.
      unfold inv. cbn [p_prov p_lin p_thr]. split; [exact Hp|]. split; [exact Hl|]. unfold set_thr. apply Forall2_update_nth; [exact Hth|].
      intros x Hx. rewrite Hsc in Hx. injection Hx as <-. exists dn. cbn [th_pc th_todo th_done cur_of]. auto.
    - (* PRet *)
      assert (Hok : thr_ok (p_lin st) script (mk_thr (th_todo th) TIdle (th_done th ++ [h]))).
      { destruct Hpc as [Hq Hh]. exists (dn ++ [q]). cbn [th_pc th_todo th_done cur_of]. split; [|split; [|split]].
        - rewrite Hs. cbn [cur_of app]. now rewrite <- app_assoc.
        - rewrite map_app, Hd, Hh. reflexivity.
        - intros x Hx. apply in_app_or in Hx as [Hx | [<- | []]]; auto.
        - exact I. }
      assert (A' : match find_idx (Nat.eqb h) (p_seen st) with
                   | Some k => if Nat.eqb k c
                               then Some (mk_pst (p_prov st) (p_lock st) (set_thr t (mk_thr (th_todo th) TIdle (th_done th ++ [h])) st) (p_lin st) (p_seen st))
                               else None
                   | None => if Nat.eqb (length (p_seen st)) c
                             then Some (mk_pst (p_prov st) (p_lock st) (set_thr t (mk_thr (th_todo th) TIdle (th_done th ++ [h])) st) (p_lin st) (p_seen st ++ [h]))
                             else None
                   end = Some st') by (destruct (th_todo th); exact A).
      clear A. destruct (find_idx (Nat.eqb h) (p_seen st)) as [k|].
      + destruct (Nat.eqb k c); [|discriminate]. injection A' as <-. unfold inv. cbn [p_prov p_lin p_thr].
        split; [exact Hp|]. split; [exact Hl|]. unfold set_thr. apply Forall2_update_nth; [exact Hth|].
        intros x Hx. rewrite Hsc in Hx. now injection Hx as <-.
      + destruct (Nat.eqb (length (p_seen st)) c); [|discriminate]. injection A' as <-. unfold inv. cbn [p_prov p_lin p_thr].
        split; [exact Hp|]. split; [exact Hl|]. unfold set_thr. apply Forall2_update_nth; [exact Hth|].
        intros x Hx. rewrite Hsc in Hx. now injection Hx as <-.
  Qed.

  Lemma accept_all_inv : forall tr st n st', inv st -> accept_all r d st tr n = inl st' -> inv st'.
  Proof.
    induction tr as [|te tr IH]; intros st n st' I A; cbn in A; [now injection A as <-|].
    destruct (accept r d st te) as [st1|] eqn:E; [|discriminate]. eapply IH; [|exact A]. eapply accept_inv; eassumption.
  Qed.

  (* every state the acceptor reaches on any trace - i.e. under any interleaving *)
  Definition reachable (st : pst) : Prop := exists tr, accept_all r d (pst0 kind scripts) tr 0 = inl st.
  Lemma reachable_inv : forall st, reachable st -> inv st.
  Proof. intros st [tr A]. eapply accept_all_inv; [apply inv0 | exact A]. Qed.
End Acceptor.

(* ---------- what holds in every reachable state, i.e. under every interleaving of any number of threads *)
(* linearization: the registry is the sequential registry applied to the requests in lock-acquisition order *)
Theorem lts_linearization : forall kind r d scripts st, reqs_good kind (concat scripts) -> reachable kind r d scripts st ->
  p_prov st = pfold kind r d (p_lin st) /\ (forall q, In q (p_lin st) -> In q (concat scripts)).
Proof. intros kind r d scripts st G R. destruct (reachable_inv kind r d scripts G st R) as (H1 & H2 & _). auto. Qed.

(* the registry never holds two instances that answer the same request *)
Theorem lts_registry_unique : forall kind r d scripts st q, reqs_good kind (concat scripts) -> reachable kind r d scripts st ->
  (pmatching (p_prov st) q <= 1)%nat.
Proof. intros kind r d scripts st q G R. destruct (lts_linearization kind r d scripts st G R) as [-> _]. apply pmatching_spec. Qed.

(* when all threads have finished: every call was answered with the instance numbered by the first request (in lock order) of
   its identity - two calls got the same instance iff their identities are equal, whoever made them and in whatever order *)
Lemma finished_threads : forall lin ss ths, Forall2 (thr_ok lin) ss ths -> forallb thr_finished ths = true ->
  Forall2 (fun script th => th_done th = map (fun q => fp q lin) script /\ forall q, In q script -> In q lin) ss ths.
Proof.
  intros lin ss ths Hth. induction Hth as [|script th ss ths Hok Hth IH]; intros C; [constructor|].
  cbn [forallb] in C. apply andb_true_iff in C as [C1 C2]. constructor; [|now apply IH].
  destruct Hok as (dn & Hs & Hd & Hin & _).
  unfold thr_finished in C1. apply andb_true_iff in C1 as [T1 T2]. apply is_nil_true in T1.
  destruct (th_pc th); try discriminate. rewrite T1 in Hs. cbn [cur_of app] in Hs. rewrite app_nil_r in Hs. subst dn. auto.
Qed.

Theorem lts_handles : forall kind r d scripts st, reqs_good kind (concat scripts) -> reachable kind r d scripts st -> complete st = true ->
  Forall2 (fun script th => th_done th = map (fun q => fp q (p_lin st)) script /\ forall q, In q script -> In q (p_lin st))
          scripts (p_thr st).
Proof.
  intros kind r d scripts st G R C. destruct (reachable_inv kind r d scripts G st R) as (_ & _ & Hth).
  unfold complete in C. destruct (p_lock st); [discriminate|]. now apply finished_threads.
Qed.

Lemma done_concat : forall (f : lreq -> nat) (Pq : list lreq -> Prop) scripts ths,
  Forall2 (fun script th => th_done th = map f script /\ Pq script) scripts ths ->
  concat (map th_done ths) = map f (concat scripts).
Proof. intros f Pq scripts ths H. induction H as [|s th ss ths [H1 _] H IH]; [reflexivity|]. cbn. now rewrite map_app, H1, IH. Qed.

(* ---------- the observation the final state implies, against spec_prace *)
Lemma all_some_map_ex : forall {A B} (f : A -> option B) l, (forall x, In x l -> exists y, f x = Some y) ->
  exists ys, all_some (map f l) = Some ys /\ length ys = length l /\
             forall i x, nth_error l i = Some x -> exists y, nth_error ys i = Some y /\ f x = Some y.
Proof.
  intros A B f l. induction l as [|a l IH]; intros H.
  - exists []. cbn. repeat split; auto. intros [|i] x; discriminate.
  - destruct (H a (or_introl eq_refl)) as [y Hy]. destruct IH as (ys & E & L & N); [intros x Hx; apply H; now right|].
    exists (y :: ys). cbn [map all_some]. rewrite Hy, E. cbn. repeat split; [now rewrite L|].
    intros [|i] x Hx; cbn in *; [injection Hx as <-; eauto | now apply N].
Qed.

Section Summary.
  Variables (kind : N) (r : rules) (d : bool) (lin : list lreq).
  Hypothesis G : reqs_good kind lin.

  Definition hob_ok (c : nat) (q : lreq) (h : hobs) : Prop :=
    h_class h = c /\ h_scope h = q_scope q /\ attrs_equiv (h_attrs h) (q_attrs q) = true /\
    h_enabled h = compute_config r d (q_scope q).

  Lemma summary_gen : forall reqs cl, length cl = length reqs -> (forall q, In q reqs -> In q lin) ->
    exists hs, summary_hs (pfold kind r d lin) (combine cl (map (fun q => fp q lin) reqs)) = Some hs /\
               Forall2 (fun cq h => hob_ok (fst cq) (snd cq) h) (combine cl reqs) hs.
  Proof.
    induction reqs as [|q reqs IH]; intros [|c cl] L Hin; cbn in L; try discriminate.
    - exists []. split; [reflexivity | constructor].
    - destruct (IH cl) as (hs & E & F); [lia | intros x Hx; apply Hin; now right|].
      destruct (pentry_spec kind r d lin q G (Hin q (or_introl eq_refl))) as (en & sc & at' & Pe & -> & -> & Ha).
      exists (mk_hobs c (compute_config r d (q_scope q)) (q_scope q) at' :: hs). split.
      + unfold summary_hs in *. cbn [map combine all_some fst snd]. rewrite Pe. cbn [option_map fst snd]. now rewrite E.
      + constructor; [|exact F]. cbn. repeat split; auto.
  Qed.

  Lemma hob_props : forall reqs cl hs, length cl = length reqs ->
    Forall2 (fun cq h => hob_ok (fst cq) (snd cq) h) (combine cl reqs) hs ->
    map h_class hs = cl /\ prace_scopes_ok reqs hs = true /\
    map h_enabled hs = map (fun q => compute_config r d (q_scope q)) reqs.
  Proof.
    induction reqs as [|q reqs IH]; intros [|c cl] hs L F; cbn in L; try discriminate; cbn [combine] in F.
    - inversion F; subst. cbn. auto.
    - inversion F as [|cq h l1 hs' Hh F']; subst. destruct (IH cl hs') as (H1 & H2 & H3); [lia | exact F'|].
      destruct Hh as (Hc & Hs & Ha & He). cbn [fst snd] in *. split; [cbn; now rewrite Hc, H1|]. split.
      + unfold prace_scopes_ok in *. apply andb_true_iff in H2 as [H2 H2']. cbn [length combine forallb fst snd].
        apply Nat.eqb_eq in H2. rewrite H2, Nat.eqb_refl, Hs, scope_eqb_refl, Ha, H2'. reflexivity.
      + cbn. now rewrite He, H3.
  Qed.
End Summary.

Lemma Forall2_len : forall {A B} (R : A -> B -> Prop) l1 l2, Forall2 R l1 l2 -> length l1 = length l2.
Proof. intros A B R l1 l2 H. induction H; cbn; auto. Qed.

Lemma nat_classes : forall lin reqs, (forall q, In q reqs -> In q lin) ->
  expected_indices Nat.eqb (map (fun q => fp q lin) reqs) = expected_indices lreq_eqb reqs.
Proof.
  intros lin reqs H. apply (expected_indices_map (fun q => In q lin)); [|now apply Forall_forall].
  intros x y Hx Hy. destruct (lreq_eqb x y) eqn:E.
  - apply Nat.eqb_eq. now apply fp_iff.
  - apply Nat.eqb_neq. intros X. apply fp_iff in X; auto. congruence.
Qed.

Lemma prace_scripts_concat : forall threads, concat (prace_scripts threads) = concat threads ++ concat threads.
Proof. intros threads. unfold prace_scripts. rewrite concat_app. cbn. now rewrite app_nil_r. Qed.

Lemma prace_good_reqs : forall kind threads, prace_good kind threads -> reqs_good kind (concat (prace_scripts threads)).
Proof.
  intros kind threads [K | F]; [now left | right]. rewrite prace_scripts_concat.
  assert (C : Forall shaped_req (concat threads)).
  { induction F as [|t ts Ht F IH]; cbn; [constructor | apply Forall_app; auto]. }
  apply Forall_app. auto.
Qed.

(* EVERY accepted trace - any interleaving of the threads of the case and of the single-threaded repetition - ends in a state
   whose observation passes the SPEC of the concurrent cases *)
Theorem accepted_trace_meets_spec_prace_lemma : forall kind r d threads tr st,
  prace_good kind threads ->
  accept_all r d (pst0 kind (prace_scripts threads)) tr 0 = inl st -> complete st = true ->
  exists hs, psummary st = Some hs /\ spec_prace r d threads hs = [].
Proof.
  intros kind r d threads tr st PG A C.
  pose proof (prace_good_reqs kind threads PG) as G.
  assert (R : reachable kind r d (prace_scripts threads) st) by (now exists tr).
  destruct (lts_linearization _ _ _ _ _ G R) as [Hp Hl].
  pose proof (lts_handles _ _ _ _ _ G R C) as Hh.
  assert (Hin : forall q, In q (concat (prace_scripts threads)) -> In q (p_lin st)).
  { intros q Hq. apply in_concat in Hq as (s & Hs & Hq). apply In_nth_error in Hs as [i Hi].
    assert (L : (i < length (p_thr st))%nat) by (rewrite <- (Forall2_len _ _ _ Hh); apply nth_error_Some; congruence).
    destruct (nth_error (p_thr st) i) as [th|] eqn:Eth; [|apply nth_error_None in Eth; lia].
    destruct (Forall2_nth_r _ _ _ _ _ Hh Eth) as (s' & Hs' & _ & Hq'). rewrite Hi in Hs'. injection Hs' as <-. now apply Hq'. }
  unfold psummary. rewrite (done_concat (fun q => fp q (p_lin st)) (fun s => forall q, In q s -> In q (p_lin st)) _ _ Hh).
  set (reqs := concat (prace_scripts threads)) in *.
  assert (GL : reqs_good kind (p_lin st)).
  { destruct G as [K | Sh]; [now left | right]. apply Forall_forall. intros q Hq. rewrite Forall_forall in Sh. apply Sh. now apply Hl. }
  unfold summary_of. rewrite (nat_classes (p_lin st) reqs Hin), Hp.
  assert (L : length (expected_indices lreq_eqb reqs) = length reqs) by (unfold expected_indices; apply map_length).
  destruct (summary_gen kind r d (p_lin st) GL reqs _ L Hin) as (hs & E & F).
  exists hs. split; [exact E|].
  destruct (hob_props r d reqs _ hs L F) as (H1 & H2 & H3).
  unfold reqs in H1, H2, H3. rewrite prace_scripts_concat in H1, H2, H3.
  unfold spec_prace. rewrite H1, H2, H3. rewrite (proj2 (nats_eqb_eq _ _) eq_refl). cbn [check app].
  rewrite (map_ext (fun q => compute_config r d (q_scope q)) (fun q => spec_config r d (q_scope q))) by (intros; apply compute_config_spec).
  now rewrite bools_eqb_refl.
Qed.

(* the same through the extracted entry point: when the acceptor takes the whole trace and all threads have finished, what
   run_model prints for "<case> || <trace>" parses back to an observation that spec_prace accepts *)
Theorem accepted_trace_wire_lemma : forall kind r d threads tr evs st,
  prace_good kind threads -> parse_ptrace tr = Some evs ->
  accept_all r d (pst0 kind (prace_scripts threads)) evs 0 = inl st -> complete st = true ->
  exists hs, run_prace_trace kind r d threads tr = flat_map print_hobs hs /\
             parse_prace_obs (flat_map print_hobs hs) = Some hs /\ spec_prace r d threads hs = [].
Proof.
  intros kind r d threads tr evs st PG P A C.
  destruct (accepted_trace_meets_spec_prace_lemma kind r d threads evs st PG A C) as (hs & S & Sp).
  exists hs. unfold run_prace_trace. rewrite P, A, C, S. split; [reflexivity|]. split; [apply ProofsWire.parse_print_prace | exact Sp].
Qed.

(* ---------- non-vacuity *)
Definition ex_q : lreq := lreq_of_scope (mk_scope (bs "l") (bs "1") []).
(* two threads ask for the same new tracer; thread 1 calls while thread 0 holds the lock and gets the entry thread 0 made;
   thread 2 is the single-threaded repetition *)
Definition ex_trace : list (nat * pev) :=
  [(0, PCall); (0, PLock); (1, PCall); (0, PUnlock); (1, PLock); (0, PRet 0); (1, PUnlock); (1, PRet 0);
   (2, PCall); (2, PLock); (2, PUnlock); (2, PRet 0); (2, PCall); (2, PLock); (2, PUnlock); (2, PRet 0)]%nat.
Example accepted_interleaving :
  exists st, accept_all [] true (pst0 0 (prace_scripts [[ex_q]; [ex_q]])) ex_trace 0 = inl st /\ complete st = true /\
             option_map (map h_class) (psummary st) = Some [0; 0; 0; 0]%nat /\ pmatching (p_prov st) ex_q = 1%nat.
Proof. eexists. split; [vm_compute; reflexivity|]. vm_compute. auto. Qed.
(* thread 1 cannot take the lock while thread 0 holds it *)
Example lock_is_exclusive :
  accept_all [] true (pst0 0 (prace_scripts [[ex_q]; [ex_q]])) [(0, PCall); (1, PCall); (0, PLock); (1, PLock)]%nat 0 = inr 3%nat.
Proof. vm_compute. reflexivity. Qed.
(* a trace in which the two threads come back with two different instances for the one identity is not accepted *)
Example two_instances_rejected :
  accept_all [] true (pst0 0 (prace_scripts [[ex_q]; [ex_q]]))
             [(0, PCall); (1, PCall); (0, PLock); (0, PUnlock); (1, PLock); (1, PUnlock); (0, PRet 0); (1, PRet 1)]%nat 0 = inr 7%nat.
Proof. vm_compute. reflexivity. Qed.
(* nor is one in which a call takes the lock twice (lookup and push_back in two critical sections, as in seeded C19_d) *)
Example two_critical_sections_rejected :
  accept_all [] true (pst0 0 (prace_scripts [[ex_q]; [ex_q]]))
             [(0, PCall); (0, PLock); (0, PUnlock); (1, PCall); (1, PLock); (1, PUnlock); (0, PLock)]%nat 0 = inr 6%nat.
Proof. vm_compute. reflexivity. Qed.
