(* C19 proofs, part 1: the validators.  The regex literals come from Gen/Consts.v (regenerated from /repo on every
   run), so these statements are re-checked against what instrument_metadata_validator.cc says now. *)
From V Require Import C19.Spec C19.ProofsBase.
From Coq Require Import Lia ZifyBool ZifyNat ZifyN.

(* ---------- the anchored matcher on "class{lo,hi}" shapes *)
Lemma rx_opt_end : forall cls n s,
  rx_opt (rx_match []) cls n s = Nat.leb (length s) n && forallb (in_ranges cls) s.
Proof.
  intros cls. induction n as [|n IH]; intros [|b s]; cbn [rx_opt rx_match length Nat.leb forallb orb andb]; try reflexivity.
  rewrite IH. destruct (in_ranges cls b), (Nat.leb (length s) n); reflexivity.
Qed.

Lemma rx_match_first_then_rest : forall cls1 cls2 n s,
  rx_match [mk_item cls1 1 1; mk_item cls2 0 n] s =
  match s with
  | [] => false
  | c :: t => in_ranges cls1 c && (Nat.leb (length t) n && forallb (in_ranges cls2) t)
  end.
Proof.
  intros cls1 cls2 n [|c t]; cbn [rx_match rx_req it_cls it_lo it_hi Nat.sub]; [reflexivity|].
  f_equal. rewrite Nat.sub_0_r.
  assert (E : forall u, rx_opt (rx_req (rx_match []) cls2 0 n) cls1 0 u = rx_req (rx_match []) cls2 0 n u).
  { intros [|x u]; cbn [rx_opt]; now rewrite orb_false_r. }
  rewrite E. cbn [rx_req]. apply rx_opt_end.
Qed.

Lemma rx_match_single : forall cls n s,
  rx_match [mk_item cls 0 n] s = Nat.leb (length s) n && forallb (in_ranges cls) s.
Proof.
  intros cls n s. cbn [rx_match rx_req it_cls it_lo it_hi]. rewrite Nat.sub_0_r. apply rx_opt_end.
Qed.

(* ---------- the character classes of the two literals, for all 256 bytes *)
Lemma name_first_class : forall b, in_ranges (it_cls (nth 0 kInstrumentNamePattern (mk_item [] 0 0))) b = is_letter b.
Proof. intros b; destruct b; vm_compute; reflexivity. Qed.
Lemma name_rest_class : forall b, in_ranges (it_cls (nth 1 kInstrumentNamePattern (mk_item [] 0 0))) b = is_name_char b.
Proof. intros b; destruct b; vm_compute; reflexivity. Qed.
Lemma unit_class : forall b, in_ranges (it_cls (nth 0 kInstrumentUnitPattern (mk_item [] 0 0))) b = is_ascii_char b.
Proof. intros b; destruct b; vm_compute; reflexivity. Qed.

Lemma forallb_ext' : forall {A} (f g : A -> bool) l, (forall x, f x = g x) -> forallb f l = forallb g l.
Proof. intros A f g l H. induction l as [|x l IH]; cbn; [reflexivity|]. now rewrite H, IH. Qed.

(* ---------- ValidateName / ValidateUnit decide exactly the stated sets, for every byte string *)
Lemma validate_name_spec : forall s, validate_name s = spec_name_valid s.
Proof.
  intros s. unfold validate_name.
  change kInstrumentNamePattern with
    [mk_item (it_cls (nth 0 kInstrumentNamePattern (mk_item [] 0 0))) 1 1;
     mk_item (it_cls (nth 1 kInstrumentNamePattern (mk_item [] 0 0))) 0 254].
  rewrite rx_match_first_then_rest. destruct s as [|c t]; [reflexivity|].
  cbn [spec_name_valid]. rewrite name_first_class, (forallb_ext' _ _ t name_rest_class).
  now rewrite andb_assoc.
Qed.

Lemma validate_unit_spec : forall s, validate_unit s = spec_unit_valid s.
Proof.
  intros s. unfold validate_unit.
  change kInstrumentUnitPattern with [mk_item (it_cls (nth 0 kInstrumentUnitPattern (mk_item [] 0 0))) 0 63].
  rewrite rx_match_single. unfold spec_unit_valid. now rewrite (forallb_ext' _ _ s unit_class).
Qed.

Lemma name_valid_iff_lemma : forall s,
  validate_name s = true <->
  exists c t, s = c :: t /\ is_letter c = true /\ (length t <= 254)%nat /\ Forall (fun b => is_name_char b = true) t.
Proof.
  intros s. rewrite validate_name_spec. destruct s as [|c t]; cbn [spec_name_valid].
  - split; [discriminate | intros (c & t & H & _); discriminate].
  - rewrite !andb_true_iff, Nat.leb_le, forallb_forall. split.
    + intros [[H1 H2] H3]. exists c, t. rewrite Forall_forall. auto.
    + intros (c' & t' & E & H1 & H2 & H3). injection E as -> ->. rewrite Forall_forall in H3. auto.
Qed.

Lemma unit_valid_iff_lemma : forall s,
  validate_unit s = true <-> (length s <= 63)%nat /\ Forall (fun b => (1 <= b2n b <= 127)%N) s.
Proof.
  intros s. rewrite validate_unit_spec. unfold spec_unit_valid.
  rewrite andb_true_iff, Nat.leb_le, forallb_forall, Forall_forall.
  assert (E : forall b, is_ascii_char b = true <-> (1 <= b2n b <= 127)%N).
  { intros b. unfold is_ascii_char, byte_in. lia. }
  split; intros [H1 H2]; split; auto; intros b Hb; apply E; auto.
Qed.

(* what the character classes are, in numbers *)
Lemma is_letter_iff : forall b, is_letter b = true <-> (65 <= b2n b <= 90 \/ 97 <= b2n b <= 122)%N.
Proof. intros b. unfold is_letter, byte_in. lia. Qed.
Lemma is_name_char_iff : forall b,
  is_name_char b = true <->
  (65 <= b2n b <= 90 \/ 97 <= b2n b <= 122 \/ 48 <= b2n b <= 57 \/ b2n b = 95 \/ b2n b = 46 \/ b2n b = 45 \/ b2n b = 47)%N.
Proof. intros b; destruct b; vm_compute; split; intros H; try discriminate; try reflexivity; intuition discriminate. Qed.

(* ---------- the hand-written variant (the #else branches) against the same sets *)
Lemma isalpha_is_letter : forall b, isalpha b = is_letter b.
Proof. intros b; destruct b; vm_compute; reflexivity. Qed.
Lemma nr_name_char_spec : forall b, nr_name_char b = is_name_char b.
Proof. intros b; destruct b; vm_compute; reflexivity. Qed.
Lemma ascii_no_nul : forall b, Byte.eqb b x00 = false -> (b2n b <=? 127)%N = is_ascii_char b.
Proof. intros b; destruct b; vm_compute; intros H; first [reflexivity | discriminate H]. Qed.

Lemma validate_name_nr_spec : forall s, s <> [] -> validate_name_nr s = Some (spec_name_valid s).
Proof.
  intros [|c t] H; [contradiction|]. unfold validate_name_nr, kNrNameMaxSize. cbn [length spec_name_valid].
  rewrite isalpha_is_letter, (forallb_ext' _ _ t nr_name_char_spec).
  destruct (Nat.ltb 255 (S (length t))) eqn:L.
  - apply Nat.ltb_lt in L. assert (E : Nat.leb (length t) 254 = false) by (apply Nat.leb_gt; lia).
    rewrite E, andb_false_r. reflexivity.
  - apply Nat.ltb_ge in L. assert (E : Nat.leb (length t) 254 = true) by (apply Nat.leb_le; lia).
    rewrite E, andb_true_r. reflexivity.
Qed.
Lemma validate_name_nr_empty : validate_name_nr [] = None.
Proof. reflexivity. Qed.

Lemma validate_unit_nr_spec : forall s, has_nul s = false -> validate_unit_nr s = spec_unit_valid s.
Proof.
  intros s H. unfold validate_unit_nr, spec_unit_valid, kNrUnitMaxSize.
  assert (E : forallb (fun b => (b2n b <=? 127)%N) s = forallb is_ascii_char s).
  { unfold has_nul in H. induction s as [|b s IH]; [reflexivity|]. cbn in H. apply orb_false_iff in H as [H1 H2].
    cbn [forallb]. now rewrite (ascii_no_nul b H1), IH. }
  rewrite E. destruct (Nat.ltb 63 (length s)) eqn:L.
  - apply Nat.ltb_lt in L. assert (E1 : Nat.leb (length s) 63 = false) by (apply Nat.leb_gt; lia). now rewrite E1.
  - apply Nat.ltb_ge in L. assert (E1 : Nat.leb (length s) 63 = true) by (apply Nat.leb_le; lia). now rewrite E1.
Qed.

(* both variants decide the same sets, except: the hand-written one accepts a unit with an embedded NUL (the regex class
   is [\x01-\x7F]) and reads name[0] of an empty name *)
Lemma variants_agree_lemma : forall s,
  (s <> [] -> validate_name_nr s = Some (validate_name s)) /\ (has_nul s = false -> validate_unit_nr s = validate_unit s).
Proof.
  intros s. split; intros H.
  - rewrite validate_name_spec. now apply validate_name_nr_spec.
  - rewrite validate_unit_spec. now apply validate_unit_nr_spec.
Qed.
Lemma variants_differ_on_nul : validate_unit [x6d; x00] = false /\ validate_unit_nr [x6d; x00] = true.
Proof. vm_compute. auto. Qed.

(* non-vacuity: a longest valid name, a shortest invalid one; an embedded NUL is rejected (F17 repaired) *)
Example name_255_valid : validate_name (x61 :: repeat x2f 254) = true.
Proof. vm_compute. reflexivity. Qed.
Example name_256_invalid : validate_name (x61 :: repeat x2f 255) = false.
Proof. vm_compute. reflexivity. Qed.
Example name_embedded_nul_invalid : validate_name [x61; x62; x00; x21; x21] = false.
Proof. vm_compute. reflexivity. Qed.
Example unit_63_valid : validate_unit (repeat x7f 63) = true.
Proof. vm_compute. reflexivity. Qed.
Example unit_64_invalid : validate_unit (repeat x01 64) = false.
Proof. vm_compute. reflexivity. Qed.

(* ---------- invalid name or unit: the instrument is inert, for every provider configuration and every history *)
Lemma create_invalid_noop : forall vs keys i m,
  validate_instrument (i_name i) (i_unit i) = false -> create_instrument vs keys i m = m.
Proof.
  intros vs keys i m H. unfold create_instrument. rewrite H. cbn. destruct (m_enabled m); reflexivity.
Qed.

Lemma update_nth_id : forall {A} (f : A -> A) n l, (forall x, f x = x) -> update_nth n f l = l.
Proof.
  intros A f n l H. revert n. induction l as [|x l IH]; intros [|n]; cbn; try reflexivity.
  - now rewrite H.
  - now rewrite IH.
Qed.

Lemma mstep_invalid : forall r d vs keys st i,
  validate_instrument (i_name i) (i_unit i) = false -> mstep r d vs keys st (MInst i) = st.
Proof.
  intros r d vs keys st i H. unfold mstep. destruct st as [ms cur calls out]; cbn. destruct cur as [k|]; [|reflexivity].
  rewrite update_nth_id; [reflexivity|]. intros m. now apply create_invalid_noop.
Qed.

(* creating it is indistinguishable from not creating it: indices and collected streams are the same *)
Lemma invalid_is_inert_lemma : forall r d vs keys ops1 ops2 i,
  validate_instrument (i_name i) (i_unit i) = false ->
  run_met r d vs keys (ops1 ++ MInst i :: ops2) = run_met r d vs keys (ops1 ++ ops2).
Proof.
  intros r d vs keys ops1 ops2 i H. unfold run_met, mrun. rewrite !fold_left_app. cbn [fold_left].
  now rewrite mstep_invalid.
Qed.

Example invalid_is_inert_nonvacuous :
  validate_instrument [x31; x78] [] = false /\ validate_instrument [x78] (repeat x61 64) = false /\
  validate_instrument [x78; x31] [x6d; x73] = true.
Proof. vm_compute. auto. Qed.
