(* C19 proofs, part 4: AttributeMap, InstrumentationScope::equal, LoggerProvider::GetLogger. *)
From V Require Import C19.Spec C19.ProofsBase C19.ProofsScopes.
From Coq Require Import Lia ZifyBool ZifyNat ZifyN.

(* ---------- the order on keys *)
Lemma bytes_ltb_irrefl : forall a, bytes_ltb a a = false.
Proof. induction a as [|x a IH]; [reflexivity|]. cbn. rewrite IH. lia. Qed.
Lemma b2n_inj : forall x y, b2n x = b2n y -> x = y.
Proof. intros x y H. unfold b2n in H. apply (f_equal Byte.of_N) in H. rewrite !Byte.of_to_N in H. congruence. Qed.
Lemma bytes_ltb_trans : forall a b c, bytes_ltb a b = true -> bytes_ltb b c = true -> bytes_ltb a c = true.
Proof.
  induction a as [|x a IH]; intros [|y b] [|z c]; cbn [bytes_ltb]; intros H1 H2; try discriminate; try reflexivity.
  apply orb_true_iff in H1, H2. apply orb_true_iff.
  destruct H1 as [H1 | H1]; destruct H2 as [H2 | H2].
  - left. lia.
  - left. lia.
  - left. lia.
  - apply andb_true_iff in H1 as [H1 H1'], H2 as [H2 H2']. right. apply andb_true_iff. split; [lia | eapply IH; eassumption].
Qed.
Lemma bytes_ltb_total : forall a b, bytes_eqb a b = false -> bytes_ltb a b = false -> bytes_ltb b a = true.
Proof.
  induction a as [|x a IH]; intros [|y b]; cbn [bytes_ltb bytes_eqb]; intros H1 H2; try discriminate; try reflexivity.
  apply orb_false_iff in H2 as [H2 H3]. apply orb_true_iff.
  destruct (b2n x =? b2n y)%N eqn:E.
  - right. cbn in H3. apply N.eqb_eq in E. pose proof (b2n_inj _ _ E) as ->. rewrite byte_eqb_refl in H1. cbn in H1.
    rewrite N.eqb_refl. cbn. now apply IH.
  - left. lia.
Qed.

(* ---------- AttributeMap as a strictly sorted association list *)
Fixpoint ssorted (m : attrs) : Prop :=
  match m with
  | [] => True
  | (k, _) :: m' => (forall k', In k' (map fst m') -> bytes_ltb k k' = true) /\ ssorted m'
  end.

Lemma amap_set_keys : forall k v m x, In x (map fst (amap_set k v m)) <-> x = k \/ In x (map fst m).
Proof.
  intros k v m x. induction m as [|[k1 v1] m IH]; cbn.
  - intuition.
  - destruct (bytes_eqb k k1) eqn:E.
    + apply bytes_eqb_eq in E. subst. cbn. intuition.
    + destruct (bytes_ltb k k1); cbn; [intuition|]. rewrite IH. intuition.
Qed.

Lemma amap_set_sorted : forall k v m, ssorted m -> ssorted (amap_set k v m).
Proof.
  intros k v m. induction m as [|[k1 v1] m IH]; cbn; intros H.
  - split; [intros k' []|exact I].
  - destruct H as [H1 H2]. destruct (bytes_eqb k k1) eqn:E.
    + apply bytes_eqb_eq in E. subst. cbn. auto.
    + destruct (bytes_ltb k k1) eqn:L; cbn.
      * split; [|auto]. intros k' [<- | Hk']; [assumption|]. eapply bytes_ltb_trans; [exact L | now apply H1].
      * split; [|now apply IH]. intros k' Hk'. apply amap_set_keys in Hk' as [-> | Hk']; [|now apply H1].
        apply bytes_ltb_total; assumption.
Qed.

Lemma amap_of_sorted_gen : forall l m, ssorted m -> ssorted (fold_left (fun m kv => amap_set (fst kv) (snd kv) m) l m).
Proof. induction l as [|[k v] l IH]; intros m H; cbn; [assumption|]. apply IH. now apply amap_set_sorted. Qed.
Lemma amap_of_sorted : forall l, ssorted (amap_of l).
Proof. intros l. apply amap_of_sorted_gen. exact I. Qed.

Lemma ssorted_NoDup : forall m, ssorted m -> NoDup (map fst m).
Proof.
  induction m as [|[k v] m IH]; cbn; intros H; [constructor|]. destruct H as [H1 H2]. constructor; [|auto].
  intros Hin. apply H1 in Hin. now rewrite bytes_ltb_irrefl in Hin.
Qed.

Lemma amap_get_set : forall k v m x, amap_get x (amap_set k v m) = if bytes_eqb k x then Some v else amap_get x m.
Proof.
  intros k v m x. induction m as [|[k1 v1] m IH]; cbn.
  - reflexivity.
  - destruct (bytes_eqb k k1) eqn:E.
    + apply bytes_eqb_eq in E. subst. cbn. destruct (bytes_eqb k1 x); reflexivity.
    + destruct (bytes_ltb k k1); cbn; [reflexivity|]. rewrite IH.
      destruct (bytes_eqb k1 x) eqn:E1; [|reflexivity]. apply bytes_eqb_eq in E1. subst. now rewrite E.
Qed.

Lemma amap_get_fold : forall l m x,
  amap_get x (fold_left (fun m kv => amap_set (fst kv) (snd kv) m) l m) =
  match last_val x l with Some w => Some w | None => amap_get x m end.
Proof.
  induction l as [|[k v] l IH]; intros m x; cbn [fold_left last_val fst snd]; [reflexivity|].
  rewrite IH. destruct (last_val x l); [reflexivity|]. rewrite amap_get_set. now destruct (bytes_eqb k x).
Qed.
Lemma amap_get_of : forall l x, amap_get x (amap_of l) = last_val x l.
Proof. intros l x. unfold amap_of. rewrite amap_get_fold. now destruct (last_val x l). Qed.

(* ---------- last_val *)
Lemma last_val_None : forall l k, last_val k l = None <-> ~ In k (map fst l).
Proof.
  induction l as [|[k1 v1] l IH]; intros k; cbn; [intuition|].
  destruct (last_val k l) eqn:E.
  - split; [discriminate|]. intros H. exfalso. apply H. right. destruct (IH k) as [_ H2].
    destruct (in_dec (list_eq_dec Byte.byte_eq_dec) k (map fst l)) as [Hin | Hn]; [assumption|]. apply H2 in Hn. congruence.
  - apply IH in E. destruct (bytes_eqb k1 k) eqn:E1.
    + apply bytes_eqb_eq in E1. split; [discriminate | intros H; exfalso; apply H; now left].
    + apply bytes_eqb_neq in E1. intuition.
Qed.
Lemma last_val_In : forall l k v, last_val k l = Some v -> In (k, v) l.
Proof.
  induction l as [|[k1 v1] l IH]; intros k v; cbn; [discriminate|].
  destruct (last_val k l) eqn:E.
  - intros H. injection H as <-. right. now apply IH.
  - destruct (bytes_eqb k1 k) eqn:E1; [|discriminate]. apply bytes_eqb_eq in E1. subst. intros H. injection H as <-. now left.
Qed.
Lemma last_val_nodup : forall l k v, NoDup (map fst l) -> In (k, v) l -> last_val k l = Some v.
Proof.
  induction l as [|[k1 v1] l IH]; intros k v Hn Hin; [destruct Hin|]. cbn in Hn. inversion Hn as [|? ? Hnot Hn']; subst.
  cbn. destruct Hin as [E | Hin].
  - injection E as -> ->. assert (N : last_val k l = None) by (now apply last_val_None). now rewrite N, bytes_eqb_refl.
  - now rewrite (IH k v Hn' Hin).
Qed.
(* for a map without duplicate keys, "first" and "last" coincide *)
Lemma amap_get_last_val : forall m k, NoDup (map fst m) -> amap_get k m = last_val k m.
Proof.
  induction m as [|[k1 v1] m IH]; intros k Hn; [reflexivity|]. cbn in Hn. inversion Hn as [|? ? Hnot Hn']; subst. cbn.
  destruct (bytes_eqb k1 k) eqn:E.
  - apply bytes_eqb_eq in E. subst. assert (N : last_val k m = None) by (now apply last_val_None). now rewrite N.
  - rewrite IH by assumption. now destruct (last_val k m).
Qed.
Lemma last_val_amap_of : forall l k, last_val k (amap_of l) = last_val k l.
Proof. intros l k. rewrite <- amap_get_last_val by (apply ssorted_NoDup, amap_of_sorted). apply amap_get_of. Qed.

(* ---------- "the same attributes" *)
Lemma oaval_eqb_eq : forall a b, oaval_eqb a b = true <-> a = b.
Proof.
  intros [x|] [y|]; cbn; split; intros H; try discriminate; try reflexivity.
  - apply aval_eqb_eq in H. now subst.
  - injection H as ->. apply aval_eqb_refl.
Qed.
Lemma attrs_equiv_iff : forall a b, attrs_equiv a b = true <-> forall k, last_val k a = last_val k b.
Proof.
  intros a b. unfold attrs_equiv. rewrite forallb_forall. split.
  - intros H k. destruct (in_dec (list_eq_dec Byte.byte_eq_dec) k (map fst (a ++ b))) as [Hin | Hn].
    + now apply oaval_eqb_eq, H.
    + rewrite map_app in Hn. assert (Na : ~ In k (map fst a)) by (intros X; apply Hn, in_or_app; now left).
      assert (Nb : ~ In k (map fst b)) by (intros X; apply Hn, in_or_app; now right).
      apply last_val_None in Na, Nb. congruence.
  - intros H k _. apply oaval_eqb_eq, H.
Qed.

Lemma nodup_by_NoDup : forall l, nodup_by bytes_eqb l = true <-> NoDup l.
Proof.
  induction l as [|x l IH]; cbn; [split; [constructor | reflexivity]|].
  rewrite andb_true_iff, negb_true_iff, IH. split.
  - intros [H1 H2]. constructor; [|assumption]. intros Hin. apply existsb_bytes_eqb_In in Hin. congruence.
  - intros H. inversion H; subst. split; [|assumption]. apply not_true_is_false. intros X. apply existsb_bytes_eqb_In in X. contradiction.
Qed.
Definition nodup_keys (a : attrs) : Prop := NoDup (map fst a).
Lemma has_dup_key_false : forall a, has_dup_key a = false <-> nodup_keys a.
Proof. intros a. unfold has_dup_key. rewrite negb_false_iff. apply nodup_by_NoDup. Qed.

Lemma amap_of_length : forall l, nodup_keys l -> length (amap_of l) = length l.
Proof.
  intros l H. unfold amap_of.
  assert (G : forall l m, NoDup (map fst l) -> (forall k, In k (map fst l) -> ~ In k (map fst m)) ->
              length (fold_left (fun m kv => amap_set (fst kv) (snd kv) m) l m) = (length m + length l)%nat).
  { clear. induction l as [|[k v] l IH]; intros m Hn Hd; cbn [fold_left length fst snd]; [lia|].
    cbn in Hn. inversion Hn as [|? ? Hnot Hn']; subst. rewrite IH; [| assumption |].
    - assert (L : length (amap_set k v m) = S (length m)).
      { assert (Hk : ~ In k (map fst m)) by (apply Hd; now left). clear -Hk. induction m as [|[k1 v1] m IHm]; cbn; [reflexivity|].
        destruct (bytes_eqb k k1) eqn:E; [apply bytes_eqb_eq in E; subst; exfalso; apply Hk; now left|].
        destruct (bytes_ltb k k1); cbn; [reflexivity|]. rewrite IHm; [reflexivity|]. intros X. apply Hk. now right. }
      rewrite L. lia.
    - intros k' Hk' X. apply amap_set_keys in X as [-> | X]; [contradiction|]. apply (Hd k'); [now right | assumption]. }
  rewrite G; [reflexivity | assumption | intros k _ []].
Qed.

Lemma given_last_spec : forall g k acc, given_last k g acc = match last_val k g with Some w => Some w | None => acc end.
Proof.
  induction g as [|[k' v] g IH]; intros k acc; cbn [given_last last_val]; [reflexivity|].
  rewrite IH. destruct (last_val k g); [reflexivity|]. now destruct (bytes_eqb k' k).
Qed.
Lemma given_last_None : forall g k, given_last k g None = last_val k g.
Proof. intros g k. rewrite given_last_spec. now destruct (last_val k g). Qed.

Lemma amap_get_In : forall m k v, NoDup (map fst m) -> In (k, v) m -> amap_get k m = Some v.
Proof. intros m k v H Hin. rewrite amap_get_last_val by assumption. now apply last_val_nodup. Qed.
Lemma amap_get_Some_In : forall m k v, amap_get k m = Some v -> In (k, v) m.
Proof.
  induction m as [|[k1 v1] m IH]; intros k v; cbn; [discriminate|].
  destruct (bytes_eqb k1 k) eqn:E; [apply bytes_eqb_eq in E; subst; intros H; injection H as <-; now left | intros H; right; now apply IH].
Qed.

(* AttributeMap::EqualTo (repaired) decides "the same attributes", for all attribute lists *)
Lemma equal_to_equiv : forall a b, equal_to (amap_of a) b = attrs_equiv a b.
Proof.
  intros a b. pose proof (ssorted_NoDup _ (amap_of_sorted a)) as ND.
  destruct (attrs_equiv a b) eqn:Q.
  - rewrite attrs_equiv_iff in Q. unfold equal_to. rewrite !andb_true_iff. split; [split|].
    + apply negb_true_iff, Nat.ltb_ge. rewrite <- (map_length fst (amap_of a)), <- (map_length fst b).
      apply NoDup_incl_length; [assumption|]. intros k Hk. apply in_map_iff in Hk as ([k' v] & <- & Hin). cbn.
      pose proof (amap_get_In _ _ _ ND Hin) as G. rewrite amap_get_of, Q in G.
      destruct (in_dec (list_eq_dec Byte.byte_eq_dec) k' (map fst b)) as [Y | N]; [assumption|]. apply last_val_None in N. congruence.
    + apply forallb_forall. intros [k v] Hin. cbn [fst]. rewrite amap_get_of, Q.
      destruct (last_val k b) eqn:E; [reflexivity|]. apply last_val_None in E. exfalso. apply E. apply in_map_iff. now exists (k, v).
    + apply forallb_forall. intros [k v] Hin. cbn [fst snd]. rewrite given_last_None, <- Q, <- amap_get_of, (amap_get_In _ _ _ ND Hin).
      apply aval_eqb_refl.
  - apply not_true_is_false. intros H. unfold equal_to in H. rewrite !andb_true_iff in H. destruct H as [[_ H1] H2].
    rewrite forallb_forall in H1, H2.
    assert (Q' : attrs_equiv a b = true); [|congruence]. apply attrs_equiv_iff. intros k.
    rewrite <- amap_get_of. destruct (amap_get k (amap_of a)) as [v|] eqn:G.
    + apply amap_get_Some_In in G. specialize (H2 (k, v) G). cbn [fst snd] in H2. rewrite given_last_None in H2.
      destruct (last_val k b) as [w|]; [|discriminate]. apply aval_eqb_eq in H2. now subst.
    + symmetry. apply last_val_None. intros Hin. apply in_map_iff in Hin as ([k' v] & E & Hin). cbn in E. subst k'.
      specialize (H1 (k, v) Hin). cbn [fst] in H1. now rewrite G in H1.
Qed.

(* ---------- "the same request" is an equivalence *)
Lemma lreq_eqb_iff : forall a b,
  lreq_eqb a b = true <-> q_name a = q_name b /\ q_scope a = q_scope b /\ forall k, last_val k (q_attrs a) = last_val k (q_attrs b).
Proof. intros a b. unfold lreq_eqb. rewrite !andb_true_iff, bytes_eqb_eq, scope_eqb_eq, attrs_equiv_iff. tauto. Qed.
Lemma lreq_eqb_refl : forall a, lreq_eqb a a = true.
Proof. intros a. apply lreq_eqb_iff. auto. Qed.
Lemma lreq_eqb_sym : forall a b, lreq_eqb a b = true -> lreq_eqb b a = true.
Proof. intros a b H. apply lreq_eqb_iff in H as (H1 & H2 & H3). apply lreq_eqb_iff. repeat split; auto. Qed.
Lemma lreq_eqb_trans : forall a b c, lreq_eqb a b = true -> lreq_eqb b c = true -> lreq_eqb a c = true.
Proof.
  intros a b c H G. apply lreq_eqb_iff in H as (H1 & H2 & H3), G as (G1 & G2 & G3). apply lreq_eqb_iff.
  split; [congruence|]. split; [congruence|]. intros k. now rewrite H3.
Qed.

(* ---------- LoggerProvider *)
Definition lproj (st : lstate) : list logger * nat * list nat := (ls_loggers st, ls_calls st, ls_out st).
Definition lmk (r : rules) (d : bool) (q : lreq) (n : nat) : logger :=
  mk_logger (q_name q) (q_scope q) (amap_of (q_attrs q)) (compute_config r d (q_scope q)) n.

Lemma lstep_gstep : forall r d st q, lproj (lstep r d st q) = gstep logger lreq logger_matches (lmk r d) l_first (lproj st) q.
Proof. intros r d st q. unfold lstep, gstep, lproj, lmk. destruct (find (logger_matches q) (ls_loggers st)); reflexivity. Qed.
Lemma run_lg_grun : forall r d ops, lproj (run_lg r d ops) = grun logger lreq logger_matches (lmk r d) l_first ops.
Proof.
  intros r d ops. unfold run_lg, grun. change ([], 0%nat, []) with (lproj lstate0). generalize lstate0.
  induction ops as [|s ops IH]; intros st; [reflexivity|]. cbn [fold_left]. rewrite IH. f_equal. apply lstep_gstep.
Qed.

Lemma lmk_matches : forall r d q' n q, logger_matches q (lmk r d q' n) = lreq_eqb q' q.
Proof. intros r d q' n q. unfold logger_matches, lmk, lreq_eqb. cbn. now rewrite equal_to_equiv. Qed.

Lemma lg_indices : forall r d ops, ls_out (run_lg r d ops) = expected_indices lreq_eqb ops.
Proof.
  intros r d ops. change (ls_out (run_lg r d ops)) with (snd (lproj (run_lg r d ops))). rewrite run_lg_grun.
  apply grun_out with (P := fun _ => True); auto.
  - intros a _. apply lreq_eqb_refl.
  - intros a b _ _. apply lreq_eqb_sym.
  - intros a b c _ _ _. apply lreq_eqb_trans.
  - intros q' n q _ _. apply lmk_matches.
  - apply Forall_forall. auto.
Qed.

(* pairs of (request, index) *)
Lemma pairs_before_In : forall {A} (l done : list A) p, In p (pairs_before done l) -> In (fst p) (done ++ l) /\ In (snd p) (done ++ l).
Proof.
  intros A l. induction l as [|x l IH]; intros done p; cbn; [intros []|].
  intros H. apply in_app_or in H as [H | H].
  - apply in_map_iff in H as (y & <- & Hy). cbn. split; apply in_or_app; [now left | right; now left].
  - apply IH in H. rewrite <- app_assoc in H. exact H.
Qed.
Lemma combine_map_In : forall {A B} (f : A -> B) l x y, In (x, y) (combine l (map f l)) -> In x l /\ y = f x.
Proof.
  intros A B f l. induction l as [|a l IH]; intros x y; cbn; [intros []|].
  intros [E | H]; [injection E as <- <-; auto | apply IH in H; intuition].
Qed.

Lemma first_pos_eq_class : forall {A} (eqb : A -> A -> bool) x y l,
  (forall a, eqb a a = true) -> (forall a b, eqb a b = true -> eqb b a = true) ->
  (forall a b c, eqb a b = true -> eqb b c = true -> eqb a c = true) ->
  In x l -> In y l -> first_pos eqb x l = first_pos eqb y l -> eqb x y = true.
Proof.
  intros A eqb x y l Hr Hs Ht Hx Hy E.
  assert (Ex : existsb (fun z => eqb z x) l = true) by (apply existsb_exists; exists x; auto).
  assert (Ey : existsb (fun z => eqb z y) l = true) by (apply existsb_exists; exists y; auto).
  destruct (first_pos_nth eqb x l Ex) as (z & Hz & Hzx). destruct (first_pos_nth eqb y l Ey) as (z' & Hz' & Hzy).
  rewrite E, Hz' in Hz. injection Hz as ->. eauto.
Qed.

Lemma same_ok_lemma : forall r d ops, same_ok ops (ls_out (run_lg r d ops)) = true.
Proof.
  intros r d ops. rewrite lg_indices. unfold same_ok, expected_indices. rewrite map_length, Nat.eqb_refl. cbn [andb].
  apply forallb_forall. intros [[x ix] [y iy]] Hp. cbn [fst snd]. apply pairs_before_In in Hp as [H1 H2]. cbn in H1, H2.
  apply combine_map_In in H1 as [Hx ->], H2 as [Hy ->].
  destruct (lreq_eqb x y) eqn:E; [|reflexivity]. cbn. apply Nat.eqb_eq.
  apply first_pos_same_class with (P := fun _ => True); auto.
  - intros a b _ _. apply lreq_eqb_sym.
  - intros a b c _ _ _. apply lreq_eqb_trans.
  - apply Forall_forall. auto.
Qed.
Lemma distinct_ok_lemma : forall r d ops, distinct_ok ops (ls_out (run_lg r d ops)) = true.
Proof.
  intros r d ops. rewrite lg_indices. unfold distinct_ok, expected_indices.
  apply forallb_forall. intros [[x ix] [y iy]] Hp. cbn [fst snd]. apply pairs_before_In in Hp as [H1 H2]. cbn in H1, H2.
  apply combine_map_In in H1 as [Hx ->], H2 as [Hy ->].
  destruct (first_pos lreq_eqb x ops =? first_pos lreq_eqb y ops)%nat eqn:E; [|now rewrite orb_true_r].
  apply Nat.eqb_eq in E. rewrite (first_pos_eq_class lreq_eqb x y ops); auto.
  - apply lreq_eqb_refl.
  - apply lreq_eqb_sym.
  - apply lreq_eqb_trans.
Qed.

(* records: who emits, under which scope - for every request list, no hypothesis *)
Definition lg_inv (r : rules) (d : bool) (st : lstate) : Prop :=
  forall l, In l (ls_loggers st) -> l_enabled l = compute_config r d (l_scope l) /\ exists a, l_attrs l = amap_of a.

Lemma lstep_rec : forall r d st q, lg_inv r d st ->
  lg_inv r d (lstep r d st q) /\
  ls_calls (lstep r d st q) = S (ls_calls st) /\
  exists a,
  ls_recs (lstep r d st q) = ls_recs st ++ (if compute_config r d (q_scope q) then [mk_lrec (ls_calls st) (q_scope q) (amap_of a)] else []).
Proof.
  intros r d st q I. unfold lstep. destruct (find (logger_matches q) (ls_loggers st)) as [l|] eqn:F.
  - apply find_some in F as [Hl Hm]. destruct (I l Hl) as [He [a Ha]]. cbn [ls_loggers ls_calls ls_recs].
    split; [exact I|]. split; [reflexivity|]. exists a.
    unfold logger_matches in Hm. apply andb_true_iff in Hm as [Hm Hq]. apply andb_true_iff in Hm as [Hn Hs].
    apply scope_eqb_eq in Hs.
    rewrite He, Hs, Ha. destruct (compute_config r d (q_scope q)); [reflexivity | now rewrite app_nil_r].
  - cbn [ls_loggers ls_calls ls_recs l_enabled l_scope l_attrs]. split; [|split; [reflexivity|]].
    + intros lg Hl. apply in_app_or in Hl as [Hl | [<- | []]]; [now apply I|]. cbn. split; [reflexivity | now exists (q_attrs q)].
    + exists (q_attrs q). destruct (compute_config r d (q_scope q)); [reflexivity | now rewrite app_nil_r].
Qed.

Lemma recs_scope_exact : forall r d ops,
  map (fun rc => (r_call rc, r_scope rc)) (ls_recs (run_lg r d ops)) =
  map (fun nq => (fst nq, q_scope (snd nq))) (filter (fun nq => compute_config r d (q_scope (snd nq))) (number_from 0 ops)).
Proof.
  intros r d ops.
  assert (G : lg_inv r d (run_lg r d ops) /\ ls_calls (run_lg r d ops) = length ops /\
              map (fun rc => (r_call rc, r_scope rc)) (ls_recs (run_lg r d ops)) =
              map (fun nq => (fst nq, q_scope (snd nq))) (filter (fun nq => compute_config r d (q_scope (snd nq))) (number_from 0 ops))).
  { unfold run_lg. induction ops as [|q ops IH] using rev_ind.
    - split; [intros lg0 Hl0; destruct Hl0 | split; reflexivity].
    - rewrite fold_left_app. cbn [fold_left]. destruct IH as (I & Hn & Hr).
      destruct (lstep_rec r d _ q I) as (I' & Hn' & a & Hrec). split; [exact I'|]. split.
      + rewrite Hn', Hn, app_length. cbn. lia.
      + rewrite Hrec, map_app, Hr, number_from_app, filter_app, map_app. f_equal. cbn [number_from filter snd].
        rewrite Hn. destruct (compute_config r d (q_scope q)); reflexivity. }
  apply G.
Qed.

(* the records also carry the requested attributes *)
Lemma lrec_ok_of : forall q a,
  (equal_to (amap_of a) (q_attrs q) = true \/ a = q_attrs q) ->
  lrec_ok q (mk_lrec 0 (q_scope q) (amap_of a)) = true.
Proof.
  intros q a Ha. unfold lrec_ok. cbn [r_scope r_attrs]. rewrite scope_eqb_refl. cbn [andb]. apply andb_true_iff. split.
  - apply attrs_equiv_iff. intros k. rewrite last_val_amap_of. destruct Ha as [He | ->]; [|reflexivity].
    rewrite equal_to_equiv in He. now apply attrs_equiv_iff.
  - apply nodup_by_NoDup, ssorted_NoDup, amap_of_sorted.
Qed.

Lemma recs_ok_lemma : forall r d ops, recs_ok r d ops (ls_recs (run_lg r d ops)) = true.
Proof.
  intros r d ops. unfold recs_ok, expected_recs.
  rewrite (filter_ext (fun nq => spec_config r d (q_scope (snd nq))) (fun nq => compute_config r d (q_scope (snd nq))))
    by (intros; symmetry; apply compute_config_spec).
  assert (G : lg_inv r d (run_lg r d ops) /\ ls_calls (run_lg r d ops) = length ops /\
              recs_match (filter (fun nq => compute_config r d (q_scope (snd nq))) (number_from 0 ops)) (ls_recs (run_lg r d ops)) = true).
  { unfold run_lg. induction ops as [|q ops IH] using rev_ind.
    - split; [intros lg0 Hl0; destruct Hl0 | split; reflexivity].
    - destruct IH as (I & Hn & Hr).
      rewrite fold_left_app. cbn [fold_left]. set (st := fold_left (lstep r d) ops lstate0) in *.
      assert (App : forall e o e' o', recs_match e o = true -> recs_match e' o' = true -> recs_match (e ++ e') (o ++ o') = true).
      { clear. induction e as [|[n q] e IHe]; intros [|rc o] e' o' H1 H2; cbn in *; try discriminate; [assumption|].
        apply andb_true_iff in H1 as [H1 H3]. rewrite H1. cbn. now apply IHe. }
      unfold lstep. destruct (find (logger_matches q) (ls_loggers st)) as [l|] eqn:F.
      + apply find_some in F as [Hl Hm]. destruct (I l Hl) as [He (a & Ha)]. cbn [ls_loggers ls_calls ls_recs].
        split; [exact I|]. split; [rewrite app_length; cbn; lia|].
        unfold logger_matches in Hm. apply andb_true_iff in Hm as [Hm Hq]. apply andb_true_iff in Hm as [_ Hs]. apply scope_eqb_eq in Hs.
        rewrite number_from_app, filter_app. cbn [number_from filter snd]. rewrite He, Hs.
        destruct (compute_config r d (q_scope q)); [|now rewrite !app_nil_r].
        apply App; [assumption|]. cbn [recs_match r_call]. rewrite Hn, Nat.add_0_l, Nat.eqb_refl. cbn [andb]. rewrite andb_true_r.
        rewrite Ha in *. pose proof (lrec_ok_of q a (or_introl Hq)) as L. unfold lrec_ok in *. cbn [r_scope r_attrs] in *. exact L.
      + cbn [ls_loggers ls_calls ls_recs l_enabled l_scope l_attrs]. split; [|split; [rewrite app_length; cbn; lia|]].
        * intros lg Hl. apply in_app_or in Hl as [Hl | [<- | []]]; [now apply I|]. cbn. split; [reflexivity | now exists (q_attrs q)].
        * rewrite number_from_app, filter_app. cbn [number_from filter snd].
          destruct (compute_config r d (q_scope q)); [|now rewrite !app_nil_r].
          apply App; [assumption|]. cbn [recs_match r_call]. rewrite Hn, Nat.add_0_l, Nat.eqb_refl. cbn [andb]. rewrite andb_true_r.
          exact (lrec_ok_of q (q_attrs q) (or_intror eq_refl)). }
  apply G.
Qed.

Lemma model_meets_spec_lg : forall r d ops, spec_lg r d ops (ls_out (run_lg r d ops)) (ls_recs (run_lg r d ops)) = [].
Proof. intros r d ops. unfold spec_lg. now rewrite same_ok_lemma, distinct_ok_lemma, recs_ok_lemma. Qed.

(* ---------- regressions: the inputs on which the registry used to fail (F19, F19b, F21; repaired by 4364788, 6b10326) *)
Definition f19_req : lreq := mk_lreq (bs "l") (bs "b") [] [] [(bs "k", AInt 1); (bs "k", AInt 1)].
Example f19_repaired : ls_out (run_lg [] true [f19_req; f19_req]) = [0; 0]%nat.
Proof. vm_compute. reflexivity. Qed.
Definition f21_req : lreq := mk_lreq (bs "l") (bs "a") [] [] [].
Example f21_repaired :
  ls_out (run_lg [(CName (bs "a"), false)] true [f21_req; f21_req]) = [0; 0]%nat /\
  ls_recs (run_lg [(CName (bs "a"), false)] true [f21_req; f21_req]) = [].
Proof. vm_compute. auto. Qed.
Definition f19b_a : lreq := mk_lreq (bs "l") (bs "b") [] [] [(bs "k", AInt 1); (bs "j", AStr (bs "v"))].
Definition f19b_b : lreq := mk_lreq (bs "l") (bs "b") [] [] [(bs "j", AStr (bs "v")); (bs "j", AStr (bs "v"))].
Example f19b_repaired :
  lreq_eqb f19b_a f19b_b = false /\ ls_out (run_lg [] true [f19b_a; f19b_b]) = [0; 1]%nat /\
  map r_attrs (ls_recs (run_lg [] true [f19b_a; f19b_b])) = [[(bs "j", AStr (bs "v")); (bs "k", AInt 1)]; [(bs "j", AStr (bs "v"))]].
Proof. vm_compute. auto. Qed.
