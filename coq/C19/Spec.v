(* SPEC for C19, written from the property text and independently of how the SDK computes:
   bool / list-tok valued so that it runs on the IMPLEMENTATION's observations.  Each clause is
   [if <clause>_ok then [] else <tags>]; the theorems are about the [_ok] predicates, the tag
   computation only names the failure ("clause:feature", matched against known_findings.json). *)
From V Require Export C19.Model.
Local Open Scope N_scope.

(* ------------------------------------------------------------------------------------------------ names *)
(* "letter followed by up to 254 letters, digits, '_', '.', '-' or '/'" *)
Definition is_letter (b : byte) : bool := byte_in 65 90 b || byte_in 97 122 b.
Definition is_name_char (b : byte) : bool :=
  is_letter b || byte_in 48 57 b || Byte.eqb b x5f || Byte.eqb b x2e || Byte.eqb b x2d || Byte.eqb b x2f.
Definition spec_name_valid (s : bytes) : bool :=
  match s with
  | [] => false
  | c :: t => is_letter c && Nat.leb (length t) 254 && forallb is_name_char t
  end.
(* "units of at most 63 ASCII characters": a character of a string, i.e. 0x01..0x7f (NUL is not one) *)
Definition is_ascii_char (b : byte) : bool := byte_in 1 127 b.
Definition spec_unit_valid (s : bytes) : bool := Nat.leb (length s) 63 && forallb is_ascii_char s.
Definition spec_instrument_valid (i : instr) : bool := spec_name_valid (i_name i) && spec_unit_valid (i_unit i).

(* ------------------------------------------------------------------------------------------------ patterns *)
(* meaning of a pattern: the string splits into consecutive pieces, one byte per plain atom, any number
   of matching bytes per starred atom *)
Inductive PM : pattern -> bytes -> Prop :=
| PM_nil : PM [] []
| PM_one : forall a p b s, amatch a b = true -> PM p s -> PM ((a, false) :: p) (b :: s)
| PM_star : forall a p s1 s2, Forall (fun b => amatch a b = true) s1 -> PM p s2 -> PM ((a, true) :: p) (s1 ++ s2).

(* the same, executable: try every split point *)
Fixpoint spec_pm (p : pattern) (s : bytes) : bool :=
  match p with
  | [] => is_nil s
  | (a, false) :: p' => match s with b :: s' => amatch a b && spec_pm p' s' | [] => false end
  | (a, true) :: p' =>
      existsb (fun k => forallb (amatch a) (firstn k s) && spec_pm p' (skipn k s)) (seq 0 (S (length s)))
  end.
Definition spec_name_sel (n : name_sel) (s : bytes) : bool :=
  match n with NAll => true | NPat p => spec_pm p s end.

(* an empty selector field selects everything, a non-empty one exactly the equal string *)
Definition sel_eq (sel s : bytes) : bool := match sel with [] => true | _ => bytes_eqb sel s end.

(* "applies to exactly the instruments whose type, name (exact or pattern), unit and meter identity match its selectors" *)
Definition spec_view_applies (v : view) (s : scope_id) (i : instr) : bool :=
  (v_itype v =? i_type i) && spec_name_sel (v_sel v) (i_name i) && sel_eq (v_unit v) (i_unit i) &&
  sel_eq (v_mname v) (sc_name s) && sel_eq (v_mver v) (sc_ver s) && sel_eq (v_mschema v) (sc_schema s).
(* the reading under which a meter that declares no version / schema URL passes a selector that asks for one
   (only used to name that deviation) *)
Definition lenient_view_applies (v : view) (s : scope_id) (i : instr) : bool :=
  (v_itype v =? i_type i) && spec_name_sel (v_sel v) (i_name i) && sel_eq (v_unit v) (i_unit i) &&
  sel_eq (v_mname v) (sc_name s) && (is_nil (sc_ver s) || sel_eq (v_mver v) (sc_ver s)) &&
  (is_nil (sc_schema s) || sel_eq (v_mschema v) (sc_schema s)).

(* ------------------------------------------------------------------------------------------------ expected streams *)
(* which point kinds satisfy the aggregation a view asks for (0 drop 1 histogram 2 last value 3 sum 4 default) on an
   instrument type; observed codes: 0 drop 1 histogram 2 last value 3 non-monotonic sum 4 monotonic sum *)
Definition default_agg_ok (ity obs : N) : bool :=
  match ity with
  | 0 | 3 => obs =? 4        (* counters: monotonic sum *)
  | 2 | 5 => obs =? 3        (* up-down counters: non-monotonic sum *)
  | 1 => obs =? 1            (* histogram *)
  | 4 | 6 => obs =? 2        (* gauges: last value *)
  | _ => false
  end.
Definition agg_ok (agg ity obs : N) : bool :=
  match agg with
  | 0 => obs =? 0
  | 1 => obs =? 1
  | 2 => obs =? 2
  | 3 => (obs =? 3) || (obs =? 4)
  | _ => default_agg_ok ity obs
  end.

Definition subset_keys (a b : list bytes) : bool := forallb (fun k => mem_key k b) a.
Definition same_keys (a b : list bytes) : bool := subset_keys a b && subset_keys b a.
Definition kept_keys (f : option (list bytes)) (keys : list bytes) : list bytes :=
  match f with None => keys | Some allowed => filter (fun k => mem_key k allowed) keys end.

(* [o] is the stream the view [v] must produce for instrument [i] of scope [s]: the view's name and description
   (the instrument's when the view leaves them empty), the view's aggregation, the view's attribute filter, and
   everything else - unit, instrument type, value type - from the instrument *)
Definition shaped_but_keys (v : view) (i : instr) (s : scope_id) (o : stream) : bool :=
  scope_eqb (st_scope o) s &&
  bytes_eqb (st_name o) (match v_name v with [] => i_name i | n => n end) &&
  bytes_eqb (st_desc o) (match v_desc v with [] => i_desc i | n => n end) &&
  bytes_eqb (st_unit o) (i_unit i) && (st_itype o =? i_type i) && (st_vtype o =? i_vtype i) &&
  agg_ok (v_agg v) (i_type i) (st_agg o) && (st_npoints o =? 1).
Definition shaped (v : view) (i : instr) (s : scope_id) (keys : list bytes) (o : stream) : bool :=
  shaped_but_keys v i s o && same_keys (st_keys o) (kept_keys (v_filter v) keys).

(* the view that stands for "no view": instrument's own name/description, default aggregation, no filter *)
Definition no_view : view := mk_view 0 NAll [] [] [] [] [] [] 4 None.

Definition views_for (app : view -> scope_id -> instr -> bool) (vs : list view) (s : scope_id) (i : instr) : list view :=
  match filter (fun v => app v s i) vs with [] => [no_view] | m => m end.

(* ------------------------------------------------------------------------------------------------ scopes *)
(* "first matching condition wins, default otherwise" *)
Definition spec_config (r : rules) (d : bool) (s : scope_id) : bool :=
  match find (fun ce => cond_match (fst ce) s) r with Some ce => snd ce | None => d end.

(* the instruments of a case with the scope they were created on (the most recently requested meter) *)
Fixpoint instrs_of (cur : option scope_id) (ops : list mop) : list (scope_id * instr) :=
  match ops with
  | [] => []
  | MGet s :: ops' => instrs_of (Some s) ops'
  | MInst i :: ops' => match cur with Some s => (s, i) :: instrs_of cur ops' | None => instrs_of cur ops' end
  end.
Fixpoint gets_of (ops : list mop) : list scope_id :=
  match ops with
  | [] => []
  | MGet s :: ops' => s :: gets_of ops'
  | MInst _ :: ops' => gets_of ops'
  end.

(* well-formed metrics case: within one scope every instrument name is used once (re-creating an instrument is the
   subject of C06) *)
Definition inst_key_eqb (a b : scope_id * instr) : bool := scope_eqb (fst a) (fst b) && bytes_eqb (i_name (snd a)) (i_name (snd b)).
Fixpoint nodup_by {A} (eqb : A -> A -> bool) (l : list A) : bool :=
  match l with
  | [] => true
  | x :: l' => negb (existsb (eqb x) l') && nodup_by eqb l'
  end.
Definition wf_met (ops : list mop) : bool := nodup_by inst_key_eqb (instrs_of None ops).

(* position of the first request equal to request number [j] *)
Fixpoint first_pos {A} (eqb : A -> A -> bool) (x : A) (l : list A) : nat :=
  match l with
  | [] => 0
  | y :: l' => if eqb y x then 0 else S (first_pos eqb x l')
  end.
Definition expected_indices {A} (eqb : A -> A -> bool) (l : list A) : list nat := map (fun x => first_pos eqb x l) l.
Fixpoint nats_eqb (a b : list nat) : bool :=
  match a, b with
  | [], [] => true
  | x :: a', y :: b' => Nat.eqb x y && nats_eqb a' b'
  | _, _ => false
  end.

(* ------------------------------------------------------------------------------------------------ MET *)
Section Met.
  Variables (r : rules) (d : bool) (vs : list view) (keys : list bytes) (ops : list mop).

  Definition live (si : scope_id * instr) : bool := spec_config r d (fst si) && spec_instrument_valid (snd si).
  Definition expected_of (app : view -> scope_id -> instr -> bool) (si : scope_id * instr) (o : stream) : bool :=
    existsb (fun v => shaped v (snd si) (fst si) keys o) (views_for app vs (fst si) (snd si)).
  Definition expected_but_keys (si : scope_id * instr) (o : stream) : bool :=
    existsb (fun v => shaped_but_keys v (snd si) (fst si) o) (views_for spec_view_applies vs (fst si) (snd si)).

  (* every stream a live instrument must have is there ... *)
  Definition complete_ok (obs : list stream) : bool :=
    forallb (fun si => negb (live si) ||
                       forallb (fun v => existsb (shaped v (snd si) (fst si) keys) obs)
                               (views_for spec_view_applies vs (fst si) (snd si)))
            (instrs_of None ops).
  (* ... and nothing else *)
  Definition sound_ok (obs : list stream) : bool :=
    forallb (fun o => existsb (fun si => live si && expected_of spec_view_applies si o) (instrs_of None ops)) obs.
  Definition meters_ok (idx : list nat) : bool := nats_eqb idx (expected_indices scope_eqb (gets_of ops)).

  Definition filter_of (v : view) : list (list bytes) := match v_filter v with Some f => [f] | None => [] end.
  Definition lenient_differs (si : scope_id * instr) : bool :=
    negb (nats_eqb (map (fun v => if spec_view_applies v (fst si) (snd si) then 1 else 0)%nat vs)
                   (map (fun v => if lenient_view_applies v (fst si) (snd si) then 1 else 0)%nat vs)).
  Definition why_missing (si : scope_id * instr) (v : view) (obs : list stream) : list tok :=
    if lenient_differs si then fail "view_applies_iff_selectors_match:unversioned_meter"
    else match views_for spec_view_applies vs (fst si) (snd si) with
         | _ :: _ :: _ => fail "every_view_stream_collected:two_views"
         | _ =>
             if existsb (shaped_but_keys v (snd si) (fst si)) obs
             then (if is_async (i_type (snd si)) && negb (is_nil (filter_of v)) &&
                      existsb (fun o => shaped_but_keys v (snd si) (fst si) o && same_keys (st_keys o) keys) obs
                   then fail "view_shapes_exactly:attribute_filter_async"
                   else fail "view_shapes_exactly:attribute_keys")
             else fail "every_view_stream_collected:missing"
         end.
  Definition why_extra (o : stream) : list tok :=
    let is := instrs_of None ops in
    if existsb (fun si => live si && lenient_differs si &&
                          existsb (fun v => shaped_but_keys v (snd si) (fst si) o)
                                  (views_for lenient_view_applies vs (fst si) (snd si))) is
    then fail "view_applies_iff_selectors_match:unversioned_meter"
    else if existsb (fun si => live si && expected_but_keys si o) is
    then (if existsb (fun si => live si && is_async (i_type (snd si)) && same_keys (st_keys o) keys &&
                                existsb (fun v => shaped_but_keys v (snd si) (fst si) o && negb (is_nil (filter_of v)))
                                        (views_for spec_view_applies vs (fst si) (snd si))) is
          then fail "view_shapes_exactly:attribute_filter_async"
          else fail "view_shapes_exactly:attribute_keys")
    else if existsb (fun si => spec_config r d (fst si) && expected_of spec_view_applies si o) is
    then fail "invalid_is_inert:stream_for_invalid_instrument"
    else if existsb (fun si => spec_instrument_valid (snd si) && expected_of spec_view_applies si o) is
    then fail "disabled_scope_silent:meter_stream"
    else fail "view_shapes_exactly:unexpected_stream".

  Definition spec_met (idx : list nat) (obs : list stream) : list tok :=
    check (meters_ok idx) "same_identity_same_instance:meter" ++
    (if negb (wf_met ops) then []
     else
       (if complete_ok obs then []
        else flat_map (fun si => if live si
                                 then flat_map (fun v => if existsb (shaped v (snd si) (fst si) keys) obs then []
                                                         else why_missing si v obs)
                                               (views_for spec_view_applies vs (fst si) (snd si))
                                 else []) (instrs_of None ops)) ++
       (if sound_ok obs then []
        else flat_map (fun o => if existsb (fun si => live si && expected_of spec_view_applies si o) (instrs_of None ops)
                                then [] else why_extra o) obs)).
End Met.

(* ------------------------------------------------------------------------------------------------ TR *)
Fixpoint number_from {A} (n : nat) (l : list A) : list (nat * A) :=
  match l with [] => [] | x :: l' => (n, x) :: number_from (S n) l' end.

Definition span_eqb (a b : nat * scope_id) : bool := Nat.eqb (fst a) (fst b) && scope_eqb (snd a) (snd b).
Fixpoint list_eqb {A} (eqb : A -> A -> bool) (a b : list A) : bool :=
  match a, b with
  | [], [] => true
  | x :: a', y :: b' => eqb x y && list_eqb eqb a' b'
  | _, _ => false
  end.

Section Tr.
  Variables (r : rules) (d : bool) (ops : list scope_id).
  (* exactly the spans of enabled scopes, each under the scope it was requested with, in order *)
  Definition expected_spans : list (nat * scope_id) := filter (fun ns => spec_config r d (snd ns)) (number_from 0 ops).
  Definition tracers_ok (idx : list nat) : bool := nats_eqb idx (expected_indices scope_eqb ops).
  Definition spans_ok (sp : list (nat * scope_id)) : bool := list_eqb span_eqb sp expected_spans.
  Definition spec_tr (idx : list nat) (sp : list (nat * scope_id)) : list tok :=
    check (tracers_ok idx) "same_identity_same_instance:tracer" ++
    (if spans_ok sp then []
     else if existsb (fun ns => negb (existsb (span_eqb ns) expected_spans) &&
                                match nth_error ops (fst ns) with Some s => negb (spec_config r d s) | None => false end) sp
     then fail "disabled_scope_silent:tracer_span"
     else if existsb (fun ns => negb (existsb (span_eqb ns) sp)) expected_spans
     then fail "others_unaffected:tracer_span_missing"
     else fail "requested_scope_exact:tracer_span").
End Tr.

(* ------------------------------------------------------------------------------------------------ LG *)
(* the attribute list as a finite map: the last value given for a key *)
Fixpoint last_val (k : bytes) (l : attrs) : option aval :=
  match l with
  | [] => None
  | (k', v) :: l' => match last_val k l' with Some w => Some w | None => if bytes_eqb k' k then Some v else None end
  end.
Definition oaval_eqb (a b : option aval) : bool :=
  match a, b with Some x, Some y => aval_eqb x y | None, None => true | _, _ => false end.
Definition attrs_equiv (a b : attrs) : bool :=
  forallb (fun k => oaval_eqb (last_val k a) (last_val k b)) (map fst (a ++ b)).
Definition has_dup_key (a : attrs) : bool := negb (nodup_by bytes_eqb (map fst a)).

(* "the same name/version/schema/attributes" *)
Definition lreq_eqb (a b : lreq) : bool :=
  bytes_eqb (q_name a) (q_name b) && scope_eqb (q_scope a) (q_scope b) && attrs_equiv (q_attrs a) (q_attrs b).

Fixpoint pairs_before {A} (done : list A) (l : list A) : list (A * A) :=
  match l with [] => [] | x :: l' => map (fun y => (y, x)) done ++ pairs_before (done ++ [x]) l' end.

Definition lrec_ok (q : lreq) (rc : lrec) : bool :=
  scope_eqb (r_scope rc) (q_scope q) && attrs_equiv (r_attrs rc) (q_attrs q) &&
  nodup_by bytes_eqb (map fst (r_attrs rc)).

Section Lg.
  Variables (r : rules) (d : bool) (ops : list lreq).
  (* same request => same logger *)
  Definition same_ok (idx : list nat) : bool :=
    Nat.eqb (length idx) (length ops) &&
    forallb (fun p => negb (lreq_eqb (fst (fst p)) (fst (snd p))) || Nat.eqb (snd (fst p)) (snd (snd p)))
            (pairs_before [] (combine ops idx)).
  (* different request => different logger *)
  Definition distinct_ok (idx : list nat) : bool :=
    forallb (fun p => lreq_eqb (fst (fst p)) (fst (snd p)) || negb (Nat.eqb (snd (fst p)) (snd (snd p))))
            (pairs_before [] (combine ops idx)).
  (* exactly the records of enabled scopes, in order, each under the requested scope and attributes *)
  Definition expected_recs : list (nat * lreq) := filter (fun nq => spec_config r d (q_scope (snd nq))) (number_from 0 ops).
  Fixpoint recs_match (e : list (nat * lreq)) (o : list lrec) : bool :=
    match e, o with
    | [], [] => true
    | (n, q) :: e', rc :: o' => Nat.eqb (r_call rc) n && lrec_ok q rc && recs_match e' o'
    | _, _ => false
    end.
  Definition recs_ok (o : list lrec) : bool := recs_match expected_recs o.

  Definition pair_dup (p : (lreq * nat) * (lreq * nat)) : bool :=
    has_dup_key (q_attrs (fst (fst p))) || has_dup_key (q_attrs (fst (snd p))).
  Definition pair_disabled (p : (lreq * nat) * (lreq * nat)) : bool :=
    negb (spec_config r d (q_scope (fst (fst p)))) || negb (spec_config r d (q_scope (fst (snd p)))).

  Definition spec_lg (idx : list nat) (o : list lrec) : list tok :=
    (if same_ok idx then []
     else if negb (Nat.eqb (length idx) (length ops)) then fail "same_identity_same_instance:index_count"
     else flat_map (fun p => if negb (lreq_eqb (fst (fst p)) (fst (snd p))) || Nat.eqb (snd (fst p)) (snd (snd p)) then []
                             else if pair_dup p then fail "same_identity_same_instance:duplicate_attribute_key"
                             else if pair_disabled p then fail "same_identity_same_instance:disabled_logger"
                             else fail "same_identity_same_instance:logger")
                   (pairs_before [] (combine ops idx))) ++
    (if distinct_ok idx then []
     else flat_map (fun p => if lreq_eqb (fst (fst p)) (fst (snd p)) || negb (Nat.eqb (snd (fst p)) (snd (snd p))) then []
                             else if pair_dup p then fail "requested_scope_exact:duplicate_attribute_key_instance"
                             else if pair_disabled p then fail "requested_scope_exact:disabled_logger_instance"
                             else fail "requested_scope_exact:logger_instance")
                   (pairs_before [] (combine ops idx))) ++
    (if recs_ok o then []
     else if existsb (fun rc => match nth_error ops (r_call rc) with
                                | Some q => negb (spec_config r d (q_scope q))
                                | None => true end) o
     then fail "disabled_scope_silent:logger_record"
     else if negb (Nat.eqb (length o) (length expected_recs))
     then fail "others_unaffected:logger_record_missing"
     else if existsb (fun rc => match nth_error ops (r_call rc) with
                                | Some q => negb (lrec_ok q rc) && has_dup_key (q_attrs q)
                                | None => false end) o
     then fail "requested_scope_exact:duplicate_attribute_key_record"
     else fail "requested_scope_exact:logger_record").
End Lg.

(* ------------------------------------------------------------------------------------------------ PRACE *)
(* Concurrent requests to one provider (two or three threads under the deterministic scheduler, the interleaving is part of
   the case).  The observation lists, for the requests in script order (thread 0's, thread 1's, ...) and then for the same
   requests repeated single-threaded after all threads have finished: the instance (numbered by first appearance in that
   order), whether the instance produced telemetry, and the scope (and scope attributes) the instance reports.
   Whatever the interleaving: same identity <=> same instance, every instance carries the requested scope, and it is
   enabled exactly when the configurator says so.  In particular the provider registers one instance per identity. *)
Record hobs := mk_hobs { h_class : nat; h_enabled : bool; h_scope : scope_id; h_attrs : attrs }.
Fixpoint bools_eqb (a b : list bool) : bool :=
  match a, b with
  | [], [] => true
  | x :: a', y :: b' => Bool.eqb x y && bools_eqb a' b'
  | _, _ => false
  end.
Definition prace_scopes_ok (reqs : list lreq) (obs : list hobs) : bool :=
  Nat.eqb (length obs) (length reqs) &&
  forallb (fun qo => scope_eqb (h_scope (snd qo)) (q_scope (fst qo)) && attrs_equiv (h_attrs (snd qo)) (q_attrs (fst qo)))
          (combine reqs obs).
Definition spec_prace (r : rules) (d : bool) (threads : list (list lreq)) (obs : list hobs) : list tok :=
  let script := concat threads in
  let reqs := script ++ script in
  check (nats_eqb (map h_class obs) (expected_indices lreq_eqb reqs)) "same_identity_same_instance:concurrent" ++
  check (prace_scopes_ok reqs obs) "requested_scope_exact:concurrent" ++
  check (bools_eqb (map h_enabled obs) (map (fun q => spec_config r d (q_scope q)) reqs)) "disabled_scope_silent:concurrent".

(* ------------------------------------------------------------------------------------------------ single checks *)
(* [obs] is the validator of this build (std::regex); [obs_nr] the hand-written variant of the same source file
   (None = not called: it reads name[0] before looking at the size, so the driver does not call it on an empty view) *)
Definition spec_name (s : bytes) (obs : bool) (obs_nr : option bool) : list tok :=
  (if Bool.eqb obs (spec_name_valid s) then []
   else if obs then fail "name_valid_iff:invalid_accepted" else fail "name_valid_iff:valid_rejected") ++
  match obs_nr with
  | None => check (is_nil s) "variants_agree:handwritten_name_not_called"
  | Some b => check (Bool.eqb b (spec_name_valid s)) "variants_agree:handwritten_name"
  end.
Definition has_nul (s : bytes) : bool := existsb (fun b => Byte.eqb b x00) s.
Definition spec_unit (s : bytes) (obs : bool) (obs_nr : bool) : list tok :=
  (if Bool.eqb obs (spec_unit_valid s) then []
   else if obs then fail "unit_valid_iff:invalid_accepted" else fail "unit_valid_iff:valid_rejected") ++
  (if Bool.eqb obs_nr (spec_unit_valid s) then []
   else if has_nul s then fail "variants_agree:handwritten_unit_embedded_nul" else fail "variants_agree:handwritten_unit").
(* kind: true = name selector (pattern), false = exact selector *)
Definition spec_pred (pattern_kind : bool) (raw s : bytes) (obs : bool) : list tok :=
  if pattern_kind then
    match name_sel_of raw with
    | Some n => check (Bool.eqb obs (spec_name_sel n s)) "view_applies_iff_selectors_match:name_pattern"
    | None => []
    end
  else check (Bool.eqb obs (sel_eq raw s)) "view_applies_iff_selectors_match:exact_selector".
