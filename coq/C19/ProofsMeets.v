(* C19 proofs, part 6: the model meets the spec (per case kind), and the refutations with their witnesses. *)
From V Require Import C19.Glue C19.ProofsBase C19.ProofsNames C19.ProofsViews C19.ProofsScopes C19.ProofsLoggers C19.ProofsMeters.
From Coq Require Import Lia ZifyBool ZifyNat ZifyN.

(* ---------- single checks *)
Lemma model_meets_spec_name : forall s, spec_name s (validate_name s) (validate_name_nr s) = [].
Proof.
  intros s. unfold spec_name. rewrite validate_name_spec, Bool.eqb_reflx. cbn [app].
  destruct s as [|c t]; [reflexivity|]. rewrite validate_name_nr_spec by discriminate. now rewrite Bool.eqb_reflx.
Qed.
Lemma model_meets_spec_unit : forall s, has_nul s = false -> spec_unit s (validate_unit s) (validate_unit_nr s) = [].
Proof.
  intros s H. unfold spec_unit. rewrite validate_unit_spec, validate_unit_nr_spec by assumption. now rewrite Bool.eqb_reflx.
Qed.
Lemma unit_variants_refuted : spec_unit [x6d; x00] (validate_unit [x6d; x00]) (validate_unit_nr [x6d; x00])
                              = fail "variants_agree:handwritten_unit_embedded_nul".
Proof. vm_compute. reflexivity. Qed.
Lemma model_meets_spec_pred : forall k raw s b, pred_model k raw s = Some b -> spec_pred k raw s b = [].
Proof.
  intros k raw s b. unfold pred_model, spec_pred. destruct k.
  - destruct (name_sel_of raw) as [n|]; cbn; [|discriminate]. intros H. injection H as <-.
    rewrite name_sel_match_spec. now destruct (spec_name_sel n s).
  - intros H. injection H as <-. rewrite exact_match_sel_eq. now destruct (sel_eq raw s).
Qed.

(* ---------- metrics cases *)
Record met_good (r : rules) (d : bool) (vs : list view) (keys : list bytes) (ops : list mop) : Prop := {
  g_wf : wf_met ops = true;
  g_agg : forall v, In v vs -> (v_agg v <= 4)%N;
  g_ity : forall s i, In (s, i) (instrs_of None ops) -> (i_type i <= 6)%N;
  (* the meter declares every field a view's meter selector asks for (else F23) *)
  g_strict : forall s i v, In (s, i) (instrs_of None ops) -> In v vs ->
             (sc_ver s <> [] \/ v_mver v = []) /\ (sc_schema s <> [] \/ v_mschema v = []);
  (* at most one view applies to an instrument (else F14) *)
  g_one : forall s i, In (s, i) (instrs_of None ops) -> (length (filter (fun v => view_applies v s i) vs) <= 1)%nat;
  (* no attribute filter on an observable instrument (else F22) *)
  g_filter : forall s i v, In (s, i) (instrs_of None ops) -> In v vs -> view_applies v s i = true ->
             is_async (i_type i) = false \/ v_filter v = None }.

Lemma live_model : forall r d si,
  live r d si = compute_config r d (fst si) && validate_instrument (i_name (snd si)) (i_unit (snd si)).
Proof.
  intros r d [s i]. unfold live, spec_instrument_valid, validate_instrument. cbn [fst snd].
  now rewrite compute_config_spec, validate_name_spec, validate_unit_spec.
Qed.

Section MetGood.
  Variables (r : rules) (d : bool) (vs : list view) (keys : list bytes) (ops : list mop).
  Hypothesis G : met_good r d vs keys ops.

  Lemma views_agree : forall s i, In (s, i) (instrs_of None ops) -> find_views vs s i = views_for spec_view_applies vs s i.
  Proof.
    intros s i Hin. unfold find_views, views_for.
    rewrite (filter_ext_in (fun v => view_applies v s i) (fun v => spec_view_applies v s i)).
    - destruct (filter (fun v => spec_view_applies v s i) vs); reflexivity.
    - intros v Hv. destruct (g_strict _ _ _ _ _ G s i v Hin Hv) as [H1 H2]. now apply view_applies_partial.
  Qed.

  (* exactly one view (a registered one or the default) shapes each instrument, and it shapes it as stated *)
  Lemma the_view : forall s i, In (s, i) (instrs_of None ops) ->
    exists v, find_views vs s i = [v] /\ shaped v i s keys (final_stream vs keys s i) = true.
  Proof.
    intros s i Hin. pose proof (g_one _ _ _ _ _ G s i Hin) as L1. unfold final_stream, find_views.
    destruct (filter (fun v => view_applies v s i) vs) as [|v [|w l]] eqn:F; cbn in L1; [| |lia].
    - exists default_view. split; [reflexivity|]. cbn [is_nil last]. apply stream_shaped; [cbn; lia | eapply g_ity; eassumption | now right].
    - exists v. split; [reflexivity|]. cbn [is_nil last].
      assert (Hv : In v (filter (fun v => view_applies v s i) vs)) by (rewrite F; now left). apply filter_In in Hv as [Hv Ha].
      apply stream_shaped; [eapply g_agg; eassumption | eapply g_ity; eassumption | eapply g_filter; eassumption].
  Qed.

  Lemma complete_ok_lemma : complete_ok r d vs keys ops (snd (run_met r d vs keys ops)) = true.
  Proof.
    unfold complete_ok. apply forallb_forall. intros [s i] Hin. rewrite live_model. cbn [fst snd].
    destruct (compute_config r d s && validate_instrument (i_name i) (i_unit i)) eqn:L; [|reflexivity]. cbn [negb orb].
    apply andb_true_iff in L as [C V]. rewrite <- views_agree by assumption.
    destruct (the_view s i Hin) as (v & -> & Hsh). cbn [forallb]. rewrite andb_true_r. apply existsb_exists.
    exists (final_stream vs keys s i). split; [|assumption].
    apply collected_iff; [apply (g_wf _ _ _ _ _ G)|]. exists s, i. auto.
  Qed.

  Lemma sound_ok_lemma : sound_ok r d vs keys ops (snd (run_met r d vs keys ops)) = true.
  Proof.
    unfold sound_ok. apply forallb_forall. intros o Ho. apply collected_iff in Ho; [|apply (g_wf _ _ _ _ _ G)].
    destruct Ho as (s & i & Hin & C & V & ->). apply existsb_exists. exists (s, i). split; [assumption|].
    rewrite live_model. cbn [fst snd]. rewrite C, V. cbn [andb]. unfold expected_of. cbn [fst snd].
    rewrite <- views_agree by assumption. destruct (the_view s i Hin) as (v & -> & Hsh). cbn [existsb]. now rewrite Hsh.
  Qed.

  Lemma model_meets_spec_met : spec_met r d vs keys ops (fst (run_met r d vs keys ops)) (snd (run_met r d vs keys ops)) = [].
  Proof.
    unfold spec_met. rewrite meters_ok_lemma. cbn [check app]. rewrite (g_wf _ _ _ _ _ G). cbn [negb].
    now rewrite complete_ok_lemma, sound_ok_lemma.
  Qed.
End MetGood.

(* a case that meets all hypotheses, with a view that applies, a default stream, an invalid name and a disabled meter *)
Definition good_example_views : list view :=
  [mk_view 0 (NPat [(ALit x72, false); (ADot, true)]) [] (bs "m") [] [] (bs "renamed") (bs "d") 3 (Some [bs "k1"])].
Definition good_example_ops : list mop :=
  [MGet (mk_scope (bs "m") (bs "1.0") []); MInst (mk_instr 0 0 (bs "req.count") [] []); MInst (mk_instr 1 1 (bs "lat") [] (bs "ms"));
   MInst (mk_instr 0 0 (bs "1bad") [] []); MGet (mk_scope (bs "off") [] []); MInst (mk_instr 0 0 (bs "x") [] [])].
Example met_good_nonvacuous :
  met_good [(CName (bs "off"), false)] true good_example_views [bs "k1"; bs "k2"] good_example_ops /\
  map st_name (snd (run_met [(CName (bs "off"), false)] true good_example_views [bs "k1"; bs "k2"] good_example_ops)) = [bs "lat"; bs "renamed"].
Proof.
  split; [|vm_compute; reflexivity]. constructor.
  - vm_compute. reflexivity.
  - intros v [<- | []]. vm_compute. discriminate.
  - intros s i H. cbn in H. repeat (destruct H as [H | H]; [injection H as <- <-; vm_compute; discriminate|]). destruct H.
  - intros s i v H [<- | []]. cbn. split; right; reflexivity.
  - intros s i H. cbn in H. repeat (destruct H as [H | H]; [injection H as <- <-; vm_compute; lia|]). destruct H.
  - intros s i v H [<- | []] Ha. cbn in H.
    repeat (destruct H as [H | H]; [injection H as <- <-; first [now left | vm_compute in Ha; discriminate Ha]|]). destruct H.
Qed.

(* ---------- F14: two views, one instrument - only the last view's stream is collected *)
Definition f14_views : list view :=
  [mk_view 0 NAll [] [] [] [] (bs "v1") [] 4 None; mk_view 0 NAll [] [] [] [] (bs "v2") [] 4 None].
Definition f14_ops : list mop := [MGet (mk_scope (bs "m") [] []); MInst (mk_instr 0 0 (bs "c1") [] [])].
Lemma every_view_stream_collected_refuted :
  map st_name (snd (run_met [] true f14_views [] f14_ops)) = [bs "v2"] /\
  complete_ok [] true f14_views [] f14_ops (snd (run_met [] true f14_views [] f14_ops)) = false /\
  spec_met [] true f14_views [] f14_ops (fst (run_met [] true f14_views [] f14_ops)) (snd (run_met [] true f14_views [] f14_ops))
    = fail "every_view_stream_collected:two_views".
Proof. vm_compute. auto. Qed.

(* F22 and F23 at the level of a whole case *)
Lemma async_filter_refuted :
  let vs := [mk_view 3 NAll [] [] [] [] (bs "v1") [] 4 (Some [bs "k1"])] in
  let ops := [MGet (mk_scope (bs "m") [] []); MInst (mk_instr 3 0 (bs "o1") [] [])] in
  spec_met [] true vs [bs "k1"; bs "k2"] ops (fst (run_met [] true vs [bs "k1"; bs "k2"] ops)) (snd (run_met [] true vs [bs "k1"; bs "k2"] ops))
  = fail "view_shapes_exactly:attribute_filter_async" ++ fail "view_shapes_exactly:attribute_filter_async".
Proof. vm_compute. reflexivity. Qed.
Lemma unversioned_meter_refuted :
  let ops := [MGet (mk_scope (bs "m") [] []); MInst (mk_instr 0 0 (bs "c1") [] [])] in
  spec_met [] true [f23_view] [] ops (fst (run_met [] true [f23_view] [] ops)) (snd (run_met [] true [f23_view] [] ops))
  = fail "view_applies_iff_selectors_match:unversioned_meter" ++ fail "view_applies_iff_selectors_match:unversioned_meter".
Proof. vm_compute. reflexivity. Qed.

(* ---------- concurrent requests (PRACE): the model is the sequential registry on the script, and it meets the spec *)
Definition shaped_req (q : lreq) : Prop := q_name q = [] /\ q_attrs q = [].
Definition prace_good (kind : N) (threads : list (list lreq)) : Prop :=
  kind = 2%N \/ Forall (Forall shaped_req) threads.

Lemma expected_indices_map : forall {A B} (P : A -> Prop) (f : A -> B) (eqb1 : A -> A -> bool) (eqb2 : B -> B -> bool) l,
  (forall x y, P x -> P y -> eqb2 (f x) (f y) = eqb1 x y) -> Forall P l ->
  expected_indices eqb2 (map f l) = expected_indices eqb1 l.
Proof.
  intros A B P f eqb1 eqb2 l H HP. unfold expected_indices. rewrite map_map. apply map_ext_in. intros x Hx.
  assert (Px : P x) by (rewrite Forall_forall in HP; auto).
  clear Hx. induction HP as [|y l Py HP IH]; [reflexivity|]. cbn. rewrite (H y x Py Px). now rewrite IH.
Qed.

Lemma shaped_lreq_eqb : forall x y, shaped_req x -> shaped_req y -> scope_eqb (q_scope x) (q_scope y) = lreq_eqb x y.
Proof. intros x y [Hx1 Hx2] [Hy1 Hy2]. unfold lreq_eqb. rewrite Hx1, Hy1, Hx2, Hy2. cbn. now rewrite andb_true_r. Qed.

Lemma gets_of_map : forall (reqs : list lreq), gets_of (map (fun q => MGet (q_scope q)) reqs) = map q_scope reqs.
Proof. induction reqs as [|q reqs IH]; cbn; [reflexivity | now rewrite IH]. Qed.

Lemma prace_indices_spec : forall kind r d reqs, (kind = 2%N \/ Forall shaped_req reqs) ->
  prace_indices kind r d reqs = expected_indices lreq_eqb reqs.
Proof.
  intros kind r d reqs H. unfold prace_indices.
  destruct (kind =? 0)%N eqn:K0; [|destruct (kind =? 1)%N eqn:K1].
  - destruct H as [-> | H]; [discriminate|].
    rewrite (proj1 (nats_eqb_eq _ _) (tracers_ok_lemma r d (map q_scope reqs))).
    apply (expected_indices_map shaped_req); [apply shaped_lreq_eqb | assumption].
  - destruct H as [-> | H]; [discriminate|].
    rewrite (proj1 (nats_eqb_eq _ _) (meters_ok_lemma r d [] [] _)), gets_of_map.
    apply (expected_indices_map shaped_req); [apply shaped_lreq_eqb | assumption].
  - apply lg_indices.
Qed.

Lemma combine_map_fst : forall {A B} (a : list A) (b : list B), length a = length b -> map fst (combine a b) = a.
Proof. intros A B a. induction a as [|x a IH]; intros [|y b] H; cbn in *; try reflexivity; try discriminate. f_equal. apply IH. lia. Qed.
Lemma combine_map_snd : forall {A B} (a : list A) (b : list B), length a = length b -> map snd (combine a b) = b.
Proof. intros A B a. induction a as [|x a IH]; intros [|y b] H; cbn in *; try reflexivity; try discriminate. f_equal. apply IH. lia. Qed.
Lemma bools_eqb_refl : forall l, bools_eqb l l = true.
Proof. induction l as [|b l IH]; cbn; [reflexivity|]. now rewrite Bool.eqb_reflx, IH. Qed.

Lemma model_meets_spec_prace : forall kind r d threads, prace_good kind threads ->
  spec_prace r d threads (prace_model kind r d threads) = [].
Proof.
  intros kind r d threads G. unfold spec_prace, prace_model.
  set (reqs := concat threads ++ concat threads).
  assert (HI : prace_indices kind r d reqs = expected_indices lreq_eqb reqs).
  { apply prace_indices_spec. destruct G as [G | G]; [now left | right].
    assert (F : Forall shaped_req (concat threads)).
    { induction G as [|t ts Ht G IH]; cbn; [constructor | apply Forall_app; auto]. }
    unfold reqs. apply Forall_app. auto. }
  assert (HL : length (prace_indices kind r d reqs) = length reqs) by (rewrite HI; unfold expected_indices; apply map_length).
  set (idx := prace_indices kind r d reqs) in *.
  assert (E1 : map h_class (map (fun iq => mk_hobs (fst iq) (compute_config r d (q_scope (snd iq))) (q_scope (snd iq)) (amap_of (q_attrs (snd iq))))
                                (combine idx reqs)) = idx).
  { rewrite map_map. cbn [h_class]. now apply combine_map_fst. }
  assert (E3 : map h_enabled (map (fun iq => mk_hobs (fst iq) (compute_config r d (q_scope (snd iq))) (q_scope (snd iq)) (amap_of (q_attrs (snd iq))))
                                  (combine idx reqs)) = map (fun q => spec_config r d (q_scope q)) reqs).
  { rewrite map_map. cbn [h_enabled]. rewrite <- (combine_map_snd idx reqs HL) at 2. rewrite map_map.
    apply map_ext. intros iq. apply compute_config_spec. }
  assert (E2 : prace_scopes_ok reqs (map (fun iq => mk_hobs (fst iq) (compute_config r d (q_scope (snd iq))) (q_scope (snd iq)) (amap_of (q_attrs (snd iq))))
                                        (combine idx reqs)) = true).
  { unfold prace_scopes_ok. rewrite map_length, combine_length, HL, Nat.min_id, Nat.eqb_refl. cbn [andb].
    clear HI E1 E3. clearbody idx. revert idx HL. generalize reqs. induction reqs0 as [|q qs IH]; intros [|i idx] HL;
      cbn [combine map forallb fst snd h_scope h_attrs length] in *; try reflexivity; try discriminate.
    rewrite scope_eqb_refl. cbn [andb].
    assert (A : attrs_equiv (amap_of (q_attrs q)) (q_attrs q) = true) by (apply attrs_equiv_iff; intros k; apply last_val_amap_of).
    rewrite A. cbn [andb]. apply IH. lia. }
  rewrite E1, E2, E3, HI, bools_eqb_refl. now rewrite (proj2 (nats_eqb_eq _ _) eq_refl).
Qed.

Example prace_nonvacuous :
  let q := lreq_of_scope (mk_scope (bs "l") (bs "1") []) in
  prace_good 0 [[q]; [q]] /\ map h_class (prace_model 0 [] true [[q]; [q]]) = [0; 0; 0; 0]%nat.
Proof. cbn. split; [right; repeat constructor | vm_compute; reflexivity]. Qed.

(* ---------- the whole extracted checker on the model's own output *)
Definition case_good (c : case) : Prop :=
  match c with
  | CNameC _ | CTr _ _ _ | CLg _ _ _ | CPur => True
  | CUnitC s => has_nul s = false
  | CPred k raw s => pred_model k raw s <> None
  | CMet r d vs keys ops => met_good r d vs keys ops
  | CPrace kind r d threads => prace_good kind threads
  end.
Definition model_obs (c : case) : list tok :=
  match c with
  | CNameC s => [tag "N"; tbool (validate_name s); print_obool (validate_name_nr s)]
  | CUnitC s => [tag "U"; tbool (validate_unit s); tbool (validate_unit_nr s)]
  | CPred k raw s => match pred_model k raw s with Some b => [tag "P"; tbool b] | None => bad_case end
  | CMet r d vs keys ops => print_met (run_met r d vs keys ops)
  | CTr r d ops => print_tr (run_tr r d ops)
  | CLg r d ops => print_lg (run_lg r d ops)
  | CPrace kind r d threads => flat_map print_hobs (prace_model kind r d threads)
  | CPur => [tag "PURE"]
  end.
Definition spec_on (c : case) : list tok :=
  match c with
  | CNameC s => spec_name s (validate_name s) (validate_name_nr s)
  | CUnitC s => spec_unit s (validate_unit s) (validate_unit_nr s)
  | CPred k raw s => match pred_model k raw s with Some b => spec_pred k raw s b | None => [] end
  | CMet r d vs keys ops => spec_met r d vs keys ops (fst (run_met r d vs keys ops)) (snd (run_met r d vs keys ops))
  | CTr r d ops => spec_tr r d ops (ts_out (run_tr r d ops)) (ts_spans (run_tr r d ops))
  | CLg r d ops => spec_lg r d ops (ls_out (run_lg r d ops)) (ls_recs (run_lg r d ops))
  | CPrace kind r d threads => spec_prace r d threads (prace_model kind r d threads)
  | CPur => spec_purity [tag "PURE"]
  end.

Lemma model_meets_spec_lemma : forall c, case_good c -> spec_on c = [].
Proof.
  intros [s | s | k raw s | r d vs keys ops | r d ops | r d ops | kind r d threads |] H; cbn [spec_on].
  - apply model_meets_spec_name.
  - now apply model_meets_spec_unit.
  - destruct (pred_model k raw s) eqn:E; [now apply model_meets_spec_pred | reflexivity].
  - now apply model_meets_spec_met.
  - apply model_meets_spec_tr.
  - apply model_meets_spec_lg.
  - now apply model_meets_spec_prace.
  - reflexivity.
Qed.
