(* C19 proofs, part 3: scope configurator, the generic "find or create" registry, TracerProvider. *)
From V Require Import C19.Spec C19.ProofsBase.
From Coq Require Import Lia ZifyBool ZifyNat ZifyN.

(* ---------- ScopeConfigurator: first matching condition wins, default otherwise *)
Lemma compute_config_spec : forall r d s, compute_config r d s = spec_config r d s.
Proof.
  intros r d s. unfold spec_config. induction r as [|[c e] r IH]; [reflexivity|].
  cbn [compute_config find fst]. destruct (cond_match c s); [reflexivity | exact IH].
Qed.

Lemma configurator_first_match_lemma : forall r d s,
  (exists pre c e post, r = pre ++ (c, e) :: post /\ (forall x, In x pre -> cond_match (fst x) s = false) /\
                        cond_match c s = true /\ compute_config r d s = e) \/
  ((forall x, In x r -> cond_match (fst x) s = false) /\ compute_config r d s = d).
Proof.
  intros r d s. induction r as [|[c e] r IH].
  - right. split; [intros x []|reflexivity].
  - cbn [compute_config]. destruct (cond_match c s) eqn:E.
    + left. exists [], c, e, r. repeat split; auto. intros x [].
    + destruct IH as [(pre & c' & e' & post & -> & H1 & H2 & H3) | [H1 H2]].
      * left. exists ((c, e) :: pre), c', e', post. repeat split; auto.
        intros x [<- | Hx]; [exact E | now apply H1].
      * right. split; [|exact H2]. intros x [<- | Hx]; [exact E | now apply H1].
Qed.

Example configurator_first_match_nonvacuous :
  let r := [(CName (bs "a"), false); (CHasVer, true); (CName (bs "a"), true)] in
  compute_config r false (mk_scope (bs "a") (bs "1") []) = false /\      (* first rule, although the later ones say enabled *)
  compute_config r false (mk_scope (bs "b") (bs "1") []) = true /\       (* second rule *)
  compute_config r false (mk_scope (bs "b") [] []) = false.              (* default *)
Proof. vm_compute. auto. Qed.

(* ---------- find-or-create registries: the index printed for a request is the position of the first equivalent request *)
Lemma first_pos_app_in : forall {A} (eqb : A -> A -> bool) x l l',
  existsb (fun y => eqb y x) l = true -> first_pos eqb x (l ++ l') = first_pos eqb x l.
Proof.
  intros A eqb x l l'. induction l as [|y l IH]; cbn; [discriminate|].
  destruct (eqb y x); [reflexivity|]. cbn. intros H. now rewrite IH.
Qed.
Lemma first_pos_app_notin : forall {A} (eqb : A -> A -> bool) x l l',
  existsb (fun y => eqb y x) l = false -> first_pos eqb x (l ++ l') = (length l + first_pos eqb x l')%nat.
Proof.
  intros A eqb x l l'. induction l as [|y l IH]; cbn; [reflexivity|].
  destruct (eqb y x); [discriminate|]. cbn. intros H. now rewrite IH.
Qed.
Lemma first_pos_lt : forall {A} (eqb : A -> A -> bool) x l,
  existsb (fun y => eqb y x) l = true -> (first_pos eqb x l < length l)%nat.
Proof.
  intros A eqb x l. induction l as [|y l IH]; cbn; [discriminate|].
  destruct (eqb y x); [lia|]. cbn. intros H. apply IH in H. lia.
Qed.
Lemma first_pos_nth : forall {A} (eqb : A -> A -> bool) x l,
  existsb (fun y => eqb y x) l = true -> exists y, nth_error l (first_pos eqb x l) = Some y /\ eqb y x = true.
Proof.
  intros A eqb x l. induction l as [|y l IH]; cbn; [discriminate|].
  destruct (eqb y x) eqn:E; [exists y; auto|]. cbn. exact IH.
Qed.
Lemma first_pos_before : forall {A} (eqb : A -> A -> bool) x l j y,
  nth_error l j = Some y -> (j < first_pos eqb x l)%nat -> eqb y x = false.
Proof.
  intros A eqb x l. induction l as [|z l IH]; intros j y Hn Hj; [destruct j; discriminate|].
  cbn in Hj. destruct (eqb z x) eqn:E; [lia|]. destruct j; cbn in Hn.
  - now injection Hn as <-.
  - apply (IH j y Hn). lia.
Qed.

Section Registry.
  Variables (E Q : Type).
  Variable matches : Q -> E -> bool.
  Variable mk : Q -> nat -> E.
  Variable first : E -> nat.
  Variable eqv : Q -> Q -> bool.
  Variable P : Q -> Prop.
  Hypothesis eqv_refl : forall a, P a -> eqv a a = true.
  Hypothesis eqv_sym : forall a b, P a -> P b -> eqv a b = true -> eqv b a = true.
  Hypothesis eqv_trans : forall a b c, P a -> P b -> P c -> eqv a b = true -> eqv b c = true -> eqv a c = true.
  Hypothesis mk_first : forall q n, first (mk q n) = n.
  Hypothesis mk_matches : forall q' n q, P q' -> P q -> matches q (mk q' n) = eqv q' q.

  Definition gstep (st : list E * nat * list nat) (q : Q) : list E * nat * list nat :=
    let '(es, n, out) := st in
    match find (matches q) es with
    | Some e => (es, S n, out ++ [first e])
    | None => (es ++ [mk q n], S n, out ++ [n])
    end.
  Definition grun (ops : list Q) : list E * nat * list nat := fold_left gstep ops ([], 0%nat, []).

  (* an entry behaves like its creating request, which is the first of its class *)
  Definition entry_ok (prefix : list Q) (e : E) : Prop :=
    exists q', nth_error prefix (first e) = Some q' /\ P q' /\ (forall q, P q -> matches q e = eqv q' q) /\
               first_pos eqv q' prefix = first e.
  Definition ginv (prefix : list Q) (st : list E * nat * list nat) : Prop :=
    let '(es, n, out) := st in
    n = length prefix /\ out = expected_indices eqv prefix /\
    (forall e, In e es -> entry_ok prefix e) /\
    (forall q', In q' prefix -> exists e, In e es /\ first e = first_pos eqv q' prefix).

  Lemma eqv_same_class : forall a b x, P a -> P b -> P x -> eqv a b = true -> eqv x a = eqv x b.
  Proof.
    intros a b x Pa Pb Px H. destruct (eqv x a) eqn:E1, (eqv x b) eqn:E2; try reflexivity.
    - rewrite (eqv_trans x a b Px Pa Pb E1 H) in E2. discriminate.
    - rewrite (eqv_trans x b a Px Pb Pa E2 (eqv_sym a b Pa Pb H)) in E1. discriminate.
  Qed.
  Lemma first_pos_same_class : forall a b l, Forall P l -> P a -> P b -> eqv a b = true -> first_pos eqv a l = first_pos eqv b l.
  Proof.
    intros a b l Hl Pa Pb H. induction Hl as [|x l Px Hl IH]; [reflexivity|]. cbn.
    rewrite (eqv_same_class a b x Pa Pb Px H). destruct (eqv x b); [reflexivity | now rewrite IH].
  Qed.

  Lemma expected_indices_snoc : forall l q, Forall P l ->
    expected_indices eqv (l ++ [q]) = expected_indices eqv l ++ [first_pos eqv q (l ++ [q])].
  Proof.
    intros l q Hl. unfold expected_indices. rewrite map_app. cbn [map]. f_equal.
    apply map_ext_in. intros x Hx. apply first_pos_app_in. apply existsb_exists. exists x. split; [assumption|].
    apply eqv_refl. rewrite Forall_forall in Hl. now apply Hl.
  Qed.

  Lemma gstep_inv : forall prefix st q, Forall P prefix -> P q -> ginv prefix st -> ginv (prefix ++ [q]) (gstep st q).
  Proof.
    intros prefix [[es n] out] q Hp Pq (Hn & Hout & Hes & Hcl). unfold gstep.
    assert (Hp' : forall x, In x prefix -> P x) by (now apply Forall_forall).
    destruct (find (matches q) es) as [e|] eqn:F.
    - (* answered by an existing entry *)
      apply find_some in F as [He Hm]. destruct (Hes e He) as (q' & Hnth & Pq' & Hmatch & Hfirst).
      rewrite (Hmatch q Pq) in Hm.
      assert (Hin' : In q' prefix) by (eapply nth_error_In; eassumption).
      assert (Hex : existsb (fun y => eqv y q) prefix = true).
      { apply existsb_exists. exists q'. auto. }
      assert (Hpos : first_pos eqv q (prefix ++ [q]) = first e).
      { rewrite first_pos_app_in by assumption. rewrite <- Hfirst. symmetry. now apply first_pos_same_class. }
      unfold ginv. repeat split.
      + rewrite app_length. cbn. lia.
      + rewrite expected_indices_snoc by assumption. now rewrite Hout, Hpos.
      + intros e' He'. destruct (Hes e' He') as (q'' & Hnth' & Pq'' & Hmatch' & Hfirst').
        exists q''. repeat split; auto.
        * rewrite nth_error_app1; [assumption|]. apply nth_error_Some. congruence.
        * rewrite first_pos_app_in; [assumption|]. apply existsb_exists. exists q''. split; [eapply nth_error_In; eassumption | now apply eqv_refl].
      + intros x Hx. apply in_app_or in Hx as [Hx | [<- | []]].
        * destruct (Hcl x Hx) as (e' & He' & Hf'). exists e'. split; [assumption|]. rewrite first_pos_app_in; [assumption|].
          apply existsb_exists. exists x. split; [assumption | apply eqv_refl; auto].
        * exists e. split; [assumption|]. now rewrite Hpos.
    - (* a new entry *)
      assert (Hno : forall x, In x prefix -> eqv x q = false).
      { intros x Hx. destruct (Hcl x Hx) as (e & He & Hf). destruct (Hes e He) as (q' & Hnth & Pq' & Hmatch & Hfirst).
        pose proof (find_none _ _ F e He) as Hm. cbn in Hm. rewrite (Hmatch q Pq) in Hm.
        assert (Hxq' : eqv q' x = true).
        { assert (Hex : existsb (fun y => eqv y x) prefix = true).
          { apply existsb_exists. exists x. split; [assumption | apply eqv_refl; auto]. }
          destruct (first_pos_nth eqv x prefix Hex) as (y & Hy & Hyx). rewrite <- Hf, Hnth in Hy. now injection Hy as <-. }
        destruct (eqv x q) eqn:Exq; [|reflexivity].
        rewrite (eqv_trans q' x q Pq' (Hp' x Hx) Pq Hxq' Exq) in Hm. discriminate. }
      assert (Hex : existsb (fun y => eqv y q) prefix = false).
      { apply not_true_is_false. intros H. apply existsb_exists in H as (x & Hx & Hxq). rewrite (Hno x Hx) in Hxq. discriminate. }
      assert (Hpos : first_pos eqv q (prefix ++ [q]) = n).
      { rewrite first_pos_app_notin by assumption. cbn. rewrite (eqv_refl q Pq). lia. }
      unfold ginv. repeat split.
      + rewrite app_length. cbn. lia.
      + rewrite expected_indices_snoc by assumption. now rewrite Hout, Hpos.
      + intros e' He'. apply in_app_or in He' as [He' | [<- | []]].
        * destruct (Hes e' He') as (q'' & Hnth' & Pq'' & Hmatch' & Hfirst').
          exists q''. repeat split; auto.
          -- rewrite nth_error_app1; [assumption|]. apply nth_error_Some. congruence.
          -- rewrite first_pos_app_in; [assumption|]. apply existsb_exists. exists q''. split; [eapply nth_error_In; eassumption | now apply eqv_refl].
        * exists q. rewrite mk_first. split; [|split; [|split]].
          -- rewrite nth_error_app2 by lia. rewrite Hn, Nat.sub_diag. reflexivity.
          -- exact Pq.
          -- intros x Px. now apply mk_matches.
          -- exact Hpos.
      + intros x Hx. apply in_app_or in Hx as [Hx | [<- | []]].
        * destruct (Hcl x Hx) as (e' & He' & Hf'). exists e'. split; [apply in_or_app; now left|]. rewrite first_pos_app_in; [assumption|].
          apply existsb_exists. exists x. split; [assumption | apply eqv_refl; auto].
        * exists (mk q n). split; [apply in_or_app; right; now left|]. now rewrite mk_first, Hpos.
  Qed.

  Lemma grun_inv : forall ops, Forall P ops -> ginv ops (grun ops).
  Proof.
    intros ops. unfold grun. induction ops as [|q ops IH] using rev_ind; intros H.
    - cbn. repeat split; auto; intros ? [].
    - apply Forall_app in H as [H1 H2]. inversion H2; subst. rewrite fold_left_app. cbn [fold_left].
      apply gstep_inv; auto.
  Qed.

  Theorem grun_out : forall ops, Forall P ops -> snd (grun ops) = expected_indices eqv ops.
  Proof. intros ops H. pose proof (grun_inv ops H) as I. destruct (grun ops) as [[es n] out]. cbn. now destruct I as (_ & -> & _). Qed.
End Registry.

(* consequences of "index = position of the first equivalent request" *)
Lemma expected_indices_same : forall {A} (eqb : A -> A -> bool) (P : A -> Prop) l i j a b,
  (forall x y z, P x -> P y -> P z -> eqb x y = true -> eqb z x = eqb z y) ->
  Forall P l -> nth_error l i = Some a -> nth_error l j = Some b -> eqb a b = true ->
  nth_error (expected_indices eqb l) i = nth_error (expected_indices eqb l) j.
Proof.
  intros A eqb P l i j a b Hcl Hl Hi Hj Hab. unfold expected_indices.
  rewrite !nth_error_map, Hi, Hj. cbn. f_equal.
  assert (Pa : P a) by (rewrite Forall_forall in Hl; apply Hl; eapply nth_error_In; eassumption).
  assert (Pb : P b) by (rewrite Forall_forall in Hl; apply Hl; eapply nth_error_In; eassumption).
  clear Hi Hj. induction Hl as [|x l Px Hl IH]; [reflexivity|]. cbn. rewrite (Hcl a b x Pa Pb Px Hab).
  destruct (eqb x b); [reflexivity | now rewrite IH].
Qed.

(* ---------- TracerProvider *)
Definition tproj (st : tstate) : list tracer * nat * list nat := (ts_tracers st, ts_calls st, ts_out st).
Definition tmatches (s : scope_id) (t : tracer) : bool := scope_eqb (t_scope t) s.

Lemma tstep_gstep : forall r d st s,
  tproj (tstep r d st s) = gstep tracer scope_id tmatches (fun s n => mk_tracer s (compute_config r d s) n) t_first (tproj st) s.
Proof.
  intros r d st s. unfold tstep, gstep, tproj. fold (tmatches s).
  destruct (find (tmatches s) (ts_tracers st)); reflexivity.
Qed.
Lemma run_tr_grun : forall r d ops,
  tproj (run_tr r d ops) = grun tracer scope_id tmatches (fun s n => mk_tracer s (compute_config r d s) n) t_first ops.
Proof.
  intros r d ops. unfold run_tr, grun. change ([], 0%nat, []) with (tproj tstate0). generalize tstate0.
  induction ops as [|s ops IH]; intros st; [reflexivity|]. cbn [fold_left]. rewrite IH. f_equal. apply tstep_gstep.
Qed.

(* same name/version/schema => same tracer, different => different: the index is that of the first equal request *)
Lemma tracers_ok_lemma : forall r d ops, tracers_ok ops (ts_out (run_tr r d ops)) = true.
Proof.
  intros r d ops. unfold tracers_ok. apply nats_eqb_eq.
  change (ts_out (run_tr r d ops)) with (snd (tproj (run_tr r d ops))). rewrite run_tr_grun.
  apply grun_out with (P := fun _ => True).
  - intros a _. apply scope_eqb_refl.
  - intros a b _ _ H. now rewrite scope_eqb_sym.
  - intros a b c _ _ _ H1 H2. apply scope_eqb_eq in H1, H2. subst. apply scope_eqb_refl.
  - reflexivity.
  - intros q' n q _ _. reflexivity.
  - apply Forall_forall. auto.
Qed.

Lemma number_from_app : forall {A} n (l l' : list A), number_from n (l ++ l') = number_from n l ++ number_from (n + length l) l'.
Proof.
  intros A n l. revert n. induction l as [|x l IH]; intros n l'; cbn.
  - now rewrite Nat.add_0_r.
  - rewrite IH. do 3 f_equal. lia.
Qed.

(* exactly the spans of the enabled scopes, each under the requested scope, in order *)
Lemma spans_exact : forall r d ops,
  ts_spans (run_tr r d ops) = filter (fun ns => compute_config r d (snd ns)) (number_from 0 ops).
Proof.
  intros r d ops.
  assert (I : ts_calls (run_tr r d ops) = length ops /\
              (forall t, In t (ts_tracers (run_tr r d ops)) -> t_enabled t = compute_config r d (t_scope t)) /\
              ts_spans (run_tr r d ops) = filter (fun ns => compute_config r d (snd ns)) (number_from 0 ops)).
  { unfold run_tr. induction ops as [|s ops IH] using rev_ind.
    - cbn. repeat split; auto. intros t [].
    - rewrite fold_left_app. cbn [fold_left]. destruct IH as (Hn & Hen & Hsp).
      set (st := fold_left (tstep r d) ops tstate0) in *. unfold tstep.
      destruct (find (fun t => scope_eqb (t_scope t) s) (ts_tracers st)) as [t|] eqn:F.
      + apply find_some in F as [Ht Hs]. apply scope_eqb_eq in Hs. cbn [ts_calls ts_tracers ts_spans].
        repeat split.
        * rewrite app_length. cbn. lia.
        * exact Hen.
        * rewrite number_from_app, filter_app. cbn [number_from filter snd]. rewrite (Hen t Ht), Hs, Hsp, Hn.
          destruct (compute_config r d s); [reflexivity | now rewrite app_nil_r].
      + cbn [ts_calls ts_tracers ts_spans t_enabled t_scope]. repeat split.
        * rewrite app_length. cbn. lia.
        * intros t Ht. apply in_app_or in Ht as [Ht | [<- | []]]; [now apply Hen | reflexivity].
        * rewrite number_from_app, filter_app. cbn [number_from filter snd]. rewrite Hsp, Hn.
          destruct (compute_config r d s); [reflexivity | now rewrite app_nil_r]. }
  apply I.
Qed.

Lemma list_eqb_refl : forall {A} (eqb : A -> A -> bool) l, (forall x, eqb x x = true) -> list_eqb eqb l l = true.
Proof. intros A eqb l H. induction l as [|x l IH]; cbn; [reflexivity | now rewrite H, IH]. Qed.

Lemma spans_ok_lemma : forall r d ops, spans_ok r d ops (ts_spans (run_tr r d ops)) = true.
Proof.
  intros r d ops. unfold spans_ok, expected_spans. rewrite spans_exact.
  rewrite (filter_ext (fun ns => compute_config r d (snd ns)) (fun ns => spec_config r d (snd ns)))
    by (intros; apply compute_config_spec).
  apply list_eqb_refl. intros [n s]. unfold span_eqb. cbn. now rewrite Nat.eqb_refl, scope_eqb_refl.
Qed.

Lemma model_meets_spec_tr : forall r d ops, spec_tr r d ops (ts_out (run_tr r d ops)) (ts_spans (run_tr r d ops)) = [].
Proof. intros r d ops. unfold spec_tr. now rewrite tracers_ok_lemma, spans_ok_lemma. Qed.

(* a disabled scope is silent and the others are unaffected: the spans of scope [s] are those of its own requests,
   whatever else is requested and however the other scopes are configured *)
Lemma disabled_silent_others_unaffected_tr : forall r d ops s,
  filter (fun ns => scope_eqb (snd ns) s) (ts_spans (run_tr r d ops)) =
  if compute_config r d s then filter (fun ns => scope_eqb (snd ns) s) (number_from 0 ops) else [].
Proof.
  intros r d ops s. rewrite spans_exact. generalize 0%nat. induction ops as [|x ops IH]; intros n; cbn [number_from filter snd].
  - now destruct (compute_config r d s).
  - destruct (scope_eqb x s) eqn:E.
    + apply scope_eqb_eq in E. subst x. destruct (compute_config r d s) eqn:C; cbn [filter snd].
      * rewrite scope_eqb_refl. f_equal. apply IH.
      * apply IH.
    + destruct (compute_config r d x); cbn [filter snd]; rewrite ?E; apply IH.
Qed.

Example tr_nonvacuous :
  let st := run_tr [(CName (bs "a"), false)] true [mk_scope (bs "a") [] []; mk_scope (bs "b") [] []; mk_scope (bs "a") [] []] in
  ts_out st = [0; 1; 0]%nat /\ map fst (ts_spans st) = [1%nat].
Proof. vm_compute. auto. Qed.
