(* MODEL for C19: what the SDK *does* for
     - InstrumentMetaDataValidator::ValidateName / ValidateUnit       (sdk/src/metrics/instrument_metadata_validator.cc)
     - PredicateFactory / PatternPredicate / ExactPredicate           (sdk/.../metrics/view/predicate*.h)
     - ViewRegistry::FindViews / MatchMeter / MatchInstrument         (sdk/.../metrics/view/view_registry.h)
     - Meter::Create*  / Register{Sync,Async}MetricStorage / Collect  (sdk/src/metrics/meter.cc)
     - ScopeConfigurator<T>::Builder::Build / ComputeConfig           (sdk/.../instrumentationscope/scope_configurator.h)
     - TracerProvider::GetTracer, MeterProvider::GetMeter, LoggerProvider::GetLogger, InstrumentationScope::equal,
       AttributeMap::EqualTo, Tracer::StartSpan / Logger::EmitLogRecord / Logger::GetName when the scope is disabled.
   The build under test is ABI v1 with std::regex (OPENTELEMETRY_HAVE_WORKING_REGEX): GetTracer/GetMeter take no attributes,
   synchronous gauges do not exist.  Open defects of the code (F14, F22, F23) are reproduced, not repaired.  Definitions only. *)
From V Require Export Base.Rx Gen.Consts.
Local Open Scope N_scope.

Definition is_nil {A} (l : list A) : bool := match l with [] => true | _ => false end.

(* ------------------------------------------------------------------------------------------------ Names *)
(* std::regex_match(name.begin(), name.end(), regex(kInstrumentNamePattern)) - the whole view, not a C string *)
Definition validate_name (s : bytes) : bool := rx_match kInstrumentNamePattern s.
Definition validate_unit (s : bytes) : bool := rx_match kInstrumentUnitPattern s.
(* Meter::ValidateInstrument (the description is always accepted) *)
Definition validate_instrument (name unit : bytes) : bool := validate_name name && validate_unit unit.

(* the same two functions as compiled when std::regex is not usable (the #else branches; not part of this build, the
   driver compiles them separately): size limit first, then name[0] - read even when the view is empty (None) - then the rest *)
Definition nr_name_char (b : byte) : bool :=
  isalnum b || Byte.eqb b x2d || Byte.eqb b x5f || Byte.eqb b x2e || Byte.eqb b x2f.
Definition validate_name_nr (s : bytes) : option bool :=
  if Nat.ltb kNrNameMaxSize (length s) then Some false
  else match s with
       | [] => None
       | c :: t => Some (isalpha c && forallb nr_name_char t)
       end.
Definition validate_unit_nr (s : bytes) : bool :=
  if Nat.ltb kNrUnitMaxSize (length s) then false else forallb (fun b => b2n b <=? 127) s.

(* ------------------------------------------------------------------------------------------------ Predicates *)
(* The ECMAScript patterns that are modelled: a sequence of atoms, each optionally followed by '*';
   an atom is a literal [A-Za-z0-9_/-], an escaped dot "\." or the wildcard '.' (any byte but LF and CR). *)
Inductive atom := ALit (b : byte) | ADot.
Definition patom := (atom * bool)%type.          (* (atom, starred) *)
Definition pattern := list patom.

Definition c_dot : byte := x2e.
Definition c_star : byte := x2a.
Definition c_bslash : byte := x5c.
Definition c_lf : byte := x0a.
Definition c_cr : byte := x0d.

Definition lit_ok (b : byte) : bool :=
  isalnum b || Byte.eqb b x5f || Byte.eqb b x2d || Byte.eqb b x2f.

Definition amatch (a : atom) (b : byte) : bool :=
  match a with
  | ALit c => Byte.eqb c b
  | ADot => negb (Byte.eqb b c_lf || Byte.eqb b c_cr)
  end.

Definition atom_of (b : byte) : option atom :=
  if Byte.eqb b c_dot then Some ADot else if lit_ok b then Some (ALit b) else None.

Fixpoint parse_pat (s : bytes) : option pattern :=
  match s with
  | [] => Some []
  | b :: s1 =>
      if Byte.eqb b c_bslash then
        match s1 with
        | c :: s2 =>
            if Byte.eqb c c_dot then
              match s2 with
              | d :: s3 => if Byte.eqb d c_star then option_map (cons (ALit c, true)) (parse_pat s3)
                           else option_map (cons (ALit c, false)) (parse_pat s2)
              | [] => Some [(ALit c, false)]
              end
            else None
        | [] => None
        end
      else
        match atom_of b with
        | None => None
        | Some a =>
            match s1 with
            | d :: s2 => if Byte.eqb d c_star then option_map (cons (a, true)) (parse_pat s2)
                         else option_map (cons (a, false)) (parse_pat s1)
            | [] => Some [(a, false)]
            end
        end
  end.

(* std::regex_match over the whole string, as a backtracking matcher *)
Fixpoint pmatch (p : pattern) : bytes -> bool :=
  match p with
  | [] => fun s => is_nil s
  | (a, false) :: p' => fun s => match s with b :: s' => amatch a b && pmatch p' s' | [] => false end
  | (a, true) :: p' =>
      fix star (s : bytes) : bool :=
        pmatch p' s || match s with b :: s' => amatch a b && star s' | [] => false end
  end.

(* PredicateFactory::GetPredicate(pattern, kPattern): "*" is MatchEverything, anything else a std::regex *)
Inductive name_sel := NAll | NPat (p : pattern).
Definition star_only (s : bytes) : bool := match s with [b] => Byte.eqb b c_star | _ => false end.
Definition name_sel_of (raw : bytes) : option name_sel :=
  if star_only raw then Some NAll else option_map NPat (parse_pat raw).
Definition name_sel_match (n : name_sel) (s : bytes) : bool :=
  match n with NAll => true | NPat p => pmatch p s end.

(* PredicateFactory::GetPredicate(pattern, kExact): "" is MatchEverything, anything else string equality *)
Definition exact_match (pat s : bytes) : bool := is_nil pat || bytes_eqb pat s.

(* ------------------------------------------------------------------------------------------------ Views *)
Record scope_id := mk_scope { sc_name : bytes; sc_ver : bytes; sc_schema : bytes }.
Definition scope_eqb (a b : scope_id) : bool :=
  bytes_eqb (sc_name a) (sc_name b) && bytes_eqb (sc_ver a) (sc_ver b) && bytes_eqb (sc_schema a) (sc_schema b).

(* InstrumentType: 0 counter 1 histogram 2 up-down counter 3 observable counter 4 observable gauge
   5 observable up-down counter 6 gauge.   AggregationType: 0 drop 1 histogram 2 last value 3 sum 4 default.
   value type: 0 long 1 double. *)
Record view := mk_view {
  v_itype : N; v_sel : name_sel; v_unit : bytes;              (* InstrumentSelector *)
  v_mname : bytes; v_mver : bytes; v_mschema : bytes;         (* MeterSelector *)
  v_name : bytes; v_desc : bytes; v_agg : N; v_filter : option (list bytes) }.   (* View *)
Record instr := mk_instr { i_type : N; i_vtype : N; i_name : bytes; i_desc : bytes; i_unit : bytes }.

(* ViewRegistry::MatchMeter: a scope without version (schema) passes any version (schema) selector *)
Definition match_meter (v : view) (s : scope_id) : bool :=
  exact_match (v_mname v) (sc_name s) &&
  (is_nil (sc_ver s) || exact_match (v_mver v) (sc_ver s)) &&
  (is_nil (sc_schema s) || exact_match (v_mschema v) (sc_schema s)).
Definition match_instrument (v : view) (i : instr) : bool :=
  name_sel_match (v_sel v) (i_name i) && exact_match (v_unit v) (i_unit i) && (v_itype v =? i_type i).
Definition view_applies (v : view) (s : scope_id) (i : instr) : bool := match_meter v s && match_instrument v i.

(* static const View view("") *)
Definition default_view : view := mk_view 0 NAll [] [] [] [] [] [] 4 None.

(* the views FindViews hands to its callback, in order *)
Definition find_views (vs : list view) (s : scope_id) (i : instr) : list view :=
  let m := filter (fun v => view_applies v s i) vs in
  if is_nil m then [default_view] else m.

(* what the exported points look like: 0 drop 1 histogram 2 last value 3 non-monotonic sum 4 monotonic sum *)
Definition default_agg (ity : N) : N :=
  if (ity =? 0) || (ity =? 3) then 4
  else if (ity =? 2) || (ity =? 5) then 3
  else if ity =? 1 then 1
  else if (ity =? 6) || (ity =? 4) then 2
  else 0.
Definition resolve_agg (agg ity : N) : N :=
  if agg =? 0 then 0 else if agg =? 1 then 1 else if agg =? 2 then 2
  else if agg =? 3 then (if (ity =? 2) || (ity =? 5) || (ity =? 1) then 3 else 4)
  else default_agg ity.

Definition is_async (ity : N) : bool := (3 <=? ity) && (ity <=? 5).

(* ordered, duplicate-free key sets (std::map<std::string, ...>) *)
Fixpoint bytes_ltb (a b : bytes) : bool :=
  match a, b with
  | _, [] => false
  | [], _ :: _ => true
  | x :: a', y :: b' => (b2n x <? b2n y) || ((b2n x =? b2n y) && bytes_ltb a' b')
  end.
Fixpoint insert_key (k : bytes) (l : list bytes) : list bytes :=
  match l with
  | [] => [k]
  | h :: t => if bytes_eqb k h then l else if bytes_ltb k h then k :: l else h :: insert_key k t
  end.
Definition norm_keys (l : list bytes) : list bytes := fold_right insert_key [] l.
Definition mem_key (k : bytes) (l : list bytes) : bool := existsb (bytes_eqb k) l.

Record stream := mk_stream {
  st_scope : scope_id; st_name : bytes; st_desc : bytes; st_unit : bytes;
  st_itype : N; st_vtype : N; st_agg : N; st_npoints : N; st_keys : list bytes }.

(* the storage one view creates for one instrument, as seen after one measurement with attribute keys [keys]:
   SyncMetricStorage applies the view's attributes processor; AsyncMetricStorage is not given one *)
Definition stream_keys (v : view) (i : instr) (keys : list bytes) : list bytes :=
  if is_async (i_type i) then norm_keys keys
  else match v_filter v with
       | None => norm_keys keys
       | Some allowed => norm_keys (filter (fun k => mem_key k allowed) keys)
       end.
Definition stream_of (v : view) (i : instr) (s : scope_id) (keys : list bytes) : stream :=
  mk_stream s
    (if is_nil (v_name v) then i_name i else v_name v)
    (if is_nil (v_desc v) then i_desc i else v_desc v)
    (i_unit i) (i_type i) (i_vtype i) (resolve_agg (v_agg v) (i_type i)) 1 (stream_keys v i keys).

(* ------------------------------------------------------------------------------------------------ Scopes *)
Inductive cond := CName (b : bytes) | CHasVer | CVerEq (b : bytes) | CSchemaEq (b : bytes) | CAny.
Definition cond_match (c : cond) (s : scope_id) : bool :=
  match c with
  | CName b => bytes_eqb (sc_name s) b
  | CHasVer => negb (is_nil (sc_ver s))
  | CVerEq b => bytes_eqb (sc_ver s) b
  | CSchemaEq b => bytes_eqb (sc_schema s) b
  | CAny => true
  end.
Definition rules := list (cond * bool).
(* the lambda Build() returns: conditions in order, first match wins, default otherwise *)
Fixpoint compute_config (r : rules) (d : bool) (s : scope_id) : bool :=
  match r with
  | [] => d
  | (c, e) :: r' => if cond_match c s then e else compute_config r' d s
  end.

Fixpoint find_idx {A} (p : A -> bool) (l : list A) : option nat :=
  match l with
  | [] => None
  | x :: l' => if p x then Some 0%nat else option_map S (find_idx p l')
  end.
Fixpoint update_nth {A} (n : nat) (f : A -> A) (l : list A) : list A :=
  match l, n with
  | [], _ => []
  | x :: l', O => f x :: l'
  | x :: l', S n' => x :: update_nth n' f l'
  end.

(* ------------------------------------------------------------------------------------------------ MeterProvider *)
(* storage_registry_ : unordered_map keyed by the *instrument* name *)
Definition registry := list (bytes * stream).
Fixpoint reg_set (k : bytes) (v : stream) (r : registry) : registry :=
  match r with
  | [] => [(k, v)]
  | (k', v') :: r' => if bytes_eqb k' k then (k, v) :: r' else (k', v') :: reg_set k v r'
  end.

Record meter := mk_meter { m_scope : scope_id; m_enabled : bool; m_first : nat; m_reg : registry }.

(* MeterProvider::GetMeter at call number [opno]: the first meter whose scope equals, else a new one *)
Definition get_meter (r : rules) (d : bool) (ms : list meter) (s : scope_id) (opno : nat) : list meter * nat :=
  match find_idx (fun m => scope_eqb (m_scope m) s) ms with
  | Some k => (ms, k)
  | None => (ms ++ [mk_meter s (compute_config r d s) opno []], length ms)
  end.

(* Meter::Create*: disabled meter -> no-op meter's instrument; invalid name/unit -> no-op instrument; else one
   storage per view handed out by FindViews, each stored under storage_registry_[instrument name] *)
Definition create_instrument (vs : list view) (keys : list bytes) (i : instr) (m : meter) : meter :=
  if negb (m_enabled m) then m
  else if negb (validate_instrument (i_name i) (i_unit i)) then m
  else fold_left (fun m' v => mk_meter (m_scope m') (m_enabled m') (m_first m')
                                       (reg_set (i_name i) (stream_of v i (m_scope m') keys) (m_reg m')))
                 (find_views vs (m_scope m) i) m.

Inductive mop := MGet (s : scope_id) | MInst (i : instr).

Record mstate := mk_mstate { ms_meters : list meter; ms_cur : option nat; ms_calls : nat; ms_out : list nat }.
Definition mstate0 : mstate := mk_mstate [] None 0 [].

Definition mstep (r : rules) (d : bool) (vs : list view) (keys : list bytes) (st : mstate) (op : mop) : mstate :=
  match op with
  | MGet s =>
      let '(ms, k) := get_meter r d (ms_meters st) s (ms_calls st) in
      mk_mstate ms (Some k) (S (ms_calls st))
                (ms_out st ++ [match nth_error ms k with Some m => m_first m | None => 0%nat end])
  | MInst i =>
      match ms_cur st with
      | Some k => mk_mstate (update_nth k (create_instrument vs keys i) (ms_meters st)) (ms_cur st) (ms_calls st) (ms_out st)
      | None => st
      end
  end.
Definition mrun (r : rules) (d : bool) (vs : list view) (keys : list bytes) (ops : list mop) : mstate :=
  fold_left (mstep r d vs keys) ops mstate0.

(* Meter::Collect over all meters; the driver sorts the streams by their fields *)
Definition meter_streams (m : meter) : list stream := if m_enabled m then map snd (m_reg m) else [].
Definition num_field (n : N) : bytes := [n2b n].
Definition stream_fields (s : stream) : list bytes :=
  [sc_name (st_scope s); sc_ver (st_scope s); sc_schema (st_scope s); st_name s; st_desc s; st_unit s;
   num_field (st_itype s); num_field (st_vtype s); num_field (st_agg s); num_field (st_npoints s)] ++ st_keys s.
Fixpoint fields_ltb (a b : list bytes) : bool :=
  match a, b with
  | _, [] => false
  | [], _ :: _ => true
  | x :: a', y :: b' => bytes_ltb x y || (bytes_eqb x y && fields_ltb a' b')
  end.
Fixpoint insert_stream (s : stream) (l : list stream) : list stream :=
  match l with
  | [] => [s]
  | h :: t => if fields_ltb (stream_fields h) (stream_fields s) then h :: insert_stream s t else s :: l
  end.
Definition sort_streams (l : list stream) : list stream := fold_right insert_stream [] l.
Definition collect (ms : list meter) : list stream := sort_streams (flat_map meter_streams ms).

Definition run_met (r : rules) (d : bool) (vs : list view) (keys : list bytes) (ops : list mop) : list nat * list stream :=
  let st := mrun r d vs keys ops in (ms_out st, collect (ms_meters st)).

(* ------------------------------------------------------------------------------------------------ TracerProvider *)
Record tracer := mk_tracer { t_scope : scope_id; t_enabled : bool; t_first : nat }.
Record tstate := mk_tstate { ts_tracers : list tracer; ts_calls : nat; ts_out : list nat; ts_spans : list (nat * scope_id) }.
Definition tstate0 : tstate := mk_tstate [] 0 [] [].

(* GetTracer + StartSpan(<call number>) + End; a disabled tracer hands out the no-op tracer's span *)
Definition tstep (r : rules) (d : bool) (st : tstate) (s : scope_id) : tstate :=
  let n := ts_calls st in
  let '(trs, t) :=
    match find (fun t => scope_eqb (t_scope t) s) (ts_tracers st) with
    | Some t => (ts_tracers st, t)
    | None => let t := mk_tracer s (compute_config r d s) n in (ts_tracers st ++ [t], t)
    end in
  mk_tstate trs (S n) (ts_out st ++ [t_first t])
            (if t_enabled t then ts_spans st ++ [(n, t_scope t)] else ts_spans st).
Definition run_tr (r : rules) (d : bool) (ops : list scope_id) : tstate := fold_left (tstep r d) ops tstate0.

(* ------------------------------------------------------------------------------------------------ LoggerProvider *)
Inductive aval := AInt (z : Z) | AStr (s : bytes).
Definition aval_eqb (a b : aval) : bool :=
  match a, b with
  | AInt x, AInt y => Z.eqb x y
  | AStr x, AStr y => bytes_eqb x y
  | _, _ => false
  end.
Definition attrs := list (bytes * aval).

(* AttributeMap (unordered_map, kept sorted by key here): SetAttribute overwrites *)
Fixpoint amap_set (k : bytes) (v : aval) (m : attrs) : attrs :=
  match m with
  | [] => [(k, v)]
  | (k', v') :: m' => if bytes_eqb k k' then (k, v) :: m'
                      else if bytes_ltb k k' then (k, v) :: m
                      else (k', v') :: amap_set k v m'
  end.
Definition amap_of (l : attrs) : attrs := fold_left (fun m kv => amap_set (fst kv) (snd kv) m) l [].
Fixpoint amap_get (k : bytes) (m : attrs) : option aval :=
  match m with
  | [] => None
  | (k', v) :: m' => if bytes_eqb k' k then Some v else amap_get k m'
  end.
(* the last value a KeyValueIterable gives for a key (the loop keeps overwriting found/equal) *)
Fixpoint given_last (k : bytes) (given : attrs) (acc : option aval) : option aval :=
  match given with
  | [] => acc
  | (k', v) :: g' => given_last k g' (if bytes_eqb k' k then Some v else acc)
  end.
(* AttributeMap::EqualTo (as repaired by 4364788): not fewer pairs than the map has keys; every given key is a key of the
   map; every value of the map equals the last value given for its key *)
Definition equal_to (m : attrs) (given : attrs) : bool :=
  negb (Nat.ltb (length given) (length m)) &&
  forallb (fun kv => match amap_get (fst kv) m with Some _ => true | None => false end) given &&
  forallb (fun kv => match given_last (fst kv) given None with Some v => aval_eqb (snd kv) v | None => false end) m.

Record logger := mk_logger { l_name : bytes; l_scope : scope_id; l_attrs : attrs; l_enabled : bool; l_first : nat }.
(* Logger::GetName: a logger whose scope is disabled answers with the no-op logger's name (not used by the registry
   any more, 6b10326) *)
Definition noop_logger_name : bytes := map n2b kNoopLoggerName.
Definition logger_get_name (l : logger) : bytes := if l_enabled l then l_name l else noop_logger_name.

Record lreq := mk_lreq { q_name : bytes; q_lib : bytes; q_ver : bytes; q_schema : bytes; q_attrs : attrs }.
(* library_name.empty() -> logger_name *)
Definition q_scope (q : lreq) : scope_id := mk_scope (if is_nil (q_lib q) then q_name q else q_lib q) (q_ver q) (q_schema q).

(* LoggerProvider::GetLogger compares the name the logger was created with *)
Definition logger_matches (q : lreq) (l : logger) : bool :=
  bytes_eqb (l_name l) (q_name q) && scope_eqb (l_scope l) (q_scope q) && equal_to (l_attrs l) (q_attrs q).

Record lrec := mk_lrec { r_call : nat; r_scope : scope_id; r_attrs : attrs }.
Record lstate := mk_lstate { ls_loggers : list logger; ls_calls : nat; ls_out : list nat; ls_recs : list lrec }.
Definition lstate0 : lstate := mk_lstate [] 0 [] [].

(* GetLogger + EmitLogRecord(body = <call number>) *)
Definition lstep (r : rules) (d : bool) (st : lstate) (q : lreq) : lstate :=
  let n := ls_calls st in
  let '(lgs, l) :=
    match find (logger_matches q) (ls_loggers st) with
    | Some l => (ls_loggers st, l)
    | None => let l := mk_logger (q_name q) (q_scope q) (amap_of (q_attrs q)) (compute_config r d (q_scope q)) n in
              (ls_loggers st ++ [l], l)
    end in
  mk_lstate lgs (S n) (ls_out st ++ [l_first l])
            (if l_enabled l then ls_recs st ++ [mk_lrec n (l_scope l) (l_attrs l)] else ls_recs st).
Definition run_lg (r : rules) (d : bool) (ops : list lreq) : lstate := fold_left (lstep r d) ops lstate0.
