(* C19 proofs, part 2: view predicates, selection and shaping. *)
From V Require Import C19.Spec C19.ProofsBase C19.ProofsNames.
From Coq Require Import Lia ZifyBool ZifyNat ZifyN.

(* ---------- the pattern matcher decides the declarative meaning [PM] *)
Definition star_of (a : atom) (k : bytes -> bool) : bytes -> bool :=
  fix star (s : bytes) : bool := k s || match s with b :: s' => amatch a b && star s' | [] => false end.

Lemma pmatch_star_unfold : forall a p, pmatch ((a, true) :: p) = star_of a (pmatch p).
Proof. reflexivity. Qed.

Lemma star_of_iff : forall a k s,
  star_of a k s = true <-> exists s1 s2, s = s1 ++ s2 /\ Forall (fun b => amatch a b = true) s1 /\ k s2 = true.
Proof.
  intros a k. induction s as [|b s IH].
  - cbn. rewrite orb_false_r. split.
    + intros H. exists [], []. auto.
    + intros (s1 & s2 & E & _ & H). symmetry in E. apply app_eq_nil in E as [-> ->]. exact H.
  - cbn [star_of]. fold (star_of a k). rewrite orb_true_iff, andb_true_iff, IH. split.
    + intros [H | [Hb (s1 & s2 & -> & H1 & H2)]].
      * exists [], (b :: s). auto.
      * exists (b :: s1), s2. auto.
    + intros (s1 & s2 & E & H1 & H2). destruct s1 as [|c s1].
      * cbn in E. subst s2. now left.
      * cbn in E. injection E as -> ->. right. inversion H1; subst. split; [assumption|]. exists s1, s2. auto.
Qed.

Lemma PM_star_inv : forall a p s, PM ((a, true) :: p) s ->
  exists s1 s2, s = s1 ++ s2 /\ Forall (fun b => amatch a b = true) s1 /\ PM p s2.
Proof. intros a p s H. inversion H; subst. eauto. Qed.

Lemma pmatch_iff : forall p s, pmatch p s = true <-> PM p s.
Proof.
  induction p as [|[a st] p IH]; intros s.
  - cbn. rewrite is_nil_true. split; [intros ->; constructor | intros H; now inversion H].
  - destruct st.
    + rewrite pmatch_star_unfold, star_of_iff. split.
      * intros (s1 & s2 & -> & H1 & H2). apply PM_star; [assumption | now apply IH].
      * intros H. apply PM_star_inv in H as (s1 & s2 & -> & H1 & H2). exists s1, s2. split; [reflexivity|]. split; [assumption | now apply IH].
    + destruct s as [|b s]; cbn [pmatch].
      * split; [discriminate | intros H; inversion H].
      * rewrite andb_true_iff, IH. split; [intros [H1 H2]; now constructor | intros H; inversion H; subst; auto].
Qed.

Lemma firstn_len_app : forall {A} (a b : list A), firstn (length a) (a ++ b) = a.
Proof. intros A a b. induction a as [|x a IH]; cbn; [now destruct b | now rewrite IH]. Qed.
Lemma skipn_len_app : forall {A} (a b : list A), skipn (length a) (a ++ b) = b.
Proof. intros A a b. induction a as [|x a IH]; cbn; auto. Qed.

Lemma spec_pm_iff : forall p s, spec_pm p s = true <-> PM p s.
Proof.
  induction p as [|[a st] p IH]; intros s.
  - cbn. rewrite is_nil_true. split; [intros ->; constructor | intros H; now inversion H].
  - destruct st.
    + cbn [spec_pm]. rewrite existsb_exists. split.
      * intros (k & _ & H). apply andb_true_iff in H as [H1 H2]. rewrite <- (firstn_skipn k s).
        apply PM_star; [|now apply IH]. apply Forall_forall. now apply forallb_forall.
      * intros H. apply PM_star_inv in H as (s1 & s2 & -> & H1 & H2). exists (length s1). split.
        -- apply in_seq. rewrite app_length. lia.
        -- rewrite firstn_len_app, skipn_len_app. apply andb_true_iff. split; [|now apply IH].
           apply forallb_forall. now apply Forall_forall.
    + destruct s as [|b s]; cbn [spec_pm].
      * split; [discriminate | intros H; inversion H].
      * rewrite andb_true_iff, IH. split; [intros [H1 H2]; now constructor | intros H; inversion H; subst; auto].
Qed.

Lemma pmatch_spec_pm : forall p s, pmatch p s = spec_pm p s.
Proof.
  intros p s. destruct (pmatch p s) eqn:E1, (spec_pm p s) eqn:E2; try reflexivity.
  - apply pmatch_iff, spec_pm_iff in E1. congruence.
  - apply spec_pm_iff, pmatch_iff in E2. congruence.
Qed.
Lemma name_sel_match_spec : forall n s, name_sel_match n s = spec_name_sel n s.
Proof. intros [|p] s; [reflexivity | apply pmatch_spec_pm]. Qed.

Lemma exact_match_sel_eq : forall sel s, exact_match sel s = sel_eq sel s.
Proof. intros [|b sel] s; reflexivity. Qed.

(* examples: the wildcard forms the generator uses *)
Example pm_dot_star : forall s, Forall (fun b => b <> c_lf /\ b <> c_cr) s -> PM [(ADot, true)] s.
Proof.
  intros s H. rewrite <- (app_nil_r s). apply PM_star; [|constructor].
  apply Forall_forall. intros b Hb. rewrite Forall_forall in H. destruct (H b Hb) as [H1 H2].
  cbn. apply negb_true_iff, orb_false_iff. split; destruct (Byte.eqb b _) eqn:E; try reflexivity; apply byte_eqb_eq in E; contradiction.
Qed.
Example parse_example : parse_pat (bs "req\..*") = Some [(ALit x72, false); (ALit x65, false); (ALit x71, false); (ALit x2e, false); (ADot, true)].
Proof. vm_compute. reflexivity. Qed.

(* ---------- a view applies iff its selectors match *)
(* what the code decides (MatchMeter lets a scope without version / schema URL through) *)
Lemma view_applies_lenient : forall v s i, view_applies v s i = lenient_view_applies v s i.
Proof.
  intros v s i. unfold view_applies, match_meter, match_instrument, lenient_view_applies.
  rewrite name_sel_match_spec, !exact_match_sel_eq.
  destruct (v_itype v =? i_type i)%N, (spec_name_sel (v_sel v) (i_name i)), (sel_eq (v_unit v) (i_unit i)),
    (sel_eq (v_mname v) (sc_name s)), (is_nil (sc_ver s) || sel_eq (v_mver v) (sc_ver s)),
    (is_nil (sc_schema s) || sel_eq (v_mschema v) (sc_schema s)); reflexivity.
Qed.

Lemma lenient_is_strict : forall v s i,
  (sc_ver s <> [] \/ v_mver v = []) -> (sc_schema s <> [] \/ v_mschema v = []) ->
  lenient_view_applies v s i = spec_view_applies v s i.
Proof.
  intros v s i H1 H2. unfold lenient_view_applies, spec_view_applies.
  assert (E1 : is_nil (sc_ver s) || sel_eq (v_mver v) (sc_ver s) = sel_eq (v_mver v) (sc_ver s)).
  { destruct H1 as [H1 | H1]; [destruct (sc_ver s); [contradiction | reflexivity] | rewrite H1; cbn; apply orb_true_r]. }
  assert (E2 : is_nil (sc_schema s) || sel_eq (v_mschema v) (sc_schema s) = sel_eq (v_mschema v) (sc_schema s)).
  { destruct H2 as [H2 | H2]; [destruct (sc_schema s); [contradiction | reflexivity] | rewrite H2; cbn; apply orb_true_r]. }
  now rewrite E1, E2.
Qed.

(* the property as stated holds whenever the meter declares what the selector asks for *)
Lemma view_applies_partial : forall v s i,
  (sc_ver s <> [] \/ v_mver v = []) -> (sc_schema s <> [] \/ v_mschema v = []) ->
  view_applies v s i = spec_view_applies v s i.
Proof. intros. rewrite view_applies_lenient. now apply lenient_is_strict. Qed.

Lemma spec_view_applies_iff : forall v s i,
  spec_view_applies v s i = true <->
  v_itype v = i_type i /\
  match v_sel v with NAll => True | NPat p => PM p (i_name i) end /\
  (v_unit v = [] \/ v_unit v = i_unit i) /\
  (v_mname v = [] \/ v_mname v = sc_name s) /\ (v_mver v = [] \/ v_mver v = sc_ver s) /\
  (v_mschema v = [] \/ v_mschema v = sc_schema s).
Proof.
  intros v s i. unfold spec_view_applies. rewrite !andb_true_iff, N.eqb_eq.
  assert (E : forall a b, sel_eq a b = true <-> a = [] \/ a = b).
  { intros [|x a] b; cbn [sel_eq]; [intuition | rewrite bytes_eqb_eq; intuition discriminate]. }
  rewrite !E.
  assert (P : spec_name_sel (v_sel v) (i_name i) = true <-> match v_sel v with NAll => True | NPat p => PM p (i_name i) end).
  { destruct (v_sel v); cbn; [intuition | apply spec_pm_iff]. }
  rewrite P. tauto.
Qed.

(* F23 witness: view for meter ("m", version "1.0") applied to the counter of meter ("m", no version) *)
Definition f23_view : view := mk_view 0 NAll [] (bs "m") (bs "1.0") [] (bs "v1") [] 4 None.
Lemma view_applies_refuted : exists v s i, view_applies v s i = true /\ spec_view_applies v s i = false.
Proof. exists f23_view, (mk_scope (bs "m") [] []), (mk_instr 0 0 (bs "c1") [] []). vm_compute. auto. Qed.

Example view_applies_partial_nonvacuous :
  let s := mk_scope (bs "m") (bs "1.0") (bs "s") in
  (sc_ver s <> [] \/ v_mver f23_view = []) /\ (sc_schema s <> [] \/ v_mschema f23_view = []) /\
  view_applies f23_view s (mk_instr 0 0 (bs "c1") [] []) = true.
Proof. cbn. repeat split; try (left; discriminate). Qed.

(* ---------- instruments matched by no view get the default aggregation of their type *)
Lemma find_views_none : forall vs s i,
  (forall v, In v vs -> view_applies v s i = false) -> find_views vs s i = [default_view].
Proof.
  intros vs s i H. unfold find_views.
  assert (E : filter (fun v => view_applies v s i) vs = []).
  { induction vs as [|v vs IH]; [reflexivity|]. cbn. rewrite (H v (or_introl eq_refl)). apply IH. intros w Hw. apply H. now right. }
  now rewrite E.
Qed.
Lemma find_views_some : forall vs s i,
  filter (fun v => view_applies v s i) vs <> [] -> find_views vs s i = filter (fun v => view_applies v s i) vs.
Proof. intros vs s i H. unfold find_views. destruct (filter _ vs); [contradiction | reflexivity]. Qed.

Lemma default_agg_is_default : forall ity, (ity <= 6)%N -> default_agg_ok ity (default_agg ity) = true.
Proof.
  intros ity H.
  assert (C : (ity = 0 \/ ity = 1 \/ ity = 2 \/ ity = 3 \/ ity = 4 \/ ity = 5 \/ ity = 6)%N) by lia.
  destruct C as [-> | [-> | [-> | [-> | [-> | [-> | ->]]]]]]; reflexivity.
Qed.
Lemma resolve_agg_ok : forall agg ity, (agg <= 4)%N -> (ity <= 6)%N -> agg_ok agg ity (resolve_agg agg ity) = true.
Proof.
  intros agg ity Ha Hi.
  assert (C : (ity = 0 \/ ity = 1 \/ ity = 2 \/ ity = 3 \/ ity = 4 \/ ity = 5 \/ ity = 6)%N) by lia.
  assert (D : (agg = 0 \/ agg = 1 \/ agg = 2 \/ agg = 3 \/ agg = 4)%N) by lia.
  destruct D as [-> | [-> | [-> | [-> | ->]]]]; destruct C as [-> | [-> | [-> | [-> | [-> | [-> | ->]]]]]]; reflexivity.
Qed.

Lemma unmatched_default_lemma : forall vs s i keys,
  (forall v, In v vs -> view_applies v s i = false) ->
  map (fun v => stream_of v i s keys) (find_views vs s i) =
    [mk_stream s (i_name i) (i_desc i) (i_unit i) (i_type i) (i_vtype i) (default_agg (i_type i)) 1 (norm_keys keys)].
Proof.
  intros vs s i keys H. rewrite (find_views_none vs s i H). cbn [map]. f_equal.
  unfold stream_of, default_view, stream_keys. cbn. f_equal. now destruct (is_async (i_type i)).
Qed.

(* ---------- the stream a view produces: name, description, aggregation, filter - and nothing else *)
Lemma stream_depends_only_on : forall v v' i s keys,
  v_name v = v_name v' -> v_desc v = v_desc v' -> v_agg v = v_agg v' -> v_filter v = v_filter v' ->
  stream_of v i s keys = stream_of v' i s keys.
Proof. intros v v' i s keys H1 H2 H3 H4. unfold stream_of, stream_keys. now rewrite H1, H2, H3, H4. Qed.

Lemma same_keys_norm : forall l, same_keys (norm_keys l) l = true.
Proof.
  intros l. unfold same_keys, subset_keys. apply andb_true_iff. split; apply forallb_forall; intros k Hk; apply mem_key_In.
  - now apply norm_keys_In.
  - now apply norm_keys_In.
Qed.

Lemma nil_sel_eqb : forall (a b : bytes), bytes_eqb (if is_nil a then b else a) (match a with [] => b | x :: l => x :: l end) = true.
Proof. intros [|x a] b; apply bytes_eqb_refl. Qed.

Ltac proj_stream := cbn [st_scope st_name st_desc st_unit st_itype st_vtype st_agg st_npoints st_keys].

Lemma stream_shaped_but_keys : forall v i s keys,
  (v_agg v <= 4)%N -> (i_type i <= 6)%N -> shaped_but_keys v i s (stream_of v i s keys) = true.
Proof.
  intros v i s keys Ha Hi. unfold shaped_but_keys, stream_of. proj_stream.
  now rewrite scope_eqb_refl, !nil_sel_eqb, !bytes_eqb_refl, !N.eqb_refl, resolve_agg_ok by assumption.
Qed.

(* the shape is the stated one whenever the instrument is synchronous or the view has no filter *)
Lemma stream_shaped : forall v i s keys,
  (v_agg v <= 4)%N -> (i_type i <= 6)%N -> (is_async (i_type i) = false \/ v_filter v = None) ->
  shaped v i s keys (stream_of v i s keys) = true.
Proof.
  intros v i s keys Ha Hi Hf. unfold shaped. rewrite stream_shaped_but_keys by assumption.
  unfold stream_of. proj_stream. unfold stream_keys, kept_keys. cbn [andb]. destruct Hf as [Hf | Hf]; rewrite Hf.
  - destruct (v_filter v); apply same_keys_norm.
  - destruct (is_async (i_type i)); apply same_keys_norm.
Qed.

(* F22 witness: an observable counter, a view with filter {k1}, measurement keys {k1,k2}: both keys exported *)
Lemma stream_shaped_refuted : exists v i s keys,
  (v_agg v <= 4)%N /\ (i_type i <= 6)%N /\ shaped v i s keys (stream_of v i s keys) = false.
Proof.
  exists (mk_view 3 NAll [] [] [] [] (bs "v1") [] 4 (Some [bs "k1"])), (mk_instr 3 0 (bs "o1") [] []),
         (mk_scope (bs "m") [] []), [bs "k1"; bs "k2"].
  vm_compute. repeat split; discriminate.
Qed.
