(* C19 proofs, part 5: MeterProvider::GetMeter, Meter::Create*, storage registry, Collect. *)
From V Require Import C19.Spec C19.ProofsBase C19.ProofsNames C19.ProofsViews C19.ProofsScopes.
From Coq Require Import Lia ZifyBool ZifyNat ZifyN.

(* ---------- find_idx / nth_error / update_nth *)
Lemma find_idx_Some : forall {A} (p : A -> bool) l k,
  find_idx p l = Some k -> exists x, nth_error l k = Some x /\ p x = true /\ find p l = Some x.
Proof.
  intros A p l. induction l as [|y l IH]; intros k; cbn; [discriminate|].
  destruct (p y) eqn:E.
  - intros H. injection H as <-. exists y. auto.
  - destruct (find_idx p l) as [j|]; [|discriminate]. cbn. intros H. injection H as <-. destruct (IH j eq_refl) as (x & H1 & H2 & H3).
    exists x. auto.
Qed.
Lemma find_idx_None : forall {A} (p : A -> bool) l, find_idx p l = None -> find p l = None.
Proof.
  intros A p l. induction l as [|y l IH]; cbn; [reflexivity|].
  destruct (p y); [discriminate|]. destruct (find_idx p l); [discriminate|]. auto.
Qed.
Lemma find_map : forall {A B} (f : A -> B) (p : B -> bool) l, find p (map f l) = option_map f (find (fun x => p (f x)) l).
Proof. intros A B f p l. induction l as [|y l IH]; cbn; [reflexivity|]. destruct (p (f y)); [reflexivity | exact IH]. Qed.

Lemma update_nth_map : forall {A B} (g : A -> B) (f : A -> A) n l, (forall x, g (f x) = g x) -> map g (update_nth n f l) = map g l.
Proof.
  intros A B g f n l H. revert n. induction l as [|x l IH]; intros [|n]; cbn; try reflexivity.
  - now rewrite H.
  - now rewrite IH.
Qed.
Lemma update_nth_nth_same : forall {A} (f : A -> A) n l x, nth_error l n = Some x -> nth_error (update_nth n f l) n = Some (f x).
Proof.
  intros A f n l. revert n. induction l as [|y l IH]; intros [|n] x; cbn; try discriminate.
  - intros H. now injection H as ->.
  - apply IH.
Qed.
Lemma update_nth_nth_other : forall {A} (f : A -> A) n l j, j <> n -> nth_error (update_nth n f l) j = nth_error l j.
Proof.
  intros A f n l. revert n. induction l as [|y l IH]; intros [|n] [|j] H; cbn; try reflexivity; try contradiction.
  apply IH. congruence.
Qed.
Lemma update_nth_length : forall {A} (f : A -> A) n l, length (update_nth n f l) = length l.
Proof. intros A f n l. revert n. induction l as [|y l IH]; intros [|n]; cbn; auto. Qed.

(* ---------- create_instrument in terms of the registry *)
Definition reg_step (vs : list view) (keys : list bytes) (s : scope_id) (reg : registry) (i : instr) : registry :=
  fold_left (fun rg v => reg_set (i_name i) (stream_of v i s keys) rg) (find_views vs s i) reg.

Lemma create_fold : forall keys i views m,
  fold_left (fun m' v => mk_meter (m_scope m') (m_enabled m') (m_first m')
                                  (reg_set (i_name i) (stream_of v i (m_scope m') keys) (m_reg m'))) views m =
  mk_meter (m_scope m) (m_enabled m) (m_first m)
           (fold_left (fun rg v => reg_set (i_name i) (stream_of v i (m_scope m) keys) rg) views (m_reg m)).
Proof.
  intros keys i views. induction views as [|v views IH]; intros [s e f rg]; cbn [fold_left m_scope m_enabled m_first m_reg]; [reflexivity|].
  rewrite IH. reflexivity.
Qed.

Lemma create_instrument_scope : forall vs keys i m,
  m_scope (create_instrument vs keys i m) = m_scope m /\ m_first (create_instrument vs keys i m) = m_first m /\
  m_enabled (create_instrument vs keys i m) = m_enabled m.
Proof.
  intros vs keys i m. unfold create_instrument. destruct (m_enabled m) eqn:E; cbn [negb]; [|auto].
  destruct (validate_instrument (i_name i) (i_unit i)); cbn [negb]; [|auto]. rewrite create_fold. cbn. auto.
Qed.

Lemma create_instrument_reg : forall vs keys i m,
  m_reg (create_instrument vs keys i m) =
  if m_enabled m && validate_instrument (i_name i) (i_unit i) then reg_step vs keys (m_scope m) (m_reg m) i else m_reg m.
Proof.
  intros vs keys i m. unfold create_instrument. destruct (m_enabled m); cbn [negb andb]; [|reflexivity].
  destruct (validate_instrument (i_name i) (i_unit i)); cbn [negb]; [|reflexivity]. now rewrite create_fold.
Qed.

(* storage_registry_[name] = storage : a fresh name is appended, a present one overwritten *)
Lemma reg_set_fresh : forall k v r, ~ In k (map fst r) -> reg_set k v r = r ++ [(k, v)].
Proof.
  intros k v r. induction r as [|[k1 v1] r IH]; cbn; intros H; [reflexivity|].
  destruct (bytes_eqb k1 k) eqn:E; [apply bytes_eqb_eq in E; subst; exfalso; apply H; now left|].
  rewrite IH; [reflexivity|]. intros X. apply H. now right.
Qed.
Lemma reg_set_last : forall k v w r, ~ In k (map fst r) -> reg_set k v (r ++ [(k, w)]) = r ++ [(k, v)].
Proof.
  intros k v w r. induction r as [|[k1 v1] r IH]; cbn; intros H; [now rewrite bytes_eqb_refl|].
  destruct (bytes_eqb k1 k) eqn:E; [apply bytes_eqb_eq in E; subst; exfalso; apply H; now left|].
  rewrite IH; [reflexivity|]. intros X. apply H. now right.
Qed.
Lemma last_cons_default : forall {A} (l : list A) a d, last (a :: l) d = last l a.
Proof. intros A l. induction l as [|b l IH]; intros a d; [reflexivity|]. cbn [last] in *. rewrite (IH b d). now rewrite (IH b a). Qed.

(* the storages of all matching views are registered under the one instrument name: only the last one stays (F14) *)
Lemma reg_step_fresh : forall vs keys s reg i, ~ In (i_name i) (map fst reg) ->
  reg_step vs keys s reg i = reg ++ [(i_name i, stream_of (last (find_views vs s i) default_view) i s keys)].
Proof.
  intros vs keys s reg i H. unfold reg_step.
  assert (NE : find_views vs s i <> []).
  { unfold find_views. destruct (filter (fun v => view_applies v s i) vs); cbn; discriminate. }
  destruct (find_views vs s i) as [|v views]; [contradiction|]. clear NE. cbn [fold_left].
  rewrite reg_set_fresh by assumption. rewrite last_cons_default.
  revert v. induction views as [|w views IH]; intros v; cbn [fold_left]; [reflexivity|].
  rewrite reg_set_last by assumption. rewrite IH. now rewrite last_cons_default.
Qed.

(* ---------- indices: GetMeter is a find-or-create registry on (name, version, schema) *)
Definition mproj (st : mstate) : list (scope_id * nat) * nat * list nat :=
  (map (fun m => (m_scope m, m_first m)) (ms_meters st), ms_calls st, ms_out st).
Definition smatches (s : scope_id) (e : scope_id * nat) : bool := scope_eqb (fst e) s.

Lemma mstep_get_proj : forall r d vs keys st s,
  mproj (mstep r d vs keys st (MGet s)) = gstep (scope_id * nat) scope_id smatches (fun s n => (s, n)) snd (mproj st) s.
Proof.
  intros r d vs keys st s. unfold mstep, get_meter, gstep, mproj.
  rewrite find_map. change (fun x : meter => smatches s (m_scope x, m_first x)) with (fun m => scope_eqb (m_scope m) s).
  destruct (find_idx (fun m => scope_eqb (m_scope m) s) (ms_meters st)) as [k|] eqn:F.
  - destruct (find_idx_Some _ _ _ F) as (x & H1 & H2 & H3). rewrite H3, H1. reflexivity.
  - rewrite (find_idx_None _ _ F). cbn [option_map ms_meters ms_calls ms_out].
    rewrite nth_error_app2 by lia. rewrite Nat.sub_diag. cbn. now rewrite map_app.
Qed.
Lemma mstep_inst_proj : forall r d vs keys st i, mproj (mstep r d vs keys st (MInst i)) = mproj st.
Proof.
  intros r d vs keys st i. unfold mstep. destruct (ms_cur st) as [k|]; [|reflexivity]. unfold mproj. cbn [ms_meters ms_calls ms_out].
  rewrite update_nth_map; [reflexivity|]. intros m. destruct (create_instrument_scope vs keys i m) as (-> & -> & _). reflexivity.
Qed.
Lemma mrun_proj : forall r d vs keys ops st,
  mproj (fold_left (mstep r d vs keys) ops st) =
  fold_left (gstep (scope_id * nat) scope_id smatches (fun s n => (s, n)) snd) (gets_of ops) (mproj st).
Proof.
  intros r d vs keys ops. induction ops as [|[s|i] ops IH]; intros st; cbn [fold_left gets_of]; [reflexivity| |].
  - rewrite IH. now rewrite mstep_get_proj.
  - rewrite IH. now rewrite mstep_inst_proj.
Qed.

Lemma meters_ok_lemma : forall r d vs keys ops, meters_ok ops (fst (run_met r d vs keys ops)) = true.
Proof.
  intros r d vs keys ops. unfold meters_ok, run_met. cbn [fst]. apply nats_eqb_eq.
  change (ms_out (mrun r d vs keys ops)) with (snd (mproj (mrun r d vs keys ops))). unfold mrun. rewrite mrun_proj.
  change (mproj mstate0) with (@nil (scope_id * nat), 0%nat, @nil nat).
  apply (grun_out (scope_id * nat) scope_id smatches (fun s n => (s, n)) snd scope_eqb (fun _ => True)).
  - intros a _. apply scope_eqb_refl.
  - intros a b _ _ H. now rewrite scope_eqb_sym.
  - intros a b c _ _ _ H1 H2. apply scope_eqb_eq in H1, H2. subst. apply scope_eqb_refl.
  - reflexivity.
  - intros q' n q _ _. reflexivity.
  - apply Forall_forall. auto.
Qed.

(* ---------- the collected streams *)
Definition cur_after (cur : option scope_id) (ops : list mop) : option scope_id :=
  fold_left (fun c op => match op with MGet s => Some s | MInst _ => c end) ops cur.
Lemma instrs_of_snoc : forall ops cur op,
  instrs_of cur (ops ++ [op]) =
  instrs_of cur ops ++ match op with
                       | MInst i => match cur_after cur ops with Some s => [(s, i)] | None => [] end
                       | MGet _ => []
                       end.
Proof.
  induction ops as [|[s|i] ops IH]; intros cur op; cbn [app instrs_of cur_after fold_left].
  - destruct op as [s|i]; [reflexivity|]. destruct cur; reflexivity.
  - apply IH.
  - destruct cur as [s|]; [cbn; f_equal|]; apply IH.
Qed.

Definition insts_for (s : scope_id) (l : list (scope_id * instr)) : list instr :=
  map snd (filter (fun si => scope_eqb (fst si) s) l).
Definition final_stream (vs : list view) (keys : list bytes) (s : scope_id) (i : instr) : stream :=
  stream_of (last (find_views vs s i) default_view) i s keys.
Definition reg_of (vs : list view) (keys : list bytes) (s : scope_id) (is : list instr) : registry :=
  map (fun i => (i_name i, final_stream vs keys s i)) (filter (fun i => validate_instrument (i_name i) (i_unit i)) is).

Section Streams.
  Variables (r : rules) (d : bool) (vs : list view) (keys : list bytes).

  Definition minv (ops : list mop) (st : mstate) : Prop :=
    (forall m, In m (ms_meters st) ->
       m_enabled m = compute_config r d (m_scope m) /\
       m_reg m = if m_enabled m then reg_of vs keys (m_scope m) (insts_for (m_scope m) (instrs_of None ops)) else []) /\
    (forall s i, In (s, i) (instrs_of None ops) -> exists m, In m (ms_meters st) /\ m_scope m = s) /\
    (forall j j' m m', nth_error (ms_meters st) j = Some m -> nth_error (ms_meters st) j' = Some m' -> m_scope m = m_scope m' -> j = j') /\
    match cur_after None ops with
    | None => ms_cur st = None
    | Some s => exists k m, ms_cur st = Some k /\ nth_error (ms_meters st) k = Some m /\ m_scope m = s
    end.

  Lemma nodup_by_snoc : forall {A} (eqb : A -> A -> bool) l x,
    nodup_by eqb (l ++ [x]) = true -> forall y, In y l -> eqb y x = false.
  Proof.
    intros A eqb l x. induction l as [|z l IH]; cbn [app nodup_by]; [intros _ y []|]. rewrite andb_true_iff, negb_true_iff.
    intros [H1 H2] y [<- | Hy]; [|now apply IH]. rewrite existsb_app in H1. apply orb_false_iff in H1 as [_ H1]. cbn in H1.
    now rewrite orb_false_r in H1.
  Qed.
  Lemma nodup_by_app_l : forall {A} (eqb : A -> A -> bool) l l', nodup_by eqb (l ++ l') = true -> nodup_by eqb l = true.
  Proof.
    intros A eqb l l'. induction l as [|x l IH]; cbn [app nodup_by]; [reflexivity|]. rewrite !andb_true_iff, !negb_true_iff.
    intros [H1 H2]. split; [|auto]. rewrite existsb_app in H1. now apply orb_false_iff in H1 as [H1 _].
  Qed.

  Lemma insts_for_app : forall s l l', insts_for s (l ++ l') = insts_for s l ++ insts_for s l'.
  Proof. intros. unfold insts_for. now rewrite filter_app, map_app. Qed.

  Lemma mstep_minv : forall ops st op, wf_met (ops ++ [op]) = true -> minv ops st -> minv (ops ++ [op]) (mstep r d vs keys st op).
  Proof.
    intros ops st op WF (Hm & Hcover & Huniq & Hcur). unfold minv. rewrite instrs_of_snoc. destruct op as [s|i].
    - (* GetMeter *)
      rewrite app_nil_r. unfold cur_after. rewrite fold_left_app. cbn [fold_left].
      unfold mstep, get_meter. destruct (find_idx (fun m => scope_eqb (m_scope m) s) (ms_meters st)) as [k|] eqn:F; cbn [ms_meters ms_cur].
      + destruct (find_idx_Some _ _ _ F) as (x & H1 & H2 & _). apply scope_eqb_eq in H2.
        split; [exact Hm|]. split; [exact Hcover|]. split; [exact Huniq|]. exists k, x. auto.
      + apply find_idx_None in F.
        assert (Hnone : forall m, In m (ms_meters st) -> m_scope m <> s).
        { intros m Hin E. pose proof (find_none _ _ F m Hin) as X. cbn in X. rewrite E, scope_eqb_refl in X. discriminate. }
        split; [|split; [|split]].
        * intros m Hin. apply in_app_or in Hin as [Hin | [<- | []]]; [now apply Hm|]. cbn [m_enabled m_scope m_reg].
          split; [reflexivity|].
          assert (E : insts_for s (instrs_of None ops) = []).
          { unfold insts_for. destruct (filter (fun si => scope_eqb (fst si) s) (instrs_of None ops)) as [|[s' i'] l] eqn:Fl; [reflexivity|].
            assert (Hin : In (s', i') (filter (fun si => scope_eqb (fst si) s) (instrs_of None ops))) by (rewrite Fl; now left).
            apply filter_In in Hin as [Hin Hs]. cbn in Hs. apply scope_eqb_eq in Hs. subst s'.
            destruct (Hcover s i' Hin) as (m & Hm1 & Hm2). exfalso. exact (Hnone m Hm1 Hm2). }
          rewrite E. now destruct (compute_config r d s).
        * intros s' i' Hin. destruct (Hcover s' i' Hin) as (m & Hm1 & Hm2). exists m. split; [apply in_or_app; now left | assumption].
        * intros j j' m m' Hj Hj' E.
          assert (Lj : (j < length (ms_meters st) \/ j = length (ms_meters st))%nat).
          { assert (X : (j < length (ms_meters st ++ [mk_meter s (compute_config r d s) (ms_calls st) []]))%nat) by (apply nth_error_Some; congruence).
            rewrite app_length in X. cbn in X. lia. }
          assert (Lj' : (j' < length (ms_meters st) \/ j' = length (ms_meters st))%nat).
          { assert (X : (j' < length (ms_meters st ++ [mk_meter s (compute_config r d s) (ms_calls st) []]))%nat) by (apply nth_error_Some; congruence).
            rewrite app_length in X. cbn in X. lia. }
          destruct Lj as [Lj | ->]; destruct Lj' as [Lj' | ->]; try reflexivity.
          -- rewrite nth_error_app1 in Hj, Hj' by assumption. eapply Huniq; eassumption.
          -- rewrite nth_error_app1 in Hj by assumption. rewrite nth_error_app2, Nat.sub_diag in Hj' by lia. cbn in Hj'. injection Hj' as <-.
             cbn in E. exfalso. exact (Hnone m (nth_error_In _ _ Hj) E).
          -- rewrite nth_error_app1 in Hj' by assumption. rewrite nth_error_app2, Nat.sub_diag in Hj by lia. cbn in Hj. injection Hj as <-.
             cbn in E. exfalso. symmetry in E. exact (Hnone m' (nth_error_In _ _ Hj') E).
        * eexists (length (ms_meters st)), _. split; [reflexivity|]. split; [rewrite nth_error_app2 by lia; rewrite Nat.sub_diag; reflexivity | reflexivity].
    - (* an instrument on the current meter *)
      assert (Ecur : cur_after None (ops ++ [MInst i]) = cur_after None ops) by (unfold cur_after; now rewrite fold_left_app).
      rewrite Ecur. unfold mstep. destruct (cur_after None ops) as [s|] eqn:C.
      + destruct Hcur as (k & m0 & Hk & Hnth & Hs). rewrite Hk. cbn [ms_meters ms_cur].
        assert (WF' : forall y, In y (instrs_of None ops) -> inst_key_eqb y (s, i) = false).
        { unfold wf_met in WF. rewrite instrs_of_snoc, C in WF. now apply nodup_by_snoc. }
        assert (Hsc : forall j m, nth_error (update_nth k (create_instrument vs keys i) (ms_meters st)) j = Some m ->
                                  exists m1, nth_error (ms_meters st) j = Some m1 /\ m_scope m = m_scope m1).
        { intros j m Hj. destruct (Nat.eq_dec j k) as [-> | Hne].
          - rewrite (update_nth_nth_same _ _ _ _ Hnth) in Hj. injection Hj as <-. exists m0. split; [assumption|].
            now destruct (create_instrument_scope vs keys i m0) as (-> & _).
          - rewrite update_nth_nth_other in Hj by assumption. exists m. auto. }
        split; [|split; [|split]].
        * intros m Hin. apply In_nth_error in Hin as [j Hj]. destruct (Nat.eq_dec j k) as [-> | Hne].
          -- rewrite (update_nth_nth_same _ _ _ _ Hnth) in Hj. injection Hj as <-.
             destruct (create_instrument_scope vs keys i m0) as (Es & _ & Ee). destruct (Hm m0 (nth_error_In _ _ Hnth)) as [He Hr].
             rewrite Ee, Es, create_instrument_reg. split; [exact He|]. rewrite insts_for_app. rewrite Hs in *.
             assert (E1 : insts_for s [(s, i)] = [i]) by (unfold insts_for; cbn; now rewrite scope_eqb_refl).
             rewrite E1. destruct (m_enabled m0) eqn:En; cbn [andb]; [|exact Hr].
             unfold reg_of. rewrite filter_app, map_app. cbn [filter].
             destruct (validate_instrument (i_name i) (i_unit i)) eqn:V; cbn [map]; [|now rewrite app_nil_r].
             rewrite reg_step_fresh; [now rewrite Hr|]. rewrite Hr. unfold reg_of. rewrite map_map. cbn [fst].
             intros X. apply in_map_iff in X as (i' & En' & Hi'). apply filter_In in Hi' as [Hi' _].
             unfold insts_for in Hi'. apply in_map_iff in Hi' as ([s' i''] & E2 & Hi'). cbn in E2. subst i''.
             apply filter_In in Hi' as [Hi' Hs']. cbn in Hs'. apply scope_eqb_eq in Hs'. subst s'.
             specialize (WF' (s, i') Hi'). unfold inst_key_eqb in WF'. cbn in WF'. now rewrite scope_eqb_refl, En', bytes_eqb_refl in WF'.
          -- rewrite update_nth_nth_other in Hj by assumption. pose proof (nth_error_In _ _ Hj) as Hin.
             destruct (Hm m Hin) as [He Hr]. split; [exact He|]. rewrite Hr. rewrite insts_for_app.
             assert (E1 : insts_for (m_scope m) [(s, i)] = []).
             { unfold insts_for. cbn. destruct (scope_eqb s (m_scope m)) eqn:E; [|reflexivity]. apply scope_eqb_eq in E.
               exfalso. apply Hne. eapply Huniq; [exact Hj | exact Hnth | congruence]. }
             rewrite E1, app_nil_r. reflexivity.
        * intros s' i' Hin.
          assert (G : forall m, In m (ms_meters st) -> exists m', In m' (update_nth k (create_instrument vs keys i) (ms_meters st)) /\ m_scope m' = m_scope m).
          { intros m Hm1. apply In_nth_error in Hm1 as [j Hj]. destruct (Nat.eq_dec j k) as [-> | Hne].
            - exists (create_instrument vs keys i m). split; [eapply nth_error_In; apply update_nth_nth_same; eassumption|].
              now destruct (create_instrument_scope vs keys i m) as (-> & _).
            - exists m. split; [|reflexivity]. eapply nth_error_In. rewrite update_nth_nth_other; eassumption. }
          apply in_app_or in Hin as [Hin | [E | []]].
          -- destruct (Hcover s' i' Hin) as (m & Hm1 & Hm2). destruct (G m Hm1) as (m' & H1 & H2). exists m'. split; [assumption | congruence].
          -- injection E as <- <-. destruct (G m0 (nth_error_In _ _ Hnth)) as (m' & H1 & H2). exists m'. split; [assumption | congruence].
        * intros j j' m m' Hj Hj' E. destruct (Hsc j m Hj) as (m1 & H1 & H2). destruct (Hsc j' m' Hj') as (m1' & H1' & H2').
          eapply Huniq; [exact H1 | exact H1' | congruence].
        * exists k, (create_instrument vs keys i m0). split; [reflexivity|]. split; [now apply update_nth_nth_same|].
          destruct (create_instrument_scope vs keys i m0) as (-> & _). assumption.
      + rewrite Hcur, app_nil_r. split; [exact Hm|]. split; [exact Hcover|]. split; [exact Huniq | exact Hcur].
  Qed.

  Lemma wf_met_prefix : forall ops op, wf_met (ops ++ [op]) = true -> wf_met ops = true.
  Proof. intros ops op. unfold wf_met. rewrite instrs_of_snoc. apply nodup_by_app_l. Qed.

  Lemma mrun_minv : forall ops, wf_met ops = true -> minv ops (mrun r d vs keys ops).
  Proof.
    intros ops. unfold mrun. induction ops as [|op ops IH] using rev_ind; intros WF.
    - cbn. split; [intros m []|]. split; [intros s i []|]. split; [|reflexivity]. intros [|j] j' m m' H; discriminate.
    - rewrite fold_left_app. cbn [fold_left]. apply mstep_minv; [assumption|]. apply IH. eapply wf_met_prefix; eassumption.
  Qed.

  (* what is collected: one stream per instrument that was created on an enabled meter with a valid name and unit *)
  Theorem collected_iff : forall ops o, wf_met ops = true ->
    (In o (snd (run_met r d vs keys ops)) <->
     exists s i, In (s, i) (instrs_of None ops) /\ compute_config r d s = true /\
                 validate_instrument (i_name i) (i_unit i) = true /\ o = final_stream vs keys s i).
  Proof.
    intros ops o WF. destruct (mrun_minv ops WF) as (Hm & Hcover & _ & _). unfold run_met, collect. cbn [snd].
    rewrite sort_streams_In, in_flat_map. split.
    - intros (m & Hin & Ho). destruct (Hm m Hin) as [He Hr]. unfold meter_streams in Ho. destruct (m_enabled m) eqn:En; [|destruct Ho].
      rewrite Hr in Ho. unfold reg_of in Ho. rewrite map_map in Ho. cbn [snd] in Ho.
      apply in_map_iff in Ho as (i & <- & Hi). apply filter_In in Hi as [Hi V].
      unfold insts_for in Hi. apply in_map_iff in Hi as ([s' i'] & E & Hi). cbn in E. subst i'.
      apply filter_In in Hi as [Hi Hs]. cbn in Hs. apply scope_eqb_eq in Hs. subst s'.
      exists (m_scope m), i. repeat split; auto; congruence.
    - intros (s & i & Hin & C & V & ->). destruct (Hcover s i Hin) as (m & Hm1 & Hm2). exists m. split; [assumption|].
      destruct (Hm m Hm1) as [He Hr]. unfold meter_streams. rewrite He, Hm2, C. rewrite Hr, He, Hm2, C.
      unfold reg_of. rewrite map_map. cbn [snd]. apply in_map_iff. exists i. split; [reflexivity|].
      apply filter_In. split; [|assumption]. unfold insts_for. apply in_map_iff. exists (s, i). split; [reflexivity|].
      apply filter_In. split; [assumption|]. cbn. apply scope_eqb_refl.
  Qed.
End Streams.
