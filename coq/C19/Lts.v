(* MODEL of concurrent GetTracer / GetMeter / GetLogger calls on one provider, at lock granularity, as a labelled
   transition system used as an ACCEPTOR of event traces (engine E-sched; same pattern as coq/Batch/Model.v).

   TracerProvider::GetTracer (sdk/src/trace/tracer_provider.cc), LoggerProvider::GetLogger (sdk/src/logs/logger_provider.cc)
   and MeterProvider::GetMeter (sdk/src/metrics/meter_provider.cc; MeterContext::AddMeter's spin lock nests inside) all take
   the provider's std::mutex lock_ with one lock_guard that lives until the function returns: lookup, and if absent the
   construction of the scope and of the Tracer / Meter / Logger (whose constructor evaluates the user's scope configurator)
   and the push_back all happen under that one lock.  So a call is four events of its thread

       PCall    the thread calls Get* with the next request of its script
       PLock    it acquires the provider mutex; the whole critical section - one step of the sequential provider model
                (tstep / mstep / lstep of C19/Model.v) - is attributed to this event
       PUnlock  it releases the mutex
       PRet c   the call returns; c numbers the returned instance by order of first return (what the driver can observe)

   and any number of threads interleave these events arbitrarily, subject to mutual exclusion.  [accept] takes an event iff
   it is what that thread does next and the lock discipline and the returned instance agree with the shared state.
   Outside the model: data races inside the critical section, weak memory, configurator code that re-enters the provider.
   Definitions only; the invariants are in C19/ProofsLts.v.  [p_lin] is a ghost field. *)
From V Require Export C19.Spec.

Fixpoint all_some {A} (l : list (option A)) : option (list A) :=
  match l with
  | [] => Some []
  | Some x :: l' => option_map (cons x) (all_some l')
  | None :: _ => None
  end.

Inductive pstate := PrT (st : tstate) | PrM (st : mstate) | PrL (st : lstate).
Definition pinit (kind : N) : pstate :=
  if (kind =? 0)%N then PrT tstate0 else if (kind =? 1)%N then PrM mstate0 else PrL lstate0.
(* the critical section of one Get* call *)
Definition pstep (r : rules) (d : bool) (p : pstate) (q : lreq) : pstate :=
  match p with
  | PrT st => PrT (tstep r d st (q_scope q))
  | PrM st => PrM (mstep r d [] [] st (MGet (q_scope q)))
  | PrL st => PrL (lstep r d st q)
  end.
(* the instance every call so far was answered with: the number of the call that created it *)
Definition pouts (p : pstate) : list nat :=
  match p with PrT st => ts_out st | PrM st => ms_out st | PrL st => ls_out st end.
(* the registered instance with that number: enabled flag, scope, scope attributes *)
Definition pentry (p : pstate) (h : nat) : option (bool * scope_id * attrs) :=
  match p with
  | PrT st => option_map (fun t => (t_enabled t, t_scope t, [])) (find (fun t => Nat.eqb (t_first t) h) (ts_tracers st))
  | PrM st => option_map (fun m => (m_enabled m, m_scope m, [])) (find (fun m => Nat.eqb (m_first m) h) (ms_meters st))
  | PrL st => option_map (fun l => (l_enabled l, l_scope l, l_attrs l)) (find (fun l => Nat.eqb (l_first l) h) (ls_loggers st))
  end.
(* how many registered instances answer a request *)
Definition pmatching (p : pstate) (q : lreq) : nat :=
  match p with
  | PrT st => length (filter (fun t => scope_eqb (t_scope t) (q_scope q)) (ts_tracers st))
  | PrM st => length (filter (fun m => scope_eqb (m_scope m) (q_scope q)) (ms_meters st))
  | PrL st => length (filter (logger_matches q) (ls_loggers st))
  end.

Inductive pev := PCall | PLock | PUnlock | PRet (c : nat).
Inductive tpc := TIdle | TCalled (q : lreq) | TLocked (q : lreq) (h : nat) | TUnlocked (q : lreq) (h : nat).
Record thr := mk_thr { th_todo : list lreq; th_pc : tpc; th_done : list nat }.
Record pst := mk_pst {
  p_prov : pstate;             (* the provider's registry *)
  p_lock : option nat;         (* who holds the provider mutex *)
  p_thr : list thr;
  p_lin : list lreq;           (* ghost: the requests in the order in which their calls acquired the mutex *)
  p_seen : list nat }.         (* instances in the order of their first return *)

Definition pst0 (kind : N) (scripts : list (list lreq)) : pst :=
  mk_pst (pinit kind) None (map (fun s => mk_thr s TIdle []) scripts) [] [].

Definition set_thr (t : nat) (th : thr) (st : pst) : list thr := update_nth t (fun _ => th) (p_thr st).

Definition accept (r : rules) (d : bool) (st : pst) (te : nat * pev) : option pst :=
  let '(t, e) := te in
  match nth_error (p_thr st) t with
  | None => None
  | Some th =>
      match e, th_pc th, th_todo th with
      | PCall, TIdle, q :: todo =>
          Some (mk_pst (p_prov st) (p_lock st) (set_thr t (mk_thr todo (TCalled q) (th_done th)) st) (p_lin st) (p_seen st))
      | PLock, TCalled q, _ =>
          match p_lock st with
          | Some _ => None
          | None =>
              let p' := pstep r d (p_prov st) q in
              Some (mk_pst p' (Some t) (set_thr t (mk_thr (th_todo th) (TLocked q (last (pouts p') 0%nat)) (th_done th)) st)
                           (p_lin st ++ [q]) (p_seen st))
          end
      | PUnlock, TLocked q h, _ =>
          match p_lock st with
          | Some t' => if Nat.eqb t' t
                       then Some (mk_pst (p_prov st) None (set_thr t (mk_thr (th_todo th) (TUnlocked q h) (th_done th)) st)
                                         (p_lin st) (p_seen st))
                       else None
          | None => None
          end
      | PRet c, TUnlocked q h, _ =>
          let th' := mk_thr (th_todo th) TIdle (th_done th ++ [h]) in
          match find_idx (Nat.eqb h) (p_seen st) with
          | Some k => if Nat.eqb k c then Some (mk_pst (p_prov st) (p_lock st) (set_thr t th' st) (p_lin st) (p_seen st)) else None
          | None => if Nat.eqb (length (p_seen st)) c
                    then Some (mk_pst (p_prov st) (p_lock st) (set_thr t th' st) (p_lin st) (p_seen st ++ [h])) else None
          end
      | _, _, _ => None
      end
  end.

(* the state after a trace, or the number of the first event that is not accepted *)
Fixpoint accept_all (r : rules) (d : bool) (st : pst) (tr : list (nat * pev)) (n : nat) : pst + nat :=
  match tr with
  | [] => inl st
  | te :: tr' => match accept r d st te with Some st' => accept_all r d st' tr' (S n) | None => inr n end
  end.

Definition thr_finished (th : thr) : bool :=
  is_nil (th_todo th) && match th_pc th with TIdle => true | _ => false end.
Definition complete (st : pst) : bool :=
  match p_lock st with None => forallb thr_finished (p_thr st) | Some _ => false end.

(* what the driver reports after all threads have finished: for every call in script order (thread 0's, thread 1's, ...)
   the instance (numbered by first appearance in that order) and what the instance says about itself *)
Definition summary_hs (p : pstate) (chs : list (nat * nat)) : option (list hobs) :=
  all_some (map (fun ch => option_map (fun e => mk_hobs (fst ch) (fst (fst e)) (snd (fst e)) (snd e)) (pentry p (snd ch))) chs).
Definition summary_of (p : pstate) (ids : list nat) : option (list hobs) :=
  summary_hs p (combine (expected_indices Nat.eqb ids) ids).
Definition psummary (st : pst) : option (list hobs) := summary_of (p_prov st) (concat (map th_done (p_thr st))).
