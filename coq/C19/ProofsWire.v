(* C19 proofs, part 7: the extracted entry points.  Observations printed by [run_model] parse back to what was printed,
   so [run_spec l (run_model l)] is the structured checker of ProofsMeets on the model's structured output. *)
From V Require Import C19.Glue C19.ProofsBase C19.ProofsMeets.
From Coq Require Import Lia ZifyBool ZifyNat ZifyN.

Definition plain (sep : string) (l : list tok) : Prop := forall t, In t l -> is_tag sep t = false.

Lemma split_aux_plain : forall sep body rest cur, plain sep body ->
  split_toks_aux sep (body ++ rest) cur = split_toks_aux sep rest (rev body ++ cur).
Proof.
  intros sep body. induction body as [|t body IH]; intros rest cur H; [reflexivity|].
  cbn [app split_toks_aux]. rewrite (H t (or_introl eq_refl)). rewrite IH by (intros x Hx; apply H; now right).
  cbn [rev]. now rewrite <- app_assoc.
Qed.

Lemma split_aux_members : forall (sep : string) bodies cur,
  is_tag sep (tag sep) = true -> (forall b, In b bodies -> plain sep b) ->
  split_toks_aux sep (flat_map (fun b => tag sep :: b) bodies) cur = rev cur :: bodies.
Proof.
  intros sep bodies. induction bodies as [|b bodies IH]; intros cur Hs H; [reflexivity|].
  cbn [flat_map app split_toks_aux]. rewrite Hs. f_equal.
  rewrite split_aux_plain by (apply H; now left). rewrite IH; [|assumption|intros x Hx; apply H; now right].
  now rewrite app_nil_r, rev_involutive.
Qed.

Lemma tagged_members_print : forall (sep : string) bodies,
  is_tag sep (tag sep) = true -> (forall b, In b bodies -> plain sep b) ->
  tagged_members sep (flat_map (fun b => tag sep :: b) bodies) = Some bodies.
Proof.
  intros sep [|b bodies] Hs H; [reflexivity|]. unfold tagged_members.
  change (flat_map (fun b0 => tag sep :: b0) (b :: bodies)) with (tag sep :: b ++ flat_map (fun b0 => tag sep :: b0) bodies).
  unfold split_toks. change (tag sep :: b ++ flat_map (fun b0 => tag sep :: b0) bodies) with (flat_map (fun b0 => tag sep :: b0) (b :: bodies)).
  now rewrite split_aux_members.
Qed.

Lemma leading_nats_print : forall idx rest,
  match rest with TZ _ :: _ => False | _ => True end ->
  leading_nats (map tnat idx ++ rest) = (idx, rest).
Proof.
  intros idx rest H. induction idx as [|n idx IH]; cbn [map app leading_nats].
  - destruct rest as [|[b|z|t] rest]; try reflexivity. destruct H.
  - unfold tnat at 1. cbn [leading_nats]. rewrite IH. now rewrite Nat2Z.id.
Qed.

Lemma all_some_map : forall {A B} (f : A -> option B) (g : B -> A) l, (forall x, f (g x) = Some x) -> all_some (map f (map g l)) = Some l.
Proof. intros A B f g l H. induction l as [|x l IH]; cbn; [reflexivity|]. now rewrite H, IH. Qed.

Lemma flat_map_cons_map : forall {A} (sep : string) (f : A -> list tok) l,
  flat_map (fun x => tag sep :: f x) l = flat_map (fun b => tag sep :: b) (map f l).
Proof. intros A sep f l. induction l as [|x l IH]; cbn; [reflexivity|]. now rewrite IH. Qed.

Lemma plain_bytes : forall sep l, plain sep (map TB l).
Proof. intros sep l t Ht. apply in_map_iff in Ht as (x & <- & _). reflexivity. Qed.

(* ---- metrics observations *)
Definition stream_body (s : stream) : list tok :=
  print_scope (st_scope s) ++
  [TB (st_name s); TB (st_desc s); TB (st_unit s); tN (st_itype s); tN (st_vtype s); tN (st_agg s); tN (st_npoints s)] ++ map TB (st_keys s).

Lemma parse_stream_body : forall s, parse_stream (stream_body s) = Some s.
Proof.
  intros [[a b c] n dsc u ity vty agg np ks]. unfold stream_body, parse_stream, print_scope, tN. cbn.
  rewrite (all_some_map tok_bytes TB ks) by reflexivity. cbn. unfold znat. now rewrite !N2Z.id.
Qed.
Lemma stream_body_plain : forall s, plain "S" (stream_body s).
Proof.
  intros s t Ht. unfold stream_body, print_scope in Ht. cbn in Ht.
  repeat (destruct Ht as [<- | Ht]; [reflexivity|]). now apply (plain_bytes "S" (st_keys s)).
Qed.

Lemma parse_print_met : forall o, parse_met_obs (print_met o) = Some o.
Proof.
  intros [idx ss]. unfold parse_met_obs, print_met. cbn [fst snd].
  change (flat_map print_stream ss) with (flat_map (fun s => tag "S" :: stream_body s) ss).
  rewrite leading_nats_print by (destruct ss; exact I).
  rewrite (flat_map_cons_map "S" stream_body), tagged_members_print.
  - rewrite (all_some_map parse_stream stream_body ss) by apply parse_stream_body. reflexivity.
  - reflexivity.
  - intros b Hb. apply in_map_iff in Hb as (s & <- & _). apply stream_body_plain.
Qed.

(* ---- tracer observations *)
Definition span_body (ns : nat * scope_id) : list tok := tnat (fst ns) :: print_scope (snd ns).
Lemma parse_span_body : forall ns, parse_span (span_body ns) = Some ns.
Proof. intros [n [a b c]]. unfold span_body, parse_span, print_scope, tnat. cbn. now rewrite Nat2Z.id. Qed.
Lemma span_body_plain : forall ns, plain "E" (span_body ns).
Proof. intros ns t Ht. unfold span_body, print_scope in Ht. cbn in Ht. repeat (destruct Ht as [<- | Ht]; [reflexivity|]). destruct Ht. Qed.

Lemma parse_print_tr : forall st, parse_tr_obs (print_tr st) = Some (ts_out st, ts_spans st).
Proof.
  intros st. unfold parse_tr_obs, print_tr.
  change (flat_map print_span (ts_spans st)) with (flat_map (fun ns => tag "E" :: span_body ns) (ts_spans st)).
  rewrite leading_nats_print by (destruct (ts_spans st); exact I).
  rewrite (flat_map_cons_map "E" span_body), tagged_members_print.
  - rewrite (all_some_map parse_span span_body) by apply parse_span_body. reflexivity.
  - reflexivity.
  - intros b Hb. apply in_map_iff in Hb as (s & <- & _). apply span_body_plain.
Qed.

(* ---- logger observations *)
Definition attrs_toks (a : attrs) : list tok := flat_map (fun kv => [TB (fst kv); print_aval (snd kv)]) a.
Lemma parse_attrs_toks : forall a, parse_attrs (attrs_toks a) = Some a.
Proof. induction a as [|[k [z|s]] a IH]; cbn; [reflexivity| |]; unfold attrs_toks in IH; rewrite IH; reflexivity. Qed.
Lemma attrs_toks_plain : forall sep a, plain sep (attrs_toks a).
Proof.
  intros sep a t Ht. unfold attrs_toks in Ht. apply in_flat_map in Ht as ([k v] & _ & Ht). cbn in Ht.
  destruct Ht as [<- | [<- | []]]; [reflexivity | now destruct v].
Qed.
Definition lrec_body (rc : lrec) : list tok := tnat (r_call rc) :: print_scope (r_scope rc) ++ attrs_toks (r_attrs rc).
Lemma parse_lrec_body : forall rc, parse_lrec (lrec_body rc) = Some rc.
Proof.
  intros [n [a b c] at']. unfold lrec_body, parse_lrec, print_scope, tnat. cbn [r_call r_scope r_attrs sc_name sc_ver sc_schema app].
  rewrite parse_attrs_toks. cbn. now rewrite Nat2Z.id.
Qed.
Lemma lrec_body_plain : forall rc, plain "E" (lrec_body rc).
Proof.
  intros rc t Ht. unfold lrec_body, print_scope in Ht. cbn in Ht.
  repeat (destruct Ht as [<- | Ht]; [reflexivity|]). now apply (attrs_toks_plain "E" (r_attrs rc)).
Qed.

Lemma parse_print_lg : forall st, parse_lg_obs (print_lg st) = Some (ls_out st, ls_recs st).
Proof.
  intros st. unfold parse_lg_obs, print_lg.
  change (flat_map print_lrec (ls_recs st)) with (flat_map (fun rc => tag "E" :: lrec_body rc) (ls_recs st)).
  rewrite leading_nats_print by (destruct (ls_recs st); exact I).
  rewrite (flat_map_cons_map "E" lrec_body), tagged_members_print.
  - rewrite (all_some_map parse_lrec lrec_body) by apply parse_lrec_body. reflexivity.
  - reflexivity.
  - intros b Hb. apply in_map_iff in Hb as (s & <- & _). apply lrec_body_plain.
Qed.

(* ---- concurrent-request observations *)
Definition hobs_body (h : hobs) : list tok :=
  tnat (h_class h) :: tbool (h_enabled h) :: print_scope (h_scope h) ++ attrs_toks (h_attrs h).
Lemma parse_hobs_body : forall h, parse_hobs (hobs_body h) = Some h.
Proof.
  intros [c e [a b c'] at']. unfold hobs_body, parse_hobs, print_scope, tnat. cbn [h_class h_enabled h_scope h_attrs sc_name sc_ver sc_schema app].
  rewrite parse_attrs_toks. destruct e; cbn; now rewrite Nat2Z.id.
Qed.
Lemma hobs_body_plain : forall h, plain "H" (hobs_body h).
Proof.
  intros h t Ht. unfold hobs_body, print_scope in Ht. cbn in Ht.
  destruct Ht as [<- | Ht]; [reflexivity|]. destruct Ht as [<- | Ht]; [now destruct (h_enabled h)|].
  repeat (destruct Ht as [<- | Ht]; [reflexivity|]). now apply (attrs_toks_plain "H" (h_attrs h)).
Qed.
Lemma parse_print_prace : forall hs, parse_prace_obs (flat_map print_hobs hs) = Some hs.
Proof.
  intros hs. unfold parse_prace_obs.
  change (flat_map print_hobs hs) with (flat_map (fun h => tag "H" :: hobs_body h) hs).
  rewrite (flat_map_cons_map "H" hobs_body), tagged_members_print.
  - apply (all_some_map parse_hobs hobs_body). apply parse_hobs_body.
  - reflexivity.
  - intros b Hb. apply in_map_iff in Hb as (s & <- & _). apply hobs_body_plain.
Qed.

Lemma parse_flag_print : forall (name : string) b, is_tag name (tag name) = true -> parse_flag name [tag name; tbool b] = Some b.
Proof. intros name b H. unfold parse_flag. rewrite H. now destruct b. Qed.
Lemma parse_flag2_print : forall (name : string) b n, is_tag name (tag name) = true ->
  parse_flag2 name [tag name; tbool b; print_obool n] = Some (b, n).
Proof. intros name b n H. unfold parse_flag2. rewrite H. destruct b, n as [[|]|]; reflexivity. Qed.

(* ---- the two extracted functions, composed (a case line without a "|| <trace>" part) *)
Lemma run_model_obs : forall l0 l c, split_trace l0 = (l, None) -> parse_case l = Some c -> run_model l0 = model_obs c.
Proof. intros l0 l c S H. unfold run_model. rewrite S, H. now destruct c. Qed.

Lemma run_spec_on_model : forall l0 l c, split_trace l0 = (l, None) -> parse_case l = Some c -> case_good c ->
  run_spec l0 (run_model l0) = spec_on c.
Proof.
  intros l0 l c S H G. rewrite (run_model_obs l0 l c S H). unfold run_spec. rewrite S. cbn [fst]. rewrite H.
  destruct c as [s | s | k raw s | r d vs keys ops | r d ops | r d ops | kind r d threads |]; cbn [model_obs spec_on].
  - now rewrite parse_flag2_print.
  - change (tbool (validate_unit_nr s)) with (print_obool (Some (validate_unit_nr s))). now rewrite parse_flag2_print.
  - cbn in G. destruct (pred_model k raw s) as [b|]; [now rewrite parse_flag_print | contradiction].
  - rewrite parse_print_met. now destruct (run_met r d vs keys ops).
  - now rewrite parse_print_tr.
  - now rewrite parse_print_lg.
  - now rewrite parse_print_prace.
  - reflexivity.
Qed.

Lemma model_meets_spec_wire_lemma : forall l0 l c, split_trace l0 = (l, None) -> parse_case l = Some c -> case_good c ->
  run_spec l0 (run_model l0) = [].
Proof. intros l0 l c S H G. rewrite (run_spec_on_model l0 l c S H G). now apply model_meets_spec_lemma. Qed.

(* a parsed case for which nothing is excluded *)
Example wire_nonvacuous :
  exists l c, split_trace [tag "TR"; TZ 1; tag ";"; tag "N"; TB (bs "a"); TZ 0; tag "|"; tag "G"; TB (bs "a"); TB []; TB []; tag ";";
                           tag "G"; TB (bs "b"); TB []; TB []] = (l, None) /\ parse_case l = Some c /\ case_good c.
Proof. eexists. eexists. split; [vm_compute; reflexivity|]. split; [vm_compute; reflexivity | exact I]. Qed.
