(* Glue between the token wire format and the C19 model/spec.  Extracted.
   Case grammar (sections separated by the tag '|', members of a section by ';'):
     NAME x<name>          UNIT x<unit>          PRED (P|E) x<pattern> x<string>
     MET <rules> | <views> | <keys> | <mops>     TR <rules> | <tops>     LG <rules> | <lops>
     rules : <default 0/1> { ; N x<name> e | HV e | VE x<version> e | SE x<schema> e | ANY e }
     view  : <itype 0..6> x<pattern> x<unit> x<mname> x<mver> x<mschema> x<vname> x<vdesc> <agg 0..4> ( NOF | F x<key>* )
     keys  : x<key>*        (attribute keys of the one measurement every instrument gets)
     mop   : M x<name> x<version> x<schema>  |  I <itype 0..5> <vtype 0/1> x<name> x<desc> x<unit>
     top   : G x<name> x<version> x<schema>
     lop   : G x<logger name> x<library name> x<version> x<schema> { x<key> ( <int> | x<string> ) }
     PRACE (T|M|L) | <rules> | T <op> ; <op> ... | T ... | s <tid> <flag> ...
           concurrent Get* calls on one provider under the scheduler shim; op = top for T and M, lop for L *)
From V Require Export C19.Lts.
Local Open Scope Z_scope.

Inductive case :=
| CNameC (s : bytes)
| CUnitC (s : bytes)
| CPred (pattern_kind : bool) (raw s : bytes)
| CMet (r : rules) (d : bool) (vs : list view) (keys : list bytes) (ops : list mop)
| CTr (r : rules) (d : bool) (ops : list scope_id)
| CLg (r : rules) (d : bool) (ops : list lreq)
(* kind: 0 TracerProvider 1 MeterProvider 2 LoggerProvider; the schedule of the case is not part of the parsed case *)
| CPrace (kind : N) (r : rules) (d : bool) (threads : list (list lreq))
(* independence probe (harness/c19_purity.cc, ThreadSanitizer build): PURITY <scenario> <threads> <rounds> <iters> *)
| CPur.

Definition parse_bool (t : tok) : option bool :=
  match t with TZ 0 => Some false | TZ 1 => Some true | _ => None end.
Definition tok_bytes (t : tok) : option bytes := match t with TB b => Some b | _ => None end.
Definition small (z hi : Z) : option N := if (0 <=? z) && (z <=? hi) then Some (Z.to_N z) else None.

Definition sections (l : list tok) : list (list tok) := split_toks "|" l.
Definition members (sec : list tok) : list (list tok) := if is_nil sec then [] else split_toks ";" sec.

Definition parse_rule (l : list tok) : option (cond * bool) :=
  match l with
  | [t; TB b; e] =>
      match parse_bool e with
      | Some e' => if is_tag "N" t then Some (CName b, e') else if is_tag "VE" t then Some (CVerEq b, e')
                   else if is_tag "SE" t then Some (CSchemaEq b, e') else None
      | None => None
      end
  | [t; e] =>
      match parse_bool e with
      | Some e' => if is_tag "HV" t then Some (CHasVer, e') else if is_tag "ANY" t then Some (CAny, e') else None
      | None => None
      end
  | _ => None
  end.
Definition parse_rules (sec : list tok) : option (rules * bool) :=
  match split_toks ";" sec with
  | [d] :: rest =>
      match parse_bool d, all_some (map parse_rule rest) with
      | Some d', Some r => Some (r, d')
      | _, _ => None
      end
  | _ => None
  end.

Definition parse_view (l : list tok) : option view :=
  match l with
  | TZ ity :: TB pat :: TB unit :: TB mn :: TB mv :: TB msch :: TB vn :: TB vd :: TZ agg :: f :: ks =>
      match small ity 6, small agg 4, name_sel_of pat, all_some (map tok_bytes ks) with
      | Some ity', Some agg', Some sel, Some keys =>
          if is_tag "NOF" f then (if is_nil ks then Some (mk_view ity' sel unit mn mv msch vn vd agg' None) else None)
          else if is_tag "F" f then Some (mk_view ity' sel unit mn mv msch vn vd agg' (Some keys))
          else None
      | _, _, _, _ => None
      end
  | _ => None
  end.

Definition parse_mop (l : list tok) : option mop :=
  match l with
  | [t; TB a; TB b; TB c] => if is_tag "M" t then Some (MGet (mk_scope a b c)) else None
  | [t; TZ ity; TZ vty; TB n; TB dsc; TB u] =>
      match small ity 5, small vty 1 with
      | Some ity', Some vty' => if is_tag "I" t then Some (MInst (mk_instr ity' vty' n dsc u)) else None
      | _, _ => None
      end
  | _ => None
  end.
(* the driver needs a current meter for every instrument *)
Definition mops_ok (ops : list mop) : bool :=
  match ops with MInst _ :: _ => false | _ => true end.

Definition parse_top (l : list tok) : option scope_id :=
  match l with
  | [t; TB a; TB b; TB c] => if is_tag "G" t then Some (mk_scope a b c) else None
  | _ => None
  end.

Fixpoint parse_attrs (l : list tok) : option attrs :=
  match l with
  | [] => Some []
  | TB k :: TZ z :: l' => option_map (cons (k, AInt z)) (parse_attrs l')
  | TB k :: TB s :: l' => option_map (cons (k, AStr s)) (parse_attrs l')
  | _ => None
  end.
Definition parse_lop (l : list tok) : option lreq :=
  match l with
  | t :: TB a :: TB b :: TB c :: TB d :: rest =>
      if is_tag "G" t then option_map (mk_lreq a b c d) (parse_attrs rest) else None
  | _ => None
  end.

(* a tracer / meter request as a logger-shaped request: no logger name, no attributes *)
Definition lreq_of_scope (s : scope_id) : lreq := mk_lreq [] (sc_name s) (sc_ver s) (sc_schema s) [].
Definition parse_pop (kind : N) (l : list tok) : option lreq :=
  if (kind =? 2)%N then parse_lop l else option_map lreq_of_scope (parse_top l).
(* thread sections "T <op> ; ..." followed by one schedule section "s ..." *)
Fixpoint parse_threads (kind : N) (secs : list (list tok)) : option (list (list lreq)) :=
  match secs with
  | [] => None
  | [t :: _] => if is_tag "s" t then Some [] else None
  | (t :: ops) :: secs' =>
      if is_tag "T" t then
        match all_some (map (parse_pop kind) (members ops)), parse_threads kind secs' with
        | Some th, Some rest => Some (th :: rest)
        | _, _ => None
        end
      else None
  | [] :: _ => None
  end.
Definition parse_kind (sec : list tok) : option N :=
  match sec with
  | [t] => if is_tag "T" t then Some 0%N else if is_tag "M" t then Some 1%N else if is_tag "L" t then Some 2%N else None
  | _ => None
  end.

Definition parse_case (l : list tok) : option case :=
  match l with
  | [t; TB s] => if is_tag "NAME" t then Some (CNameC s) else if is_tag "UNIT" t then Some (CUnitC s) else None
  | t :: rest =>
      if is_tag "PRED" t then
        match rest with
        | [k; TB p; TB s] => if is_tag "P" k then Some (CPred true p s) else if is_tag "E" k then Some (CPred false p s) else None
        | _ => None
        end
      else if is_tag "MET" t then
        match sections rest with
        | [rs; vsec; ksec; osec] =>
            match parse_rules rs, all_some (map parse_view (members vsec)), all_some (map tok_bytes ksec),
                  all_some (map parse_mop (members osec)) with
            | Some (r, d), Some vs, Some keys, Some ops => if mops_ok ops then Some (CMet r d vs keys ops) else None
            | _, _, _, _ => None
            end
        | _ => None
        end
      else if is_tag "TR" t then
        match sections rest with
        | [rs; osec] =>
            match parse_rules rs, all_some (map parse_top (members osec)) with
            | Some (r, d), Some ops => Some (CTr r d ops)
            | _, _ => None
            end
        | _ => None
        end
      else if is_tag "PURITY" t then
        match rest with
        | [TZ _; TZ _; TZ _; TZ _] => Some CPur
        | _ => None
        end
      else if is_tag "PRACE" t then
        match sections rest with
        | ksec :: rs :: tsecs =>
            match parse_kind ksec, parse_rules rs with
            | Some kind, Some (r, d) => option_map (CPrace kind r d) (parse_threads kind tsecs)
            | _, _ => None
            end
        | _ => None
        end
      else if is_tag "LG" t then
        match sections rest with
        | [rs; osec] =>
            match parse_rules rs, all_some (map parse_lop (members osec)) with
            | Some (r, d), Some ops => Some (CLg r d ops)
            | _, _ => None
            end
        | _ => None
        end
      else None
  | [] => None
  end.

(* ---------------------------------------------------------------- printers *)
Definition print_scope (s : scope_id) : list tok := [TB (sc_name s); TB (sc_ver s); TB (sc_schema s)].
Definition print_stream (s : stream) : list tok :=
  tag "S" :: print_scope (st_scope s) ++
  [TB (st_name s); TB (st_desc s); TB (st_unit s); tN (st_itype s); tN (st_vtype s); tN (st_agg s); tN (st_npoints s)] ++
  map TB (st_keys s).
Definition print_met (o : list nat * list stream) : list tok := map tnat (fst o) ++ flat_map print_stream (snd o).
Definition print_span (ns : nat * scope_id) : list tok := tag "E" :: tnat (fst ns) :: print_scope (snd ns).
Definition print_tr (st : tstate) : list tok := map tnat (ts_out st) ++ flat_map print_span (ts_spans st).
Definition print_aval (v : aval) : tok := match v with AInt z => TZ z | AStr s => TB s end.
Definition print_lrec (rc : lrec) : list tok :=
  tag "E" :: tnat (r_call rc) :: print_scope (r_scope rc) ++ flat_map (fun kv => [TB (fst kv); print_aval (snd kv)]) (r_attrs rc).
Definition print_lg (st : lstate) : list tok := map tnat (ls_out st) ++ flat_map print_lrec (ls_recs st).

Definition print_hobs (h : hobs) : list tok :=
  tag "H" :: tnat (h_class h) :: tbool (h_enabled h) :: print_scope (h_scope h) ++
  flat_map (fun kv => [TB (fst kv); print_aval (snd kv)]) (h_attrs h).

(* the provider under concurrent requests is the sequential registry applied to the script (threads in order, then the
   same requests again): the answer does not depend on the order in which the requests are served *)
Definition prace_indices (kind : N) (r : rules) (d : bool) (reqs : list lreq) : list nat :=
  if (kind =? 0)%N then ts_out (run_tr r d (map q_scope reqs))
  else if (kind =? 1)%N then fst (run_met r d [] [] (map (fun q => MGet (q_scope q)) reqs))
  else ls_out (run_lg r d reqs).
Definition prace_model (kind : N) (r : rules) (d : bool) (threads : list (list lreq)) : list hobs :=
  let script := concat threads in
  let reqs := script ++ script in
  map (fun iq => mk_hobs (fst iq) (compute_config r d (q_scope (snd iq))) (q_scope (snd iq)) (amap_of (q_attrs (snd iq))))
      (combine (prace_indices kind r d reqs) reqs).

(* ---------------------------------------------------------------- observation parsers *)
Fixpoint leading_nats (l : list tok) : list nat * list tok :=
  match l with
  | TZ z :: l' => let '(a, b) := leading_nats l' in (Z.to_nat z :: a, b)
  | _ => ([], l)
  end.
(* the members that follow the leading indices, each introduced by the tag [sep] *)
Definition tagged_members (sep : string) (l : list tok) : option (list (list tok)) :=
  match l with
  | [] => Some []
  | _ => match split_toks sep l with
         | [] :: ms => Some ms
         | _ => None
         end
  end.
Definition znat (z : Z) : N := Z.to_N z.
Definition parse_stream (l : list tok) : option stream :=
  match l with
  | TB a :: TB b :: TB c :: TB n :: TB dsc :: TB u :: TZ ity :: TZ vty :: TZ agg :: TZ np :: ks =>
      option_map (mk_stream (mk_scope a b c) n dsc u (znat ity) (znat vty) (znat agg) (znat np)) (all_some (map tok_bytes ks))
  | _ => None
  end.
Definition parse_met_obs (l : list tok) : option (list nat * list stream) :=
  let '(idx, rest) := leading_nats l in
  match tagged_members "S" rest with
  | Some ms => option_map (pair idx) (all_some (map parse_stream ms))
  | None => None
  end.
Definition parse_span (l : list tok) : option (nat * scope_id) :=
  match l with
  | [TZ n; TB a; TB b; TB c] => Some (Z.to_nat n, mk_scope a b c)
  | _ => None
  end.
Definition parse_tr_obs (l : list tok) : option (list nat * list (nat * scope_id)) :=
  let '(idx, rest) := leading_nats l in
  match tagged_members "E" rest with
  | Some ms => option_map (pair idx) (all_some (map parse_span ms))
  | None => None
  end.
Definition parse_lrec (l : list tok) : option lrec :=
  match l with
  | TZ n :: TB a :: TB b :: TB c :: rest => option_map (mk_lrec (Z.to_nat n) (mk_scope a b c)) (parse_attrs rest)
  | _ => None
  end.
Definition parse_lg_obs (l : list tok) : option (list nat * list lrec) :=
  let '(idx, rest) := leading_nats l in
  match tagged_members "E" rest with
  | Some ms => option_map (pair idx) (all_some (map parse_lrec ms))
  | None => None
  end.
Definition parse_hobs (l : list tok) : option hobs :=
  match l with
  | TZ c :: e :: TB a :: TB b :: TB c' :: rest =>
      match parse_bool e, parse_attrs rest with
      | Some e', Some at' => Some (mk_hobs (Z.to_nat c) e' (mk_scope a b c') at')
      | _, _ => None
      end
  | _ => None
  end.
Definition parse_prace_obs (l : list tok) : option (list hobs) :=
  match tagged_members "H" l with
  | Some ms => all_some (map parse_hobs ms)
  | None => None
  end.
Definition parse_flag (name : string) (l : list tok) : option bool :=
  match l with
  | [t; b] => if is_tag name t then parse_bool b else None
  | _ => None
  end.
(* <tag> <0/1> <0/1/2> : the validator of this build, then the hand-written variant (2 = not called) *)
Definition parse_flag2 (name : string) (l : list tok) : option (bool * option bool) :=
  match l with
  | [t; b; n] =>
      if is_tag name t then
        match parse_bool b, n with
        | Some b', TZ 2 => Some (b', None)
        | Some b', _ => option_map (fun x => (b', Some x)) (parse_bool n)
        | None, _ => None
        end
      else None
  | _ => None
  end.
Definition print_obool (o : option bool) : tok := match o with Some b => tbool b | None => TZ 2 end.

(* ---------------------------------------------------------------- "<case> || <event trace>" (TRACE_MODE of the runner) *)
Fixpoint split_trace (l : list tok) : list tok * option (list tok) :=
  match l with
  | [] => ([], None)
  | t :: l' => if is_tag "||" t then ([], Some l')
               else let '(a, b) := split_trace l' in (t :: a, b)
  end.
(* events "<thread> C | L | U | R <instance>" separated by ';' *)
Definition parse_pev (l : list tok) : option (nat * pev) :=
  match l with
  | [TZ t; e] => if is_tag "C" e then Some (Z.to_nat t, PCall) else if is_tag "L" e then Some (Z.to_nat t, PLock)
                 else if is_tag "U" e then Some (Z.to_nat t, PUnlock) else None
  | [TZ t; e; TZ c] => if is_tag "R" e then Some (Z.to_nat t, PRet (Z.to_nat c)) else None
  | _ => None
  end.
Definition parse_ptrace (l : list tok) : option (list (nat * pev)) := all_some (map parse_pev (members l)).
(* the threads of the case, and one more that repeats every request after the others have finished *)
Definition prace_scripts (threads : list (list lreq)) : list (list lreq) := threads ++ [concat threads].
Definition reject (why : string) : list tok := [tag "REJECT"; tag why].
(* replay the implementation's trace through the acceptor and print the observation the final state implies *)
Definition run_prace_trace (kind : N) (r : rules) (d : bool) (threads : list (list lreq)) (tr : list tok) : list tok :=
  match parse_ptrace tr with
  | None => reject "unparsable_trace"
  | Some evs =>
      match accept_all r d (pst0 kind (prace_scripts threads)) evs 0 with
      | inr n => [tag "REJECT"; tag "event"; tnat n]
      | inl st => if complete st
                  then match psummary st with Some hs => flat_map print_hobs hs | None => reject "no_such_instance" end
                  else reject "incomplete_trace"
      end
  end.

(* the probe's observation: PURE, or what went wrong *)
Definition spec_purity (obs : list tok) : list tok :=
  match obs with
  | [t] => if is_tag "PURE" t then [] else if is_tag "HANG" t then fail "purity:hang" else fail "obs:unparsable"
  | t :: _ => if is_tag "RACE" t then fail "purity:data_race"
              else if is_tag "DIFFERS" t then fail "purity:result_differs"
              else if is_tag "HARNESSRACE" t then fail "harness:probe_race"
              else if is_tag "CRASH" t then fail "purity:crash"
              else fail "obs:unparsable"
  | [] => fail "obs:unparsable"
  end.

(* ---------------------------------------------------------------- entry points *)
Definition pred_model (pattern_kind : bool) (raw s : bytes) : option bool :=
  if pattern_kind then option_map (fun n => name_sel_match n s) (name_sel_of raw) else Some (exact_match raw s).

Definition run_model (l0 : list tok) : list tok :=
  let '(l, tr) := split_trace l0 in
  match parse_case l with
  | Some (CNameC s) => [tag "N"; tbool (validate_name s); print_obool (validate_name_nr s)]
  | Some (CUnitC s) => [tag "U"; tbool (validate_unit s); tbool (validate_unit_nr s)]
  | Some (CPred k raw s) => match pred_model k raw s with Some b => [tag "P"; tbool b] | None => bad_case end
  | Some (CMet r d vs keys ops) => print_met (run_met r d vs keys ops)
  | Some (CTr r d ops) => print_tr (run_tr r d ops)
  | Some (CLg r d ops) => print_lg (run_lg r d ops)
  | Some (CPrace kind r d threads) =>
      match tr with
      | Some t => run_prace_trace kind r d threads t
      | None => flat_map print_hobs (prace_model kind r d threads)
      end
  | Some CPur => [tag "PURE"]
  | None => bad_case
  end.

Definition run_spec (l0 obs : list tok) : list tok :=
  match parse_case (fst (split_trace l0)) with
  | Some (CNameC s) => match parse_flag2 "N" obs with Some (b, n) => spec_name s b n | None => fail "obs:unparsable" end
  | Some (CUnitC s) => match parse_flag2 "U" obs with Some (b, Some n) => spec_unit s b n | _ => fail "obs:unparsable" end
  | Some (CPred k raw s) => match parse_flag "P" obs with Some b => spec_pred k raw s b | None => fail "obs:unparsable" end
  | Some (CMet r d vs keys ops) =>
      match parse_met_obs obs with Some (idx, ss) => spec_met r d vs keys ops idx ss | None => fail "obs:unparsable" end
  | Some (CTr r d ops) =>
      match parse_tr_obs obs with Some (idx, sp) => spec_tr r d ops idx sp | None => fail "obs:unparsable" end
  | Some (CLg r d ops) =>
      match parse_lg_obs obs with Some (idx, rs) => spec_lg r d ops idx rs | None => fail "obs:unparsable" end
  | Some (CPrace kind r d threads) =>
      match parse_prace_obs obs with Some hs => spec_prace r d threads hs | None => fail "obs:unparsable" end
  | Some CPur => spec_purity obs
  | None => bad_case
  end.

(* branch tag of the model on this case, for coverage accounting *)
Definition count_applying (vs : list view) (si : scope_id * instr) : nat :=
  length (filter (fun v => view_applies v (fst si) (snd si)) vs).
Definition run_tag (l0 : list tok) : list tok :=
  match parse_case (fst (split_trace l0)) with
  | Some (CNameC s) =>
      [tag (match s with
            | [] => "name_empty"
            | c :: t => if validate_name s then (if Nat.leb 254 (length t) then "name_valid_longest" else "name_valid")
                        else if negb (is_letter c) then "name_bad_first"
                        else if negb (forallb is_name_char t) then "name_bad_char" else "name_too_long"
            end)]
  | Some (CUnitC s) =>
      [tag (if validate_unit s then (if is_nil s then "unit_empty" else if Nat.leb 63 (length s) then "unit_valid_longest" else "unit_valid")
            else if forallb is_ascii_char s then "unit_too_long" else if has_nul s then "unit_embedded_nul" else "unit_bad_char")]
  | Some (CPred k raw s) =>
      [tag (if k then match name_sel_of raw with
                      | Some NAll => "pred_everything"
                      | Some (NPat p) => if pmatch p s then (if existsb snd p then "pred_star_match" else "pred_plain_match")
                                         else "pred_nomatch"
                      | None => "pred_unmodelled"
                      end
            else if is_nil raw then "exact_everything" else if exact_match raw s then "exact_match" else "exact_nomatch")]
  | Some (CMet r d vs keys ops) =>
      let is := filter (fun si => compute_config r d (fst si) && validate_instrument (i_name (snd si)) (i_unit (snd si)))
                       (instrs_of None ops) in
      [tag (if is_nil is then "met_empty"
            else if existsb (fun si => Nat.leb 2 (count_applying vs si)) is then "met_two_views"
            else if existsb (fun si => Nat.leb 1 (count_applying vs si)) is then
              (if Nat.ltb (length is) (length (instrs_of None ops)) then "met_view_and_inert" else "met_view")
            else if Nat.ltb (length is) (length (instrs_of None ops)) then "met_default_and_inert" else "met_default")]
  | Some (CTr r d ops) =>
      [tag (if is_nil ops then "tr_empty"
            else if forallb (compute_config r d) ops then "tr_all_enabled"
            else if existsb (compute_config r d) ops then "tr_mixed" else "tr_all_disabled")]
  | Some (CLg r d ops) =>
      [tag (if is_nil ops then "lg_empty"
            else if existsb (fun q => has_dup_key (q_attrs q)) ops then "lg_dup_key"
            else if existsb (fun q => negb (compute_config r d (q_scope q))) ops then "lg_some_disabled"
            else if existsb (fun q => negb (is_nil (q_attrs q))) ops then "lg_attrs" else "lg_plain")]
  | Some (CPrace kind r d threads) =>
      let shared := existsb (fun p => existsb (fun q => existsb (lreq_eqb q) (snd p)) (fst p))
                            (pairs_before [] threads) in
      [tag (if is_nil (concat threads) then "prace_empty"
            else if (kind =? 0)%N then (if shared then "prace_tracer_shared" else "prace_tracer_disjoint")
            else if (kind =? 1)%N then (if shared then "prace_meter_shared" else "prace_meter_disjoint")
            else (if shared then "prace_logger_shared" else "prace_logger_disjoint"))]
  | Some CPur => [tag "independence_probe"]
  | None => bad_case
  end.
