(* C19 proofs, part 0: reflection of the boolean equalities and orders used by the model. *)
From V Require Import C19.Spec.
From Coq Require Import Lia ZifyBool ZifyNat ZifyN.

Lemma byte_eqb_refl : forall b, Byte.eqb b b = true.
Proof. intros b. now apply Byte.byte_dec_lb. Qed.
Lemma byte_eqb_eq : forall a b, Byte.eqb a b = true <-> a = b.
Proof. intros a b. split; [apply Byte.byte_dec_bl | apply Byte.byte_dec_lb]. Qed.

Lemma bytes_eqb_refl : forall s, bytes_eqb s s = true.
Proof. induction s as [|b s IH]; [reflexivity|]. cbn. now rewrite byte_eqb_refl, IH. Qed.
Lemma bytes_eqb_eq : forall a b, bytes_eqb a b = true <-> a = b.
Proof.
  induction a as [|x a IH]; intros [|y b]; cbn; split; intros H; try reflexivity; try discriminate.
  - apply andb_true_iff in H as [H1 H2]. apply byte_eqb_eq in H1. apply IH in H2. now subst.
  - injection H as -> ->. now rewrite byte_eqb_refl, bytes_eqb_refl.
Qed.
Lemma bytes_eqb_neq : forall a b, bytes_eqb a b = false <-> a <> b.
Proof.
  intros a b. split; intros H.
  - intros ->. now rewrite bytes_eqb_refl in H.
  - destruct (bytes_eqb a b) eqn:E; [|reflexivity]. apply bytes_eqb_eq in E. contradiction.
Qed.
Lemma bytes_eqb_sym : forall a b, bytes_eqb a b = bytes_eqb b a.
Proof.
  intros a b. destruct (bytes_eqb a b) eqn:E.
  - apply bytes_eqb_eq in E. subst. now rewrite bytes_eqb_refl.
  - symmetry. apply bytes_eqb_neq. apply bytes_eqb_neq in E. congruence.
Qed.

Lemma is_nil_true : forall {A} (l : list A), is_nil l = true <-> l = [].
Proof. intros A [|x l]; cbn; split; intros H; congruence. Qed.
Lemma is_nil_false : forall {A} (l : list A), is_nil l = false <-> l <> [].
Proof. intros A [|x l]; cbn; split; intros H; congruence. Qed.

Lemma scope_eqb_eq : forall a b, scope_eqb a b = true <-> a = b.
Proof.
  intros [a1 a2 a3] [b1 b2 b3]. unfold scope_eqb. cbn. rewrite !andb_true_iff, !bytes_eqb_eq.
  split; [intros [[-> ->] ->]; reflexivity | intros H; injection H as -> -> ->; auto].
Qed.
Lemma scope_eqb_refl : forall a, scope_eqb a a = true.
Proof. intros a. now apply scope_eqb_eq. Qed.
Lemma scope_eqb_neq : forall a b, scope_eqb a b = false <-> a <> b.
Proof.
  intros a b. split; intros H.
  - intros ->. now rewrite scope_eqb_refl in H.
  - destruct (scope_eqb a b) eqn:E; [|reflexivity]. apply scope_eqb_eq in E. contradiction.
Qed.
Lemma scope_eqb_sym : forall a b, scope_eqb a b = scope_eqb b a.
Proof.
  intros a b. destruct (scope_eqb a b) eqn:E.
  - apply scope_eqb_eq in E. subst. now rewrite scope_eqb_refl.
  - symmetry. apply scope_eqb_neq. apply scope_eqb_neq in E. congruence.
Qed.

Lemma aval_eqb_eq : forall a b, aval_eqb a b = true <-> a = b.
Proof.
  intros [x|x] [y|y]; cbn; split; intros H; try discriminate.
  - apply Z.eqb_eq in H. now subst.
  - injection H as ->. apply Z.eqb_refl.
  - apply bytes_eqb_eq in H. now subst.
  - injection H as ->. apply bytes_eqb_refl.
Qed.
Lemma aval_eqb_refl : forall a, aval_eqb a a = true.
Proof. intros a. now apply aval_eqb_eq. Qed.

Lemma nats_eqb_eq : forall a b, nats_eqb a b = true <-> a = b.
Proof.
  induction a as [|x a IH]; intros [|y b]; cbn; split; intros H; try reflexivity; try discriminate.
  - apply andb_true_iff in H as [H1 H2]. apply Nat.eqb_eq in H1. apply IH in H2. now subst.
  - injection H as -> ->. rewrite Nat.eqb_refl. now apply IH.
Qed.

Lemma existsb_bytes_eqb_In : forall k l, existsb (bytes_eqb k) l = true <-> In k l.
Proof.
  intros k l. rewrite existsb_exists. split.
  - intros [x [Hx E]]. apply bytes_eqb_eq in E. now subst.
  - intros H. exists k. split; [assumption | apply bytes_eqb_refl].
Qed.
Lemma mem_key_In : forall k l, mem_key k l = true <-> In k l.
Proof. intros. apply existsb_bytes_eqb_In. Qed.

(* ---------- ordered key sets *)
Lemma insert_key_In : forall k x l, In x (insert_key k l) <-> x = k \/ In x l.
Proof.
  intros k x l. induction l as [|h t IH]; cbn.
  - intuition.
  - destruct (bytes_eqb k h) eqn:E.
    + apply bytes_eqb_eq in E. subst. cbn. intuition.
    + destruct (bytes_ltb k h); cbn; [intuition|]. rewrite IH. intuition.
Qed.
Lemma norm_keys_In : forall x l, In x (norm_keys l) <-> In x l.
Proof.
  intros x l. induction l as [|h t IH]; cbn; [tauto|].
  rewrite insert_key_In, IH. intuition.
Qed.

(* ---------- sorted streams *)
Lemma insert_stream_In : forall s x l, In x (insert_stream s l) <-> x = s \/ In x l.
Proof.
  intros s x l. induction l as [|h t IH]; cbn [insert_stream In].
  - intuition.
  - destruct (fields_ltb (stream_fields h) (stream_fields s)); cbn [In]; [rewrite IH|]; intuition.
Qed.
Lemma sort_streams_In : forall x l, In x (sort_streams l) <-> In x l.
Proof.
  intros x l. induction l as [|h t IH]; cbn [sort_streams fold_right In]; [tauto|].
  fold (sort_streams t). rewrite insert_stream_In, IH. intuition.
Qed.
