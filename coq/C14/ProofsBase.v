(* Generic list / byte-string lemmas used by the C14 proofs (nothing here is specific to TraceState). *)
From V Require Import C14.Model.
From Coq Require Import Lia Arith.
Require Import ZifyBool ZifyNat ZifyN.

(* ------------------------------------------------------------ byte / bytes equality *)
Lemma byte_eqb_refl b : Byte.eqb b b = true.
Proof. apply Byte.byte_dec_lb; reflexivity. Qed.

Lemma byte_eqb_eq a b : Byte.eqb a b = true <-> a = b.
Proof. split; [apply Byte.byte_dec_bl | apply Byte.byte_dec_lb]. Qed.

Lemma byte_eqb_neq a b : Byte.eqb a b = false <-> a <> b.
Proof.
  split.
  - apply Byte.eqb_false.
  - intros H. destruct (Byte.eqb a b) eqn:E; [apply byte_eqb_eq in E; contradiction | reflexivity].
Qed.

Lemma byte_eqb_sym a b : Byte.eqb a b = Byte.eqb b a.
Proof.
  destruct (Byte.eqb a b) eqn:E.
  - apply byte_eqb_eq in E. subst. symmetry. apply byte_eqb_refl.
  - apply byte_eqb_neq in E. symmetry. apply byte_eqb_neq. congruence.
Qed.

Lemma bytes_eqb_eq a b : bytes_eqb a b = true <-> a = b.
Proof.
  revert b. induction a as [|x a IH]; intros [|y b]; cbn; split; intros H; try reflexivity; try discriminate.
  - apply andb_true_iff in H. destruct H as [H1 H2]. apply byte_eqb_eq in H1. apply IH in H2. congruence.
  - injection H as -> ->. rewrite byte_eqb_refl. cbn. apply IH. reflexivity.
Qed.

Lemma bytes_eqb_refl a : bytes_eqb a a = true.
Proof. apply bytes_eqb_eq. reflexivity. Qed.

Lemma bytes_eqb_neq a b : bytes_eqb a b = false <-> a <> b.
Proof.
  split.
  - intros H E. apply bytes_eqb_eq in E. congruence.
  - intros H. destruct (bytes_eqb a b) eqn:E; [apply bytes_eqb_eq in E; contradiction | reflexivity].
Qed.

Lemma bytes_eqb_sym a b : bytes_eqb a b = bytes_eqb b a.
Proof.
  destruct (bytes_eqb a b) eqn:E.
  - apply bytes_eqb_eq in E. subst. symmetry. apply bytes_eqb_refl.
  - apply bytes_eqb_neq in E. symmetry. apply bytes_eqb_neq. congruence.
Qed.

(* ------------------------------------------------------------ is_nil, last *)
Lemma is_nil_true {A} (l : list A) : is_nil l = true <-> l = [].
Proof. destruct l; cbn; split; congruence. Qed.

Lemma is_nil_false {A} (l : list A) : is_nil l = false <-> l <> [].
Proof. destruct l; cbn; split; congruence. Qed.

Lemma last_cons_ne {A} (x : A) l d : l <> [] -> last (x :: l) d = last l d.
Proof. destruct l; [congruence | reflexivity]. Qed.

Lemma last_app_ne {A} (a b : list A) d : b <> [] -> last (a ++ b) d = last b d.
Proof.
  intros Hb. induction a as [|x a IH]; [reflexivity|].
  cbn [app]. rewrite last_cons_ne; [exact IH|]. destruct a; cbn; [exact Hb | congruence].
Qed.

Lemma last_default_irrel {A} (l : list A) d d' : l <> [] -> last l d = last l d'.
Proof.
  induction l as [|x l IH]; [congruence|]. intros _. destruct l as [|y l]; [reflexivity|].
  change (last (y :: l) d = last (y :: l) d'). apply IH. congruence.
Qed.

(* ------------------------------------------------------------ index_of *)
Lemma index_of_from_shift c s i : index_of_from c s (S i) = option_map S (index_of_from c s i).
Proof.
  revert i. induction s as [|b s IH]; intros i; cbn; [reflexivity|].
  destruct (Byte.eqb b c); [reflexivity | apply IH].
Qed.

Lemma index_of_cons c b s :
  index_of c (b :: s) = if Byte.eqb b c then Some 0 else option_map S (index_of c s).
Proof. unfold index_of. cbn. destruct (Byte.eqb b c); [reflexivity | apply index_of_from_shift]. Qed.

Lemma index_of_nil c : index_of c [] = None.
Proof. reflexivity. Qed.

Definition lacks (c : byte) (s : bytes) : bool := forallb (fun b => negb (Byte.eqb b c)) s.

Lemma index_of_none c s : index_of c s = None <-> lacks c s = true.
Proof.
  induction s as [|b s IH]; [cbn; tauto|].
  rewrite index_of_cons. cbn. destruct (Byte.eqb b c); cbn; [split; discriminate|].
  rewrite <- IH. destruct (index_of c s); cbn; split; congruence.
Qed.

Lemma index_of_app c a b : lacks c a = true -> index_of c (a ++ c :: b) = Some (length a).
Proof.
  induction a as [|x a IH]; cbn [app length lacks forallb]; intros H.
  - rewrite index_of_cons, byte_eqb_refl. reflexivity.
  - apply andb_true_iff in H. destruct H as [H1 H2]. rewrite index_of_cons.
    apply negb_true_iff in H1. rewrite H1. fold (lacks c a) in H2. rewrite (IH H2). reflexivity.
Qed.

Lemma index_of_some c s i :
  index_of c s = Some i -> s = firstn i s ++ c :: skipn (S i) s /\ lacks c (firstn i s) = true /\ i < length s.
Proof.
  revert i. induction s as [|b s IH]; intros i; [discriminate|].
  rewrite index_of_cons. destruct (Byte.eqb b c) eqn:E.
  - intros [= <-]. apply byte_eqb_eq in E. subst. cbn. repeat split; lia.
  - destruct (index_of c s) as [j|] eqn:Ej; [|discriminate]. cbn [option_map]. intros [= <-].
    destruct (IH j eq_refl) as (H1 & H2 & H3). split; [|split].
    + change (b :: s = b :: (firstn j s ++ c :: skipn (S j) s)). f_equal. exact H1.
    + change (negb (Byte.eqb b c) && lacks c (firstn j s) = true). rewrite E, H2. reflexivity.
    + cbn [length]. lia.
Qed.

Lemma lacks_app c a b : lacks c (a ++ b) = lacks c a && lacks c b.
Proof. apply forallb_app. Qed.

Lemma lacks_of_forallb (p : byte -> bool) c s : p c = false -> forallb p s = true -> lacks c s = true.
Proof.
  intros Hc. induction s as [|b s IH]; [reflexivity|]. cbn [forallb]. intros H. apply andb_true_iff in H. destruct H as [H1 H2].
  change (negb (Byte.eqb b c) && lacks c s = true). rewrite (IH H2), andb_true_r. apply negb_true_iff. apply byte_eqb_neq. intros ->. congruence.
Qed.

(* ------------------------------------------------------------ split_on *)
Lemma split_on_nonnil c s : split_on c s <> [].
Proof.
  induction s as [|b s IH]; cbn; [discriminate|].
  destruct (Byte.eqb b c); [discriminate|]. destruct (split_on c s); discriminate.
Qed.

Lemma split_on_cons c b s :
  split_on c (b :: s) =
  if Byte.eqb b c then [] :: split_on c s
  else (b :: hd [] (split_on c s)) :: tl (split_on c s).
Proof.
  cbn. destruct (Byte.eqb b c); [reflexivity|].
  pose proof (split_on_nonnil c s). destruct (split_on c s); [contradiction | reflexivity].
Qed.

Lemma split_on_lacks c s : lacks c s = true -> split_on c s = [s].
Proof.
  induction s as [|b s IH]; [reflexivity|]. cbn [lacks forallb]. intros H. apply andb_true_iff in H. destruct H as [H1 H2].
  rewrite split_on_cons. apply negb_true_iff in H1. rewrite H1. fold (lacks c s) in H2. rewrite (IH H2). reflexivity.
Qed.

Lemma split_on_app c a b : lacks c a = true -> split_on c (a ++ c :: b) = a :: split_on c b.
Proof.
  induction a as [|x a IH]; cbn [app lacks forallb]; intros H.
  - rewrite split_on_cons, byte_eqb_refl. reflexivity.
  - apply andb_true_iff in H. destruct H as [H1 H2]. rewrite split_on_cons.
    apply negb_true_iff in H1. rewrite H1. fold (lacks c a) in H2. rewrite (IH H2). reflexivity.
Qed.

Lemma split_on_length c s : length (split_on c s) = S (count_occ Byte.byte_eq_dec s c).
Proof.
  induction s as [|b s IH]; [reflexivity|].
  rewrite split_on_cons. cbn [count_occ]. destruct (Byte.byte_eq_dec b c) as [->|N].
  - rewrite byte_eqb_refl. cbn. rewrite IH. reflexivity.
  - apply byte_eqb_neq in N. rewrite N. cbn [length]. pose proof (split_on_nonnil c s).
    destruct (split_on c s); [contradiction|]. cbn in *. lia.
Qed.

(* joining the fields gives the string back *)
Fixpoint join_on (c : byte) (l : list bytes) : bytes :=
  match l with
  | [] => []
  | x :: l' => x ++ (if is_nil l' then [] else c :: join_on c l')
  end.

Lemma join_split c s : join_on c (split_on c s) = s.
Proof.
  induction s as [|b s IH]; [reflexivity|].
  rewrite split_on_cons. pose proof (split_on_nonnil c s) as NN.
  destruct (Byte.eqb b c) eqn:E.
  - apply byte_eqb_eq in E. subst b. cbn [join_on app]. apply is_nil_false in NN. rewrite NN, IH. reflexivity.
  - destruct (split_on c s) as [|f fs]; [contradiction|]. cbn [hd tl]. cbn [join_on] in *. cbn [app]. rewrite IH. reflexivity.
Qed.

Lemma split_on_single c s f : split_on c s = [f] -> f = s.
Proof. intros H. pose proof (join_split c s) as J. rewrite H in J. cbn in J. rewrite app_nil_r in J. exact J. Qed.

(* the last field is empty exactly for the empty string and for a trailing separator *)
Lemma split_on_last_nil c s d :
  is_nil (last (split_on c s) d) = match s with [] => true | _ => Byte.eqb (last s x00) c end.
Proof.
  induction s as [|b s IH]; [reflexivity|].
  rewrite split_on_cons. pose proof (split_on_nonnil c s) as NN.
  destruct (Byte.eqb b c) eqn:E.
  - rewrite last_cons_ne by exact NN. rewrite IH. destruct s as [|b' s]; [cbn; symmetry; exact E|].
    rewrite (last_cons_ne b) by discriminate. reflexivity.
  - destruct (split_on c s) as [|f fs] eqn:Es; [contradiction|]. cbn [hd tl].
    destruct fs as [|f' fs].
    + cbn [last is_nil]. destruct s as [|b' s]; [cbn [last]; symmetry; exact E|].
      rewrite <- IH. cbn [last].
      apply split_on_single in Es. subst f. reflexivity.
    + rewrite (last_cons_ne (b :: f)) by discriminate. rewrite (last_cons_ne f) in IH by discriminate. etransitivity; [exact IH|].
      destruct s as [|b' s]; [discriminate|]. rewrite (last_cons_ne b) by discriminate. reflexivity.
Qed.

(* ------------------------------------------------------------ drop_while / trim_ws *)
Lemma drop_while_hd p s : match s with [] => True | b :: _ => p b = false end -> drop_while p s = s.
Proof. destruct s as [|b s]; [reflexivity|]. cbn. intros ->. reflexivity. Qed.

Lemma hd_rev_last {A} (s : list A) d : hd d (rev s) = last s d.
Proof.
  induction s as [|x s IH]; [reflexivity|]. cbn [rev].
  destruct s as [|y s]; [reflexivity|]. rewrite last_cons_ne by discriminate. rewrite <- IH.
  destruct (rev (y :: s)) eqn:E; [|reflexivity].
  apply (f_equal (@length A)) in E. rewrite rev_length in E. discriminate.
Qed.

Lemma trim_ws_id s :
  s <> [] -> isspace (hd x00 s) = false -> isspace (last s x00) = false -> trim_ws s = s.
Proof.
  intros Hn Hh Hl. unfold trim_ws.
  rewrite (drop_while_hd isspace s) by (destruct s; [exact I | exact Hh]).
  rewrite drop_while_hd; [apply rev_involutive|].
  destruct (rev s) as [|b r] eqn:E; [exact I|].
  pose proof (hd_rev_last s x00) as H. rewrite E in H. cbn in H. congruence.
Qed.

Lemma trim_ws_nil : trim_ws [] = [].
Proof. reflexivity. Qed.

(* ------------------------------------------------------------ small list facts missing from the 8.16 library *)
Lemma filter_length_le {A} (p : A -> bool) l : length (filter p l) <= length l.
Proof. induction l as [|x l IH]; [cbn; lia|]. cbn. destruct (p x); cbn; lia. Qed.

Lemma Forall2_length {A B} (R : A -> B -> Prop) l l' : Forall2 R l l' -> length l = length l'.
Proof. induction 1; cbn; congruence. Qed.
