(* The token-level entry points: what run_model prints is parsed back by run_spec to the same
   observation, so  run_spec c (run_model c) = []  for every case line c the model accepts. *)
From V Require Import C14.Glue C14.ProofsBase C14.ProofsSpec.
From Coq Require Import Lia Arith.
Require Import ZifyBool ZifyNat ZifyN.
Local Open Scope Z_scope.

Definition sepfree (l : list tok) : Prop := Forall (fun t => is_tag "|" t = false) l.

Lemma split_aux_sepfree a : sepfree a -> forall l cur,
  split_toks_aux "|" (a ++ l) cur = split_toks_aux "|" l (rev a ++ cur).
Proof.
  induction 1 as [|t a Ht _ IH]; intros l cur; [reflexivity|].
  cbn [app split_toks_aux]. rewrite Ht. rewrite IH. cbn [rev]. rewrite <- app_assoc. reflexivity.
Qed.

Lemma split_toks_segments {A} (g : A -> list tok) (rs : list A) :
  (forall r, In r rs -> sepfree (g r)) ->
  forall a cur, sepfree a ->
  split_toks_aux "|" (a ++ flat_map (fun r => tag "|" :: g r) rs) cur = (rev cur ++ a) :: map g rs.
Proof.
  induction rs as [|r rs IH]; intros Hg a cur Ha.
  - cbn [flat_map map]. rewrite (split_aux_sepfree a Ha). cbn [split_toks_aux]. rewrite rev_app_distr, rev_involutive. reflexivity.
  - cbn [flat_map map]. rewrite (split_aux_sepfree a Ha).
    change ((tag "|" :: g r) ++ flat_map (fun r0 => tag "|" :: g r0) rs) with (tag "|" :: (g r ++ flat_map (fun r0 => tag "|" :: g r0) rs)).
    cbn [split_toks_aux]. change (is_tag "|" (tag "|")) with true. cbv iota.
    rewrite rev_app_distr, rev_involutive. f_equal.
    rewrite IH; [reflexivity | intros r' Hr'; apply Hg; right; exact Hr' | apply Hg; left; reflexivity].
Qed.

(* ------------------------------------------------------------ printing uses no separator tags *)
Lemma sepfree_entries (es : tstate) rest :
  sepfree rest -> sepfree (flat_map (fun e : entry => [TB (fst e); TB (snd e)]) es ++ rest).
Proof.
  intros Hr. induction es as [|e es IH]; [exact Hr|]. cbn [flat_map app]. repeat constructor. exact IH.
Qed.

Lemma sepfree_tbool b : is_tag "|" (tbool b) = false.
Proof. destruct b; reflexivity. Qed.

Lemma sepfree_obj o : sepfree (print_obj o).
Proof.
  unfold print_obj. constructor; [reflexivity|]. apply sepfree_entries. repeat constructor.
Qed.

Lemma sepfree_opobs r : sepfree (print_opobs r).
Proof.
  destruct r as [o|[v|]|h|b]; cbn [print_opobs]; try apply sepfree_obj; repeat constructor.
Qed.

(* ------------------------------------------------------------ parse (print x) = x *)
Lemma tok_nat_tnat n : tok_nat (tnat n) = Some n.
Proof.
  unfold tok_nat, tnat. replace (0 <=? Z.of_nat n) with true by (symmetry; apply Z.leb_le; lia).
  rewrite Nat2Z.id. reflexivity.
Qed.

Lemma tok_bool_tbool b : tok_bool (tbool b) = Some b.
Proof. destruct b; reflexivity. Qed.

Lemma parse_entries_print (es : tstate) rest :
  parse_entries (length es) (flat_map (fun e : entry => [TB (fst e); TB (snd e)]) es ++ rest) = Some (es, rest).
Proof.
  induction es as [|[k v] es IH]; [reflexivity|]. cbn [length flat_map app parse_entries fst snd]. rewrite IH. reflexivity.
Qed.

Lemma parse_obj_print o : parse_obj (print_obj o) = Some o.
Proof.
  destruct o as [es h b]. unfold print_obj, parse_obj. cbn [oo_entries oo_header oo_empty].
  rewrite tok_nat_tnat, parse_entries_print, tok_bool_tbool. reflexivity.
Qed.

(* the result of an operation has the shape its kind prescribes *)
Definition shape (o : op) (r : opobs) : Prop :=
  match o, r with
  | OSet _ _ _, RObj _ | ODel _ _, RObj _ | ORt _, RObj _ | OFh _, RObj _ => True
  | OGet _ _, RGet _ | OHdr _, RHdr _ | OEmpty _, REmpty _ => True
  | _, _ => False
  end.

Lemma parse_opobs_print o r : shape o r -> parse_opobs o (print_opobs r) = Some r.
Proof.
  destruct o, r as [oo|[gv|]|hh|bb]; cbn [shape]; try contradiction; intros _; cbn [parse_opobs print_opobs];
    try (rewrite parse_obj_print; reflexivity); try reflexivity.
  rewrite tok_bool_tbool. reflexivity.
Qed.

Lemma parse_stepobs_print ops : forall rs : list stepobs,
  Forall2 (fun o r => shape o (snd r)) ops rs ->
  parse_stepobs ops (map (fun r : stepobs => tbool (fst r) :: print_opobs (snd r)) rs) = Some rs.
Proof.
  induction ops as [|o ops IH]; intros rs H; inversion H as [|? r ? rs' Hs Hr]; subst; [reflexivity|].
  cbn [map parse_stepobs]. rewrite tok_bool_tbool, (parse_opobs_print o (snd r) Hs), (IH rs' Hr).
  destruct r; reflexivity.
Qed.

Lemma parse_obs_print ops o0 (rs : list stepobs) :
  Forall2 (fun o r => shape o (snd r)) ops rs -> parse_obs ops (print_obs o0 rs) = Some (o0, rs).
Proof.
  intros H. unfold parse_obs, print_obs, split_toks.
  rewrite (split_toks_segments (fun r : stepobs => tbool (fst r) :: print_opobs (snd r)) rs).
  - cbn [rev app]. rewrite parse_obj_print, (parse_stepobs_print ops rs H). reflexivity.
  - intros r _. constructor; [apply sepfree_tbool | apply sepfree_opobs].
  - apply sepfree_obj.
Qed.

Lemma model_step_shape objs o r n : model_step objs o = Some (r, n) -> shape o r.
Proof.
  destruct o; cbn [model_step]; try (destruct (nth_error objs i); [|discriminate]); intros [= <- _]; exact I.
Qed.

Lemma model_steps_shape ops : forall objs rs,
  model_steps objs ops = Some rs -> Forall2 (fun o r => shape o (snd r)) ops rs.
Proof.
  induction ops as [|o ops IH]; intros objs rs; cbn [model_steps].
  - intros [= <-]. constructor.
  - destruct (model_step objs o) as [[r n]|] eqn:E; [|discriminate].
    destruct (model_steps _ ops) as [rs'|] eqn:E'; [|discriminate]. intros [= <-].
    constructor; [exact (model_step_shape _ _ _ _ E) | exact (IH _ _ E')].
Qed.

(* a case line that parses as an operation sequence is not a purity-probe line *)
Lemma parse_case_not_purity c x : parse_case c = Some x -> is_purity_case c = false.
Proof.
  intros H. destruct (is_purity_case c) eqn:E; [|reflexivity]. exfalso.
  unfold is_purity_case in E.
  destruct c as [|t [|[|z1|] [|[|z2|] [|[|z3|] [|[|z4|] [|]]]]]]; try discriminate E.
  destruct t as [|?|b]; try discriminate E. cbn [is_tag] in E. apply bytes_eqb_eq in E. subst b.
  vm_compute in H. discriminate H.
Qed.

(* for every purity-probe line the model predicts PURE, and the SPEC entry point accepts that *)
Theorem purity_line_meets_spec c : is_purity_case c = true -> run_spec c (run_model c) = [].
Proof. intros H. unfold run_spec, run_model. rewrite H. reflexivity. Qed.

Example purity_clauses_fire :
  let c := [tag "PURITY"; TZ 8; TZ 4; TZ 100; TZ 3] in
  is_purity_case c = true /\ run_spec c [tag "RACE"; TB []] = fail "purity:data_race" /\
  run_spec c [tag "DIFFERS"; TB []] = fail "purity:result_differs".
Proof. vm_compute. repeat split. Qed.

(* for every case line: if the model produces an observation at all, the extracted SPEC entry
   point accepts that very line of tokens *)
Theorem run_spec_accepts_run_model c h ops :
  parse_case c = Some (h, ops) -> model_case h ops <> None -> run_spec c (run_model c) = [].
Proof.
  intros Hc Hm. unfold run_spec, run_model. rewrite (parse_case_not_purity c _ Hc), Hc.
  destruct (model_case h ops) as [[o0 rs]|] eqn:E; [|congruence].
  assert (Forall2 (fun o r => shape o (snd r)) ops rs) as Hs.
  { unfold model_case in E. destruct (model_steps [from_header_ix h] ops) as [rs'|] eqn:E'; [|discriminate].
    injection E as _ <-. exact (model_steps_shape _ _ _ E'). }
  rewrite (parse_obs_print ops o0 rs Hs). exact (model_meets_spec h ops o0 rs E).
Qed.

Example run_spec_accepts_run_model_nonvacuous :
  let c := [tag "H"; TB (bs "a=1"); tag "|"; tag "SET"; TZ 0; TB (bs "b"); TB (bs "2"); tag "|"; tag "GET"; TZ 1; TB (bs "b")] in
  parse_case c <> None /\ run_model c <> bad_case.
Proof. vm_compute. split; discriminate. Qed.
