(* C14 theorems about the list-level model C14/Model.v (the functions C09 and C15 build on).
   C14/ProofsImpl.v ties the index/capacity-level model that is diffed against the C++ to these;
   C14/ProofsSpec.v lifts them to the executable SPEC checker.
   [header_roundtrip] is the lemma C09's round-trip corollary needs: import this file. *)
From V Require Import C14.Spec C14.ProofsBase C14.ProofsRx.
From Coq Require Import Lia Arith.
Require Import ZifyBool ZifyNat ZifyN.

(* ================================================================ well-formed states *)
Definition entry_ok (e : entry) : Prop := is_valid_key (fst e) = true /\ is_valid_value (snd e) = true.
(* what "a valid TraceState" means: every key passes IsValidKey, every value passes IsValidValue
   (so: no ',' or '=' in either, values non-empty and not ending in a blank, keys starting with a
   lower-case letter or digit), and there are at most kMaxKeyValuePairs = 32 members.  Nothing else. *)
Definition wf (l : tstate) : Prop := Forall entry_ok l /\ length l <= kMaxKeyValuePairs.
Definition keys (l : tstate) : list bytes := map fst l.

Lemma kmax_eq : kMaxKeyValuePairs = max_members.
Proof. reflexivity. Qed.

Lemma entry_ok_iff e : entry_ok e <-> entry_valid e = true.
Proof.
  unfold entry_ok, entry_valid. rewrite <- valid_key_iff_grammar, <- valid_value_iff_grammar, andb_true_iff. tauto.
Qed.

Lemma wf_iff l : wf l <-> wf_state l = true.
Proof.
  unfold wf, wf_state. rewrite andb_true_iff, forallb_forall, Forall_forall, Nat.leb_le, kmax_eq.
  split; intros [H1 H2]; (split; [|exact H2]); intros e He; apply entry_ok_iff; auto.
Qed.

Lemma wf_nil : wf [].
Proof. split; [constructor | cbn; lia]. Qed.

(* ================================================================ the model's list operations are the abstract ones *)
Lemma lookup_find k l : lookup k l = a_get k l.
Proof.
  unfold a_get. induction l as [|[k' v] l IH]; [reflexivity|]. cbn [lookup find]. unfold key_is at 1. cbn [fst].
  destruct (bytes_eqb k' k); [reflexivity | exact IH].
Qed.

Lemma has_key_a_has k l : has_key k l = a_has k l.
Proof.
  unfold has_key, a_has. induction l as [|[k' v] l IH]; [reflexivity|]. cbn [lookup existsb]. unfold key_is at 1. cbn [fst].
  destruct (bytes_eqb k' k); [reflexivity | exact IH].
Qed.

Lemma remove_key_a_delete k l : remove_key k l = a_delete k l.
Proof. reflexivity. Qed.

Lemma a_delete_absent k l : a_has k l = false -> a_delete k l = l.
Proof.
  unfold a_has, a_delete. induction l as [|e l IH]; [reflexivity|]. cbn. intros H. apply orb_false_iff in H. destruct H as [H1 H2].
  rewrite H1. cbn. rewrite (IH H2). reflexivity.
Qed.

Lemma a_delete_length k l : length (a_delete k l) <= length l.
Proof. apply filter_length_le. Qed.

Lemma a_delete_length_present k l : a_has k l = true -> S (length (a_delete k l)) <= length l.
Proof.
  unfold a_has, a_delete. induction l as [|e l IH]; [discriminate|]. cbn. intros H.
  destruct (key_is k e) eqn:E; cbn.
  - pose proof (filter_length_le (fun e0 => negb (key_is k e0)) l). lia.
  - cbn in H. specialize (IH H). lia.
Qed.

Lemma a_has_delete k l : a_has k (a_delete k l) = false.
Proof.
  unfold a_has, a_delete. induction l as [|e l IH]; [reflexivity|]. cbn. destruct (key_is k e) eqn:E; cbn; [exact IH|].
  rewrite E. exact IH.
Qed.

Lemma a_count_delete k l : a_count k (a_delete k l) = 0.
Proof.
  unfold a_count, a_delete. induction l as [|e l IH]; [reflexivity|]. cbn. destruct (key_is k e) eqn:E; cbn; [exact IH|].
  rewrite E. exact IH.
Qed.

Theorem set_refines k v l : ts_set k v l = spec_set k v l.
Proof.
  unfold ts_set, spec_set. rewrite valid_key_iff_grammar, valid_value_iff_grammar, has_key_a_has, kmax_eq.
  destruct (g_valid_key k && g_valid_value v); cbn [negb]; [|reflexivity].
  destruct (a_has k l) eqn:H; cbn [orb]; [reflexivity|].
  destruct (Nat.ltb (length l) max_members); [reflexivity|].
  rewrite remove_key_a_delete. apply a_delete_absent. exact H.
Qed.

Theorem delete_refines k l : ts_delete k l = spec_delete k l.
Proof. unfold ts_delete, spec_delete. rewrite valid_key_iff_grammar. reflexivity. Qed.

Theorem get_refines k l : ts_get k l = spec_get k l.
Proof. unfold ts_get, spec_get. rewrite valid_key_iff_grammar, lookup_find. reflexivity. Qed.

(* ================================================================ Set *)
(* valid k,v and (k present or fewer than 32 members): the pair goes first, every other member
   stays once and in order;  k absent and the list full: unchanged copy;  invalid: empty state *)
Theorem set_spec k v l :
  (is_valid_key k = true -> is_valid_value v = true -> (has_key k l = true \/ length l < kMaxKeyValuePairs) ->
     ts_set k v l = (k, v) :: filter (fun e => negb (bytes_eqb (fst e) k)) l) /\
  (is_valid_key k = true -> is_valid_value v = true -> has_key k l = false -> kMaxKeyValuePairs <= length l ->
     ts_set k v l = l) /\
  (is_valid_key k = false \/ is_valid_value v = false -> ts_set k v l = []).
Proof.
  unfold ts_set. repeat split.
  - intros -> -> H. cbn [andb negb]. destruct H as [->|H]; [reflexivity|].
    apply Nat.ltb_lt in H. rewrite H, orb_true_r. reflexivity.
  - intros -> -> H1 H2. cbn [andb negb]. rewrite H1. cbn [orb].
    apply Nat.ltb_ge in H2. rewrite H2. rewrite remove_key_a_delete. apply a_delete_absent. rewrite <- has_key_a_has. exact H1.
  - intros [->| ->]; [reflexivity | rewrite andb_false_r; reflexivity].
Qed.

Example set_spec_nonvacuous :
  let l := [(bs "a", bs "1"); (bs "b", bs "2")] in
  is_valid_key (bs "a") = true /\ is_valid_value (bs "9") = true /\ has_key (bs "a") l = true /\
  ts_set (bs "a") (bs "9") l = [(bs "a", bs "9"); (bs "b", bs "2")].
Proof. vm_compute. repeat split. Qed.

(* regression for F6 (repaired by b8d2801): the old code gave a=9,a=1,b=2 *)
Example set_existing_key_not_duplicated :
  to_header (ts_set (bs "a") (bs "9") (from_header (bs "a=1,b=2"))) = bs "a=9,b=2".
Proof. vm_compute. reflexivity. Qed.

Lemma a_count_other_delete k k' l : k' <> k -> a_count k' (a_delete k l) = a_count k' l.
Proof.
  intros N. unfold a_count, a_delete. induction l as [|e l IH]; [reflexivity|]. cbn [filter].
  destruct (key_is k e) eqn:E; cbn [negb].
  - destruct (key_is k' e) eqn:E'; [|exact IH]. unfold key_is in *. apply bytes_eqb_eq in E, E'. congruence.
  - cbn [filter]. destruct (key_is k' e); cbn [length]; [f_equal|]; exact IH.
Qed.

Lemma a_count_cons k e l : a_count k (e :: l) = (if key_is k e then 1 else 0) + a_count k l.
Proof. unfold a_count. cbn [filter]. destruct (key_is k e); reflexivity. Qed.

Lemma a_count_absent k l : a_has k l = false -> a_count k l = 0.
Proof.
  unfold a_has. induction l as [|e l IH]; [reflexivity|]. cbn [existsb]. intros H. apply orb_false_iff in H. destruct H as [H1 H2].
  rewrite a_count_cons, H1, (IH H2). reflexivity.
Qed.

(* Set never produces a second member with the key it sets, whatever the list it is applied to,
   and never changes how often any other key occurs *)
Theorem set_no_duplicate k v l :
  a_count k (ts_set k v l) <= 1 /\ (forall k', k' <> k -> a_count k' (ts_set k v l) <= a_count k' l).
Proof.
  rewrite set_refines. unfold spec_set.
  destruct (g_valid_key k && g_valid_value v); [|cbn; split; intros; lia].
  destruct (a_has k l || Nat.ltb (length l) max_members) eqn:C.
  - unfold a_set. split.
    + rewrite a_count_cons, a_count_delete. unfold key_is. cbn [fst]. rewrite bytes_eqb_refl. lia.
    + intros k' N. rewrite a_count_cons, (a_count_other_delete k k' l N). unfold key_is. cbn [fst].
      replace (bytes_eqb k k') with false; [lia|]. symmetry. apply bytes_eqb_neq. congruence.
  - apply orb_false_iff in C. destruct C as [C _]. split; [|intros; lia]. rewrite (a_count_absent k l C). lia.
Qed.

Lemma keys_filter_in (p : entry -> bool) l x : In x (keys (filter p l)) -> In x (keys l).
Proof.
  unfold keys. rewrite !in_map_iff. intros (e & H1 & H2). apply filter_In in H2. exists e. tauto.
Qed.

Lemma nodup_keys_filter (p : entry -> bool) l : NoDup (keys l) -> NoDup (keys (filter p l)).
Proof.
  unfold keys. induction l as [|e l IH]; [intros; constructor|]. cbn [map]. intros H. inversion H as [|? ? H1 H2]; subst.
  cbn [filter]. destruct (p e); [|exact (IH H2)]. cbn [map]. constructor; [|exact (IH H2)].
  intros C. apply H1. exact (keys_filter_in p l _ C).
Qed.

Lemma not_in_keys_delete k l : ~ In k (keys (a_delete k l)).
Proof.
  unfold keys, a_delete. rewrite in_map_iff. intros (e & H1 & H2). apply filter_In in H2. destruct H2 as [_ H2].
  unfold key_is in H2. rewrite H1, bytes_eqb_refl in H2. discriminate.
Qed.

(* a duplicate-free list stays duplicate-free *)
Theorem set_preserves_nodup k v l : NoDup (keys l) -> NoDup (keys (ts_set k v l)).
Proof.
  intros H. rewrite set_refines. unfold spec_set.
  destruct (g_valid_key k && g_valid_value v); [|constructor].
  destruct (a_has k l || Nat.ltb (length l) max_members); [|exact H].
  unfold a_set. change (keys ((k, v) :: a_delete k l)) with (k :: keys (a_delete k l)).
  constructor; [apply not_in_keys_delete | apply nodup_keys_filter; exact H].
Qed.

Theorem delete_preserves_nodup k l : NoDup (keys l) -> NoDup (keys (ts_delete k l)).
Proof.
  intros H. rewrite delete_refines. unfold spec_delete. destruct (g_valid_key k); [|constructor].
  apply nodup_keys_filter. exact H.
Qed.

(* ================================================================ Delete *)
(* removes exactly the given key: every member with another key stays, in order; invalid key: empty state *)
Theorem delete_spec k l :
  (is_valid_key k = true -> ts_delete k l = filter (fun e => negb (bytes_eqb (fst e) k)) l) /\
  (is_valid_key k = true -> has_key k (ts_delete k l) = false) /\
  (is_valid_key k = true -> forall k', k' <> k -> ts_get k' (ts_delete k l) = ts_get k' l) /\
  (is_valid_key k = false -> ts_delete k l = []).
Proof.
  unfold ts_delete. repeat split.
  - intros ->. reflexivity.
  - intros ->. rewrite has_key_a_has. apply a_has_delete.
  - intros -> k' N. unfold ts_get. destruct (is_valid_key k'); [|reflexivity].
    unfold remove_key. induction l as [|[k0 v0] l IH]; [reflexivity|]. cbn [filter fst lookup].
    destruct (bytes_eqb k0 k) eqn:E; cbn [negb].
    + apply bytes_eqb_eq in E. subst k0. replace (bytes_eqb k k') with false; [exact IH|].
      symmetry. apply bytes_eqb_neq. congruence.
    + cbn [lookup]. destruct (bytes_eqb k0 k'); [reflexivity | exact IH].
  - intros ->. reflexivity.
Qed.

Example delete_spec_nonvacuous :
  is_valid_key (bs "a") = true /\ ts_delete (bs "a") [(bs "a", bs "1"); (bs "b", bs "2")] = [(bs "b", bs "2")].
Proof. vm_compute. split; reflexivity. Qed.

(* ================================================================ Get *)
(* Get returns the value most recently set; the frame rules say nothing else about k' changes *)
Theorem get_after_set k v l :
  is_valid_key k = true -> is_valid_value v = true -> (has_key k l = true \/ length l < kMaxKeyValuePairs) ->
  ts_get k (ts_set k v l) = Some v.
Proof.
  intros Hk Hv H. destruct (set_spec k v l) as (S1 & _ & _). rewrite (S1 Hk Hv H).
  unfold ts_get. rewrite Hk. cbn [lookup]. rewrite bytes_eqb_refl. reflexivity.
Qed.

Theorem get_after_set_other k v l k' :
  k' <> k -> ts_set k v l <> [] -> ts_get k' (ts_set k v l) = ts_get k' l.
Proof.
  intros N NE. unfold ts_set in *. destruct (is_valid_key k && is_valid_value v) eqn:V; cbn [negb] in *; [|congruence].
  apply andb_true_iff in V. destruct V as [Vk Vv].
  destruct (delete_spec k l) as (_ & _ & D & _). specialize (D Vk k' N). unfold ts_delete in D. rewrite Vk in D.
  destruct (has_key k l || Nat.ltb (length l) kMaxKeyValuePairs); [|exact D].
  rewrite <- D. unfold ts_get. destruct (is_valid_key k'); [|reflexivity]. cbn [lookup].
  replace (bytes_eqb k k') with false; [reflexivity|]. symmetry. apply bytes_eqb_neq. congruence.
Qed.

Theorem get_after_delete k l : ts_get k (ts_delete k l) = None.
Proof.
  unfold ts_get. destruct (is_valid_key k) eqn:V; [|reflexivity].
  destruct (delete_spec k l) as (_ & D & _). specialize (D V). unfold has_key in D.
  destruct (lookup k (ts_delete k l)); [discriminate | reflexivity].
Qed.

(* a refused Set (new key on a full list) leaves every Get as it was *)
Theorem get_after_refused_set k v l k' :
  is_valid_key k = true -> is_valid_value v = true -> has_key k l = false -> kMaxKeyValuePairs <= length l ->
  ts_get k' (ts_set k v l) = ts_get k' l.
Proof. intros Hk Hv H1 H2. destruct (set_spec k v l) as (_ & S2 & _). rewrite (S2 Hk Hv H1 H2). reflexivity. Qed.

Example get_after_set_nonvacuous :
  is_valid_key (bs "k") = true /\ is_valid_value (bs "v") = true /\ length (@nil entry) < kMaxKeyValuePairs /\
  ts_get (bs "k") (ts_set (bs "k") (bs "v") []) = Some (bs "v").
Proof. vm_compute. repeat split; lia. Qed.

(* ================================================================ the invariant *)
Lemma forall_filter {A} (P : A -> Prop) (p : A -> bool) l : Forall P l -> Forall P (filter p l).
Proof. rewrite !Forall_forall. intros H x Hx. apply filter_In in Hx. apply H. tauto. Qed.

Theorem set_preserves_wf k v l : wf l -> wf (ts_set k v l).
Proof.
  intros [F L]. rewrite set_refines. unfold spec_set.
  destruct (g_valid_key k && g_valid_value v) eqn:V; [|exact wf_nil].
  destruct (a_has k l || Nat.ltb (length l) max_members) eqn:C; [|split; assumption].
  unfold a_set. split.
  - constructor; [apply entry_ok_iff; exact V | apply forall_filter; exact F].
  - cbn [length]. rewrite kmax_eq in *. apply orb_true_iff in C. destruct C as [C|C].
    + pose proof (a_delete_length_present k l C). lia.
    + apply Nat.ltb_lt in C. pose proof (a_delete_length k l). lia.
Qed.

Theorem delete_preserves_wf k l : wf l -> wf (ts_delete k l).
Proof.
  intros [F L]. rewrite delete_refines. unfold spec_delete. destruct (g_valid_key k); [|exact wf_nil].
  split; [apply forall_filter; exact F | pose proof (a_delete_length k l); lia].
Qed.

(* --- parsing *)
Lemma parse_members_ok ms l :
  parse_members ms = Some l ->
  Forall entry_ok l /\ Forall2 (fun m e => split_kv m = Some e) ms l.
Proof.
  revert l. induction ms as [|m ms IH]; intros l; cbn [parse_members].
  - intros [= <-]. split; constructor.
  - destruct (split_kv m) as [[k v]|] eqn:E; [|discriminate].
    destruct (is_valid_key k && is_valid_value v) eqn:V; [|discriminate].
    destruct (parse_members ms) as [r|]; [|discriminate]. intros [= <-].
    destruct (IH r eq_refl) as [F1 F2]. apply andb_true_iff in V. split; constructor; auto.
Qed.

Lemma filter_trim_le (p : list bytes) d :
  p <> [] ->
  length (filter (fun m => negb (is_nil m)) (map trim_ws p)) <= if is_nil (last p d) then length p - 1 else length p.
Proof.
  induction p as [|x p IH]; [congruence|]. intros _. destruct p as [|y r].
  - cbn [map filter last]. destruct x as [|b x]; [cbn; lia|].
    cbn [is_nil]. destruct (negb (is_nil (trim_ws (b :: x)))); cbn; lia.
  - specialize (IH ltac:(discriminate)). rewrite last_cons_ne by discriminate.
    cbn [map filter] in *. cbn [length] in *.
    destruct (negb (is_nil (trim_ws x))); destruct (is_nil (last (y :: r) d)); cbn [length] in *; lia.
Qed.

Lemma members_le_num_tokens h : length (members h) <= num_tokens h.
Proof.
  unfold members, num_tokens. cbv zeta. apply filter_trim_le. apply split_on_nonnil.
Qed.

Theorem from_header_wf h : wf (from_header h).
Proof.
  unfold from_header. destruct (Nat.ltb kMaxKeyValuePairs (num_tokens h)) eqn:C; [exact wf_nil|].
  destruct (parse_members (members h)) as [l|] eqn:P; [|exact wf_nil].
  destruct (parse_members_ok _ _ P) as [F1 F2]. split; [exact F1|].
  apply Forall2_length in F2. pose proof (members_le_num_tokens h). apply Nat.ltb_ge in C. unfold entry in *. lia.
Qed.

(* every state reachable from FromHeader by any sequence of Set/Delete *)
Inductive reachable_from (l0 : tstate) : tstate -> Prop :=
| R_start : reachable_from l0 l0
| R_set k v l : reachable_from l0 l -> reachable_from l0 (ts_set k v l)
| R_delete k l : reachable_from l0 l -> reachable_from l0 (ts_delete k l).

Theorem ts_wf_invariant h l : reachable_from (from_header h) l -> wf l.
Proof.
  induction 1 as [|k v l _ IH|k l _ IH]; [apply from_header_wf | apply set_preserves_wf; exact IH | apply delete_preserves_wf; exact IH].
Qed.

(* ... and from ANY valid state, not only a parsed one (this is how C05/C09 use it) *)
Theorem ts_wf_invariant_from l0 l : wf l0 -> reachable_from l0 l -> wf l.
Proof.
  intros W. induction 1 as [|k v l _ IH|k l _ IH]; [exact W | apply set_preserves_wf; exact IH | apply delete_preserves_wf; exact IH].
Qed.

(* duplicate-freedom is an invariant of the updates; FromHeader itself does not remove a repeated
   key (see [from_header_keeps_repeated_key] below), so the hypothesis is about the start state *)
Theorem ts_nodup_invariant l0 l : NoDup (keys l0) -> reachable_from l0 l -> NoDup (keys l).
Proof.
  intros W. induction 1 as [|k v l _ IH|k l _ IH]; [exact W | apply set_preserves_nodup; exact IH | apply delete_preserves_nodup; exact IH].
Qed.

Example from_header_keeps_repeated_key : from_header (bs "a=1,a=2") = [(bs "a", bs "1"); (bs "a", bs "2")].
Proof. vm_compute. reflexivity. Qed.

(* the same invariant for an explicit operation sequence *)
Inductive upd := USet (k v : bytes) | UDel (k : bytes).
Definition apply_upd (l : tstate) (u : upd) : tstate :=
  match u with USet k v => ts_set k v l | UDel k => ts_delete k l end.

Lemma reachable_fold us : forall l0, reachable_from l0 (fold_left apply_upd us l0).
Proof.
  induction us as [|u us IH] using rev_ind; intros l0; [constructor|].
  rewrite fold_left_app. cbn. destruct u; constructor; apply IH.
Qed.

Theorem ts_wf_invariant_seq h us : wf (fold_left apply_upd us (from_header h)).
Proof. apply (ts_wf_invariant h). apply reachable_fold. Qed.

Example ts_wf_invariant_nonvacuous :
  reachable_from (from_header (bs "a=1,b=2")) [(bs "c", bs "3"); (bs "b", bs "2")].
Proof.
  change [(bs "c", bs "3"); (bs "b", bs "2")] with (ts_set (bs "c") (bs "3") (ts_delete (bs "a") (from_header (bs "a=1,b=2")))).
  repeat constructor.
Qed.

(* "Get returns the value most recently set", over whole histories: after a successful Set(k,v),
   any number of later valid updates of OTHER keys (inserted, refused at the limit, or deleted)
   leaves Get(k) = v *)
Definition other_valid_upd (k : bytes) (u : upd) : Prop :=
  match u with
  | USet k' v' => k' <> k /\ is_valid_key k' = true /\ is_valid_value v' = true
  | UDel k' => k' <> k /\ is_valid_key k' = true
  end.

Lemma get_stable_under_other_updates k v us : forall l0,
  ts_get k l0 = Some v -> Forall (other_valid_upd k) us -> ts_get k (fold_left apply_upd us l0) = Some v.
Proof.
  induction us as [|u us IH]; intros l0 G F; [exact G|]. inversion F as [|? ? Hu F']; subst.
  cbn [fold_left]. apply IH; [|exact F']. destruct u as [k' v'|k']; cbn [apply_upd other_valid_upd] in *.
  - destruct Hu as (N & Vk & Vv). destruct (set_spec k' v' l0) as (S1 & S2 & _).
    destruct (has_key k' l0) eqn:Hk.
    + rewrite get_after_set_other; [exact G | congruence | rewrite (S1 Vk Vv (or_introl eq_refl)); discriminate].
    + destruct (Nat.ltb (length l0) kMaxKeyValuePairs) eqn:Lt.
      * apply Nat.ltb_lt in Lt. rewrite get_after_set_other; [exact G | congruence | rewrite (S1 Vk Vv (or_intror Lt)); discriminate].
      * apply Nat.ltb_ge in Lt. rewrite (S2 Vk Vv eq_refl Lt). exact G.
  - destruct Hu as (N & Vk). destruct (delete_spec k' l0) as (_ & _ & D & _). rewrite (D Vk k); [exact G | congruence].
Qed.

Theorem get_most_recent_set k v l us :
  is_valid_key k = true -> is_valid_value v = true -> (has_key k l = true \/ length l < kMaxKeyValuePairs) ->
  Forall (other_valid_upd k) us ->
  ts_get k (fold_left apply_upd us (ts_set k v l)) = Some v.
Proof. intros Hk Hv H F. apply get_stable_under_other_updates; [apply get_after_set; assumption | exact F]. Qed.

Example get_most_recent_set_nonvacuous :
  Forall (other_valid_upd (bs "k")) [USet (bs "a") (bs "1"); UDel (bs "b"); USet (bs "a") (bs "2")] /\
  ts_get (bs "k") (fold_left apply_upd [USet (bs "a") (bs "1"); UDel (bs "b"); USet (bs "a") (bs "2")] (ts_set (bs "k") (bs "v") []))
    = Some (bs "v").
Proof.
  split; [|vm_compute; reflexivity].
  repeat constructor; try (intros H; discriminate H); vm_compute; reflexivity.
Qed.

(* ================================================================ FromHeader: all or nothing *)
Lemma num_tokens_spec_count h : num_tokens h = spec_count h.
Proof.
  unfold num_tokens, spec_count. rewrite split_on_last_nil, split_on_length.
  destruct h as [|b h]; [reflexivity|]. destruct (Byte.eqb (last (b :: h) x00) comma); lia.
Qed.

Lemma parse_members_all_some ms : parse_members ms = all_some (map member_kv ms).
Proof.
  induction ms as [|m ms IH]; [reflexivity|]. cbn [parse_members map all_some]. unfold member_kv at 1, split_kv.
  destruct (index_of equals m) as [i|]; [|reflexivity].
  unfold entry_valid. cbn [fst snd]. rewrite <- valid_key_iff_grammar, <- valid_value_iff_grammar.
  destruct (is_valid_key (firstn i m) && is_valid_value (skipn (S i) m)); [|reflexivity].
  rewrite IH. destruct (all_some (map member_kv ms)); reflexivity.
Qed.

(* the model's sequential parse with early exits = the declarative description *)
Theorem from_header_refines h : from_header h = spec_parse h.
Proof.
  unfold from_header, spec_parse. rewrite num_tokens_spec_count, kmax_eq, parse_members_all_some. reflexivity.
Qed.

(* an over-long header, a member without '=', or any invalid key or value gives the EMPTY state;
   otherwise the state has one entry for every non-empty member, in order -- never a proper part *)
Theorem invalid_yields_empty_not_partial h :
  (kMaxKeyValuePairs < num_tokens h -> from_header h = []) /\
  ((exists m, In m (members h) /\
              match split_kv m with
              | None => True
              | Some (k, v) => is_valid_key k = false \/ is_valid_value v = false
              end) -> from_header h = []) /\
  (from_header h = [] \/ Forall2 (fun m e => split_kv m = Some e) (members h) (from_header h)).
Proof.
  unfold from_header. repeat split.
  - intros H. apply Nat.ltb_lt in H. rewrite H. reflexivity.
  - intros (m & Hin & Hbad). destruct (Nat.ltb kMaxKeyValuePairs (num_tokens h)); [reflexivity|].
    destruct (parse_members (members h)) as [l|] eqn:P; [|reflexivity]. exfalso.
    destruct (parse_members_ok _ _ P) as [F1 F2]. clear P.
    induction F2 as [|m' e ms l' Hm F2 IH]; [contradiction|].
    inversion F1 as [|? ? Fe F1']; subst. destruct Hin as [->|Hin]; [|exact (IH Hin F1')].
    rewrite Hm in Hbad. destruct e as [k v]. destruct Fe as [Fk Fv]. cbn [fst snd] in Fk, Fv. destruct Hbad; congruence.
  - destruct (Nat.ltb kMaxKeyValuePairs (num_tokens h)); [left; reflexivity|].
    destruct (parse_members (members h)) as [l|] eqn:P; [|left; reflexivity].
    right. exact (proj2 (parse_members_ok _ _ P)).
Qed.

Example invalid_yields_empty_nonvacuous :
  In (bs "B=2") (members (bs "a=1,B=2,c=3")) /\ from_header (bs "a=1,B=2,c=3") = [] /\
  from_header (bs "a=1,b=2,c=3") = [(bs "a", bs "1"); (bs "b", bs "2"); (bs "c", bs "3")].
Proof. vm_compute. repeat split. right. left. reflexivity. Qed.

(* ================================================================ ToHeader / FromHeader round trip *)
Definition mem (e : entry) : bytes := fst e ++ equals :: snd e.

Lemma to_header_join l : to_header l = join_on comma (map mem l).
Proof.
  induction l as [|[k v] l IH]; [reflexivity|]. destruct l as [|e l].
  - cbn. rewrite app_nil_r. reflexivity.
  - change (to_header ((k, v) :: e :: l)) with (k ++ [equals] ++ v ++ [comma] ++ to_header (e :: l)).
    rewrite IH. cbn [map join_on is_nil mem fst snd app]. rewrite <- !app_assoc. reflexivity.
Qed.

Theorem to_header_refines l : to_header l = spec_join l.
Proof.
  rewrite to_header_join. induction l as [|e l IH]; [reflexivity|].
  cbn [map join_on spec_join]. unfold mem at 1. rewrite <- app_assoc. cbn [app]. f_equal. f_equal. f_equal.
  destruct l; [reflexivity|]. cbn [map is_nil]. f_equal. exact IH.
Qed.

Lemma split_join c ms :
  ms <> [] -> Forall (fun m => lacks c m = true) ms -> split_on c (join_on c ms) = ms.
Proof.
  induction ms as [|m ms IH]; [congruence|]. intros _ F. inversion F as [|? ? Fm Fms]; subst.
  cbn [join_on]. destruct ms as [|m' ms].
  - cbn [is_nil]. rewrite app_nil_r. apply split_on_lacks. exact Fm.
  - cbn [is_nil]. rewrite split_on_app by exact Fm. f_equal. apply IH; [discriminate | exact Fms].
Qed.

Lemma entry_ok_mem e :
  entry_ok e ->
  lacks comma (mem e) = true /\ trim_ws (mem e) = mem e /\ mem e <> [] /\ split_kv (mem e) = Some e.
Proof.
  intros He. apply entry_ok_iff in He. unfold entry_valid in He. apply andb_true_iff in He. destruct He as [Hk Hv].
  destruct e as [k v]. cbn [fst snd] in *. unfold mem. cbn [fst snd].
  destruct (g_valid_key_facts k Hk) as (Kn & Kc & Kf). destruct (g_valid_value_facts v Hv) as (Vn & Vc & Vl).
  assert (KC : lacks comma k = true /\ lacks equals k = true).
  { split; apply (lacks_of_forallb is_key_byte); try exact Kc; reflexivity. }
  assert (VC : lacks comma v = true).
  { apply (lacks_of_forallb is_value_char); [reflexivity | exact Vc]. }
  repeat split.
  - rewrite lacks_app. cbn [lacks forallb]. fold (lacks comma v). destruct KC as [-> _]. rewrite VC. reflexivity.
  - apply trim_ws_id.
    + destruct k; discriminate.
    + destruct k as [|b k]; [congruence|]. cbn [app hd] in *. apply first_not_space. exact Kf.
    + rewrite last_app_ne by discriminate. rewrite last_cons_ne by exact Vn. exact Vl.
  - destruct k; discriminate.
  - unfold split_kv. rewrite index_of_app by (apply KC).
    rewrite firstn_app, Nat.sub_diag, firstn_all. cbn [firstn]. rewrite app_nil_r.
    replace (S (length k)) with (length (k ++ [equals])) by (rewrite app_length; cbn; lia).
    replace (k ++ equals :: v) with ((k ++ [equals]) ++ v) by (rewrite <- app_assoc; reflexivity).
    rewrite skipn_app, Nat.sub_diag, skipn_all. reflexivity.
Qed.

Lemma parse_members_mem l : Forall entry_ok l -> parse_members (map mem l) = Some l.
Proof.
  induction 1 as [|e l He F IH]; [reflexivity|]. cbn [map parse_members].
  destruct (entry_ok_mem e He) as (_ & _ & _ & ->). destruct e as [k v]. destruct He as [Hk Hv]. cbn [fst snd] in *.
  rewrite Hk, Hv, IH. reflexivity.
Qed.

Lemma members_of_mems l :
  Forall entry_ok l -> filter (fun m => negb (is_nil m)) (map trim_ws (map mem l)) = map mem l.
Proof.
  induction 1 as [|e l He F IH]; [reflexivity|].
  cbn [map filter]. destruct (entry_ok_mem e He) as (_ & -> & Hn & _).
  apply is_nil_false in Hn. rewrite Hn. cbn [negb]. f_equal. exact IH.
Qed.

Lemma last_mem_nonnil l d : l <> [] -> Forall entry_ok l -> last (map mem l) d <> [].
Proof.
  induction l as [|e l IH]; [congruence|]. intros _ F. inversion F as [|? ? He F']; subst.
  destruct l as [|e' l].
  - cbn [map last]. apply (entry_ok_mem e He).
  - cbn [map]. rewrite last_cons_ne by discriminate. apply (IH ltac:(discriminate) F').
Qed.

(* wf l  ->  FromHeader (ToHeader l) = l  : the same ordered list, for EVERY well-formed list
   (valid keys and values already exclude ',' '=' and leading/trailing blanks that Trim would eat) *)
Theorem header_roundtrip l : wf l -> from_header (to_header l) = l.
Proof.
  intros [F L]. destruct l as [|e0 l0]; [reflexivity|].
  remember (e0 :: l0) as l eqn:El. assert (NE : l <> []) by (subst; discriminate). clear El e0 l0.
  assert (Hsplit : split_on comma (to_header l) = map mem l).
  { rewrite to_header_join. apply split_join; [destruct l; [congruence | discriminate]|].
    apply Forall_map. revert F. apply Forall_impl. intros e He. apply (entry_ok_mem e He). }
  unfold from_header, members, num_tokens. cbv zeta. rewrite Hsplit, map_length, (members_of_mems l F).
  pose proof (last_mem_nonnil l [x00] NE F) as HL. apply is_nil_false in HL. rewrite HL.
  apply Nat.ltb_ge in L. rewrite L. rewrite (parse_members_mem l F). reflexivity.
Qed.

Example header_roundtrip_nonvacuous :
  wf [(bs "t@v", bs " x y"); (bs "a", bs "1")] /\ to_header [(bs "t@v", bs " x y"); (bs "a", bs "1")] = bs "t@v= x y,a=1".
Proof.
  split; [|reflexivity]. apply wf_iff. vm_compute. reflexivity.
Qed.

(* everything the updates can reach round-trips *)
Corollary reachable_roundtrip h l : reachable_from (from_header h) l -> from_header (to_header l) = l.
Proof. intros R. apply header_roundtrip. exact (ts_wf_invariant h l R). Qed.
