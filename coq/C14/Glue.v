(* Glue between the token wire format and the C14 model/spec.  Extracted.
   case        :  H x<header> { | SET i xk xv  | DEL i xk | RT i | FH xh | GET i xk | HDR i | EMPTY i }
   observation :  <obj> { | same <obj>  /  same 1 xv  /  same 0  /  same xh  /  same b }
   <obj>       :  n  xk1 xv1 ... xkn xvn  x<ToHeader()>  <Empty()> *)
From V Require Export C14.Impl C14.Spec.
Local Open Scope Z_scope.

(* ------------------------------------------------------------ the model run (Impl-level functions) *)
Definition model_obj (l : tstate) : objobs := mk_oo l (to_header_ix l) (empty_ix l).

Definition model_step (objs : list tstate) (o : op) : option (opobs * option tstate) :=
  match o with
  | OSet i k v => match nth_error objs i with
                  | Some l => let r := set_ix k v l in Some (RObj (model_obj r), Some r) | None => None end
  | ODel i k => match nth_error objs i with
                | Some l => let r := delete_ix k l in Some (RObj (model_obj r), Some r) | None => None end
  | ORt i => match nth_error objs i with
             | Some l => let r := from_header_ix (to_header_ix l) in Some (RObj (model_obj r), Some r) | None => None end
  | OFh h => let r := from_header_ix h in Some (RObj (model_obj r), Some r)
  | OGet i k => match nth_error objs i with Some l => Some (RGet (get_ix k l), None) | None => None end
  | OHdr i => match nth_error objs i with Some l => Some (RHdr (to_header_ix l), None) | None => None end
  | OEmpty i => match nth_error objs i with Some l => Some (REmpty (empty_ix l), None) | None => None end
  end.

(* objects are values: nothing an operation does can touch an earlier one, so `same` is true *)
Fixpoint model_steps (objs : list tstate) (ops : list op) : option (list stepobs) :=
  match ops with
  | [] => Some []
  | o :: ops' =>
      match model_step objs o with
      | Some (r, newobj) =>
          match model_steps (match newobj with Some l => objs ++ [l] | None => objs end) ops' with
          | Some rs => Some ((true, r) :: rs)
          | None => None
          end
      | None => None
      end
  end.

Definition model_case (h : bytes) (ops : list op) : option (objobs * list stepobs) :=
  let l0 := from_header_ix h in
  match model_steps [l0] ops with
  | Some rs => Some (model_obj l0, rs)
  | None => None
  end.

(* ------------------------------------------------------------ parsing cases *)
Definition tok_nat (t : tok) : option nat :=
  match t with TZ z => if 0 <=? z then Some (Z.to_nat z) else None | _ => None end.

Definition parse_op (l : list tok) : option op :=
  match l with
  | [t; i; TB k; TB v] => if is_tag "SET" t then option_map (fun n => OSet n k v) (tok_nat i) else None
  | [t; i; TB k] => if is_tag "DEL" t then option_map (fun n => ODel n k) (tok_nat i)
                    else if is_tag "GET" t then option_map (fun n => OGet n k) (tok_nat i) else None
  | [t; TB h] => if is_tag "FH" t then Some (OFh h) else None
  | [t; i] => if is_tag "RT" t then option_map ORt (tok_nat i)
              else if is_tag "HDR" t then option_map OHdr (tok_nat i)
              else if is_tag "EMPTY" t then option_map OEmpty (tok_nat i) else None
  | _ => None
  end.

Fixpoint parse_ops (segs : list (list tok)) : option (list op) :=
  match segs with
  | [] => Some []
  | s :: segs' => match parse_op s, parse_ops segs' with
                  | Some o, Some r => Some (o :: r)
                  | _, _ => None
                  end
  end.

Definition parse_case (l : list tok) : option (bytes * list op) :=
  match split_toks "|" l with
  | [t; TB h] :: segs => if is_tag "H" t then option_map (pair h) (parse_ops segs) else None
  | _ => None
  end.

(* ------------------------------------------------------------ printing / parsing observations *)
Definition print_obj (o : objobs) : list tok :=
  tnat (length (oo_entries o)) :: flat_map (fun e : entry => [TB (fst e); TB (snd e)]) (oo_entries o)
    ++ [TB (oo_header o); tbool (oo_empty o)].

Definition print_opobs (r : opobs) : list tok :=
  match r with
  | RObj o => print_obj o
  | RGet (Some v) => [TZ 1; TB v]
  | RGet None => [TZ 0]
  | RHdr h => [TB h]
  | REmpty b => [tbool b]
  end.

Definition print_obs (o0 : objobs) (rs : list stepobs) : list tok :=
  print_obj o0 ++ flat_map (fun r : stepobs => tag "|" :: tbool (fst r) :: print_opobs (snd r)) rs.

Fixpoint parse_entries (n : nat) (l : list tok) : option (tstate * list tok) :=
  match n with
  | O => Some ([], l)
  | S n' => match l with
            | TB k :: TB v :: l' => match parse_entries n' l' with
                                    | Some (es, rest) => Some ((k, v) :: es, rest)
                                    | None => None
                                    end
            | _ => None
            end
  end.

Definition tok_bool (t : tok) : option bool :=
  match t with TZ z => if z =? 1 then Some true else if z =? 0 then Some false else None | _ => None end.

Definition parse_obj (l : list tok) : option objobs :=
  match l with
  | n :: l' =>
      match tok_nat n with
      | Some k => match parse_entries k l' with
                  | Some (es, [TB h; e]) => option_map (mk_oo es h) (tok_bool e)
                  | _ => None
                  end
      | None => None
      end
  | [] => None
  end.

Definition parse_opobs (o : op) (l : list tok) : option opobs :=
  match o with
  | OSet _ _ _ | ODel _ _ | ORt _ | OFh _ => option_map RObj (parse_obj l)
  | OGet _ _ => match l with
                | [TZ 1; TB v] => Some (RGet (Some v))
                | [TZ 0] => Some (RGet None)
                | _ => None
                end
  | OHdr _ => match l with [TB h] => Some (RHdr h) | _ => None end
  | OEmpty _ => match l with [b] => option_map REmpty (tok_bool b) | _ => None end
  end.

Fixpoint parse_stepobs (ops : list op) (segs : list (list tok)) : option (list stepobs) :=
  match ops, segs with
  | [], [] => Some []
  | o :: ops', (s :: seg) :: segs' =>
      match tok_bool s, parse_opobs o seg, parse_stepobs ops' segs' with
      | Some same, Some r, Some rs => Some ((same, r) :: rs)
      | _, _, _ => None
      end
  | _, _ => None
  end.

Definition parse_obs (ops : list op) (l : list tok) : option (objobs * list stepobs) :=
  match split_toks "|" l with
  | s0 :: segs => match parse_obj s0, parse_stepobs ops segs with
                  | Some o0, Some rs => Some (o0, rs)
                  | _, _ => None
                  end
  | [] => None
  end.

(* ------------------------------------------------------------ entry points *)
(* PURITY <members> <threads> <rounds> <iters> : a purity-probe case (tools/purity.py sends it to the TSan probe) *)
Definition is_purity_case (l : list tok) : bool :=
  match l with
  | [t; TZ _; TZ _; TZ _; TZ _] => is_tag "PURITY" t
  | _ => false
  end.

Definition run_model (l : list tok) : list tok :=
  if is_purity_case l then [tag "PURE"] else
  match parse_case l with
  | Some (h, ops) => match model_case h ops with
                     | Some (o0, rs) => print_obs o0 rs
                     | None => bad_case
                     end
  | None => bad_case
  end.

Definition run_spec (l obs : list tok) : list tok :=
  if is_purity_case l then spec_purity_ok obs else
  match parse_case l with
  | Some (h, ops) => match parse_obs ops obs with
                     | Some (o0, rs) => spec_case h ops o0 rs
                     | None => fail "obs:unparsable"
                     end
  | None => bad_case
  end.

(* ------------------------------------------------------------ branch tags (coverage accounting) *)
(* what the header parse did *)
Definition hdr_tag (h : bytes) : string :=
  if is_nil h then "hdr_empty"
  else if Nat.ltb kMaxKeyValuePairs (num_tokens h) then "hdr_overlong"
  else if is_nil (members h) then "hdr_only_empty_members"
  else match parse_members (members h) with
       | Some l => if Nat.eqb (length l) kMaxKeyValuePairs then "hdr_ok_32"
                   else if Nat.ltb (length l) (num_tokens h) then "hdr_ok_with_empty_members" else "hdr_ok"
       | None => if existsb (fun m => match split_kv m with None => true | Some _ => false end) (members h)
                 then "hdr_member_without_eq" else "hdr_invalid_key_or_value"
       end.

(* what one operation did; the rank orders the events from common to rare *)
Definition ev (n : nat) (s : string) : (nat * string)%type := (n, s).
Definition op_event (objs : list tstate) (o : op) : (nat * string)%type :=
  match o with
  | OSet i k v =>
      match nth_error objs i with
      | Some l =>
          if negb (is_valid_key k) then ev 3 "set_invalid_key"
          else if negb (is_valid_value v) then ev 3 "set_invalid_value"
          else if has_key k l then (if Nat.eqb (length l) kMaxKeyValuePairs then (ev 9 "set_update_at_32") else (ev 5 "set_update"))%nat
          else if Nat.ltb (length l) kMaxKeyValuePairs then (if Nat.eqb (length l) (kMaxKeyValuePairs - 1) then (ev 7 "set_new_reaches_32") else (ev 2 "set_new"))%nat
          else ev 8 "set_new_refused_at_32"
      | None => ev 0 "bad"
      end
  | ODel i k =>
      match nth_error objs i with
      | Some l => if negb (is_valid_key k) then ev 3 "del_invalid_key"
                  else if has_key k l then (ev 4 "del_present") else ev 2 "del_absent"
      | None => ev 0 "bad"
      end
  | ORt i => match nth_error objs i with
             | Some l => if is_nil l then ev 1 "rt_empty" else ev 4 "rt_nonempty"
             | None => ev 0 "bad" end
  | OFh h => ev 1 "fh"
  | OGet i k =>
      match nth_error objs i with
      | Some l => if negb (is_valid_key k) then ev 2 "get_invalid_key"
                  else if has_key k l then (ev 3 "get_hit") else ev 1 "get_miss"
      | None => ev 0 "bad"
      end
  | OHdr _ => ev 1 "hdr_op"
  | OEmpty _ => ev 1 "empty_op"
  end.

Fixpoint best_event (objs : list tstate) (ops : list op) (best : nat * string) : (nat * string)%type :=
  match ops with
  | [] => best
  | o :: ops' =>
      let ev := op_event objs o in
      let newobj := match model_step objs o with Some (_, Some l) => objs ++ [l] | _ => objs end in
      best_event newobj ops' (if Nat.ltb (fst best) (fst ev) then ev else best)
  end.

Definition run_tag (l : list tok) : list tok :=
  if is_purity_case l then [tag "purity_probe"] else
  match parse_case l with
  | Some (h, ops) =>
      match model_case h ops with
      | Some _ =>
          match ops with
          | [] => [tag (hdr_tag h)]
          | _ => [tag (snd (best_event [from_header_ix h] ops (ev 0 "ops_none")))]
          end
      | None => bad_case
      end
  | None => bad_case
  end.
