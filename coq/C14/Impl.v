(* Implementation-shaped MODEL for C14: the same functions as C14/Model.v, but written the way
   the C++ executes them -- KeyValueStringTokenizer::next / NumTokens with their index arithmetic
   (`end`, `end + 2 - is_empty_pair`), StringUtil::Trim(str,left,right) with its two index loops,
   KeyValueProperties as a fixed-capacity array whose AddEntry silently drops when full, and
   TraceState::{FromHeader,Set,Delete} with their `allocate_size` computations.
   The extracted model that is diffed against the C++ runs THESE functions; C14/ProofsImpl.v
   proves them equal to the list-level definitions of C14/Model.v (tokenizer_refines_split,
   set_ix_refines, ...), on which every other theorem is stated.  Definitions only. *)
From V Require Export C14.Model.

(* str[i] (only ever evaluated in range, see ProofsImpl) *)
Definition at_ix (s : bytes) (i : nat) : byte := nth i s x00.

(* string_view::find(c, pos): npos = None *)
Definition find_from (c : byte) (s : bytes) (pos : nat) : option nat :=
  match index_of c (skipn pos s) with
  | Some j => Some (pos + j)
  | None => None
  end.

(* StringUtil::Trim(str, left, right):
     while (left <= right && isspace(str[left])) left++;
     while (left <= right && isspace(str[right])) right--;
     return str.substr(left, 1 + right - left);
   `right--` is on size_t; it is never executed at right = 0 (then left = 0 and str[0] is a space,
   so the first loop has already moved left to 1) -- with nat arithmetic the model saturates there. *)
Fixpoint trim_left (fuel : nat) (s : bytes) (left right : nat) : nat :=
  match fuel with
  | O => left
  | S f => if Nat.leb left right && isspace (at_ix s left) then trim_left f s (S left) right else left
  end.
Fixpoint trim_right (fuel : nat) (s : bytes) (left right : nat) : nat :=
  match fuel with
  | O => right
  | S f => if Nat.leb left right && isspace (at_ix s right) then trim_right f s left (right - 1) else right
  end.
Definition trim_ix (s : bytes) (left right : nat) : bytes :=
  let l := trim_left (S (length s)) s left right in
  let r := trim_right (S (length s)) s l right in
  substr s l (1 + r - l).

(* KeyValueStringTokenizer::next with ignore_empty_members = true.
   None = "return false" (no more entries); Some (kv, index_') = "return true" with
   kv = None for valid_kv = false, else Some (key, value). *)
Fixpoint next_ix (fuel : nat) (s : bytes) (index : nat) : option (option (bytes * bytes) * nat) :=
  match fuel with
  | O => None
  | S f =>
      if Nat.ltb index (length s) then
        let '(e, is_empty_pair) :=
          match find_from comma s index with
          | None => (length s - 1, false)
          | Some e => if Nat.eqb e index then (e, true) else (e - 1, false)
          end in
        let list_member := trim_ix s index e in
        if is_nil list_member || is_empty_pair
        then next_ix f s (e + 2 - (if is_empty_pair then 1 else 0))
        else Some (split_kv list_member, e + 2)
      else None
  end.
Definition tok_next (s : bytes) (index : nat) := next_ix (S (length s)) s index.

(* KeyValueStringTokenizer::NumTokens *)
Fixpoint num_tokens_loop (fuel : nat) (s : bytes) (begin cnt : nat) : nat :=
  match fuel with
  | O => cnt
  | S f =>
      if Nat.ltb begin (length s) then
        match find_from comma s begin with
        | None => S cnt
        | Some e => num_tokens_loop f s (S e) (S cnt)
        end
      else cnt
  end.
Definition num_tokens_ix (s : bytes) : nat := num_tokens_loop (S (length s)) s 0 0.

(* KeyValueProperties(size) + AddEntry: entries in order, capacity fixed at construction *)
Definition add_entry (cap : nat) (l : tstate) (e : entry) : tstate :=
  if Nat.ltb (length l) cap then l ++ [e] else l.

(* TraceState::FromHeader:
     while (tok.next(kv_valid,key,value) && ts->Size() < cnt) {
       if (!kv_valid) return GetDefault();
       if (!IsValidKey(key) || !IsValidValue(value)) { reset to empty; break; }
       ts->AddEntry(key,value); } *)
Fixpoint from_header_loop (fuel : nat) (s : bytes) (cnt index : nat) (acc : tstate) : tstate :=
  match fuel with
  | O => acc
  | S f =>
      match tok_next s index with
      | None => acc
      | Some (kv, index') =>
          if Nat.ltb (length acc) cnt then
            match kv with
            | None => []
            | Some (k, v) =>
                if negb (is_valid_key k) || negb (is_valid_value v) then []
                else from_header_loop f s cnt index' (add_entry cnt acc (k, v))
            end
          else acc
      end
  end.
Definition from_header_ix (h : bytes) : tstate :=
  let cnt := num_tokens_ix h in
  if Nat.ltb kMaxKeyValuePairs cnt then []
  else from_header_loop (S (length h)) h cnt 0 [].

(* KeyValueProperties::GetValue: first entry whose key equals *)
Definition get_value (k : bytes) (l : tstate) : option bytes := lookup k l.

(* TraceState::Set (as repaired by b8d2801) *)
Definition set_ix (k v : bytes) (l : tstate) : tstate :=
  let curr_size := length l in
  if negb (is_valid_key k) || negb (is_valid_value v) then []
  else
    let key_exists := match get_value k l with Some _ => true | None => false end in
    let allocate_size :=
      if negb key_exists && Nat.ltb curr_size kMaxKeyValuePairs then curr_size + 1 else curr_size in
    let ts0 := if key_exists || Nat.ltb curr_size kMaxKeyValuePairs
               then add_entry allocate_size [] (k, v) else [] in
    fold_left (fun ts e => if negb (bytes_eqb k (fst e)) then add_entry allocate_size ts e else ts) l ts0.

(* TraceState::Delete *)
Definition delete_ix (k : bytes) (l : tstate) : tstate :=
  if negb (is_valid_key k) then []
  else
    let curr_size := length l in
    let allocate_size := match get_value k l with Some _ => curr_size - 1 | None => curr_size end in
    fold_left (fun ts e => if negb (bytes_eqb k (fst e)) then add_entry allocate_size ts e else ts) l [].

(* TraceState::Get *)
Definition get_ix (k : bytes) (l : tstate) : option bytes :=
  if negb (is_valid_key k) then None else get_value k l.

(* TraceState::ToHeader: `first` flag + append *)
Definition to_header_ix (l : tstate) : bytes :=
  snd (fold_left (fun (st : bool * bytes) (e : entry) =>
                    let '(first, hs) := st in
                    (false, (if first then hs else hs ++ [comma]) ++ fst e ++ [equals] ++ snd e))
                 l (true, [])).

Definition empty_ix (l : tstate) : bool := Nat.eqb (length l) 0.
