(* model_meets_spec: for every header and every operation sequence, the executable SPEC checker of
   C14/Spec.v accepts what the (implementation-shaped) model computes.  Together with
   "implementation output = model output" on a run, the property holds on that run's inputs. *)
From V Require Import C14.Glue C14.ProofsBase C14.ProofsRx C14.Proofs C14.ProofsImpl.
From Coq Require Import Lia Arith.
Require Import ZifyBool ZifyNat ZifyN.

Lemma check_true s : check true s = [].
Proof. reflexivity. Qed.

Lemma entry_eqb_refl e : entry_eqb e e = true.
Proof. unfold entry_eqb. rewrite !bytes_eqb_refl. reflexivity. Qed.

Lemma ts_eqb_refl l : ts_eqb l l = true.
Proof. induction l as [|e l IH]; [reflexivity|]. cbn. rewrite entry_eqb_refl, IH. reflexivity. Qed.

Lemma opt_bytes_eqb_refl o : opt_bytes_eqb o o = true.
Proof. destruct o; cbn; [apply bytes_eqb_refl | reflexivity]. Qed.

Lemma bool_eqb_refl b : Bool.eqb b b = true.
Proof. destruct b; reflexivity. Qed.

(* every well-formed state, shown through the model's ToHeader/Empty, passes the per-object clauses *)
Lemma spec_obj_ok_model l : wf l -> spec_obj_ok (model_obj l) = [].
Proof.
  intros W. pose proof W as [F L]. unfold spec_obj_ok, model_obj. cbn [oo_entries oo_header oo_empty].
  assert (forallb (fun e : bytes * bytes => g_valid_key (fst e)) l = true) as ->.
  { apply forallb_forall. intros e He. rewrite Forall_forall in F. destruct (F e He) as [Hk _].
    rewrite <- valid_key_iff_grammar. exact Hk. }
  assert (forallb (fun e : bytes * bytes => g_valid_value (snd e)) l = true) as ->.
  { apply forallb_forall. intros e He. rewrite Forall_forall in F. destruct (F e He) as [_ Hv].
    rewrite <- valid_value_iff_grammar. exact Hv. }
  rewrite kmax_eq in L. apply Nat.leb_le in L. rewrite L.
  rewrite to_header_ix_refines, to_header_refines, bytes_eqb_refl, empty_ix_refines, bool_eqb_refl. reflexivity.
Qed.

Lemma spec_from_header_ok_model h : spec_from_header_ok h (from_header_ix h) = [].
Proof.
  unfold spec_from_header_ok. rewrite from_header_ix_refines, from_header_refines, ts_eqb_refl. reflexivity.
Qed.

Lemma a_delete_idem k l : a_delete k (a_delete k l) = a_delete k l.
Proof.
  unfold a_delete. induction l as [|e l IH]; [reflexivity|]. cbn [filter].
  destruct (negb (key_is k e)) eqn:E; [|exact IH]. cbn [filter]. rewrite E, IH. reflexivity.
Qed.

Lemma spec_set_ok_model k v l : spec_set_ok k v l (spec_set k v l) = [].
Proof.
  unfold spec_set_ok, spec_set. destruct (g_valid_key k && g_valid_value v); [|reflexivity].
  destruct (a_has k l || Nat.ltb (length l) max_members); [|rewrite ts_eqb_refl; reflexivity].
  unfold a_set. rewrite entry_eqb_refl, check_true.
  rewrite a_count_cons, a_count_delete. unfold key_is at 1. cbn [fst]. rewrite bytes_eqb_refl. cbn [Nat.leb plus]. rewrite check_true.
  unfold a_delete at 1. cbn [filter]. unfold key_is at 1. cbn [fst]. rewrite bytes_eqb_refl. cbn [negb].
  fold (a_delete k (a_delete k l)). rewrite a_delete_idem, ts_eqb_refl. reflexivity.
Qed.

Lemma spec_delete_ok_model k l : spec_delete_ok k l (spec_delete k l) = [].
Proof. unfold spec_delete_ok, spec_delete. destruct (g_valid_key k); [rewrite ts_eqb_refl|]; reflexivity. Qed.

(* one step: the checker accepts the model's result, and a new object is again well-formed *)
Lemma model_step_meets_spec objs o r newobj :
  Forall wf objs -> model_step objs o = Some (r, newobj) ->
  spec_step objs o r = ([], newobj) /\ (forall l, newobj = Some l -> wf l).
Proof.
  intros W. destruct o as [i k v|i k|i|h|i k|i|i]; cbn [model_step spec_step].
  - destruct (nth_error objs i) as [l|] eqn:E; [|discriminate]. intros [= <- <-].
    assert (wf l) as Wl by (rewrite Forall_forall in W; apply W; eapply nth_error_In; exact E).
    cbn [oo_entries model_obj]. rewrite set_ix_refines.
    rewrite (spec_obj_ok_model _ (set_preserves_wf k v l Wl)). rewrite set_refines, spec_set_ok_model.
    split; [reflexivity|]. intros l' [= <-]. rewrite <- set_refines. apply set_preserves_wf. exact Wl.
  - destruct (nth_error objs i) as [l|] eqn:E; [|discriminate]. intros [= <- <-].
    assert (wf l) as Wl by (rewrite Forall_forall in W; apply W; eapply nth_error_In; exact E).
    cbn [oo_entries model_obj]. rewrite delete_ix_refines.
    rewrite (spec_obj_ok_model _ (delete_preserves_wf k l Wl)). rewrite delete_refines, spec_delete_ok_model.
    split; [reflexivity|]. intros l' [= <-]. rewrite <- delete_refines. apply delete_preserves_wf. exact Wl.
  - destruct (nth_error objs i) as [l|] eqn:E; [|discriminate]. intros [= <- <-].
    assert (wf l) as Wl by (rewrite Forall_forall in W; apply W; eapply nth_error_In; exact E).
    cbn [oo_entries model_obj]. rewrite from_header_ix_refines, to_header_ix_refines, (header_roundtrip l Wl).
    rewrite (spec_obj_ok_model _ Wl). unfold spec_roundtrip_ok. rewrite ts_eqb_refl.
    destruct (wf_state l); (split; [reflexivity|]); intros l' [= <-]; exact Wl.
  - intros [= <- <-]. cbn [oo_entries model_obj].
    assert (wf (from_header_ix h)) as Wl by (rewrite from_header_ix_refines; apply from_header_wf).
    rewrite (spec_obj_ok_model _ Wl), spec_from_header_ok_model.
    split; [reflexivity|]. intros l' [= <-]. exact Wl.
  - destruct (nth_error objs i) as [l|] eqn:E; [|discriminate]. intros [= <- <-].
    unfold spec_get_ok. rewrite get_ix_refines, get_refines, opt_bytes_eqb_refl. split; [reflexivity | discriminate].
  - destruct (nth_error objs i) as [l|] eqn:E; [|discriminate]. intros [= <- <-].
    rewrite to_header_ix_refines, to_header_refines, bytes_eqb_refl. split; [reflexivity | discriminate].
  - destruct (nth_error objs i) as [l|] eqn:E; [|discriminate]. intros [= <- <-].
    rewrite empty_ix_refines, bool_eqb_refl. split; [reflexivity | discriminate].
Qed.

Lemma model_steps_meet_spec ops : forall objs rs,
  Forall wf objs -> model_steps objs ops = Some rs -> spec_steps objs ops rs = [].
Proof.
  induction ops as [|o ops IH]; intros objs rs W; cbn [model_steps spec_steps].
  - intros [= <-]. reflexivity.
  - destruct (model_step objs o) as [[r newobj]|] eqn:E; [|discriminate].
    destruct (model_step_meets_spec objs o r newobj W E) as [S1 S2].
    destruct (model_steps (match newobj with Some l => objs ++ [l] | None => objs end) ops) as [rs'|] eqn:E'; [|discriminate].
    intros [= <-]. rewrite S1. cbn [check app]. apply IH; [|exact E'].
    destruct newobj as [l|]; [|exact W]. apply Forall_app. split; [exact W|]. constructor; [apply S2; reflexivity | constructor].
Qed.

(* THE CENTRAL THEOREM: for every header and every sequence of operations addressed to existing
   objects, every clause of the SPEC holds of the model's observation *)
Theorem model_meets_spec h ops o0 rs :
  model_case h ops = Some (o0, rs) -> spec_case h ops o0 rs = [].
Proof.
  unfold model_case, spec_case.
  destruct (model_steps [from_header_ix h] ops) as [rs'|] eqn:E; [|discriminate]. intros [= <- <-].
  assert (wf (from_header_ix h)) as W0 by (rewrite from_header_ix_refines; apply from_header_wf).
  rewrite (spec_obj_ok_model _ W0). cbn [oo_entries model_obj]. rewrite spec_from_header_ok_model.
  cbn [app]. apply (model_steps_meet_spec ops _ _ (Forall_cons _ W0 (Forall_nil _)) E).
Qed.

(* the hypothesis is met by every case whose indices address existing objects *)
Example model_meets_spec_nonvacuous :
  exists o0 rs, model_case (bs "a=1,b=2") [OSet 0 (bs "a") (bs "9"); OGet 1 (bs "a"); ODel 1 (bs "b"); ORt 2] = Some (o0, rs)
                /\ length rs = 4.
Proof. eexists. eexists. split; [vm_compute; reflexivity | reflexivity]. Qed.

(* "the original object is never modified": a step only ever appends to the store of objects *)
Theorem original_unchanged objs o r newobj :
  model_step objs o = Some (r, newobj) ->
  forall j l, nth_error objs j = Some l ->
  nth_error (match newobj with Some n => objs ++ [n] | None => objs end) j = Some l.
Proof.
  intros _ j l H. destruct newobj; [|exact H]. rewrite nth_error_app1; [exact H|]. apply nth_error_Some. congruence.
Qed.

(* ... and the model reports exactly that for every step *)
Theorem model_same_flag ops : forall objs rs, model_steps objs ops = Some rs -> forallb fst rs = true.
Proof.
  induction ops as [|o ops IH]; intros objs rs; cbn [model_steps].
  - intros [= <-]. reflexivity.
  - destruct (model_step objs o) as [[r newobj]|]; [|discriminate].
    destruct (model_steps _ ops) as [rs'|] eqn:E; [|discriminate]. intros [= <-]. cbn. exact (IH _ _ E).
Qed.
