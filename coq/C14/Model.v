(* MODEL of common::KeyValueStringTokenizer, common::KeyValueProperties (as used by
   TraceState) and trace::TraceState  (api/include/opentelemetry/trace/trace_state.h,
   common/kv_properties.h, common/string_util.h).  Executable definitions only. *)
From V Require Export Base.Rx Gen.Consts.

Definition comma : byte := x2c.
Definition equals : byte := x3d.

(* --- StringUtil::Trim (isspace on both ends) *)
Fixpoint drop_while (p : byte -> bool) (s : bytes) : bytes :=
  match s with
  | [] => []
  | b :: s' => if p b then drop_while p s' else s
  end.
Definition trim_ws (s : bytes) : bytes := rev (drop_while isspace (rev (drop_while isspace s))).

(* --- splitting on a separator; never returns [] *)
Fixpoint split_on (c : byte) (s : bytes) : list bytes :=
  match s with
  | [] => [[]]
  | b :: s' =>
      if Byte.eqb b c then [] :: split_on c s'
      else match split_on c s' with
           | h :: t => (b :: h) :: t
           | [] => [[b]]
           end
  end.

Definition is_nil {A} (l : list A) : bool := match l with [] => true | _ => false end.

(* KeyValueStringTokenizer::NumTokens: one more than the number of separators, except that a
   trailing separator (or an empty string) does not start a token *)
Definition num_tokens (h : bytes) : nat :=
  let p := split_on comma h in
  if is_nil (last p [x00]) then length p - 1 else length p.

(* the non-empty list members the tokenizer's next() yields (ignore_empty_members = true) *)
Definition members (h : bytes) : list bytes :=
  filter (fun m => negb (is_nil m)) (map trim_ws (split_on comma h)).

(* one member -> (key,value) at the first '='; None = "valid_kv = false" *)
Definition split_kv (m : bytes) : option (bytes * bytes) :=
  match index_of equals m with
  | None => None
  | Some i => Some (firstn i m, skipn (S i) m)
  end.

(* --- validators: the std::regex literals translated into Gen.Consts *)
Definition is_valid_key (k : bytes) : bool := rx_match reg_key k || rx_match reg_key_multitenant k.
Definition is_valid_value (v : bytes) : bool := rx_match reg_value v.

Definition entry := (bytes * bytes)%type.
Definition tstate := list entry.   (* KeyValueProperties: entries in order *)

(* TraceState::FromHeader *)
Fixpoint parse_members (ms : list bytes) : option tstate :=
  match ms with
  | [] => Some []
  | m :: ms' =>
      match split_kv m with
      | None => None                                   (* kv_valid == false -> GetDefault() *)
      | Some (k, v) =>
          if is_valid_key k && is_valid_value v then
            match parse_members ms' with
            | Some r => Some ((k, v) :: r)
            | None => None
            end
          else None                                    (* reset to empty, break *)
      end
  end.

Definition from_header (h : bytes) : tstate :=
  if Nat.ltb kMaxKeyValuePairs (num_tokens h) then []
  else match parse_members (members h) with Some l => l | None => [] end.

(* TraceState::ToHeader *)
Fixpoint to_header (l : tstate) : bytes :=
  match l with
  | [] => []
  | [(k, v)] => k ++ [equals] ++ v
  | (k, v) :: l' => k ++ [equals] ++ v ++ [comma] ++ to_header l'
  end.

Fixpoint lookup (k : bytes) (l : tstate) : option bytes :=
  match l with
  | [] => None
  | (k', v) :: l' => if bytes_eqb k' k then Some v else lookup k l'
  end.

Definition remove_key (k : bytes) (l : tstate) : tstate :=
  filter (fun e => negb (bytes_eqb (fst e) k)) l.

(* TraceState::Get *)
Definition ts_get (k : bytes) (l : tstate) : option bytes :=
  if is_valid_key k then lookup k l else None.

Definition has_key (k : bytes) (l : tstate) : bool :=
  match lookup k l with Some _ => true | None => false end.

(* TraceState::Set *)
Definition ts_set (k v : bytes) (l : tstate) : tstate :=
  if negb (is_valid_key k && is_valid_value v) then []
  else if has_key k l || Nat.ltb (length l) kMaxKeyValuePairs
       then (k, v) :: remove_key k l
       else remove_key k l.

(* TraceState::Delete *)
Definition ts_delete (k : bytes) (l : tstate) : tstate :=
  if is_valid_key k then remove_key k l else [].
