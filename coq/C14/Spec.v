(* SPEC for C14, written independently of how trace_state.h / kv_properties.h work:
   - the W3C tracestate grammar for keys and values spelled out by character class and length
     (no regular expressions, no constants taken from the code),
   - a TraceState as an ordered list of pairs with the abstract operations
       set k v l    = (k,v) :: [e in l | key e <> k]      delete k l = [e in l | key e <> k]
       get k l      = value of the first member with key k,
   - parsing as "split on ',', strip optional whitespace, drop empty members, every member is
     key=value with valid key and value, at most 32 list positions, otherwise the empty state",
   - serialising as the members joined by ','.
   Everything is bool / list tok valued so that it is run on the IMPLEMENTATION's observations. *)
From V Require Export C14.Ops.

(* ---------------------------------------------------------------- W3C grammar
   key        = simple-key / multi-tenant-key
   simple-key = lcalpha-or-digit 0*255( lcalpha / DIGIT / "_" / "-" / "*" / "/" )
   multi-tenant-key = tenant-id "@" system-id   (tenant-id: 1..241 chars, system-id: 1..14 chars,
                      each starting with lcalpha / DIGIT -- as opentelemetry-cpp reads the level-1 text)
   value      = 0*255(chr) nblk-chr ;  chr = %x20-2B / %x2D-3C / %x3E-7E ; nblk-chr = chr except %x20 *)
Definition at_sign : byte := x40.
Definition space : byte := x20.
Definition is_lcalpha_or_digit (b : byte) : bool := islower b || isdigit b.
Definition is_key_char (b : byte) : bool :=
  is_lcalpha_or_digit b || Byte.eqb b x5f || Byte.eqb b x2d || Byte.eqb b x2a || Byte.eqb b x2f.
Definition ident (maxlen : nat) (x : bytes) : bool :=
  match x with
  | b :: r => is_lcalpha_or_digit b && forallb is_key_char r && Nat.leb (length x) maxlen
  | [] => false
  end.
Definition g_valid_key (k : bytes) : bool :=
  ident 256 k ||
  match index_of at_sign k with
  | Some i => ident 241 (firstn i k) && ident 14 (skipn (S i) k)
  | None => false
  end.
Definition is_value_char (b : byte) : bool :=
  byte_in 32 126 b && negb (Byte.eqb b comma) && negb (Byte.eqb b equals).
Definition g_valid_value (v : bytes) : bool :=
  negb (is_nil v) && Nat.leb (length v) 256 && forallb is_value_char v &&
  negb (Byte.eqb (last v space) space).

Definition max_members : nat := 32.

(* ---------------------------------------------------------------- abstract list operations *)
Definition key_is (k : bytes) (e : entry) : bool := bytes_eqb (fst e) k.
Definition a_delete (k : bytes) (l : tstate) : tstate := filter (fun e => negb (key_is k e)) l.
Definition a_set (k v : bytes) (l : tstate) : tstate := (k, v) :: a_delete k l.
Definition a_has (k : bytes) (l : tstate) : bool := existsb (key_is k) l.
Definition a_get (k : bytes) (l : tstate) : option bytes := option_map snd (find (key_is k) l).
Definition a_count (k : bytes) (l : tstate) : nat := length (filter (key_is k) l).

Definition entry_valid (e : entry) : bool := g_valid_key (fst e) && g_valid_value (snd e).
(* the states the property talks about *)
Definition wf_state (l : tstate) : bool := forallb entry_valid l && Nat.leb (length l) max_members.

Definition spec_set (k v : bytes) (l : tstate) : tstate :=
  if g_valid_key k && g_valid_value v then
    if a_has k l || Nat.ltb (length l) max_members then a_set k v l else l
  else [].
Definition spec_delete (k : bytes) (l : tstate) : tstate :=
  if g_valid_key k then a_delete k l else [].
Definition spec_get (k : bytes) (l : tstate) : option bytes :=
  if g_valid_key k then a_get k l else None.

(* ---------------------------------------------------------------- header <-> list *)
(* number of list positions: one more than the number of commas, a trailing comma (or nothing at all)
   does not open a position *)
Definition spec_count (h : bytes) : nat :=
  match h with
  | [] => 0
  | _ => count_occ Byte.byte_eq_dec h comma + (if Byte.eqb (last h x00) comma then 0 else 1)
  end.
Definition spec_members (h : bytes) : list bytes :=
  filter (fun m => negb (is_nil m)) (map trim_ws (split_on comma h)).
Definition member_kv (m : bytes) : option entry :=
  match index_of equals m with
  | Some i => let e := (firstn i m, skipn (S i) m) in if entry_valid e then Some e else None
  | None => None
  end.
Fixpoint all_some {A} (l : list (option A)) : option (list A) :=
  match l with
  | [] => Some []
  | Some x :: l' => option_map (cons x) (all_some l')
  | None :: _ => None
  end.
Definition spec_parse (h : bytes) : tstate :=
  if Nat.ltb max_members (spec_count h) then []
  else match all_some (map member_kv (spec_members h)) with Some l => l | None => [] end.

Fixpoint spec_join (l : tstate) : bytes :=
  match l with
  | [] => []
  | e :: l' => fst e ++ equals :: snd e ++ (if is_nil l' then [] else comma :: spec_join l')
  end.

(* ---------------------------------------------------------------- checkers on observations *)
Definition entry_eqb (a b : entry) : bool := bytes_eqb (fst a) (fst b) && bytes_eqb (snd a) (snd b).
Fixpoint ts_eqb (a b : tstate) : bool :=
  match a, b with
  | [], [] => true
  | x :: a', y :: b' => entry_eqb x y && ts_eqb a' b'
  | _, _ => false
  end.
Definition opt_bytes_eqb (a b : option bytes) : bool :=
  match a, b with
  | Some x, Some y => bytes_eqb x y
  | None, None => true
  | _, _ => false
  end.

(* every object, however obtained: only grammatical members, at most 32; ToHeader and Empty agree
   with the entries *)
Definition spec_obj_ok (o : objobs) : list tok :=
  let l := oo_entries o in
  check (forallb (fun e => g_valid_key (fst e)) l) "wf:invalid_key" ++
  check (forallb (fun e => g_valid_value (snd e)) l) "wf:invalid_value" ++
  check (Nat.leb (length l) max_members) "wf:too_many_members" ++
  check (bytes_eqb (oo_header o) (spec_join l)) "to_header:differs" ++
  check (Bool.eqb (oo_empty o) (is_nil l)) "empty:differs".

Definition spec_from_header_ok (h : bytes) (r : tstate) : list tok :=
  let want := spec_parse h in
  if ts_eqb r want then []
  else if is_nil want then
         (if Nat.ltb max_members (spec_count h) then fail "invalid_yields_empty:overlong_header_accepted"
          else fail "invalid_yields_empty:partial_or_invalid_accepted")
       else if is_nil r then fail "from_header:valid_header_rejected"
       else fail "from_header:wrong_list".

(* Set on the object observed as [l] gave the object observed as [r] *)
Definition spec_set_ok (k v : bytes) (l r : tstate) : list tok :=
  if g_valid_key k && g_valid_value v then
    if a_has k l || Nat.ltb (length l) max_members then
      check (match r with e :: _ => entry_eqb e (k, v) | [] => false end) "set_spec:not_first" ++
      check (Nat.leb (a_count k r) 1) "set_spec:duplicate_key" ++
      check (ts_eqb (a_delete k r) (a_delete k l)) "set_spec:others_changed"
    else check (ts_eqb r l) "set_spec:full_list_not_unchanged_copy"
  else check (is_nil r) "set_spec:invalid_not_empty".

Definition spec_delete_ok (k : bytes) (l r : tstate) : list tok :=
  if g_valid_key k then check (ts_eqb r (a_delete k l)) "delete_spec:not_exactly_the_key"
  else check (is_nil r) "delete_spec:invalid_not_empty".

Definition spec_get_ok (k : bytes) (l : tstate) (r : option bytes) : list tok :=
  check (opt_bytes_eqb r (spec_get k l)) "get_spec:wrong_value".

Definition spec_roundtrip_ok (l r : tstate) : list tok :=
  if wf_state l then check (ts_eqb r l) "header_roundtrip:differs" else [].

(* one operation, given the entries observed of all objects so far; returns failed clauses and
   the entries of the new object if the operation creates one *)
Definition spec_step (objs : list tstate) (o : op) (r : opobs) : list tok * option tstate :=
  match o, r with
  | OSet i k v, RObj oo =>
      match nth_error objs i with
      | Some l => (spec_obj_ok oo ++ spec_set_ok k v l (oo_entries oo), Some (oo_entries oo))
      | None => (fail "case:bad_index", None)
      end
  | ODel i k, RObj oo =>
      match nth_error objs i with
      | Some l => (spec_obj_ok oo ++ spec_delete_ok k l (oo_entries oo), Some (oo_entries oo))
      | None => (fail "case:bad_index", None)
      end
  | ORt i, RObj oo =>
      match nth_error objs i with
      | Some l => (spec_obj_ok oo ++ spec_roundtrip_ok l (oo_entries oo), Some (oo_entries oo))
      | None => (fail "case:bad_index", None)
      end
  | OFh h, RObj oo => (spec_obj_ok oo ++ spec_from_header_ok h (oo_entries oo), Some (oo_entries oo))
  | OGet i k, RGet g =>
      match nth_error objs i with
      | Some l => (spec_get_ok k l g, None)
      | None => (fail "case:bad_index", None)
      end
  | OHdr i, RHdr h =>
      match nth_error objs i with
      | Some l => (check (bytes_eqb h (spec_join l)) "to_header:differs", None)
      | None => (fail "case:bad_index", None)
      end
  | OEmpty i, REmpty b =>
      match nth_error objs i with
      | Some l => (check (Bool.eqb b (is_nil l)) "empty:differs", None)
      | None => (fail "case:bad_index", None)
      end
  | _, _ => (fail "obs:shape", None)
  end.

Fixpoint spec_steps (objs : list tstate) (ops : list op) (obs : list stepobs) : list tok :=
  match ops, obs with
  | [], [] => []
  | o :: ops', (same, r) :: obs' =>
      let '(f, newobj) := spec_step objs o r in
      check same "original_unchanged:earlier_object_modified" ++ f ++
      spec_steps (match newobj with Some l => objs ++ [l] | None => objs end) ops' obs'
  | _, _ => fail "obs:length"
  end.

(* a whole case: FromHeader(h), then the operations *)
Definition spec_case (h : bytes) (ops : list op) (o0 : objobs) (obs : list stepobs) : list tok :=
  spec_obj_ok o0 ++ spec_from_header_ok h (oo_entries o0) ++ spec_steps [oo_entries o0] ops obs.

(* ---------------------------------------------------------------- purity probe (harness/c14_purity.cc)
   The model's operations are functions of immutable values, so whatever several threads compute from shared
   objects is what one thread computes: the only observation the model predicts for a PURITY case is PURE.
   This clause is a RUN-TIME probe of that modelling assumption on the implementation, not a theorem about it. *)
Definition spec_purity_ok (obs : list tok) : list tok :=
  match obs with
  | [t] => if is_tag "PURE" t then [] else fail "obs:unparsable"
  | t :: _ => if is_tag "RACE" t then fail "purity:data_race"
              else if is_tag "DIFFERS" t then fail "purity:result_differs"
              else if is_tag "HARNESSRACE" t then fail "harness:probe_race"
              else if is_tag "HANG" t then fail "purity:hang"
              else if is_tag "CRASH" t then fail "purity:crash"
              else fail "obs:unparsable"
  | [] => fail "obs:unparsable"
  end.
