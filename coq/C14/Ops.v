(* Shared vocabulary of the C14 operation-sequence cases: operations on a store of immutable
   TraceState objects (object 0 = FromHeader(h); every Set/Delete/round-trip appends a new object),
   and what is observed of them.  Types only. *)
From V Require Export C14.Model.

Inductive op :=
| OSet (i : nat) (k v : bytes)     (* objs[i]->Set(k,v)                      : new object *)
| ODel (i : nat) (k : bytes)       (* objs[i]->Delete(k)                     : new object *)
| ORt (i : nat)                    (* FromHeader(objs[i]->ToHeader())        : new object *)
| OFh (h : bytes)                  (* FromHeader(h)                          : new object *)
| OGet (i : nat) (k : bytes)       (* objs[i]->Get(k, out)                              *)
| OHdr (i : nat)                   (* objs[i]->ToHeader()                               *)
| OEmpty (i : nat).                (* objs[i]->Empty()                                  *)

(* everything the public interface shows of one object *)
Record objobs := mk_oo {
  oo_entries : tstate;     (* GetAllEntries, in order *)
  oo_header : bytes;       (* ToHeader() *)
  oo_empty : bool          (* Empty() *)
}.

Inductive opobs :=
| RObj (o : objobs)
| RGet (r : option bytes)
| RHdr (h : bytes)
| REmpty (b : bool).

(* (all earlier objects re-read after the op are what they were when created, result) *)
Definition stepobs := (bool * opobs)%type.
