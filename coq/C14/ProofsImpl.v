(* The implementation-shaped model C14/Impl.v (index arithmetic of the tokenizer and of Trim,
   fixed-capacity AddEntry, allocate_size) computes the same functions as the list-level model
   C14/Model.v, for every input.  The extracted model that is diffed against the C++ runs Impl. *)
From V Require Import C14.Impl C14.Spec C14.ProofsBase C14.ProofsRx C14.Proofs.
From Coq Require Import Lia Arith.
Require Import ZifyBool ZifyNat ZifyN.

(* ================================================================ indices into a byte string *)
Lemma skipn_skipn' {A} a b (s : list A) : skipn a (skipn b s) = skipn (a + b) s.
Proof.
  revert s. induction b as [|b IH]; intros s.
  - rewrite Nat.add_0_r. reflexivity.
  - destruct s as [|x s]; [rewrite !skipn_nil; reflexivity|].
    rewrite Nat.add_succ_r. cbn [skipn]. apply IH.
Qed.

Lemma skipn_at s i : i < length s -> skipn i s = at_ix s i :: skipn (S i) s.
Proof.
  revert i. induction s as [|b s IH]; intros i H; [cbn in H; lia|].
  destruct i as [|i]; [reflexivity|]. cbn [length] in H. unfold at_ix in *. cbn [skipn nth]. apply IH. lia.
Qed.

Lemma substr_S s i n : i < length s -> substr s i (S n) = at_ix s i :: substr s (S i) n.
Proof. intros H. unfold substr. rewrite (skipn_at s i H). reflexivity. Qed.

Lemma substr_0 s i : substr s i 0 = [].
Proof. reflexivity. Qed.

Lemma substr_snoc s l m : l + m < length s -> substr s l (S m) = substr s l m ++ [at_ix s (l + m)].
Proof.
  revert l. induction m as [|m IH]; intros l H.
  - rewrite substr_S by lia. rewrite !substr_0, Nat.add_0_r. reflexivity.
  - rewrite substr_S by lia. rewrite (IH (S l)) by lia. rewrite (substr_S s l m) by lia.
    rewrite Nat.add_succ_r. reflexivity.
Qed.

Lemma substr_to_end s i : substr s i (length s - i) = skipn i s.
Proof. unfold substr. rewrite <- skipn_length. apply firstn_all. Qed.

Lemma substr_length s i n : i + n <= length s -> length (substr s i n) = n.
Proof. intros H. unfold substr. rewrite firstn_length, skipn_length. lia. Qed.

(* string_view::find *)
Lemma find_from_none c s i : find_from c s i = None -> lacks c (skipn i s) = true.
Proof. unfold find_from. destruct (index_of c (skipn i s)) eqn:E; [discriminate|]. intros _. apply index_of_none. exact E. Qed.

Lemma find_from_some c s i e :
  find_from c s i = Some e ->
  i <= e < length s /\ skipn i s = substr s i (e - i) ++ c :: skipn (S e) s /\ lacks c (substr s i (e - i)) = true.
Proof.
  unfold find_from. destruct (index_of c (skipn i s)) as [j|] eqn:E; [|discriminate]. intros [= <-].
  apply index_of_some in E. destruct E as (H1 & H2 & H3). rewrite skipn_length in H3.
  replace (i + j - i) with j by lia. unfold substr. split; [lia|]. split; [|exact H2].
  rewrite H1 at 1. rewrite skipn_skipn'. replace (S j + i) with (S (i + j)) by lia. reflexivity.
Qed.

(* ================================================================ StringUtil::Trim(str, left, right) *)
Definition rtrim (x : bytes) : bytes := rev (drop_while isspace (rev x)).

Lemma trim_ws_rtrim x : trim_ws x = rtrim (drop_while isspace x).
Proof. reflexivity. Qed.

Lemma rtrim_snoc x b : rtrim (x ++ [b]) = if isspace b then rtrim x else x ++ [b].
Proof.
  unfold rtrim. rewrite rev_app_distr. cbn [rev app drop_while]. destruct (isspace b); [reflexivity|].
  cbn [rev]. rewrite rev_involutive. reflexivity.
Qed.

Lemma rtrim_nil : rtrim [] = [].
Proof. reflexivity. Qed.

(* the first loop: stops at the first non-blank of str[left..right] (or at right+1) *)
Lemma trim_left_spec s right : right < length s ->
  forall fuel left, left <= S right -> S right - left < fuel ->
  let l := trim_left fuel s left right in
  left <= l <= S right /\ (l <= right -> isspace (at_ix s l) = false) /\
  substr s l (S right - l) = drop_while isspace (substr s left (S right - left)).
Proof.
  intros Hr. induction fuel as [|fuel IH]; intros left Hl Hf; [lia|].
  cbn [trim_left]. destruct (Nat.leb left right) eqn:Le; cbn [andb].
  - apply Nat.leb_le in Le. replace (S right - left) with (S (right - left)) by lia. rewrite substr_S by lia.
    cbn [drop_while]. destruct (isspace (at_ix s left)) eqn:Sp.
    + specialize (IH (S left) ltac:(lia) ltac:(lia)). cbv zeta in IH. destruct IH as (I1 & I2 & I3).
      replace (S right - S left) with (right - left) in I3 by lia. cbv zeta.
      split; [lia|]. split; [exact I2 | exact I3].
    + cbv zeta. split; [lia|]. split; [intros _; exact Sp|].
      replace (S right - left) with (S (right - left)) by lia. rewrite substr_S by lia. reflexivity.
  - apply Nat.leb_gt in Le. cbv zeta. replace (S right - left) with 0 by lia.
    split; [lia|]. split; [lia | reflexivity].
Qed.

(* the second loop never passes a non-blank str[l]; in particular `right--` is never executed at 0 *)
Lemma trim_right_spec s l :
  forall fuel right, right < length s -> l <= S right -> S right - l < fuel ->
  (l <= right -> isspace (at_ix s l) = false) ->
  let r := trim_right fuel s l right in
  substr s l (1 + r - l) = rtrim (substr s l (S right - l)) /\ (l <= right -> l <= r).
Proof.
  induction fuel as [|fuel IH]; intros right Hr Hl Hf Hns; [lia|].
  cbn [trim_right]. destruct (Nat.leb l right) eqn:Le; cbn [andb].
  - apply Nat.leb_le in Le. replace (S right - l) with (S (right - l)) by lia.
    rewrite substr_snoc by lia. replace (l + (right - l)) with right by lia. rewrite rtrim_snoc.
    destruct (isspace (at_ix s right)) eqn:Sp.
    + assert (l < right) as Lt. { destruct (Nat.eq_dec l right) as [->|]; [rewrite (Hns Le) in Sp; discriminate | lia]. }
      specialize (IH (right - 1) ltac:(lia) ltac:(lia) ltac:(lia) ltac:(intros _; apply Hns; lia)).
      cbv zeta in IH. destruct IH as [I1 I2]. replace (S (right - 1) - l) with (right - l) in I1 by lia.
      cbv zeta. split; [exact I1 | intros _; apply I2; lia].
    + cbv zeta. split; [|lia]. replace (1 + right - l) with (S (right - l)) by lia.
      rewrite substr_snoc by lia. replace (l + (right - l)) with right by lia. reflexivity.
  - apply Nat.leb_gt in Le. cbv zeta. replace (1 + right - l) with 0 by lia. replace (S right - l) with 0 by lia.
    split; [reflexivity | lia].
Qed.

(* Trim(str, left, right) = trim of the sub-string str[left..right] *)
Theorem trim_ix_spec s left right :
  left <= S right -> right < length s -> trim_ix s left right = trim_ws (substr s left (S right - left)).
Proof.
  intros Hl Hr. unfold trim_ix.
  pose proof (trim_left_spec s right Hr (S (length s)) left Hl ltac:(lia)) as TL. cbv zeta in TL.
  destruct TL as (T1 & T2 & T3). set (l := trim_left (S (length s)) s left right) in *.
  pose proof (trim_right_spec s l (S (length s)) right Hr ltac:(lia) ltac:(lia) T2) as TR. cbv zeta in TR.
  destruct TR as [R1 _]. rewrite R1, T3. symmetry. apply trim_ws_rtrim.
Qed.

(* ================================================================ KeyValueStringTokenizer::next *)
(* the non-empty trimmed members of str[i..] (nothing beyond the end) *)
Definition members_from (s : bytes) (i : nat) : list bytes :=
  if Nat.leb i (length s) then members (skipn i s) else [].

Lemma members_nil : members [] = [].
Proof. reflexivity. Qed.

Lemma members_from_end s i : length s <= i -> members_from s i = [].
Proof.
  intros H. unfold members_from. destruct (Nat.leb i (length s)) eqn:E; [|reflexivity].
  apply Nat.leb_le in E. rewrite skipn_all2 by lia. reflexivity.
Qed.

Lemma members_lacks x : lacks comma x = true ->
  members x = if is_nil (trim_ws x) then [] else [trim_ws x].
Proof.
  intros H. unfold members. rewrite (split_on_lacks _ _ H). cbn [map filter]. destruct (is_nil (trim_ws x)); reflexivity.
Qed.

Lemma members_app x y : lacks comma x = true ->
  members (x ++ comma :: y) = (if is_nil (trim_ws x) then [] else [trim_ws x]) ++ members y.
Proof.
  intros H. unfold members. rewrite (split_on_app _ _ _ H). cbn [map filter]. destruct (is_nil (trim_ws x)); reflexivity.
Qed.

Lemma next_ix_spec s :
  forall fuel i, length s < fuel + i ->
  match next_ix fuel s i with
  | None => members_from s i = []
  | Some (kv, i') => exists m, members_from s i = m :: members_from s i' /\ kv = split_kv m /\ i < i'
  end.
Proof.
  induction fuel as [|fuel IH]; intros i Hf.
  - cbn [next_ix]. apply members_from_end. lia.
  - cbn [next_ix]. destruct (Nat.ltb i (length s)) eqn:Lt; [|apply members_from_end; apply Nat.ltb_ge in Lt; lia].
    apply Nat.ltb_lt in Lt.
    assert (Mi : members_from s i = members (skipn i s)).
    { unfold members_from. replace (Nat.leb i (length s)) with true; [reflexivity|]. symmetry. apply Nat.leb_le. lia. }
    destruct (find_from comma s i) as [e|] eqn:F.
    + destruct (find_from_some _ _ _ _ F) as (He & Hsk & Hl).
      assert (Me : members_from s (S e) = members (skipn (S e) s)).
      { unfold members_from. replace (Nat.leb (S e) (length s)) with true; [reflexivity|]. symmetry. apply Nat.leb_le. lia. }
      rewrite Mi, Hsk, (members_app _ _ Hl), <- Me.
      destruct (Nat.eqb e i) eqn:Ee.
      * apply Nat.eqb_eq in Ee. subst e. rewrite orb_true_r. replace (i - i) with 0 by lia. rewrite substr_0.
        rewrite trim_ws_nil. cbn [is_nil app]. replace (i + 2 - 1) with (S i) by lia.
        specialize (IH (S i) ltac:(lia)). destruct (next_ix fuel s (S i)) as [[kv i']|]; [|exact IH].
        destruct IH as (m & H1 & H2 & H3). exists m. repeat split; [exact H1 | exact H2 | lia].
      * apply Nat.eqb_neq in Ee. rewrite orb_false_r. rewrite trim_ix_spec by lia.
        replace (S (e - 1) - i) with (e - i) by lia. replace (e - 1 + 2 - 0) with (S e) by lia. replace (e - 1 + 2) with (S e) by lia.
        destruct (is_nil (trim_ws (substr s i (e - i)))) eqn:En; cbn [app].
        -- specialize (IH (S e) ltac:(lia)). destruct (next_ix fuel s (S e)) as [[kv i']|]; [|exact IH].
           destruct IH as (m & H1 & H2 & H3). exists m. repeat split; [exact H1 | exact H2 | lia].
        -- exists (trim_ws (substr s i (e - i))). repeat split. lia.
    + pose proof (find_from_none _ _ _ F) as Hl. rewrite orb_false_r. rewrite trim_ix_spec by lia.
      replace (S (length s - 1) - i) with (length s - i) by lia. rewrite substr_to_end.
      rewrite Mi, (members_lacks _ Hl). replace (length s - 1 + 2 - 0) with (S (length s)) by lia.
      replace (length s - 1 + 2) with (S (length s)) by lia.
      destruct (is_nil (trim_ws (skipn i s))) eqn:En.
      * pose proof (members_from_end s (S (length s)) ltac:(lia)) as ME.
        destruct fuel as [|fuel']; [reflexivity|]. cbn [next_ix].
        replace (Nat.ltb (S (length s)) (length s)) with false; [reflexivity|]. symmetry. apply Nat.ltb_ge. lia.
      * exists (trim_ws (skipn i s)). rewrite (members_from_end s (S (length s))) by lia. repeat split. lia.
Qed.

(* the tokenizer yields, one after the other, exactly the non-empty trimmed fields of the
   comma-separated header, each split at its first '=' *)
Theorem tokenizer_next_refines s i :
  match tok_next s i with
  | None => members_from s i = []
  | Some (kv, i') => exists m, members_from s i = m :: members_from s i' /\ kv = split_kv m /\ i < i'
  end.
Proof. apply next_ix_spec. lia. Qed.

(* ================================================================ NumTokens *)
Lemma num_tokens_lacks x : x <> [] -> lacks comma x = true -> num_tokens x = 1.
Proof.
  intros Hn H. unfold num_tokens. rewrite (split_on_lacks _ _ H). cbn [last]. apply is_nil_false in Hn. rewrite Hn. reflexivity.
Qed.

Lemma num_tokens_app x y : lacks comma x = true -> num_tokens (x ++ comma :: y) = S (num_tokens y).
Proof.
  intros H. unfold num_tokens. rewrite (split_on_app _ _ _ H). cbv zeta.
  pose proof (split_on_nonnil comma y) as NN. rewrite last_cons_ne by exact NN.
  destruct (split_on comma y) as [|f fs]; [contradiction|]. cbn [length].
  destruct (is_nil (last (f :: fs) [x00])); lia.
Qed.

Lemma num_tokens_loop_spec s :
  forall fuel b cnt, b <= length s -> length s < fuel + b ->
  num_tokens_loop fuel s b cnt = cnt + num_tokens (skipn b s).
Proof.
  induction fuel as [|fuel IH]; intros b cnt Hb Hf; [lia|].
  cbn [num_tokens_loop]. destruct (Nat.ltb b (length s)) eqn:Lt.
  - apply Nat.ltb_lt in Lt. destruct (find_from comma s b) as [e|] eqn:F.
    + destruct (find_from_some _ _ _ _ F) as (He & Hsk & Hl). rewrite IH by lia.
      rewrite Hsk, (num_tokens_app _ _ Hl). lia.
    + pose proof (find_from_none _ _ _ F) as Hl. rewrite num_tokens_lacks; [lia | | exact Hl].
      rewrite (skipn_at s b Lt). discriminate.
  - apply Nat.ltb_ge in Lt. rewrite skipn_all2 by lia. cbn. lia.
Qed.

Theorem num_tokens_refines h : num_tokens_ix h = num_tokens h.
Proof. unfold num_tokens_ix. rewrite num_tokens_loop_spec by lia. reflexivity. Qed.

(* ================================================================ FromHeader *)
Fixpoint process (cnt : nat) (ms : list bytes) (acc : tstate) : tstate :=
  match ms with
  | [] => acc
  | m :: ms' =>
      if Nat.ltb (length acc) cnt then
        match split_kv m with
        | None => []
        | Some (k, v) =>
            if negb (is_valid_key k) || negb (is_valid_value v) then []
            else process cnt ms' (add_entry cnt acc (k, v))
        end
      else acc
  end.

Lemma from_header_loop_process s cnt :
  forall fuel i acc, length s < fuel + i ->
  from_header_loop fuel s cnt i acc = process cnt (members_from s i) acc.
Proof.
  induction fuel as [|fuel IH]; intros i acc Hf.
  - rewrite members_from_end by lia. reflexivity.
  - cbn [from_header_loop]. pose proof (tokenizer_next_refines s i) as T.
    destruct (tok_next s i) as [[kv i']|].
    + destruct T as (m & -> & -> & Hlt). cbn [process].
      destruct (Nat.ltb (length acc) cnt); [|reflexivity].
      destruct (split_kv m) as [[k v]|]; [|reflexivity].
      destruct (negb (is_valid_key k) || negb (is_valid_value v)); [reflexivity|].
      apply IH. lia.
    + rewrite T. reflexivity.
Qed.

Lemma process_parse cnt ms : forall acc, length acc + length ms <= cnt ->
  process cnt ms acc = match parse_members ms with Some l => acc ++ l | None => [] end.
Proof.
  induction ms as [|m ms IH]; intros acc H.
  - cbn. rewrite app_nil_r. reflexivity.
  - cbn [process parse_members length] in *.
    replace (Nat.ltb (length acc) cnt) with true by (symmetry; apply Nat.ltb_lt; lia).
    destruct (split_kv m) as [[k v]|]; [|reflexivity].
    destruct (is_valid_key k); cbn [negb orb andb]; [|reflexivity].
    destruct (is_valid_value v); cbn [negb]; [|reflexivity].
    unfold add_entry. replace (Nat.ltb (length acc) cnt) with true by (symmetry; apply Nat.ltb_lt; lia).
    rewrite IH by (rewrite app_length; cbn; lia).
    destruct (parse_members ms); [rewrite <- app_assoc|]; reflexivity.
Qed.

Theorem from_header_ix_refines h : from_header_ix h = from_header h.
Proof.
  unfold from_header_ix, from_header. rewrite num_tokens_refines.
  destruct (Nat.ltb kMaxKeyValuePairs (num_tokens h)); [reflexivity|].
  rewrite from_header_loop_process by lia.
  unfold members_from. cbn [Nat.leb skipn]. rewrite process_parse by (pose proof (members_le_num_tokens h); cbn; lia).
  destruct (parse_members (members h)); reflexivity.
Qed.

(* DESIGN name: the tokenizer (next + NumTokens, as FromHeader drives them) = split on ',', trim, drop empties *)
Theorem tokenizer_refines_split h :
  num_tokens_ix h = num_tokens h /\
  (forall i, match tok_next h i with
             | None => members_from h i = []
             | Some (kv, i') => exists m, members_from h i = m :: members_from h i' /\ kv = split_kv m /\ i < i'
             end) /\
  members_from h 0 = members h /\
  from_header_ix h = from_header h.
Proof.
  split; [apply num_tokens_refines|]. split; [apply tokenizer_next_refines|]. split; [reflexivity | apply from_header_ix_refines].
Qed.

(* ================================================================ Set / Delete with a fixed-capacity array *)
Lemma add_entry_fits cap (ts : tstate) e : length ts < cap -> add_entry cap ts e = ts ++ [e].
Proof. intros H. unfold add_entry. apply Nat.ltb_lt in H. rewrite H. reflexivity. Qed.

Lemma copy_others k cap l : forall ts0, length ts0 + length (a_delete k l) <= cap ->
  fold_left (fun ts e => if negb (bytes_eqb k (fst e)) then add_entry cap ts e else ts) l ts0 = ts0 ++ a_delete k l.
Proof.
  induction l as [|e l IH]; intros ts0 H.
  - cbn. rewrite app_nil_r. reflexivity.
  - cbn [fold_left a_delete filter]. unfold key_is at 1. rewrite (bytes_eqb_sym (fst e) k).
    unfold a_delete in H. cbn [filter] in H. unfold key_is at 1 in H. rewrite (bytes_eqb_sym (fst e) k) in H.
    destruct (bytes_eqb k (fst e)); cbn [negb] in *.
    + apply IH. exact H.
    + cbn [length] in H. rewrite add_entry_fits by lia.
      rewrite IH; [rewrite <- app_assoc; reflexivity|].
      rewrite app_length. cbn [length]. unfold a_delete. lia.
Qed.

Theorem set_ix_refines k v l : set_ix k v l = ts_set k v l.
Proof.
  unfold set_ix, ts_set, get_value. fold (has_key k l).
  destruct (is_valid_key k); cbn [negb orb andb]; [|reflexivity].
  destruct (is_valid_value v); cbn [negb]; [|reflexivity].
  rewrite remove_key_a_delete. destruct (has_key k l) eqn:Hk; cbn [negb andb orb].
  - rewrite has_key_a_has in Hk. pose proof (a_delete_length_present k l Hk) as Hd.
    rewrite add_entry_fits by (cbn [length]; lia).
    rewrite copy_others by (cbn [length app]; lia). reflexivity.
  - destruct (Nat.ltb (length l) kMaxKeyValuePairs) eqn:Lt.
    + rewrite add_entry_fits by (cbn [length]; lia).
      rewrite copy_others by (pose proof (a_delete_length k l); cbn [length app]; lia). reflexivity.
    + rewrite copy_others by (pose proof (a_delete_length k l); cbn [length]; lia). reflexivity.
Qed.

Theorem delete_ix_refines k l : delete_ix k l = ts_delete k l.
Proof.
  unfold delete_ix, ts_delete, get_value. destruct (is_valid_key k); cbn [negb]; [|reflexivity].
  rewrite remove_key_a_delete. fold (has_key k l).
  destruct (lookup k l) eqn:Hk.
  - assert (a_has k l = true) as Ha by (rewrite <- has_key_a_has; unfold has_key; rewrite Hk; reflexivity).
    pose proof (a_delete_length_present k l Ha). rewrite copy_others by (cbn [length]; lia). reflexivity.
  - rewrite copy_others by (pose proof (a_delete_length k l); cbn [length]; lia). reflexivity.
Qed.

Theorem get_ix_refines k l : get_ix k l = ts_get k l.
Proof. unfold get_ix, ts_get, get_value. destruct (is_valid_key k); reflexivity. Qed.

Theorem empty_ix_refines l : empty_ix l = is_nil l.
Proof. destruct l; reflexivity. Qed.

(* ================================================================ ToHeader with its `first` flag *)
Lemma to_header_fold_rest l : forall hs,
  fold_left (fun (st : bool * bytes) (e : entry) =>
               let '(first, hs) := st in (false, (if first then hs else hs ++ [comma]) ++ fst e ++ [equals] ++ snd e))
            l (false, hs) = (false, hs ++ flat_map (fun e => comma :: mem e) l).
Proof.
  induction l as [|e l IH]; intros hs.
  - cbn. rewrite app_nil_r. reflexivity.
  - cbn [fold_left flat_map]. rewrite IH. f_equal. unfold mem. cbn [app]. rewrite <- !app_assoc. cbn [app]. rewrite <- ?app_assoc. reflexivity.
Qed.

Lemma join_on_flat l e : join_on comma (map mem (e :: l)) = mem e ++ flat_map (fun e => comma :: mem e) l.
Proof.
  revert e. induction l as [|e' l IH]; intros e.
  - reflexivity.
  - change (join_on comma (map mem (e :: e' :: l))) with (mem e ++ comma :: join_on comma (map mem (e' :: l))).
    rewrite IH. reflexivity.
Qed.

Theorem to_header_ix_refines l : to_header_ix l = to_header l.
Proof.
  rewrite to_header_join. unfold to_header_ix. destruct l as [|e l]; [reflexivity|].
  cbn [fold_left]. rewrite to_header_fold_rest. cbn [snd]. rewrite join_on_flat. reflexivity.
Qed.
