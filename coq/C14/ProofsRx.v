(* What the bounded-repetition matcher of Base/Rx.v accepts (for every pattern), and from it:
   the three regular expressions of trace_state.h (as translated into Gen/Consts.v on this run)
   accept exactly the W3C key / value grammar of C14/Spec.v -- for every byte string. *)
From V Require Import C14.Spec C14.ProofsBase.
From Coq Require Import Lia Arith.
Require Import ZifyBool ZifyNat ZifyN.

Section Rep.
  Variable rest : bytes -> bool.
  Variable cls : ranges.

  Lemma rx_opt_iff n s :
    rx_opt rest cls n s = true <->
    exists pre post, s = pre ++ post /\ length pre <= n /\ forallb (in_ranges cls) pre = true /\ rest post = true.
  Proof.
    revert s. induction n as [|n IH]; intros s.
    - cbn [rx_opt]. split.
      + intros H. apply orb_true_iff in H. destruct H as [H|H].
        * exists [], s. cbn. repeat split; [lia | exact H].
        * destruct s; discriminate.
      + intros (pre & post & -> & Hl & _ & Hr). destruct pre; [|cbn in Hl; lia]. cbn. rewrite Hr. reflexivity.
    - cbn [rx_opt]. split.
      + intros H. apply orb_true_iff in H. destruct H as [H|H].
        * exists [], s. cbn. repeat split; [lia | exact H].
        * destruct s as [|b s]; [discriminate|]. apply andb_true_iff in H. destruct H as [Hb H].
          apply IH in H. destruct H as (pre & post & -> & Hl & Hc & Hr).
          exists (b :: pre), post. cbn. rewrite Hb, Hc. repeat split; [lia | exact Hr].
      + intros (pre & post & -> & Hl & Hc & Hr). destruct pre as [|b pre].
        * cbn [app]. rewrite Hr. reflexivity.
        * cbn [app]. cbn in Hc. apply andb_true_iff in Hc. destruct Hc as [Hb Hc]. rewrite Hb. cbn [andb].
          apply orb_true_iff. right. apply IH. exists pre, post. cbn in Hl. repeat split; [lia | exact Hc | exact Hr].
  Qed.

  Lemma rx_req_iff lo n s :
    rx_req rest cls lo n s = true <->
    exists pre post, s = pre ++ post /\ lo <= length pre <= lo + n /\ forallb (in_ranges cls) pre = true /\ rest post = true.
  Proof.
    revert s. induction lo as [|lo IH]; intros s.
    - cbn [rx_req]. rewrite rx_opt_iff. split; intros (pre & post & H1 & H2 & H3 & H4); exists pre, post; repeat split; try assumption; lia.
    - cbn [rx_req]. split.
      + intros H. destruct s as [|b s]; [discriminate|]. apply andb_true_iff in H. destruct H as [Hb H].
        apply IH in H. destruct H as (pre & post & -> & Hl & Hc & Hr).
        exists (b :: pre), post. cbn. rewrite Hb, Hc. repeat split; [lia | lia | exact Hr].
      + intros (pre & post & -> & Hl & Hc & Hr). destruct pre as [|b pre]; [cbn in Hl; lia|].
        cbn [app]. cbn in Hc. apply andb_true_iff in Hc. destruct Hc as [Hb Hc]. rewrite Hb. cbn [andb].
        apply IH. exists pre, post. cbn in Hl. repeat split; [lia | lia | exact Hc | exact Hr].
  Qed.
End Rep.

(* the language of a pattern, as a proposition *)
Fixpoint rx_sem (p : list item) (s : bytes) : Prop :=
  match p with
  | [] => s = []
  | it :: p' =>
      exists pre post, s = pre ++ post /\ it_lo it <= length pre <= it_lo it + (it_hi it - it_lo it) /\
                       forallb (in_ranges (it_cls it)) pre = true /\ rx_sem p' post
  end.

Lemma rx_sem_cons it p s :
  rx_sem (it :: p) s =
  exists pre post, s = pre ++ post /\ it_lo it <= length pre <= it_lo it + (it_hi it - it_lo it) /\
                   forallb (in_ranges (it_cls it)) pre = true /\ rx_sem p post.
Proof. reflexivity. Qed.

Lemma rx_match_iff p s : rx_match p s = true <-> rx_sem p s.
Proof.
  revert s. induction p as [|it p IH]; intros s.
  - cbn. destruct s; split; congruence.
  - cbn [rx_match rx_sem]. rewrite rx_req_iff. split; intros (pre & post & H1 & H2 & H3 & H4); exists pre, post;
      repeat split; try assumption; try lia; apply IH; exact H4.
Qed.

(* ------------------------------------------------------------ the character classes, by a sweep over all 256 bytes *)
Definition cls_key_first : ranges := [(97, 122); (48, 57)]%N.
Definition cls_key_rest : ranges := [(97, 122); (48, 57); (42, 42); (95, 95); (45, 45); (47, 47)]%N.
Definition cls_at : ranges := [(64, 64)]%N.
Definition cls_val : ranges := [(32, 43); (45, 60); (62, 126)]%N.
Definition cls_val_last : ranges := [(33, 43); (45, 60); (62, 126)]%N.

Lemma cls_key_first_ok b : in_ranges cls_key_first b = is_lcalpha_or_digit b.
Proof. destruct b; vm_compute; reflexivity. Qed.
Lemma cls_key_rest_ok b : in_ranges cls_key_rest b = is_key_char b.
Proof. destruct b; vm_compute; reflexivity. Qed.
Lemma cls_at_ok b : in_ranges cls_at b = Byte.eqb b at_sign.
Proof. destruct b; vm_compute; reflexivity. Qed.
Lemma cls_val_ok b : in_ranges cls_val b = is_value_char b.
Proof. destruct b; vm_compute; reflexivity. Qed.
Lemma cls_val_last_ok b : in_ranges cls_val_last b = is_value_char b && negb (Byte.eqb b space).
Proof. destruct b; vm_compute; reflexivity. Qed.
Lemma first_is_key_char b : is_lcalpha_or_digit b = true -> is_key_char b = true.
Proof. unfold is_key_char. intros ->. reflexivity. Qed.
Lemma key_char_not_at : is_key_char at_sign = false.
Proof. reflexivity. Qed.
Lemma key_char_not_comma : is_key_char comma = false.
Proof. reflexivity. Qed.
Lemma key_char_not_equals : is_key_char equals = false.
Proof. reflexivity. Qed.
Lemma key_char_not_space b : is_key_char b = true -> isspace b = false.
Proof. destruct b; vm_compute; congruence. Qed.
Lemma at_not_comma_equals : Byte.eqb at_sign comma = false /\ Byte.eqb at_sign equals = false.
Proof. split; reflexivity. Qed.
Lemma value_char_not_comma : is_value_char comma = false.
Proof. reflexivity. Qed.
Lemma value_char_not_equals : is_value_char equals = false.
Proof. reflexivity. Qed.
Lemma value_char_space b : is_value_char b = true -> isspace b = Byte.eqb b space.
Proof. destruct b; vm_compute; congruence. Qed.

Lemma forallb_ext_eq {A} (f g : A -> bool) l : (forall x, f x = g x) -> forallb f l = forallb g l.
Proof. intros H. induction l as [|x l IH]; [reflexivity|]. cbn. rewrite H, IH. reflexivity. Qed.

(* ------------------------------------------------------------ an identifier of the key grammar *)
Lemma ident_iff m x :
  ident m x = true <->
  exists b r, x = b :: r /\ is_lcalpha_or_digit b = true /\ forallb is_key_char r = true /\ S (length r) <= m.
Proof.
  unfold ident. destruct x as [|b r].
  - split; [discriminate | intros (b & r & H & _); discriminate].
  - rewrite !andb_true_iff, Nat.leb_le. cbn [length]. split.
    + intros [[H1 H2] H3]. exists b, r. repeat split; assumption.
    + intros (b' & r' & [= -> ->] & H1 & H2 & H3). repeat split; assumption.
Qed.

Lemma ident_chars m x : ident m x = true -> forallb is_key_char x = true.
Proof.
  intros H. apply ident_iff in H. destruct H as (b & r & -> & H1 & H2 & _).
  cbn. rewrite (first_is_key_char b H1), H2. reflexivity.
Qed.

(* a pattern  [first]{1,1} [rest]{0,n} <tail>  *)
Lemma sem_ident_prefix n tail s :
  rx_sem (mk_item cls_key_first 1 1 :: mk_item cls_key_rest 0 n :: tail) s <->
  exists x post, s = x ++ post /\ ident (S n) x = true /\ rx_sem tail post.
Proof.
  cbn [rx_sem it_lo it_hi it_cls]. split.
  - intros (p1 & q1 & -> & L1 & C1 & p2 & q2 & -> & L2 & C2 & T).
    exists (p1 ++ p2), q2. rewrite app_assoc. split; [reflexivity|]. split; [|exact T].
    destruct p1 as [|b [|b' p1]]; cbn in L1; try lia. cbn [app]. apply ident_iff. exists b, p2.
    cbn [forallb] in C1. rewrite andb_true_r, cls_key_first_ok in C1. rewrite (forallb_ext_eq _ _ _ cls_key_rest_ok) in C2.
    repeat split; try assumption. lia.
  - intros (x & post & -> & I & T). apply ident_iff in I. destruct I as (b & r & -> & H1 & H2 & H3).
    exists [b], (r ++ post). split; [reflexivity|]. split; [cbn; lia|]. split; [cbn [forallb]; rewrite cls_key_first_ok, H1; reflexivity|].
    exists r, post. split; [reflexivity|]. split; [lia|]. split; [|exact T].
    rewrite (forallb_ext_eq _ _ _ cls_key_rest_ok). exact H2.
Qed.

(* ------------------------------------------------------------ keys *)
Lemma reg_key_shape : reg_key = [mk_item cls_key_first 1 1; mk_item cls_key_rest 0 255].
Proof. reflexivity. Qed.
Lemma reg_key_multitenant_shape :
  reg_key_multitenant = [mk_item cls_key_first 1 1; mk_item cls_key_rest 0 240; mk_item cls_at 1 1;
                         mk_item cls_key_first 1 1; mk_item cls_key_rest 0 13].
Proof. reflexivity. Qed.
Lemma reg_value_shape : reg_value = [mk_item cls_val 0 255; mk_item cls_val_last 1 1].
Proof. reflexivity. Qed.

Lemma simple_key_iff k : rx_match reg_key k = true <-> ident 256 k = true.
Proof.
  rewrite rx_match_iff, reg_key_shape, sem_ident_prefix. cbn [rx_sem]. split.
  - intros (x & post & -> & I & ->). rewrite app_nil_r. exact I.
  - intros I. exists k, []. rewrite app_nil_r. repeat split. exact I.
Qed.

Lemma tenant_key_iff k :
  rx_match reg_key_multitenant k = true <->
  exists i, index_of at_sign k = Some i /\ ident 241 (firstn i k) = true /\ ident 14 (skipn (S i) k) = true.
Proof.
  rewrite rx_match_iff, reg_key_multitenant_shape, sem_ident_prefix. split.
  - intros (x & post & -> & I & T). rewrite rx_sem_cons in T. cbn [it_lo it_hi it_cls] in T.
    destruct T as (pa & qa & -> & La & Ca & T).
    apply (proj1 (sem_ident_prefix _ _ _)) in T. destruct T as (y & post & -> & J & ->). rewrite app_nil_r.
    destruct pa as [|a [|a' pa]]; cbn in La; try lia. cbn [forallb] in Ca. rewrite andb_true_r, cls_at_ok in Ca.
    apply byte_eqb_eq in Ca. subst a. cbn [app].
    assert (Lx : lacks at_sign x = true) by (apply (lacks_of_forallb is_key_char); [reflexivity | apply (ident_chars _ _ I)]).
    exists (length x). split; [apply index_of_app; exact Lx|].
    rewrite firstn_app, Nat.sub_diag, firstn_all. cbn [firstn]. rewrite app_nil_r. split; [exact I|].
    replace (S (length x)) with (length (x ++ [at_sign])) by (rewrite app_length; cbn; lia).
    replace (x ++ at_sign :: y) with ((x ++ [at_sign]) ++ y) by (rewrite <- app_assoc; reflexivity).
    rewrite skipn_app, Nat.sub_diag, skipn_all. cbn. exact J.
  - intros (i & Hi & I & J). apply index_of_some in Hi. destruct Hi as (Hk & _ & _).
    exists (firstn i k), (at_sign :: skipn (S i) k). split; [exact Hk|]. split; [exact I|].
    rewrite rx_sem_cons. cbn [it_lo it_hi it_cls]. exists [at_sign], (skipn (S i) k). split; [reflexivity|]. split; [cbn; lia|].
    split; [reflexivity|].
    apply sem_ident_prefix. exists (skipn (S i) k), []. rewrite app_nil_r. repeat split. exact J.
Qed.

(* IsValidKey = the W3C key grammar, for every byte string *)
Theorem valid_key_iff_grammar k : is_valid_key k = g_valid_key k.
Proof.
  unfold is_valid_key, g_valid_key. apply eq_true_iff_eq. rewrite !orb_true_iff, simple_key_iff, tenant_key_iff.
  split; (intros [H|H]; [left; exact H | right]).
  - destruct H as (i & -> & I & J). rewrite I, J. reflexivity.
  - destruct (index_of at_sign k) as [i|]; [|discriminate]. apply andb_true_iff in H. destruct H as [I J].
    exists i. repeat split; assumption.
Qed.

(* ------------------------------------------------------------ values *)
Lemma removelast_app_last {A} (l : list A) d : l <> [] -> l = removelast l ++ [last l d].
Proof. intros H. apply app_removelast_last. exact H. Qed.

Lemma forallb_removelast_last {A} (p : A -> bool) l d :
  l <> [] -> forallb p l = forallb p (removelast l) && p (last l d).
Proof.
  intros H. rewrite (removelast_app_last l d H) at 1. rewrite forallb_app. cbn. rewrite andb_true_r. reflexivity.
Qed.

Theorem valid_value_iff_grammar v : is_valid_value v = g_valid_value v.
Proof.
  unfold is_valid_value, g_valid_value. apply eq_true_iff_eq. rewrite rx_match_iff, reg_value_shape.
  cbn [rx_sem it_lo it_hi it_cls]. rewrite !andb_true_iff, negb_true_iff, Nat.leb_le. split.
  - intros (p1 & q1 & -> & L1 & C1 & p2 & q2 & -> & L2 & C2 & ->). rewrite app_nil_r.
    destruct p2 as [|b [|b' p2]]; cbn in L2; try lia. cbn [forallb] in C2. rewrite andb_true_r, cls_val_last_ok in C2.
    apply andb_true_iff in C2. destruct C2 as [Cb Cs]. rewrite (forallb_ext_eq _ _ _ cls_val_ok) in C1.
    rewrite app_length, forallb_app, last_app_ne by discriminate. cbn. rewrite C1, Cb.
    apply negb_true_iff in Cs. rewrite Cs. repeat split; try lia. destruct p1; reflexivity.
  - intros [[[Hn Hl] Hc] Hs]. apply is_nil_false in Hn.
    exists (removelast v), [last v space]. split; [apply removelast_app_last; exact Hn|].
    rewrite (forallb_removelast_last _ _ space Hn) in Hc. apply andb_true_iff in Hc. destruct Hc as [C1 C2].
    assert (length v = S (length (removelast v))) as Len.
    { rewrite (removelast_app_last v space Hn) at 1. rewrite app_length. cbn. lia. }
    split; [lia|]. split; [rewrite (forallb_ext_eq _ _ _ cls_val_ok); exact C1|].
    exists [last v space], []. split; [reflexivity|]. split; [cbn; lia|]. split; [|reflexivity].
    cbn [forallb]. rewrite cls_val_last_ok, C2, Hs. reflexivity.
Qed.

(* ------------------------------------------------------------ consequences used by the other proofs *)
Lemma forallb_weaken {A} (p q : A -> bool) l : (forall x, p x = true -> q x = true) -> forallb p l = true -> forallb q l = true.
Proof.
  intros H. induction l as [|x l IH]; [reflexivity|]. cbn. intros E. apply andb_true_iff in E. destruct E as [E1 E2].
  rewrite (H x E1), (IH E2). reflexivity.
Qed.

Definition is_key_byte (b : byte) : bool := is_key_char b || Byte.eqb b at_sign.

Lemma g_valid_key_facts k :
  g_valid_key k = true -> k <> [] /\ forallb is_key_byte k = true /\ is_lcalpha_or_digit (hd x00 k) = true.
Proof.
  unfold g_valid_key. intros H. apply orb_true_iff in H. destruct H as [H|H].
  - pose proof (ident_chars _ _ H) as C. apply ident_iff in H. destruct H as (b & r & -> & H1 & _).
    split; [discriminate|]. split; [|exact H1].
    revert C. apply forallb_weaken. intros x Hx. unfold is_key_byte. rewrite Hx. reflexivity.
  - destruct (index_of at_sign k) as [i|] eqn:Ei; [|discriminate]. apply andb_true_iff in H. destruct H as [I J].
    apply index_of_some in Ei. destruct Ei as (Hk & _ & _).
    pose proof (ident_chars _ _ I) as CI. pose proof (ident_chars _ _ J) as CJ.
    apply ident_iff in I. destruct I as (b & r & Hf & H1 & _).
    rewrite Hk, Hf. split; [discriminate|]. split; [|exact H1].
    rewrite <- Hf, forallb_app. cbn [forallb]. apply andb_true_iff. split; [|apply andb_true_iff; split].
    + revert CI. apply forallb_weaken. intros x Hx. unfold is_key_byte. rewrite Hx. reflexivity.
    + reflexivity.
    + revert CJ. apply forallb_weaken. intros x Hx. unfold is_key_byte. rewrite Hx. reflexivity.
Qed.

Lemma key_byte_props b : is_key_byte b = true -> Byte.eqb b comma = false /\ Byte.eqb b equals = false /\ isspace b = false.
Proof. destruct b; vm_compute; intros H; repeat split; congruence. Qed.
Lemma first_not_space b : is_lcalpha_or_digit b = true -> isspace b = false.
Proof. destruct b; vm_compute; congruence. Qed.

Lemma g_valid_value_facts v :
  g_valid_value v = true -> v <> [] /\ forallb is_value_char v = true /\ isspace (last v x00) = false.
Proof.
  unfold g_valid_value. rewrite !andb_true_iff, negb_true_iff. intros [[[Hn _] Hc] Hs].
  apply is_nil_false in Hn. split; [exact Hn|]. split; [exact Hc|].
  rewrite (last_default_irrel v x00 space Hn).
  rewrite (forallb_removelast_last _ _ space Hn) in Hc. apply andb_true_iff in Hc. destruct Hc as [_ C2].
  rewrite (value_char_space _ C2). apply negb_true_iff. exact Hs.
Qed.

Lemma value_char_props b : is_value_char b = true -> Byte.eqb b comma = false /\ Byte.eqb b equals = false.
Proof. destruct b; vm_compute; intros H; split; congruence. Qed.
