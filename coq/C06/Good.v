(* Which scripts the C06 driver can execute (well-formed) and which the positive theorems are about (good).
   Definitions only; part of the extracted glue. *)
From V Require Export C06.Spec.
Local Open Scope Z_scope.

(* ------------------------------------------------------------------------------------------------ well-formed scripts *)
(* what the driver can execute and both sides print canonically: readers 1..8, meters 1..4, every operation refers to
   an existing meter / handle / reader, every value fits the Add it is given to, and no two configured streams of one
   meter carry the same name (they could not be told apart in a reader's MetricData) *)
(* instrument, view and stream names are kept inside [a-z][a-z0-9]{0,62}: valid instrument names (validation is C19's
   subject) that are also literal regular expressions *)
Definition name_ok (s : bytes) : bool :=
  match s with
  | b :: r => islower b && forallb (fun x => islower x || isdigit x) r && Nat.leb (length s) 63
  | [] => false
  end.

Fixpoint ops_wf (c : config) (hs : list ikind) (l : list op) : bool :=
  match l with
  | [] => true
  | ONew m k name :: l' => Nat.ltb m (c_meters c) && name_ok name && ops_wf c (hs ++ [k]) l'
  | OAdd h v _ :: l' => match nth_error hs h with Some k => value_ok k v | None => false end && ops_wf c hs l'
  | OCol r :: l' => Nat.ltb r (nreaders c) && ops_wf c hs l'
  end.

Fixpoint distinct_names (l : list (nat * bytes)) : bool :=
  match l with
  | [] => true
  | (m, n) :: l' => negb (existsb (fun x => Nat.eqb m (fst x) && bytes_eqb n (snd x)) l') && distinct_names l'
  end.

Definition config_wf (c : config) : bool :=
  Nat.leb 1 (nreaders c) && Nat.leb (nreaders c) 8 && Nat.leb 1 (c_meters c) && Nat.leb (c_meters c) 4 &&
  forallb (fun v => match v_meter v with Some m => Nat.ltb m (c_meters c) | None => true end &&
                   match v_pat v with Some p => name_ok p | None => true end &&
                   (is_nil (v_name v) || name_ok (v_name v))) (c_views c).

(* a name is registered with one instrument kind per meter (a conflicting re-registration is not "the same instrument") *)
Fixpoint kinds_consistent (l : list (Z * nat * ikind * bytes)) : bool :=
  match l with
  | [] => true
  | (_, m, k, name) :: l' =>
      forallb (fun x => let '(_, m', k', n') := x in negb (Nat.eqb m m' && bytes_eqb name n') || kind_eqb k k') l' &&
      kinds_consistent l'
  end.

Definition case_wf (c : config) (ops : list op) : bool :=
  config_wf c && ops_wf c [] ops && kinds_consistent (news (timed ops)) &&
  distinct_names (map (fun s => (ss_meter s, ss_name s)) (streams c (timed ops))).

(* the cases the positive theorems are about: additionally no instrument is created twice, at most one view applies to
   an instrument, and no stream sees kAggregationCardinalityLimit - 1 or more attribute sets *)
Fixpoint count_keys (seen : list akey) (l : list op) : nat :=
  match l with
  | [] => length seen
  | OAdd _ _ a :: l' => if existsb (akey_eqb (canon a)) seen then count_keys seen l' else count_keys (canon a :: seen) l'
  | _ :: l' => count_keys seen l'
  end.
Definition same_h (m : nat) (name : bytes) (x : nat * ikind * bytes) : bool :=
  Nat.eqb m (fst (fst x)) && bytes_eqb name (snd x).
Fixpoint ops_good (c : config) (seen : list (nat * ikind * bytes)) (l : list op) : bool :=
  match l with
  | [] => true
  | ONew m k name :: l' =>
      Nat.eqb (length (find_views (c_views c) m k name)) 1 && negb (existsb (same_h m name) seen) &&
      ops_good c (seen ++ [(m, k, name)]) l'
  | _ :: l' => ops_good c seen l'
  end.
