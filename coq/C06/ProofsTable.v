(* C06 proofs, part 1: the per-interval table (AttributesHashMap restricted to sums) and Sum Merge.
   [hsum k l] is the sum of the entries of key k of any list of (key, value) pairs - a table or a list of measurements -
   or None when there is none; everything about tables is said through it. *)
From V Require Import C06.Model.
From Coq Require Import Lia ZifyBool.
Local Open Scope Z_scope.

(* Sum aggregation: Merge is addition, so it is associative and commutative with the fresh aggregation (0) as unit *)
Definition sum_merge (a b : Z) : Z := a + b.
Lemma sum_merge_assoc : forall a b c, sum_merge a (sum_merge b c) = sum_merge (sum_merge a b) c.
Proof. unfold sum_merge; intros; lia. Qed.
Lemma sum_merge_comm : forall a b, sum_merge a b = sum_merge b a.
Proof. unfold sum_merge; intros; lia. Qed.
Lemma sum_merge_unit : forall a, sum_merge a 0 = a /\ sum_merge 0 a = a.
Proof. unfold sum_merge; intros; lia. Qed.

Definition oplus (a b : option Z) : option Z :=
  match a, b with
  | None, x => x
  | x, None => x
  | Some x, Some y => Some (x + y)
  end.
Lemma oplus_assoc : forall a b c, oplus a (oplus b c) = oplus (oplus a b) c.
Proof. intros [a|] [b|] [c|]; cbn; try reflexivity; f_equal; lia. Qed.
Lemma oplus_comm : forall a b, oplus a b = oplus b a.
Proof. intros [a|] [b|]; cbn; try reflexivity; f_equal; lia. Qed.
Lemma oplus_none_r : forall a, oplus a None = a.
Proof. intros [a|]; reflexivity. Qed.
Lemma oplus_none_l : forall a, oplus None a = a.
Proof. reflexivity. Qed.
Lemma oplus_is_none : forall a b, oplus a b = None <-> a = None /\ b = None.
Proof. intros [a|] [b|]; cbn; split; intros H; try discriminate; try (destruct H; discriminate); auto. Qed.

Definition oz (a : option Z) : Z := match a with Some x => x | None => 0 end.
Lemma oz_oplus : forall a b, oz (oplus a b) = oz a + oz b.
Proof. intros [a|] [b|]; cbn; lia. Qed.

Section Table.
  Variable K : Type.
  Variable keqb : K -> K -> bool.
  Hypothesis keqb_ok : forall a b, keqb a b = true <-> a = b.

  Notation table := (table K).
  Notation tget := (tget K keqb).
  Notation tadd := (tadd K keqb).
  Notation tmerge := (tmerge K keqb).

  Lemma keqb_refl : forall a, keqb a a = true.
  Proof. intros; apply keqb_ok; reflexivity. Qed.
  Lemma keqb_sym : forall a b, keqb a b = keqb b a.
  Proof.
    intros a b. destruct (keqb a b) eqn:E.
    - apply keqb_ok in E; subst. symmetry; apply keqb_refl.
    - destruct (keqb b a) eqn:E'; auto. apply keqb_ok in E'; subst. rewrite keqb_refl in E; discriminate.
  Qed.

  Definition hit (k k' : K) (v : Z) : option Z := if keqb k k' then Some v else None.

  Fixpoint hsum (k : K) (l : list (K * Z)) : option Z :=
    match l with
    | [] => None
    | (k', v) :: l' => oplus (hit k k' v) (hsum k l')
    end.

  Lemma hsum_app : forall k a b, hsum k (a ++ b) = oplus (hsum k a) (hsum k b).
  Proof.
    induction a as [|[k' v] a IH]; intros; cbn; auto. rewrite IH, oplus_assoc; reflexivity.
  Qed.

  Lemma hsum_nil_all : forall l, (forall k, hsum k l = None) -> l = [].
  Proof.
    intros [|[k v] l] H; auto. specialize (H k). cbn in H. unfold hit in H. rewrite keqb_refl in H.
    destruct (hsum k l); discriminate.
  Qed.

  (* tables keep one entry per key *)
  Fixpoint twf (t : table) : Prop :=
    match t with
    | [] => True
    | (k, _) :: t' => tget k t' = None /\ twf t'
    end.

  Lemma tget_tadd : forall t k k' v,
      tget k' (tadd k v t) = if keqb k' k then Some (oz (tget k t) + v) else tget k' t.
  Proof.
    induction t as [|[k0 x] t IH]; intros; cbn.
    - destruct (keqb k' k); reflexivity.
    - destruct (keqb k k0) eqn:E; cbn.
      + apply keqb_ok in E; subst k0. destruct (keqb k' k); reflexivity.
      + rewrite IH. destruct (keqb k' k0) eqn:E2.
        * destruct (keqb k' k) eqn:E3; auto.
          apply keqb_ok in E2, E3; subst. rewrite keqb_refl in E; discriminate.
        * reflexivity.
  Qed.

  Lemma twf_tadd : forall t k v, twf t -> twf (tadd k v t).
  Proof.
    induction t as [|[k0 x] t IH]; intros k v H; cbn; auto.
    destruct H as [H1 H2]. destruct (keqb k k0) eqn:E; cbn; auto.
    split; auto. rewrite tget_tadd. rewrite keqb_sym, E. exact H1.
  Qed.

  Lemma twf_tget_hsum : forall t k, twf t -> tget k t = hsum k t.
  Proof.
    induction t as [|[k0 x] t IH]; intros k H; cbn; auto. destruct H as [H1 H2]. unfold hit.
    destruct (keqb k k0) eqn:E.
    - apply keqb_ok in E; subst. rewrite <- IH, H1 by auto. reflexivity.
    - cbn. apply IH; auto.
  Qed.

  Lemma hsum_tadd : forall t k k' v, hsum k' (tadd k v t) = oplus (hsum k' t) (hit k' k v).
  Proof.
    induction t as [|[k0 x] t IH]; intros; cbn.
    - rewrite oplus_none_r; reflexivity.
    - destruct (keqb k k0) eqn:E; cbn.
      + apply keqb_ok in E; subst k0. unfold hit. destruct (keqb k' k); cbn.
        * destruct (hsum k' t); cbn; f_equal; lia.
        * rewrite oplus_none_r; reflexivity.
      + rewrite IH, oplus_assoc. reflexivity.
  Qed.

  Lemma twf_tmerge : forall b a, twf a -> twf (tmerge a b).
  Proof.
    unfold Model.tmerge. induction b as [|[k v] b IH]; intros a H; cbn; auto. apply IH, twf_tadd, H.
  Qed.

  Lemma hsum_tmerge : forall b a k, hsum k (tmerge a b) = oplus (hsum k a) (hsum k b).
  Proof.
    unfold Model.tmerge. induction b as [|[k0 v] b IH]; intros a k; cbn.
    - rewrite oplus_none_r; reflexivity.
    - rewrite IH, hsum_tadd, oplus_assoc. reflexivity.
  Qed.

  (* merging a stash of tables *)
  Lemma twf_fold_tmerge : forall l a, twf a -> twf (fold_left tmerge l a).
  Proof. induction l as [|t l IH]; intros a H; cbn; auto. apply IH, twf_tmerge, H. Qed.

  Lemma hsum_fold_tmerge : forall l a k, hsum k (fold_left tmerge l a) = oplus (hsum k a) (hsum k (concat l)).
  Proof.
    induction l as [|t l IH]; intros a k; cbn.
    - rewrite oplus_none_r; reflexivity.
    - rewrite IH, hsum_tmerge, hsum_app, oplus_assoc. reflexivity.
  Qed.

  (* Merge of tables is associative and commutative up to the order of the entries, with the empty table as unit *)
  Lemma tmerge_assoc_equiv : forall a b c k, hsum k (tmerge a (tmerge b c)) = hsum k (tmerge (tmerge a b) c).
  Proof. intros. rewrite !hsum_tmerge, oplus_assoc. reflexivity. Qed.
  Lemma tmerge_comm_equiv : forall a b k, hsum k (tmerge a b) = hsum k (tmerge b a).
  Proof. intros. rewrite !hsum_tmerge, oplus_comm. reflexivity. Qed.
  Lemma tmerge_unit : forall a, tmerge a [] = a /\ forall k, hsum k (tmerge [] a) = hsum k a.
  Proof. intros; split; [reflexivity | intros; rewrite hsum_tmerge; reflexivity]. Qed.

  Lemma is_nil_spec : forall (A : Type) (l : list A), is_nil l = true <-> l = [].
  Proof. intros A [|x l]; cbn; split; intros H; auto; discriminate. Qed.
End Table.
