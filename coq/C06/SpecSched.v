(* SPEC for C06 on executions in which recorder threads race collector threads (engine E-sched).
   The observation is the trace of the run: the calls and returns of every Add and every Collect in the order in which the
   (one at a time) running threads produced them, each Collect return with the MetricData the reader was given.  Nothing
   is assumed about how Adds and Collects that overlap are ordered.  For a reader's collection C, an attribute set and a
   stream, with
       L = the sum of the measurements whose Add had RETURNED before C was called,
       U = the sum of the measurements whose Add had been CALLED before C returned,
   (measurements are non-negative in these cases) the property requires
     - delta:      L <= (sum of the points the reader has received up to and including C) <= U
                   - no measurement is lost, none is reported twice or before it was made; every measurement ends up in
                     exactly one of the reader's intervals;
     - cumulative: L <= (the point of C) <= U;
   at a quiescent collection (the final ones) L = U = everything recorded, so the sums are exact.  Intervals: a delta
   MetricData starts where the reader's previous one of that stream ended (SDK start if none), a cumulative one at SDK
   start, and every MetricData ends at a clock value read during its Collect. *)
From V Require Export C06.Spec.
Local Open Scope Z_scope.

Inductive tev :=
| EAC (t i : nat)                                        (* thread t calls its i-th operation, an Add *)
| EAR (t i : nat)                                        (* ... it has returned *)
| ECC (t i : nat)                                        (* thread t calls its i-th operation, a Collect *)
| ECR (t i r : nat) (tb ta : Z) (outs : list sdata).     (* ... it has returned: reader, clock before/after, what it was given *)

(* the measurement made by operation i of thread t: (meter, instrument name, attribute set, value) *)
Definition add_of (hs : list (Z * nat * ikind * bytes)) (ths : list (list op)) (t i : nat) : option meas :=
  match nth_error (nth t ths []) i with
  | Some (OAdd h v attrs) =>
      match nth_error hs h with
      | Some (_, m, k, name) => Some (mkMeas 0 m name (canon attrs) (spec_value k v))
      | None => None
      end
  | _ => None
  end.

Definition meas_val (x : option meas) (m : nat) (name : bytes) (key : akey) : Z :=
  match x with
  | Some a => if same_instr m name a && akey_eqb key (ms_key a) then ms_val a else 0
  | None => 0
  end.

(* sum of the measurements (of one instrument and attribute set) whose Add returned / was called within a trace prefix *)
Fixpoint sum_returned (hs : list (Z * nat * ikind * bytes)) (ths : list (list op)) (m : nat) (name : bytes) (key : akey) (tr : list tev) : Z :=
  match tr with
  | [] => 0
  | EAR t i :: tr' => meas_val (add_of hs ths t i) m name key + sum_returned hs ths m name key tr'
  | _ :: tr' => sum_returned hs ths m name key tr'
  end.
Fixpoint sum_called (hs : list (Z * nat * ikind * bytes)) (ths : list (list op)) (m : nat) (name : bytes) (key : akey) (tr : list tev) : Z :=
  match tr with
  | [] => 0
  | EAC t i :: tr' => meas_val (add_of hs ths t i) m name key + sum_called hs ths m name key tr'
  | _ :: tr' => sum_called hs ths m name key tr'
  end.

Definition stream_md (outs : list sdata) (m : nat) (name : bytes) : option amdata :=
  match filter (is_stream m name) outs with o :: _ => Some (o_md o) | [] => None end.
Definition opoint (md : option amdata) (key : akey) : Z := match md with Some d => point d key | None => 0 end.

(* what reader r received for a stream and attribute set within a trace prefix; the end of its last MetricData there *)
Fixpoint received (r m : nat) (name : bytes) (key : akey) (tr : list tev) : Z :=
  match tr with
  | [] => 0
  | ECR _ _ r' _ _ outs :: tr' =>
      (if Nat.eqb r r' then opoint (stream_md outs m name) key else 0) + received r m name key tr'
  | _ :: tr' => received r m name key tr'
  end.
Fixpoint last_end_in (r m : nat) (name : bytes) (dflt : Z) (tr : list tev) : Z :=
  match tr with
  | [] => dflt
  | ECR _ _ r' _ _ outs :: tr' =>
      last_end_in r m name
        (if Nat.eqb r r' then match stream_md outs m name with Some d => md_end d | None => dflt end else dflt) tr'
  | _ :: tr' => last_end_in r m name dflt tr'
  end.

(* the trace before the call of operation (t, i), if that call is in the trace *)
Fixpoint before_call (t i : nat) (pre tr : list tev) : option (list tev) :=
  match tr with
  | [] => None
  | ECC t' i' :: tr' => if Nat.eqb t t' && Nat.eqb i i' then Some (rev pre) else before_call t i (ECC t' i' :: pre) tr'
  | e :: tr' => before_call t i (e :: pre) tr'
  end.

Definition all_keys (hs : list (Z * nat * ikind * bytes)) (ths : list (list op)) (m : nat) (name : bytes) : list akey :=
  flat_map (fun th => flat_map (fun o => match o with
                                         | OAdd h _ attrs =>
                                             match nth_error hs h with
                                             | Some (_, m', _, n') => if Nat.eqb m m' && bytes_eqb name n' then [canon attrs] else []
                                             | None => []
                                             end
                                         | _ => []
                                         end) th) ths.

(* one returned Collect: [pre] is the trace before its return, [callpre] the trace before its call *)
Definition sched_stream (c : config) (hs : list (Z * nat * ikind * bytes)) (ths : list (list op)) (sdk : Z)
                        (callpre pre : list tev) (r : nat) (tb ta : Z) (outs : list sdata) (s : sstream) : list tok :=
  let m := ss_meter s in
  let iname := ss_iname s in
  let tp := temp_of c r in
  let md := stream_md outs m (ss_name s) in
  let keys := all_keys hs ths m iname ++ match md with Some d => map fst (md_points d) | None => [] end in
  check (Nat.leb (length (filter (is_stream m (ss_name s)) outs)) 1) (retag s "stream_once:duplicate_stream") ++
  match md with
  | Some d =>
      check (temp_eqb (md_temp d) tp) (retag s "temporality:mismatch") ++
      check ((tb <? md_end d) && (md_end d <=? ta)) (retag s "interval_end:not_collection_time") ++
      (if is_delta tp
       then check (md_start d =? last_end_in r m (ss_name s) sdk pre) (retag s "delta_intervals_abut:gap_or_overlap")
       else check (md_start d =? sdk) (retag s "cumulative_starts_at_sdk_start:later_start"))
  | None => []
  end ++
  flat_map (fun key =>
              let lo := sum_returned hs ths m iname key callpre in
              let hi := sum_called hs ths m iname key pre in
              let x := if is_delta tp then received r m (ss_name s) key pre + opoint md key else opoint md key in
              check (lo <=? x)
                    (retag s (if is_delta tp then "delta_conservation:measurement_lost" else "cumulative_is_running_total:measurement_lost")) ++
              check (x <=? hi)
                    (retag s (if is_delta tp then "each_measurement_in_exactly_one_interval:reported_twice_or_early"
                              else "cumulative_is_running_total:counted_twice_or_early")))
           keys.

Fixpoint sched_walk (c : config) (hs : list (Z * nat * ikind * bytes)) (ths : list (list op)) (ss : list sstream) (sdk : Z)
                    (pre tr : list tev) : list tok :=
  match tr with
  | [] => []
  | ECR t i r tb ta outs :: tr' =>
      match before_call t i [] (rev pre) with
      | Some callpre =>
          flat_map (sched_stream c hs ths sdk callpre (rev pre) r tb ta outs) ss ++
          check (forallb (fun o => existsb (fun s => Nat.eqb (ss_meter s) (o_meter o) && bytes_eqb (ss_name s) (o_name o)) ss) outs)
                "streams:unexpected_stream"
      | None => fail "obs:shape"
      end ++ sched_walk c hs ths ss sdk (ECR t i r tb ta outs :: pre) tr'
  | e :: tr' => sched_walk c hs ths ss sdk (e :: pre) tr'
  end.

(* every Add of the scripts is called and returns exactly once in the trace, every Collect likewise, and each reader's
   final collection is there *)
Definition count_ev (p : tev -> bool) (tr : list tev) : nat := length (filter p tr).
Definition trace_complete (c : config) (ths : list (list op)) (tr : list tev) : bool :=
  forallb (fun ti =>
    let '(t, th) := ti in
    forallb (fun io =>
      let '(i, o) := io in
      match o with
      | OAdd _ _ _ =>
          Nat.eqb (count_ev (fun e => match e with EAC t' i' => Nat.eqb t t' && Nat.eqb i i' | _ => false end) tr) 1 &&
          Nat.eqb (count_ev (fun e => match e with EAR t' i' => Nat.eqb t t' && Nat.eqb i i' | _ => false end) tr) 1
      | OCol r =>
          Nat.eqb (count_ev (fun e => match e with ECC t' i' => Nat.eqb t t' && Nat.eqb i i' | _ => false end) tr) 1 &&
          Nat.eqb (count_ev (fun e => match e with ECR t' i' r' _ _ _ => Nat.eqb t t' && Nat.eqb i i' && Nat.eqb r r' | _ => false end) tr) 1
      | ONew _ _ _ => false
      end) (combine (seq 0 (length th)) th)) (combine (seq 0 (length ths)) ths) &&
  forallb (fun r =>
    Nat.eqb (count_ev (fun e => match e with ECR t' i' r' _ _ _ => Nat.eqb (length ths) t' && Nat.eqb r i' && Nat.eqb r r' | _ => false end) tr) 1)
    (seq 0 (nreaders c)).

Definition spec_sched (c : config) (news : list op) (ths : list (list op)) (sdk : Z) (tr : list tev) : list tok :=
  let l := timed news in
  let hs := Spec.news l in
  dedup (check (trace_complete c ths tr) "obs:incomplete_trace" ++ sched_walk c hs ths (streams c l) sdk [] tr).
