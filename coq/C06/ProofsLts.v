(* C06 proofs, part 8: the lock-granularity model (C06/Lts.v) under the discipline the SDK guarantees ([strict]: a
   collector holds Meter::storage_lock_ from before the swap until after buildMetrics).  Every accepted trace - any
   interleaving of any number of recorder and collector threads at the granularity of lock()/unlock() - is equivalent to
   the atomic history [lin tr] (every Add at the end of its critical section, every Collect where it detaches the live map):
   same storage state, same MetricData for every callback.  All theorems of ProofsReaders.v therefore hold for every such
   interleaving, and the bracket checked by C06/SpecSched.v follows. *)
From V Require Import C06.Model C06.Lts C06.ProofsTable C06.ProofsStorage C06.ProofsReaders.
From Coq Require Import Lia ZifyBool ZifyNat.
Local Open Scope Z_scope.

Local Arguments s_cur {K}.
Local Arguments s_unrep {K}.
Local Arguments s_last {K}.

Section LtsStrict.
  Variable K : Type.
  Variable keqb : K -> K -> bool.
  Hypothesis keqb_ok : forall a b, keqb a b = true <-> a = b.
  Variable mono : bool.
  Variable n : nat.
  Variable temps : nat -> temporality.
  Variable T : nat.

  Notation sop := (sop K).
  Notation ev := (ev K).
  Notation lstate := (lstate K).
  Notation state := (state K keqb mono n temps).
  Notation outs := (outs K keqb mono n temps).
  Notation out_at := (out_at K keqb mono n temps).
  Notation hist_wf := (hist_wf K n).
  Notation lin := (lin K).
  Notation accept := (accept K keqb mono n temps T true).
  Notation lrun := (lrun K keqb mono n temps T true).
  Notation collect := (collect K keqb).

  (* ---------------------------------------------------------------- small facts about states and histories *)
  Lemma stor_eta : forall s : stor K, s = mkSt K (s_cur s) (s_unrep s) (s_last s).
  Proof. destruct s; reflexivity. Qed.

  Lemma collect_cur_nil : forall tp s r ts, s_cur (fst (collect n tp s r ts)) = [].
  Proof.
    intros. unfold Model.collect. destruct (Nat.eqb n 1 && is_delta tp)%bool.
    - destruct (is_nil (s_cur s)); reflexivity.
    - match goal with |- context [match ?u r with _ => _ end] => destruct (u r) end; [|reflexivity].
      destruct (s_last s r) as [[lm lts]|]; reflexivity.
  Qed.

  Definition is_add (o : sop) : Prop := match o with SAdd _ _ => True | SCol _ _ => False end.

  Lemma state_adds : forall adds hr, Forall is_add adds ->
      s_unrep (state (adds ++ hr)) = s_unrep (state hr) /\ s_last (state (adds ++ hr)) = s_last (state hr).
  Proof.
    induction adds as [|o adds IH]; intros hr H; [split; reflexivity|]. inversion H; subst.
    cbn [app]. rewrite state_cons. destruct o as [k v|r ts]; [|contradiction]. cbn [sstep fst record]. apply IH; auto.
  Qed.

  Lemma outs_adds : forall adds hr, Forall is_add adds -> outs (adds ++ hr) = outs hr.
  Proof.
    induction adds as [|o adds IH]; intros hr H; [reflexivity|]. inversion H; subst.
    destruct o as [k v|r ts]; [|contradiction]. cbn [app]. rewrite outs_add. apply IH; auto.
  Qed.

  Lemma hist_wf_app : forall a b, hist_wf a -> hist_wf b -> hist_wf (a ++ b).
  Proof. intros. unfold ProofsStorage.hist_wf in *. apply Forall_app; auto. Qed.

  (* the history before reader r's latest collection *)
  Fixpoint before_last_col (r : nat) (hr : list sop) : option (Z * list sop) :=
    match hr with
    | [] => None
    | SAdd _ _ :: t => before_last_col r t
    | SCol r' ts :: t => if Nat.eqb r' r then Some (ts, t) else before_last_col r t
    end.

  (* ---------------------------------------------------------------- the invariant *)
  Definition holdsM (p : cphase K) : bool :=
    match p with CHoldM | CLockedA | CDetached _ _ | CLockedT _ _ | CBuilt _ => true | _ => false end.

  Definition pend (s : lstate) : option (nat * table K * Z) :=
    match l_hM K s with
    | Some r => match l_col K s r with CDetached d ts | CLockedT d ts => Some (r, d, ts) | _ => None end
    | None => None
    end.

  Record SInv (tr : list (nat * ev)) (s : lstate) : Prop := mkSInv {
    S_M : forall r, holdsM (l_col K s r) = true <-> l_hM K s = Some r;
    S_wf : hist_wf (lin tr);
    S_st : match pend s with
           | None => s_cur (l_st K s) = s_cur (state (lin tr)) /\ s_unrep (l_st K s) = s_unrep (state (lin tr)) /\
                     s_last (l_st K s) = s_last (state (lin tr)) /\ l_outs K s = outs (lin tr)
           | Some (r, d, ts) =>
               exists adds hr0, lin tr = adds ++ SCol r ts :: hr0 /\ Forall is_add adds /\
                                d = s_cur (state hr0) /\ s_cur (l_st K s) = s_cur (state (lin tr)) /\
                                s_unrep (l_st K s) = s_unrep (state hr0) /\ s_last (l_st K s) = s_last (state hr0) /\
                                l_outs K s = outs hr0
           end;
    S_out : forall r o, (l_col K s r = CBuilt o \/ l_col K s r = CBuiltFree o) ->
            exists ts hr0, before_last_col r (lin tr) = Some (ts, hr0) /\ o = out_at hr0 r ts
  }.

  Lemma SInv_init : SInv [] (linit K).
  Proof.
    constructor; cbn; auto.
    - intros r. split; intros H; discriminate.
    - constructor.
    - intros r o [H|H]; discriminate.
  Qed.

  Lemma upd_same : forall A (f : nat -> A) r x, upd f r x r = x.
  Proof. intros. unfold upd. rewrite Nat.eqb_refl. reflexivity. Qed.
  Lemma upd_other : forall A (f : nat -> A) r x q, q <> r -> upd f r x q = f q.
  Proof. intros. unfold upd. destruct (Nat.eqb q r) eqn:E; auto. apply Nat.eqb_eq in E. contradiction. Qed.

  (* a step that changes neither the storage, nor M, nor the history, and keeps every reader's M/pending/built status *)
  Lemma SInv_frame : forall tr e s s',
      SInv tr s -> lin (e :: tr) = lin tr ->
      l_st K s' = l_st K s -> l_hM K s' = l_hM K s -> l_outs K s' = l_outs K s ->
      (forall r, holdsM (l_col K s' r) = holdsM (l_col K s r)) ->
      (forall r, match l_col K s' r with CDetached d ts | CLockedT d ts => Some (d, ts) | _ => None end =
                 match l_col K s r with CDetached d ts | CLockedT d ts => Some (d, ts) | _ => None end) ->
      (forall r o, (l_col K s' r = CBuilt o \/ l_col K s' r = CBuiltFree o) ->
                   (l_col K s r = CBuilt o \/ l_col K s r = CBuiltFree o)) ->
      SInv (e :: tr) s'.
  Proof.
    intros tr e s s' [I1 I2 I3 I4] Hlin Hst HM Houts Hh Hp Hb. constructor.
    - intros r. rewrite Hh, HM. apply I1.
    - rewrite Hlin. exact I2.
    - assert (Hpend : pend s' = pend s).
      { unfold pend. rewrite HM. destruct (l_hM K s) as [r|]; auto. specialize (Hp r).
        destruct (l_col K s' r), (l_col K s r); try discriminate; try reflexivity; inversion Hp; reflexivity. }
      rewrite Hpend, Hlin, Hst, Houts. exact I3.
    - intros r o H. rewrite Hlin. apply I4. apply Hb. exact H.
  Qed.

  Lemma guard_split : forall r t (s : lstate), negb (Nat.ltb r n && Nat.eqb (l_own K s r) t) = false -> (r < n)%nat.
  Proof. intros r t s H. apply negb_false_iff in H. apply andb_prop in H as [H _]. apply Nat.ltb_lt in H. exact H. Qed.

  (* ---------------------------------------------------------------- preservation *)
  Theorem SInv_step : forall tr s te s', SInv tr s -> accept s te = Some s' -> SInv (te :: tr) s'.
  Proof.
    intros tr s [t e] s' I Ha. unfold Lts.accept in Ha.
    destruct (negb (Nat.ltb t T)); [discriminate|].
    destruct e as [k v| |k v|k v|r|r|r|r ts|r|r|r|r o'| ].
    - (* AddCall *)
      destruct (l_rec K s t); try discriminate. inversion Ha; subst s'. eapply SInv_frame; eauto.
    - (* ALock *)
      destruct (l_rec K s t); try discriminate. destruct (l_hA K s); [discriminate|]. inversion Ha; subst s'.
      eapply SInv_frame; eauto.
    - (* AUnlock: the measurement takes effect *)
      destruct (l_rec K s t) as [|k' v'|k' v'|k' v']; try discriminate.
      destruct (keqb k k' && (v =? v'))%bool; [|discriminate]. inversion Ha; subst s'. clear Ha.
      destruct I as [I1 I2 I3 I4]. constructor; cbn [l_col l_hM l_st l_outs Lts.lin].
      + exact I1.
      + constructor; [exact I|exact I2].
      + unfold pend in *. cbn [l_col l_hM l_st l_outs]. destruct (l_hM K s) as [r|].
        * destruct (l_col K s r) as [| | | |d ts|d ts| | ]; try (destruct I3 as [A [B [C D]]]; rewrite state_cons, outs_add;
            cbn [sstep fst record s_cur s_unrep s_last]; rewrite A, B, C, D; auto).
          -- destruct I3 as [adds [hr0 [E [Fa [Ed [Ec [Eu [El Eo]]]]]]]]. exists (SAdd k v :: adds), hr0.
             rewrite E. repeat split; auto.
             ++ constructor; [exact I|auto].
             ++ rewrite <- E. change (SAdd k v :: Lts.lin K tr) with (SAdd k v :: lin tr). rewrite state_cons.
                cbn [sstep fst record s_cur]. rewrite Ec. reflexivity.
          -- destruct I3 as [adds [hr0 [E [Fa [Ed [Ec [Eu [El Eo]]]]]]]]. exists (SAdd k v :: adds), hr0.
             rewrite E. repeat split; auto.
             ++ constructor; [exact I|auto].
             ++ rewrite <- E. change (SAdd k v :: Lts.lin K tr) with (SAdd k v :: lin tr). rewrite state_cons.
                cbn [sstep fst record s_cur]. rewrite Ec. reflexivity.
        * destruct I3 as [A [B [C D]]]. rewrite state_cons, outs_add. cbn [sstep fst record s_cur s_unrep s_last].
          rewrite A, B, C, D; auto.
      + intros r o H. destruct (I4 r o H) as [ts [hr0 [E1 E2]]]. exists ts, hr0. cbn [before_last_col]. auto.
    - (* AddRet *)
      destruct (l_rec K s t) as [|k' v'|k' v'|k' v']; try discriminate.
      destruct (keqb k k' && (v =? v'))%bool; [|discriminate]. inversion Ha; subst s'. eapply SInv_frame; eauto.
    - (* ColCall *)
      destruct (negb (Nat.ltb r n)); [discriminate|]. destruct (l_col K s r) eqn:Ec; try discriminate.
      inversion Ha; subst s'. eapply SInv_frame; eauto; cbn [l_col]; intros q; unfold upd;
        destruct (Nat.eqb q r) eqn:E; auto; try (apply Nat.eqb_eq in E; subst q; rewrite Ec; reflexivity).
      intros o [H|H]; discriminate.
    - (* CLockM *)
      destruct (negb (Nat.ltb r n && Nat.eqb (l_own K s r) t)); [discriminate|].
      destruct (l_col K s r) eqn:Ec; try discriminate. destruct (l_hM K s) eqn:Em; [discriminate|].
      inversion Ha; subst s'. clear Ha. destruct I as [I1 I2 I3 I4]. constructor; cbn [l_col l_hM l_st l_outs Lts.lin]; auto.
      + intros q. unfold upd. destruct (Nat.eqb q r) eqn:E.
        * apply Nat.eqb_eq in E. subst q. cbn. split; auto.
        * apply Nat.eqb_neq in E. split; intros H.
          -- apply I1 in H. congruence.
          -- inversion H. congruence.
      + unfold pend in *. cbn [l_col l_hM l_st l_outs]. rewrite upd_same. rewrite Em in I3. exact I3.
      + intros q o H. apply I4. unfold upd in H. destruct (Nat.eqb q r); auto. destruct H; discriminate.
    - (* CLockA: strict, so M is held *)
      destruct (negb (Nat.ltb r n && Nat.eqb (l_own K s r) t)); [discriminate|]. destruct (l_hA K s); [discriminate|].
      destruct (l_col K s r) eqn:Ec; try discriminate. inversion Ha; subst s'.
      eapply SInv_frame; eauto; cbn [l_col]; intros q; unfold upd;
        destruct (Nat.eqb q r) eqn:E; auto; try (apply Nat.eqb_eq in E; subst q; rewrite Ec; reflexivity).
      intros o [H|H]; discriminate.
    - (* CUnlockA: the live map is detached; the Collect is linearized here *)
      destruct (negb (Nat.ltb r n && Nat.eqb (l_own K s r) t)) eqn:Eg; [discriminate|]. apply guard_split in Eg.
      destruct (l_col K s r) eqn:Ec; try discriminate. inversion Ha; subst s'. clear Ha.
      destruct I as [I1 I2 I3 I4].
      assert (HM : l_hM K s = Some r) by (apply I1; rewrite Ec; reflexivity).
      constructor; cbn [l_col l_hM l_st l_outs Lts.lin].
      + intros q. unfold upd. destruct (Nat.eqb q r) eqn:E.
        * apply Nat.eqb_eq in E. subst q. cbn. rewrite HM. tauto.
        * apply I1.
      + constructor; [exact Eg|exact I2].
      + unfold pend in *. cbn [l_col l_hM l_st l_outs]. rewrite HM in *. rewrite upd_same. rewrite Ec in I3.
        destruct I3 as [A [B [C D]]]. exists [], (lin tr). repeat split; auto.
        cbn [s_cur]. change (SCol r ts :: Lts.lin K tr) with (SCol r ts :: lin tr). rewrite state_cons. cbn [sstep].
        rewrite collect_cur_nil. reflexivity.
      + intros q o H. unfold upd in H. destruct (Nat.eqb q r) eqn:E; [destruct H; discriminate|].
        destruct (I4 q o H) as [ts0 [hr0 [E1 E2]]]. exists ts0, hr0. cbn [before_last_col].
        rewrite (Nat.eqb_sym r q), E. auto.
    - (* CLockT *)
      destruct (negb (Nat.ltb r n && Nat.eqb (l_own K s r) t)); [discriminate|]. destruct (l_hT K s); [discriminate|].
      destruct (l_col K s r) eqn:Ec; try discriminate. inversion Ha; subst s'.
      eapply SInv_frame; eauto; cbn [l_col]; intros q; unfold upd;
        destruct (Nat.eqb q r) eqn:E; auto; try (apply Nat.eqb_eq in E; subst q; rewrite Ec; reflexivity).
      intros o [H|H]; discriminate.
    - (* CUnlockT: buildMetrics on the detached map *)
      destruct (negb (Nat.ltb r n && Nat.eqb (l_own K s r) t)) eqn:Eg; [discriminate|]. apply guard_split in Eg.
      destruct (l_col K s r) as [| | | |d ts|d ts| | ] eqn:Ec; try discriminate.
      destruct I as [I1 I2 I3 I4].
      assert (HM : l_hM K s = Some r) by (apply I1; rewrite Ec; reflexivity).
      unfold pend in I3. rewrite HM, Ec in I3. destruct I3 as [adds [hr0 [E [Fa [Ed [Ecur [Eu [El Eo]]]]]]]].
      unfold build in Ha.
      assert (Est : mkSt K d (s_unrep (l_st K s)) (s_last (l_st K s)) = state hr0).
      { rewrite (stor_eta (state hr0)), Ed, Eu, El. reflexivity. }
      rewrite Est in Ha.
      destruct (collect n (temps r) (state hr0) r ts) as [st' o] eqn:Eco. inversion Ha; subst s'. clear Ha.
      assert (Hst' : st' = state (SCol r ts :: hr0)) by (rewrite state_cons; cbn [sstep]; rewrite Eco; reflexivity).
      assert (Ho : o = out_at hr0 r ts) by (unfold ProofsStorage.out_at; rewrite Eco; reflexivity).
      destruct (state_adds adds (SCol r ts :: hr0) Fa) as [Hu Hl].
      constructor; cbn [l_col l_hM l_st l_outs Lts.lin].
      + intros q. unfold upd. destruct (Nat.eqb q r) eqn:E'.
        * apply Nat.eqb_eq in E'. subst q. cbn. rewrite HM. tauto.
        * apply I1.
      + exact I2.
      + unfold pend. cbn [l_col l_hM l_st l_outs]. rewrite HM, upd_same. cbn [s_cur s_unrep s_last].
        change (Lts.lin K tr) with (lin tr). rewrite E, Hu, Hl, <- Hst', <- E. repeat split; auto.
        rewrite Eo, E, (outs_adds adds) by auto. rewrite outs_col, Ho. reflexivity.
      + intros q o0 H. unfold upd in H. destruct (Nat.eqb q r) eqn:E'.
        * apply Nat.eqb_eq in E'. subst q. assert (o0 = o) by (destruct H as [H|H]; inversion H; reflexivity). subst o0.
          exists ts, hr0. split; auto. change (Lts.lin K tr) with (lin tr). rewrite E. clear - Fa.
          induction adds as [|a adds IH]; cbn; [rewrite Nat.eqb_refl; reflexivity|].
          inversion Fa; subst. destruct a; [apply IH; auto|contradiction].
        * apply I4; auto.
    - (* CUnlockM *)
      destruct (negb (Nat.ltb r n && Nat.eqb (l_own K s r) t)); [discriminate|].
      destruct (l_col K s r) eqn:Ec; try discriminate. destruct (l_hM K s) as [r'|] eqn:Em; [|discriminate].
      destruct (Nat.eqb r r') eqn:Er; [|discriminate]. apply Nat.eqb_eq in Er. subst r'.
      inversion Ha; subst s'. clear Ha. destruct I as [I1 I2 I3 I4]. constructor; cbn [l_col l_hM l_st l_outs Lts.lin]; auto.
      + intros q. unfold upd. destruct (Nat.eqb q r) eqn:E.
        * cbn. split; intros H; discriminate.
        * apply Nat.eqb_neq in E. split; intros H; [|discriminate]. apply I1 in H. rewrite Em in H. inversion H. congruence.
      + unfold pend in *. cbn [l_col l_hM l_st l_outs]. rewrite Em, Ec in I3. exact I3.
      + intros q o0 H. apply I4. unfold upd in H. destruct (Nat.eqb q r) eqn:E; auto.
        apply Nat.eqb_eq in E. subst q. rewrite Ec. destruct H as [H|H]; inversion H. left; reflexivity.
    - (* ColRet *)
      destruct (negb (Nat.ltb r n && Nat.eqb (l_own K s r) t)); [discriminate|].
      destruct (l_col K s r) eqn:Ec; try discriminate. destruct (mdo_eqb K keqb o o'); [|discriminate].
      inversion Ha; subst s'. unfold set_col.
      eapply SInv_frame; eauto; cbn [l_col]; intros q; unfold upd;
        destruct (Nat.eqb q r) eqn:E; auto; try (apply Nat.eqb_eq in E; subst q; rewrite Ec; reflexivity).
      intros o0 [H|H]; discriminate.
    - (* Other *)
      destruct (l_rec K s t); try discriminate; destruct (between_sections K n s t); try discriminate;
        inversion Ha; subst s'; eapply SInv_frame; eauto.
  Qed.

  Theorem strict_invariant : forall tr s, lrun tr = Some s -> SInv tr s.
  Proof.
    induction tr as [|te tr IH]; intros s H; cbn [Lts.lrun] in H.
    - inversion H; subst. apply SInv_init.
    - destruct (Lts.lrun K keqb mono n temps T true tr) as [s0|] eqn:E; [|discriminate].
      eapply SInv_step; eauto.
  Qed.

  (* ---------------------------------------------------------------- what it says *)
  (* whenever no collector is between its two critical sections, the storage is exactly the storage after the atomic
     history, and the callbacks were given exactly what the atomic history gives *)
  Definition quiet (s : lstate) : Prop :=
    forall r, match l_col K s r with CDetached _ _ | CLockedT _ _ => False | _ => True end.

  Theorem strict_linearizable : forall tr s, lrun tr = Some s -> quiet s ->
      hist_wf (lin tr) /\ l_st K s = state (lin tr) /\ l_outs K s = outs (lin tr).
  Proof.
    intros tr s H Hq. destruct (strict_invariant tr s H) as [I1 I2 I3 I4]. split; auto.
    assert (Hp : pend s = None).
    { unfold pend. destruct (l_hM K s) as [r|]; auto. specialize (Hq r). destruct (l_col K s r); auto; contradiction. }
    rewrite Hp in I3. destruct I3 as [A [B [C D]]]. split; auto.
    rewrite (stor_eta (l_st K s)), (stor_eta (state (lin tr))), A, B, C. reflexivity.
  Qed.

  (* the MetricData handed to a reader's callback is what the atomic history before that collection's swap gives *)
  Lemma tget_in : forall (t : table K) k v, tget K keqb k t = Some v -> In (k, v) t.
  Proof.
    induction t as [|[k0 x] t IH]; intros k v H; cbn in H; [discriminate|]. destruct (keqb k k0) eqn:E.
    - apply keqb_ok in E. subst. inversion H; subst. left; reflexivity.
    - right. apply IH; auto.
  Qed.

  Lemma table_sub_get : forall a b k v, table_sub K keqb a b = true -> tget K keqb k a = Some v -> tget K keqb k b = Some v.
  Proof.
    intros a b k v Hs Hg. unfold table_sub in Hs. rewrite forallb_forall in Hs. specialize (Hs _ (tget_in _ _ _ Hg)).
    cbn in Hs. destruct (tget K keqb k b); [|discriminate]. f_equal. lia.
  Qed.

  Lemma mdo_eqb_equiv : forall a b, mdo_eqb K keqb a b = true -> md_equiv K keqb a b.
  Proof.
    intros [x|] [y|] H; cbn in *; try discriminate; auto. unfold md_eqb in H. rewrite !andb_true_iff in H.
    destruct H as [[[[H1 H2] H3] H4] H5]. repeat split; try lia.
    - unfold temp_eqb in H1. destruct (md_temp x), (md_temp y); cbn in H1; try discriminate; reflexivity.
    - intros k. destruct (tget K keqb k (md_points x)) as [v|] eqn:E.
      + symmetry. eapply table_sub_get; eauto.
      + destruct (tget K keqb k (md_points y)) as [w|] eqn:E'; auto.
        rewrite (table_sub_get _ _ _ _ H5 E') in E. discriminate.
  Qed.

  Theorem strict_colret_output : forall tr t r o' s,
      lrun ((t, EColRet r o') :: tr) = Some s ->
      exists ts hr0, before_last_col r (lin tr) = Some (ts, hr0) /\ hist_wf hr0 /\ (r < n)%nat /\
                     md_equiv K keqb (out_at hr0 r ts) o'.
  Proof.
    intros tr t r o' s H. cbn [Lts.lrun] in H. destruct (Lts.lrun K keqb mono n temps T true tr) as [s0|] eqn:E; [|discriminate].
    pose proof (strict_invariant tr s0 E) as [I1 I2 I3 I4]. unfold Lts.accept in H.
    destruct (negb (Nat.ltb t T)); [discriminate|].
    destruct (negb (Nat.ltb r n && Nat.eqb (l_own K s0 r) t)) eqn:Eg; [discriminate|]. apply guard_split in Eg.
    destruct (l_col K s0 r) eqn:Ec; try discriminate.
    destruct (mdo_eqb K keqb o o') eqn:Em; [|discriminate].
    destruct (I4 r o (or_intror Ec)) as [ts [hr0 [E1 E2]]]. exists ts, hr0. repeat split; auto.
    - clear - I2 E1. revert I2 E1. generalize (lin tr). induction l as [|[k v|r' ts'] l IH]; intros Hw H; cbn in H; [discriminate| |].
      + inversion Hw; subst. apply IH; auto.
      + inversion Hw; subst. destruct (Nat.eqb r' r); [inversion H; subst; auto|apply IH; auto].
    - subst o. apply mdo_eqb_equiv. exact Em.
  Qed.
End LtsStrict.
