(* MODEL for C06 at lock granularity: one SyncMetricStorage + TemporalMetricStorage used by any number of recorder and
   collector threads, as an acceptor over the events the scheduler shim logs.

     recorder thread (SyncMetricStorage::RecordLong or RecordDouble):      AddCall k v ; ALock ; AUnlock k v ; AddRet k v
         the critical section under attribute_hashmap_lock_ (series lookup + Aggregate) takes effect at AUnlock;
     collector thread of reader r (Meter::Collect -> SyncMetricStorage::Collect -> buildMetrics):
         ColCall r ; CLockM r ; CLockA r ; CUnlockA r ts ; CLockT r ; CUnlockT r ; CUnlockM r ; ColRet r o
         CLockM/CUnlockM: Meter::storage_lock_, held over the storage's whole Collect;
         CLockA..CUnlockA: the live delta map is DETACHED into the collector's local state (effect at CUnlockA);
         CLockT..CUnlockT: buildMetrics under TemporalMetricStorage::lock_: the detached map is pushed onto every reader's
         stash, the caller's stash is merged, reported, remembered (effect at CUnlockT); ts is the collection timestamp
         the collector carries (an oracle value); ColRet carries the MetricData the reader's callback was given, which
         must be the one computed at CUnlockT;
     Other: lock()/unlock() of any other object (the Sum aggregations' own locks): allowed only where the code has them,
         inside a critical section - never between a recorder's AUnlock and its return, never between the two critical
         sections of a Collect.

   Between CUnlockA and CLockT of one collector other threads run: recorders add to the new live map, and - when [strict]
   is false - other collectors swap and distribute too (two Collects of one storage overlap).  [strict] = true adds what
   the SDK guarantees through Meter::storage_lock_: a collector takes M before A and keeps it until after T.
   At most one thread collects for a reader at a time (a MetricReader is driven by one thread).  Definitions only. *)
From V Require Export C06.Model.
Local Open Scope Z_scope.

Section Lts.
  Variable K : Type.
  Variable keqb : K -> K -> bool.
  Variable mono : bool.
  Variable n : nat.                         (* registered readers *)
  Variable temps : nat -> temporality.
  Variable T : nat.                         (* threads are numbered 0 .. T-1 *)
  Variable strict : bool.

  Inductive rphase :=
  | RNone
  | RCalled (k : K) (v : Z)
  | RLocked (k : K) (v : Z)
  | RDone (k : K) (v : Z).

  Inductive cphase :=
  | CNone
  | CCalled
  | CHoldM
  | CLockedA
  | CDetached (d : table K) (ts : Z)
  | CLockedT (d : table K) (ts : Z)
  | CBuilt (o : option (@mdata K))
  | CBuiltFree (o : option (@mdata K)).

  Inductive ev :=
  | EAddCall (k : K) (v : Z)
  | EALock
  | EAUnlock (k : K) (v : Z)
  | EAddRet (k : K) (v : Z)
  | EColCall (r : nat)
  | ECLockM (r : nat)
  | ECLockA (r : nat)
  | ECUnlockA (r : nat) (ts : Z)
  | ECLockT (r : nat)
  | ECUnlockT (r : nat)
  | ECUnlockM (r : nat)
  | EColRet (r : nat) (o : option (@mdata K))
  | EOther.

  Record lstate := mkL {
    l_st : stor K;                                   (* live map, stashes, last reported *)
    l_hA : bool;                                     (* attribute_hashmap_lock_ held *)
    l_hT : bool;                                     (* TemporalMetricStorage::lock_ held *)
    l_hM : option nat;                               (* reader whose collector holds Meter::storage_lock_ *)
    l_rec : nat -> rphase;                           (* per thread: where it is inside an Add *)
    l_col : nat -> cphase;                           (* per reader: where its collector is inside a Collect *)
    l_own : nat -> nat;                              (* per reader: the thread collecting for it *)
    l_outs : list (nat * Z * option (@mdata K))      (* everything computed for the callbacks so far (reader, ts, data) *)
  }.

  Definition linit : lstate :=
    mkL (stor0 K) false false None (fun _ => RNone) (fun _ => CNone) (fun _ => O) [].

  (* the MetricData given to the callback is the one computed under the lock (points in any order) *)
  Definition table_sub (a b : table K) : bool :=
    forallb (fun kv => match tget K keqb (fst kv) b with Some x => x =? snd kv | None => false end) a.
  Definition md_eqb (a b : @mdata K) : bool :=
    temp_eqb (md_temp a) (md_temp b) && (md_start a =? md_start b) && (md_end a =? md_end b) &&
    table_sub (md_points a) (md_points b) && table_sub (md_points b) (md_points a).
  Definition mdo_eqb (a b : option (@mdata K)) : bool :=
    match a, b with
    | None, None => true
    | Some x, Some y => md_eqb x y
    | _, _ => false
    end.

  Definition set_rec (s : lstate) (t : nat) (p : rphase) : lstate :=
    mkL (l_st s) (l_hA s) (l_hT s) (l_hM s) (upd (l_rec s) t p) (l_col s) (l_own s) (l_outs s).
  Definition set_col (s : lstate) (r : nat) (p : cphase) : lstate :=
    mkL (l_st s) (l_hA s) (l_hT s) (l_hM s) (l_rec s) (upd (l_col s) r p) (l_own s) (l_outs s).

  (* buildMetrics on the detached map [d]: SyncMetricStorage::Collect's second half.  The live map is not touched. *)
  Definition build (st : stor K) (d : table K) (r : nat) (ts : Z) : stor K * option (@mdata K) :=
    let '(st', o) := collect K keqb n (temps r) (mkSt K d (s_unrep K st) (s_last K st)) r ts in
    (mkSt K (s_cur K st) (s_unrep K st') (s_last K st'), o).

  Definition between_sections (s : lstate) (t : nat) : bool :=
    existsb (fun r => Nat.eqb (l_own s r) t && match l_col s r with CDetached _ _ => true | _ => false end) (seq 0 n).

  Definition accept (s : lstate) (te : nat * ev) : option lstate :=
    let '(t, e) := te in
    if negb (Nat.ltb t T) then None else
    match e with
    | EAddCall k v =>
        match l_rec s t with RNone => Some (set_rec s t (RCalled k v)) | _ => None end
    | EALock =>
        match l_rec s t with
        | RCalled k v =>
            if l_hA s then None
            else Some (mkL (l_st s) true (l_hT s) (l_hM s) (upd (l_rec s) t (RLocked k v)) (l_col s) (l_own s) (l_outs s))
        | _ => None
        end
    | EAUnlock k v =>
        match l_rec s t with
        | RLocked k' v' =>
            if keqb k k' && (v =? v')
            then Some (mkL (record K keqb mono (l_st s) k v) false (l_hT s) (l_hM s) (upd (l_rec s) t (RDone k v)) (l_col s)
                           (l_own s) (l_outs s))
            else None
        | _ => None
        end
    | EAddRet k v =>
        match l_rec s t with
        | RDone k' v' => if keqb k k' && (v =? v') then Some (set_rec s t RNone) else None
        | _ => None
        end
    | EOther =>
        match l_rec s t with
        | RDone _ _ => None
        | _ => if between_sections s t then None else Some s
        end
    | EColCall r =>
        if negb (Nat.ltb r n) then None else
        match l_col s r with
        | CNone => Some (mkL (l_st s) (l_hA s) (l_hT s) (l_hM s) (l_rec s) (upd (l_col s) r CCalled) (upd (l_own s) r t) (l_outs s))
        | _ => None
        end
    | ECLockM r =>
        if negb (Nat.ltb r n && Nat.eqb (l_own s r) t) then None else
        match l_col s r, l_hM s with
        | CCalled, None => Some (mkL (l_st s) (l_hA s) (l_hT s) (Some r) (l_rec s) (upd (l_col s) r CHoldM) (l_own s) (l_outs s))
        | _, _ => None
        end
    | ECLockA r =>
        if negb (Nat.ltb r n && Nat.eqb (l_own s r) t) then None else
        if l_hA s then None else
        match l_col s r with
        | CHoldM => Some (mkL (l_st s) true (l_hT s) (l_hM s) (l_rec s) (upd (l_col s) r CLockedA) (l_own s) (l_outs s))
        | CCalled =>
            if strict then None
            else Some (mkL (l_st s) true (l_hT s) (l_hM s) (l_rec s) (upd (l_col s) r CLockedA) (l_own s) (l_outs s))
        | _ => None
        end
    | ECUnlockA r ts =>
        if negb (Nat.ltb r n && Nat.eqb (l_own s r) t) then None else
        match l_col s r with
        | CLockedA =>
            Some (mkL (mkSt K [] (s_unrep K (l_st s)) (s_last K (l_st s))) false (l_hT s) (l_hM s) (l_rec s)
                      (upd (l_col s) r (CDetached (s_cur K (l_st s)) ts)) (l_own s) (l_outs s))
        | _ => None
        end
    | ECLockT r =>
        if negb (Nat.ltb r n && Nat.eqb (l_own s r) t) then None else
        if l_hT s then None else
        match l_col s r with
        | CDetached d ts => Some (mkL (l_st s) (l_hA s) true (l_hM s) (l_rec s) (upd (l_col s) r (CLockedT d ts)) (l_own s) (l_outs s))
        | _ => None
        end
    | ECUnlockT r =>
        if negb (Nat.ltb r n && Nat.eqb (l_own s r) t) then None else
        match l_col s r with
        | CLockedT d ts =>
            let '(st', o) := build (l_st s) d r ts in
            Some (mkL st' (l_hA s) false (l_hM s) (l_rec s) (upd (l_col s) r (CBuilt o)) (l_own s) (l_outs s ++ [(r, ts, o)]))
        | _ => None
        end
    | ECUnlockM r =>
        if negb (Nat.ltb r n && Nat.eqb (l_own s r) t) then None else
        match l_col s r, l_hM s with
        | CBuilt o, Some r' =>
            if Nat.eqb r r'
            then Some (mkL (l_st s) (l_hA s) (l_hT s) None (l_rec s) (upd (l_col s) r (CBuiltFree o)) (l_own s) (l_outs s))
            else None
        | _, _ => None
        end
    | EColRet r o' =>
        if negb (Nat.ltb r n && Nat.eqb (l_own s r) t) then None else
        match l_col s r with
        | CBuiltFree o => if mdo_eqb o o' then Some (set_col s r CNone) else None
        | CBuilt o => if strict then None else if mdo_eqb o o' then Some (set_col s r CNone) else None
        | _ => None
        end
    end.

  (* traces are written newest event first, like the histories of ProofsStorage.v *)
  Fixpoint lrun (tr : list (nat * ev)) : option lstate :=
    match tr with
    | [] => Some linit
    | te :: tr' => match lrun tr' with Some s => accept s te | None => None end
    end.

  (* running forward, for the extracted acceptor: the state reached, or the position of the first rejected event *)
  Fixpoint lrun_fwd (s : lstate) (i : nat) (tr : list (nat * ev)) : lstate + nat :=
    match tr with
    | [] => inl s
    | te :: tr' => match accept s te with Some s' => lrun_fwd s' (S i) tr' | None => inr i end
    end.

  (* the atomic history a trace amounts to when Collects of the storage do not overlap: every Add at the end of its
     critical section, every Collect at the point where it detaches the live map *)
  Fixpoint lin (tr : list (nat * ev)) : list (sop K) :=
    match tr with
    | [] => []
    | (_, EAUnlock k v) :: tr' => SAdd k v :: lin tr'
    | (_, ECUnlockA r ts) :: tr' => SCol r ts :: lin tr'
    | _ :: tr' => lin tr'
    end.

  (* measurements whose Add has been called / has returned *)
  Fixpoint called (tr : list (nat * ev)) : list (K * Z) :=
    match tr with
    | [] => []
    | (_, EAddCall k v) :: tr' => (k, agg_value mono v) :: called tr'
    | _ :: tr' => called tr'
    end.
  Fixpoint returned (tr : list (nat * ev)) : list (K * Z) :=
    match tr with
    | [] => []
    | (_, EAddRet k v) :: tr' => (k, agg_value mono v) :: returned tr'
    | _ :: tr' => returned tr'
    end.
End Lts.

Arguments RNone {K}.
Arguments RCalled {K}.
Arguments RLocked {K}.
Arguments RDone {K}.
Arguments CNone {K}.
Arguments CCalled {K}.
Arguments CHoldM {K}.
Arguments CLockedA {K}.
Arguments CDetached {K}.
Arguments CLockedT {K}.
Arguments CBuilt {K}.
Arguments CBuiltFree {K}.
Arguments EAddCall {K}.
Arguments EALock {K}.
Arguments EAUnlock {K}.
Arguments EAddRet {K}.
Arguments EColCall {K}.
Arguments ECLockM {K}.
Arguments ECLockA {K}.
Arguments ECUnlockA {K}.
Arguments ECLockT {K}.
Arguments ECUnlockT {K}.
Arguments ECUnlockM {K}.
Arguments EColRet {K}.
Arguments EOther {K}.
