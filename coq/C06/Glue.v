(* Glue between the token wire format and the C06 model/spec.  Extracted.

   SEQ  <readers> | <views> | <meters> | <ops>          one MeterProvider, the script's operations in order
   RACE <readers> | <views> | <meters> | <news> | <adds> | <collectors>
                                                        recorder threads race collector threads; then every reader collects once
     readers     0 (delta) / 1 (cumulative), one per MetricReader, in registration order
     views       V <counter 0/1> <x<name> | ANY> <meter | -1> x<stream name>     separated by ;
     ops         N <meter> <kind 0..3> x<name>  |  A <handle> <value>  |  K <handle> <value> (x<key> x<value>)*  |  C <reader>
     adds        <thread> A|K ...               collectors   <reader> <how many collections>
   observation of SEQ: one chunk per C op, separated by |:
     <reader> { ; <meter> x<stream> <mono> <double> <temporality> <start> <end> { , (x<key> x<value>)* <sum> } }
   with streams sorted by (meter, name), points by attribute set; start/end are logical times (0 = SDK start, k = the k-th op).
   observation of RACE:  F <timestamps ok> { ; <reader> <meter> x<stream> (x<key> x<value>)* <total> }   sorted *)
From V Require Export C06.Good C06.SpecSched C06.Lts Gen.Consts.
Local Open Scope Z_scope.

Inductive case :=
| CSeq (c : config) (ops : list op)
| CRace (c : config) (ns adds : list op)
| CSRace (c : config) (ns : list op) (ths : list (list op))
| CPur.      (* ThreadSanitizer independence probe of distinct storages (harness/c06_purity.cc): a run-time probe, not a theorem *)

(* ------------------------------------------------------------------------------------------------ parsing cases *)
Fixpoint parse_readers (l : list tok) : option (list temporality) :=
  match l with
  | [] => Some []
  | TZ z :: l' =>
      match parse_readers l' with
      | Some r => if z =? 0 then Some (Delta :: r) else if z =? 1 then Some (Cumulative :: r) else None
      | None => None
      end
  | _ => None
  end.

Definition parse_view (l : list tok) : option view :=
  match l with
  | [t; TZ cnt; p; TZ m; TB name] =>
      if is_tag "V" t && ((cnt =? 0) || (cnt =? 1)) && (-1 <=? m) then
        match p with
        | TB pat => Some (mkView (cnt =? 1) (Some pat) (if m <? 0 then None else Some (Z.to_nat m)) name)
        | TT _ => if is_tag "ANY" p then Some (mkView (cnt =? 1) None (if m <? 0 then None else Some (Z.to_nat m)) name) else None
        | _ => None
        end
      else None
  | _ => None
  end.

Fixpoint all_some {A} (l : list (option A)) : option (list A) :=
  match l with
  | [] => Some []
  | Some x :: l' => option_map (cons x) (all_some l')
  | None :: _ => None
  end.

Definition parse_list {A} (f : list tok -> option A) (sec : list tok) : option (list A) :=
  match sec with [] => Some [] | _ => all_some (map f (split_toks ";" sec)) end.

Definition kind_of (z : Z) : option ikind :=
  if z =? 0 then Some LongCounter else if z =? 1 then Some DoubleCounter
  else if z =? 2 then Some LongUpDown else if z =? 3 then Some DoubleUpDown else None.
Definition kind_num (k : ikind) : Z :=
  match k with LongCounter => 0 | DoubleCounter => 1 | LongUpDown => 2 | DoubleUpDown => 3 end.

Fixpoint parse_pairs (l : list tok) : option (list (bytes * bytes)) :=
  match l with
  | [] => Some []
  | TB k :: TB v :: l' => option_map (cons (k, v)) (parse_pairs l')
  | _ => None
  end.

Definition parse_op (l : list tok) : option op :=
  match l with
  | [t; TZ m; TZ k; TB name] =>
      if is_tag "N" t && (0 <=? m) then option_map (fun kd => ONew (Z.to_nat m) kd name) (kind_of k) else None
  | [t; TZ r] => if is_tag "C" t && (0 <=? r) then Some (OCol (Z.to_nat r)) else None
  | t :: TZ h :: TZ v :: rest =>
      if 0 <=? h then
        if is_tag "A" t then match rest with [] => Some (OAdd (Z.to_nat h) v []) | _ => None end
        else if is_tag "K" t then option_map (OAdd (Z.to_nat h) v) (parse_pairs rest)
        else None
      else None
  | _ => None
  end.

(* an add of a racing recorder thread: the thread number is the driver's business *)
Definition parse_tadd (l : list tok) : option op :=
  match l with
  | TZ _ :: rest => match parse_op rest with Some (OAdd h v a) => Some (OAdd h v a) | _ => None end
  | _ => None
  end.
Definition parse_new (l : list tok) : option op :=
  match parse_op l with Some (ONew m k n) => Some (ONew m k n) | _ => None end.

Definition parse_config (r v m : list tok) : option config :=
  match parse_readers r, parse_list parse_view v, m with
  | Some rs, Some vs, [TZ nm] => if 0 <=? nm then Some (mkCfg rs vs (Z.to_nat nm)) else None
  | _, _, _ => None
  end.

(* "<case> || <event trace>": the runner appends the implementation's trace to the case (nothing for SEQ / RACE) *)
Fixpoint split_trace (l : list tok) : list tok * list tok :=
  match l with
  | [] => ([], [])
  | t :: l' => if is_tag "||" t then ([], l') else let '(a, b) := split_trace l' in (t :: a, b)
  end.

(* the scripts of the racing threads: T <op ; op ...>, then the schedule section (s ...), which is the driver's business *)
Definition parse_thread_op (l : list tok) : option op :=
  match parse_op l with
  | Some (OAdd h v a) => Some (OAdd h v a)
  | Some (OCol r) => Some (OCol r)
  | _ => None
  end.
Fixpoint parse_threads (secs : list (list tok)) : option (list (list op)) :=
  match secs with
  | [] => Some []
  | (t :: body) :: rest =>
      if is_tag "s" t then match rest with [] => Some [] | _ => None end
      else if is_tag "T" t then
        match parse_list parse_thread_op body, parse_threads rest with
        | Some th, Some ths => Some (th :: ths)
        | _, _ => None
        end
      else None
  | [] :: _ => None
  end.

Definition parse_case_body (l : list tok) : option case :=
  match l with
  | t :: rest =>
      if is_tag "PURITY" t then
        match rest with
        | [TZ _; TZ _; TZ _; TZ _] => Some CPur
        | _ => None
        end
      else if is_tag "SRACE" t then
        match split_toks "|" rest with
        | r :: v :: m :: ns :: more =>
            match parse_config r v m, parse_list parse_new ns, parse_threads more with
            | Some c, Some n, Some ths => Some (CSRace c n ths)
            | _, _, _ => None
            end
        | _ => None
        end
      else if is_tag "SEQ" t then
        match split_toks "|" rest with
        | [r; v; m; o] =>
            match parse_config r v m, parse_list parse_op o with
            | Some c, Some ops => Some (CSeq c ops)
            | _, _ => None
            end
        | _ => None
        end
      else if is_tag "RACE" t then
        match split_toks "|" rest with
        | [r; v; m; ns; ad; _] =>
            match parse_config r v m, parse_list parse_new ns, parse_list parse_tadd ad with
            | Some c, Some n, Some a => Some (CRace c n a)
            | _, _, _ => None
            end
        | _ => None
        end
      else None
  | [] => None
  end.
Definition parse_case (l : list tok) : option case := parse_case_body (fst (split_trace l)).

(* the cases the positive theorems are about: no instrument is created twice, exactly one view (or the default view)
   applies to every instrument, and no stream sees kAggregationCardinalityLimit - 1 or more attribute sets *)
Definition case_good (c : config) (ops : list op) : bool :=
  case_wf c ops && ops_good c [] ops && Nat.ltb (S (count_keys [] ops)) kAggregationCardinalityLimit.

(* ------------------------------------------------------------------------------------------------ canonical order *)
Section Sort.
  Variable A : Type.
  Variable ltb : A -> A -> bool.
  Fixpoint insert_sorted (x : A) (l : list A) : list A :=
    match l with
    | [] => [x]
    | y :: l' => if ltb y x then y :: insert_sorted x l' else x :: y :: l'
    end.
  Definition sort_by (l : list A) : list A := fold_right insert_sorted [] l.
End Sort.

Definition point_ltb (p q : akey * Z) : bool := akey_ltb (fst p) (fst q).
Definition sdata_ltb (a b : sdata) : bool :=
  Nat.ltb (o_meter a) (o_meter b) || (Nat.eqb (o_meter a) (o_meter b) && bytes_ltb (o_name a) (o_name b)).

(* ------------------------------------------------------------------------------------------------ printing *)
Definition print_key (k : akey) : list tok := flat_map (fun kv => [TB (fst kv); TB (snd kv)]) k.
Definition print_point (p : akey * Z) : list tok := tag "," :: print_key (fst p) ++ [TZ (snd p)].
Definition print_sdata (o : sdata) : list tok :=
  [tag ";"; tnat (o_meter o); TB (o_name o); tbool (is_mono (o_kind o)); tbool (is_double (o_kind o));
   TZ (if is_delta (md_temp (o_md o)) then 0 else 1); TZ (md_start (o_md o)); TZ (md_end (o_md o))] ++
  flat_map print_point (sort_by _ point_ltb (md_points (o_md o))).
Definition print_col (x : nat * list sdata) : list tok :=
  tnat (fst x) :: flat_map print_sdata (sort_by _ sdata_ltb (snd x)).
Fixpoint print_obs (l : list (nat * list sdata)) : list tok :=
  match l with
  | [] => []
  | [x] => print_col x
  | x :: l' => print_col x ++ tag "|" :: print_obs l'
  end.

(* ------------------------------------------------------------------------------------------------ parsing observations *)
Fixpoint parse_point (l : list tok) : option (akey * Z) :=
  match l with
  | [TZ v] => Some ([], v)
  | TB k :: TB v :: l' => option_map (fun p => ((k, v) :: fst p, snd p)) (parse_point l')
  | _ => None
  end.

Definition kind_of_flags (mono dbl : Z) : ikind :=
  if mono =? 1 then (if dbl =? 1 then DoubleCounter else LongCounter) else (if dbl =? 1 then DoubleUpDown else LongUpDown).

Definition parse_sdata (l : list tok) : option sdata :=
  match split_toks "," l with
  | [TZ m; TB name; TZ mono; TZ dbl; TZ tp; TZ st; TZ en] :: pts =>
      if 0 <=? m then
        match all_some (map parse_point pts) with
        | Some ps => Some (mkSData (Z.to_nat m) name (kind_of_flags mono dbl)
                                   (mkMD (if tp =? 0 then Delta else Cumulative) st en ps))
        | None => None
        end
      else None
  | _ => None
  end.

Definition parse_col (l : list tok) : option (nat * list sdata) :=
  match split_toks ";" l with
  | [TZ r] :: mds => if 0 <=? r then option_map (fun x => (Z.to_nat r, x)) (all_some (map parse_sdata mds)) else None
  | _ => None
  end.

Definition parse_obs (l : list tok) : option (list (nat * list sdata)) :=
  match l with [] => Some [] | _ => all_some (map parse_col (split_toks "|" l)) end.

(* ------------------------------------------------------------------------------------------------ races: totals *)
Definition race_ops (c : config) (ns adds : list op) : list op := ns ++ adds ++ map OCol (seq 0 (nreaders c)).

Definition totals_of (outs : list (nat * list sdata)) : list total :=
  flat_map (fun x => flat_map (fun o => map (fun p => mkTot (fst x) (o_meter o) (o_name o) (fst p) (snd p))
                                            (sort_by _ point_ltb (md_points (o_md o))))
                              (sort_by _ sdata_ltb (snd x))) outs.

Definition print_total (t : total) : list tok :=
  [tag ";"; tnat (t_reader t); tnat (t_meter t); TB (t_name t)] ++ print_key (t_key t) ++ [TZ (t_sum t)].
Definition print_totals (ts : list total) : list tok := tag "F" :: TZ 1 :: flat_map print_total ts.

Definition parse_total (l : list tok) : option total :=
  match l with
  | TZ r :: TZ m :: TB name :: rest =>
      if (0 <=? r) && (0 <=? m) then
        option_map (fun p => mkTot (Z.to_nat r) (Z.to_nat m) name (fst p) (snd p)) (parse_point rest)
      else None
  | _ => None
  end.
Definition parse_totals (l : list tok) : option (bool * list total) :=
  match split_toks ";" l with
  | [t; TZ f] :: ts => if is_tag "F" t then option_map (fun x => (f =? 1, x)) (all_some (map parse_total ts)) else None
  | _ => None
  end.

(* ------------------------------------------------------------------------------------------------ entry points *)
(* ------------------------------------------------------------------------------------------------ scheduled races *)
Definition thread_adds (ths : list (list op)) : list op :=
  filter (fun o => match o with OAdd _ _ _ => true | _ => false end) (concat ths).

(* the script can be executed, measurements are non-negative (the SPEC's window bounds rely on it) and a reader is
   collected by at most one thread *)
Definition srace_wf (c : config) (ns : list op) (ths : list (list op)) : bool :=
  case_wf c (race_ops c ns (thread_adds ths)) &&
  forallb (fun o => match o with OAdd _ v _ => (0 <=? v) && (v <? 2 ^ 62) | OCol r => Nat.ltb r (nreaders c) | ONew _ _ _ => false end)
          (concat ths) &&
  forallb (fun r => Nat.leb (length (filter (fun th => existsb (fun o => match o with OCol r' => Nat.eqb r r' | _ => false end) th) ths)) 1)
          (seq 0 (nreaders c)).

(* the shim's log: "<thread> <words>" entries.  xchg <obj> 1 0 is a successful lock(), st <obj> 0 an unlock(); failed
   attempts, loads, yields and sleeps are spinning *)
Inductive obj := ObjA (h : nat) | ObjT (h : nat) | ObjM (m : nat) | ObjG | ObjOther.
Inductive raw :=
| RwLock (o : obj) | RwUnlock (o : obj)
| RwAC (i : nat) | RwAR (i : nat) | RwCC (i : nat)
| RwCR (i r : nat) (tb ta : Z) (outs : list sdata)
| RwNoise.

Fixpoint dec_of (acc : nat) (l : bytes) : option nat :=
  match l with
  | [] => Some acc
  | b :: l' => if isdigit b then dec_of (10 * acc + N.to_nat (b2n b - 48)) l' else None
  end.
Definition parse_obj (name : bytes) : obj :=
  match name with
  | c :: d :: rest =>
      match dec_of 0 (d :: rest) with
      | Some k => if Byte.eqb c x41 then ObjA k else if Byte.eqb c x54 then ObjT k else if Byte.eqb c x4d then ObjM k else ObjOther
      | None => ObjOther
      end
  | [c] => if Byte.eqb c x47 then ObjG else ObjOther
  | [] => ObjOther
  end.

Definition parse_raw (l : list tok) : option (Z * raw) :=
  match split_toks "/" l with
  | (TZ t :: w :: rest) :: mds =>
      if is_tag "CR" w then
        match rest with
        | [TZ i; TZ r; TZ tb; TZ ta] =>
            if (0 <=? i) && (0 <=? r)
            then option_map (fun o => (t, RwCR (Z.to_nat i) (Z.to_nat r) tb ta o)) (all_some (map parse_sdata mds))
            else None
        | _ => None
        end
      else match mds with
           | [] =>
               match rest with
               | [TZ i] =>
                   if 0 <=? i then
                     if is_tag "AC" w then Some (t, RwAC (Z.to_nat i))
                     else if is_tag "AR" w then Some (t, RwAR (Z.to_nat i))
                     else if is_tag "CC" w then Some (t, RwCC (Z.to_nat i))
                     else Some (t, RwNoise)
                   else Some (t, RwNoise)
               | [TT name; TZ d; TZ old] =>
                   if is_tag "xchg" w && (d =? 1) && (old =? 0) then Some (t, RwLock (parse_obj name)) else Some (t, RwNoise)
               | [TT name; TZ d] =>
                   if is_tag "st" w && (d =? 0) then Some (t, RwUnlock (parse_obj name)) else Some (t, RwNoise)
               | _ => Some (t, RwNoise)
               end
           | _ => None
           end
  | _ => None
  end.
(* times are made relative to the SDK start time (0 in the model) *)
Definition shift_sdata (sdk : Z) (o : sdata) : sdata :=
  mkSData (o_meter o) (o_name o) (o_kind o)
          (mkMD (md_temp (o_md o)) (md_start (o_md o) - sdk) (md_end (o_md o) - sdk) (md_points (o_md o))).
Definition shift_raw (sdk : Z) (x : Z * raw) : Z * raw :=
  match snd x with
  | RwCR i r tb ta outs => (fst x, RwCR i r (tb - sdk) (ta - sdk) (map (shift_sdata sdk) outs))
  | _ => x
  end.
Definition parse_trace (l : list tok) : option (Z * list (Z * raw)) :=
  match split_toks ";" l with
  | [t; TZ sdk] :: evs =>
      if is_tag "S" t then option_map (fun x => (0, map (shift_raw sdk) x)) (all_some (map parse_raw evs)) else None
  | _ => None
  end.

(* threads are numbered 0 .. T-2 in the order of the script; the controller (-1), which makes the final collections, is T-1 *)
Definition tid_of (nth : nat) (t : Z) : nat := if t <? 0 then nth else Z.to_nat t.
Definition thread_op (ths : list (list op)) (t i : nat) : option op :=
  if Nat.eqb t (length ths) then Some (OCol i) else nth_error (nth t ths []) i.

(* the call/return trace C06/SpecSched.v is evaluated on *)
Definition tev_of (ths : list (list op)) (tr : list (Z * raw)) : list tev :=
  flat_map (fun x => let t := tid_of (length ths) (fst x) in
                     match snd x with
                     | RwAC i => [EAC t i]
                     | RwAR i => [EAR t i]
                     | RwCC i => [ECC t i]
                     | RwCR i r tb ta outs => [ECR t i r tb ta outs]
                     | _ => []
                     end) tr.

(* ------------------------------------------------------------------------------------------------ the acceptor's view *)
(* the events of C06/Lts.v for the storage behind handle h (meter m, kind k, stream name sn), read off the shim's log.
   [cur] says, per thread, which operation of the script it is executing *)
Definition next_ts (t : Z) (m : nat) (sn : bytes) (rest : list (Z * raw)) : Z :=
  match find (fun x => (fst x =? t) && match snd x with RwCR _ _ _ _ _ => true | _ => false end) rest with
  | Some (_, RwCR _ _ _ ta outs) => match stream_md outs m sn with Some d => md_end d | None => ta end
  | _ => 0
  end.

(* one log entry: the event(s) it is for this storage and the operation the thread is executing afterwards *)
Definition lts_event1 (ths : list (list op)) (h m : nat) (k : ikind) (sn : bytes) (cur : nat -> option op)
                      (tz : Z) (e : raw) (rest : list (Z * raw)) : list (nat * ev akey) * (nat -> option op) :=
  let t := tid_of (length ths) tz in
  let mine := match cur t with
              | Some (OAdd h' v a) => if Nat.eqb h' h then match api_value k v with Some v' => Some (canon a, v') | None => None end else None
              | _ => None
              end in
  let reader := match cur t with Some (OCol r) => Some r | _ => None end in
  match e with
  | RwAC i | RwCC i =>
      let o := thread_op ths t i in
      (match o with
       | Some (OAdd h' v a) =>
           if Nat.eqb h' h then match api_value k v with Some v' => [(t, EAddCall (canon a) v')] | None => [] end else []
       | Some (OCol r) => [(t, EColCall r)]
       | _ => []
       end, upd cur t o)
  | RwAR _ => (match mine with Some (key, v') => [(t, EAddRet key v')] | None => [] end, upd cur t None)
  | RwCR _ r _ _ outs => ([(t, EColRet r (stream_md outs m sn))], upd cur t None)
  | RwLock o =>
      (match o, mine, reader with
       | ObjA h', Some _, _ => if Nat.eqb h' h then [(t, EALock)] else [(t, EOther)]
       | ObjA h', None, Some r => if Nat.eqb h' h then [(t, ECLockA r)] else [(t, EOther)]
       | ObjT h', _, Some r => if Nat.eqb h' h then [(t, ECLockT r)] else [(t, EOther)]
       | ObjM m', _, Some r => if Nat.eqb m' m then [(t, ECLockM r)] else [(t, EOther)]
       | _, _, _ => [(t, EOther)]
       end, cur)
  | RwUnlock o =>
      (match o, mine, reader with
       | ObjA h', Some (key, v'), _ => if Nat.eqb h' h then [(t, EAUnlock key v')] else []
       | ObjA h', None, Some r => if Nat.eqb h' h then [(t, ECUnlockA r (next_ts tz m sn rest))] else []
       | ObjT h', _, Some r => if Nat.eqb h' h then [(t, ECUnlockT r)] else []
       | ObjM m', _, Some r => if Nat.eqb m' m then [(t, ECUnlockM r)] else []
       | _, _, _ => []
       end, cur)
  | RwNoise => ([], cur)
  end.

Fixpoint lts_events (ths : list (list op)) (h m : nat) (k : ikind) (sn : bytes) (cur : nat -> option op)
                    (tr : list (Z * raw)) : list (nat * ev akey) :=
  match tr with
  | [] => []
  | (tz, e) :: rest =>
      let '(evs, cur') := lts_event1 ths h m k sn cur tz e rest in
      evs ++ lts_events ths h m k sn cur' rest
  end.

(* what the acceptor's outputs amount to for one reader: the merge of its delta points / its last cumulative table *)
Definition reader_table (c : config) (r : nat) (outs : list (nat * Z * option amdata)) : atable :=
  fold_left (fun acc x =>
               let '(r', _, o) := x in
               if Nat.eqb r r' then
                 match o with
                 | Some d => if is_delta (temp_of c r) then tmerge akey akey_eqb acc (md_points d) else md_points d
                 | None => acc
                 end
               else acc) outs [].

(* run the acceptor of every storage over the trace (strict: the collector holds Meter::storage_lock_ throughout);
   the totals it derives, or where it stops *)
Fixpoint accept_storages (c : config) (ths : list (list op)) (tr : list (Z * raw)) (h : nat)
                         (hs : list (Z * nat * ikind * bytes)) : list (nat * bytes * ikind * list (nat * Z * option amdata)) + list tok :=
  match hs with
  | [] => inl []
  | (_, m, k, name) :: hs' =>
      let sn := stream_name name (hd [] (find_views (c_views c) m k name)) in
      let evs := lts_events ths h m k sn (fun _ => None) tr in
      match lrun_fwd akey akey_eqb (is_mono k) (nreaders c) (temp_of c) (S (length ths)) true
                     (linit akey) 0 evs with
      | inl s =>
          match accept_storages c ths tr (S h) hs' with
          | inl rest => inl ((m, sn, k, l_outs akey s) :: rest)
          | inr e => inr e
          end
      | inr i => inr [tag "REJECT"; tnat h; tnat i]
      end
  end.

Definition lts_totals (c : config) (ns : list op) (ths : list (list op)) (tr : list (Z * raw)) : list tok :=
  match accept_storages c ths tr 0 (news (timed ns)) with
  | inr e => e
  | inl sts =>
      print_totals (totals_of (map (fun r => (r, flat_map (fun x => let '(m, sn, k, outs) := x in
                                                               match reader_table c r outs with
                                                               | [] => []
                                                               | t => [mkSData m sn k (mkMD (temp_of c r) 0 0 t)]
                                                               end) sts))
                                   (seq 0 (nreaders c))))
  end.

(* PURITY <config> <threads> <rounds> <iters>: the probe's observation is PURE, or what went wrong *)
Definition spec_purity_ok (obs : list tok) : list tok :=
  match obs with
  | [t] => if is_tag "PURE" t then [] else fail "obs:unparsable"
  | t :: _ => if is_tag "RACE" t then fail "purity:data_race"
              else if is_tag "DIFFERS" t then fail "purity:result_differs"
              else if is_tag "HARNESSRACE" t then fail "harness:probe_race"
              else if is_tag "HANG" t then fail "purity:hang"
              else fail "purity:probe_crashed"
  | [] => fail "obs:unparsable"
  end.

Definition run_model (l : list tok) : list tok :=
  match parse_case l with
  | Some (CSeq c ops) => if case_wf c ops then print_obs (run c ops) else bad_case
  | Some (CRace c ns adds) =>
      if case_wf c (race_ops c ns adds) then print_totals (totals_of (run c (race_ops c ns adds))) else bad_case
  | Some (CSRace c ns ths) =>
      (* the order-independent part: what every reader must have in total once everything has quiesced
      (the acceptor of C06/Lts.v on the implementation's trace derives them; without a trace: the sequential run) *)
      if srace_wf c ns ths then
        match snd (split_trace l) with
        | [] => print_totals (totals_of (run c (race_ops c ns (thread_adds ths))))
        | trc => match parse_trace trc with
                 | Some (_, tr) => lts_totals c ns ths tr
                 | None => [tag "UNPARSABLE_TRACE"]
                 end
        end
      else bad_case
  | Some CPur => [tag "PURE"]
  | None => bad_case
  end.

Definition has_col (l : list op) : bool := existsb (fun o => match o with OCol _ => true | _ => false end) l.
Definition has_add (l : list op) : bool := existsb (fun o => match o with OAdd _ _ _ => true | _ => false end) l.

Definition shape_tag (c : config) (ops : list op) : String.string :=
  let ss := streams c (timed ops) in
  if existsb ss_dup ss then "dup" else if existsb ss_multi ss then "views2" else "plain".
Definition path_tag (c : config) : String.string :=
  match c_temps c with
  | [Delta] => "fast"
  | [Cumulative] => "onecum"
  | l => if forallb is_delta l then "multidelta" else if forallb (fun t => negb (is_delta t)) l then "multicum" else "mixed"
  end.

Definition run_tag (l : list tok) : list tok :=
  match parse_case l with
  | Some (CSeq c ops) =>
      if negb (case_wf c ops) then bad_case
      else if negb (has_col ops && has_add ops) then [tag "seq_trivial"]
      else [TT (bs "seq_" ++ bs (path_tag c) ++ bs "_" ++ bs (shape_tag c ops))]
  | Some (CRace c ns adds) =>
      if negb (case_wf c (race_ops c ns adds)) then bad_case
      else [TT (bs "race_" ++ bs (path_tag c))]
  | Some (CSRace c ns ths) =>
      if negb (srace_wf c ns ths) then bad_case
      else [TT (bs "srace_" ++ bs (path_tag c))]
  | Some CPur => [tag "purity_probe"]
  | None => bad_case
  end.

Definition run_spec (l obs : list tok) : list tok :=
  match parse_case l with
  | Some (CSeq c ops) =>
      if case_wf c ops then
        match parse_obs obs with Some o => spec_run c ops o | None => fail "obs:unparsable" end
      else bad_case
  | Some (CRace c ns adds) =>
      if case_wf c (race_ops c ns adds) then
        match parse_totals obs with
        | Some (f, ts) => spec_totals c (ns ++ adds) f ts
        | None => fail "obs:unparsable"
        end
      else bad_case
  | Some (CSRace c ns ths) =>
      if srace_wf c ns ths then
        match parse_totals obs with
        | Some (f, ts) => spec_totals c (ns ++ thread_adds ths) f ts
        | None => fail "obs:unparsable"
        end ++
        match parse_trace (snd (split_trace l)) with
        | Some (sdk, tr) => spec_sched c ns ths sdk (tev_of ths tr)
        | None => fail "obs:unparsable_trace"
        end
      else bad_case
  | Some CPur => spec_purity_ok obs
  | None => bad_case
  end.
