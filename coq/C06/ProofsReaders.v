(* C06 proofs, part 3: what every reader of one storage is given, for every history of Add / Collect operations
   (any number of readers, any interleaving): the clauses of the property at the level of one stream. *)
From V Require Import C06.Model C06.ProofsTable C06.ProofsStorage.
From Coq Require Import Lia ZifyBool ZifyNat.
Local Open Scope Z_scope.

Section Readers.
  Variable K : Type.
  Variable keqb : K -> K -> bool.
  Hypothesis keqb_ok : forall a b, keqb a b = true <-> a = b.
  Variable mono : bool.
  Variable n : nat.
  Variable temps : nat -> temporality.

  Notation sop := (sop K).
  Notation hsum := (hsum K keqb).
  Notation tget := (tget K keqb).
  Notation adds_all := (adds_all K mono).
  Notation adds_since := (adds_since K mono).
  Notation hist_wf := (hist_wf K n).
  Notation out_at := (out_at K keqb mono n temps).
  Notation out_ok := (out_ok K keqb mono n temps).
  Notation present := (present K mono n temps).
  Notation prev_ts := (prev_ts K mono n temps).
  Notation slow := (slow n temps).

  (* the value a MetricData carries for an attribute set (a missing point, or no MetricData, counts as 0) *)
  Definition pointv (o : option (@mdata K)) (k : K) : Z :=
    match o with Some md => oz (tget k (md_points md)) | None => 0 end.
  (* the sum of the measurements of an attribute set *)
  Definition sumv (k : K) (l : list (K * Z)) : Z := oz (hsum k l).

  Lemma sumv_app : forall k a b, sumv k (a ++ b) = sumv k a + sumv k b.
  Proof. intros. unfold sumv. rewrite hsum_app, oz_oplus. reflexivity. Qed.

  Lemma delta_fast_or_slow : forall r, (r < n)%nat -> slow = false -> is_delta (temps r) = true.
  Proof.
    intros r Hr Hs. unfold ProofsStorage.slow in Hs. apply negb_false_iff in Hs. apply andb_prop in Hs as [Hn Hd].
    apply Nat.eqb_eq in Hn. assert (r = 0)%nat by lia. subst. exact Hd.
  Qed.

  Lemma not_present_no_adds : forall r hr, (r < n)%nat -> present r hr = false -> adds_since r hr = [].
  Proof.
    intros r hr Hr H. unfold ProofsStorage.present in H. destruct slow.
    - apply not_nil_false in H. apply adds_since_nil; auto.
    - apply not_nil_false in H. exact H.
  Qed.

  (* ---------------------------------------------------------------- delta: the point is the sum of the reader's interval *)
  Theorem delta_point_is_interval_sum : forall hr r ts k,
      hist_wf hr -> (r < n)%nat -> temps r = Delta ->
      pointv (out_at hr r ts) k = sumv k (adds_since r hr).
  Proof.
    intros hr r ts k Hw Hr Hd. pose proof (out_at_ok K keqb keqb_ok mono n temps hr r ts Hw Hr) as H.
    unfold ProofsStorage.out_ok in H. destruct (present r hr) eqn:P.
    - destruct H as [md [E [_ [_ [_ [Hwf Hs]]]]]]. rewrite E. cbn. unfold sumv.
      rewrite (twf_tget_hsum K keqb keqb_ok) by auto. rewrite Hs. unfold exp_adds. rewrite Hd. reflexivity.
    - rewrite H. cbn. rewrite (not_present_no_adds r hr Hr P). reflexivity.
  Qed.

  (* ---------------------------------------------------------------- cumulative: the point is the running total *)
  Theorem cumulative_point_is_running_total : forall hr r ts k,
      hist_wf hr -> (r < n)%nat -> temps r = Cumulative ->
      pointv (out_at hr r ts) k = sumv k (adds_all hr).
  Proof.
    intros hr r ts k Hw Hr Hd. pose proof (out_at_ok K keqb keqb_ok mono n temps hr r ts Hw Hr) as H.
    unfold ProofsStorage.out_ok in H. destruct (present r hr) eqn:P.
    - destruct H as [md [E [_ [_ [_ [Hwf Hs]]]]]]. rewrite E. cbn. unfold sumv.
      rewrite (twf_tget_hsum K keqb keqb_ok) by auto. rewrite Hs. unfold exp_adds. rewrite Hd. reflexivity.
    - rewrite H. cbn. unfold ProofsStorage.present in P. destruct slow eqn:S.
      + apply not_nil_false in P. rewrite P. reflexivity.
      + pose proof (delta_fast_or_slow r Hr S) as C. rewrite Hd in C. discriminate.
  Qed.

  (* a cumulative reader is given a MetricData as soon as anything was ever recorded *)
  Theorem cumulative_reports_once_recorded : forall hr r ts,
      hist_wf hr -> (r < n)%nat -> temps r = Cumulative -> adds_all hr <> [] -> out_at hr r ts <> None.
  Proof.
    intros hr r ts Hw Hr Hd Hne. pose proof (out_at_ok K keqb keqb_ok mono n temps hr r ts Hw Hr) as H.
    unfold ProofsStorage.out_ok, ProofsStorage.present in H. destruct slow eqn:S.
    - apply not_nil_true in Hne. rewrite Hne in H. destruct H as [md [E _]]. congruence.
    - pose proof (delta_fast_or_slow r Hr S) as C. rewrite Hd in C. discriminate.
  Qed.

  (* ---------------------------------------------------------------- the outputs of a whole history *)
  Definition outs (hr : list sop) : list (nat * Z * option (@mdata K)) :=
    souts K keqb mono n temps (stor0 K) (rev hr).

  Lemma souts_app : forall l s o,
      souts K keqb mono n temps s (l ++ [o]) =
      souts K keqb mono n temps s l ++
      match o with
      | SCol r ts => [(r, ts, snd (sstep K keqb mono n temps (srun K keqb mono n temps s l) o))]
      | SAdd _ _ => []
      end.
  Proof.
    induction l as [|x l IH]; intros s o.
    - cbn [app souts srun]. destruct (sstep K keqb mono n temps s o) as [s' out] eqn:E. destruct o; cbn; auto.
    - cbn [app souts srun]. destruct (sstep K keqb mono n temps s x) as [s' out] eqn:E. cbn [fst].
      destruct x; rewrite IH; reflexivity.
  Qed.

  Lemma outs_add : forall hr k v, outs (SAdd k v :: hr) = outs hr.
  Proof. intros. unfold outs. cbn [rev]. rewrite souts_app, app_nil_r. reflexivity. Qed.
  Lemma outs_col : forall hr r ts, outs (SCol r ts :: hr) = outs hr ++ [(r, ts, out_at hr r ts)].
  Proof. intros. unfold outs. cbn [rev]. rewrite souts_app. reflexivity. Qed.

  (* ---------------------------------------------------------------- delta conservation *)
  (* everything reader r has received so far for attribute set k *)
  Fixpoint recv (r : nat) (k : K) (l : list (nat * Z * option (@mdata K))) : Z :=
    match l with
    | [] => 0
    | x :: l' => (if Nat.eqb (fst (fst x)) r then pointv (snd x) k else 0) + recv r k l'
    end.

  Lemma recv_app : forall r k a b, recv r k (a ++ b) = recv r k a + recv r k b.
  Proof. induction a as [|x a IH]; intros; cbn; auto. rewrite IH. lia. Qed.

  Theorem delta_conservation_general : forall hr r k,
      hist_wf hr -> (r < n)%nat -> temps r = Delta ->
      recv r k (outs hr) + sumv k (adds_since r hr) = sumv k (adds_all hr).
  Proof.
    induction hr as [|[k0 v|r' ts] t IH]; intros r k Hw Hr Hd.
    - reflexivity.
    - inversion Hw; subst. rewrite outs_add. cbn [ProofsStorage.adds_since ProofsStorage.adds_all].
      change ((k0, av mono v) :: adds_since r t) with ([(k0, av mono v)] ++ adds_since r t).
      change ((k0, av mono v) :: adds_all t) with ([(k0, av mono v)] ++ adds_all t).
      rewrite !sumv_app. specialize (IH r k H2 Hr Hd). lia.
    - inversion Hw; subst. rewrite outs_col, recv_app. cbn [ProofsStorage.adds_since ProofsStorage.adds_all recv fst snd].
      specialize (IH r k H2 Hr Hd). destruct (Nat.eqb r' r) eqn:E.
      + apply Nat.eqb_eq in E; subst r'. rewrite delta_point_is_interval_sum by auto. cbn. lia.
      + lia.
  Qed.

  (* right after a collection by a delta reader, the points it has received add up to everything recorded *)
  Theorem delta_conservation : forall hr r ts k,
      hist_wf hr -> (r < n)%nat -> temps r = Delta ->
      recv r k (outs (SCol r ts :: hr)) = sumv k (adds_all hr).
  Proof.
    intros hr r ts k Hw Hr Hd.
    assert (Hw' : hist_wf (SCol r ts :: hr)) by (constructor; auto).
    pose proof (delta_conservation_general (SCol r ts :: hr) r k Hw' Hr Hd) as H.
    cbn [ProofsStorage.adds_since ProofsStorage.adds_all] in H. rewrite Nat.eqb_refl in H.
    replace (sumv k []) with 0 in H by reflexivity. lia.
  Qed.

  (* ---------------------------------------------------------------- each measurement in exactly one interval *)
  (* the measurements between reader r's successive collections, newest interval first *)
  Fixpoint intervals (r : nat) (hr : list sop) : list (list (K * Z)) :=
    match hr with
    | [] => []
    | SAdd _ _ :: t => intervals r t
    | SCol r' _ :: t => if Nat.eqb r' r then adds_since r t :: intervals r t else intervals r t
    end.

  (* the intervals of a reader, and what it has not collected yet, partition the measurements (as a list: no
     measurement is in two intervals, none is missing) *)
  Theorem intervals_partition : forall r hr, adds_all hr = adds_since r hr ++ concat (intervals r hr).
  Proof.
    induction hr as [|[k v|r' ts] t IH]; cbn; auto.
    - f_equal. exact IH.
    - destruct (Nat.eqb r' r); cbn; auto.
  Qed.

  (* the points a delta reader received, collection by collection, newest first *)
  Fixpoint delta_points (r : nat) (k : K) (hr : list sop) : list Z :=
    match hr with
    | [] => []
    | SAdd _ _ :: t => delta_points r k t
    | SCol r' ts :: t => if Nat.eqb r' r then pointv (out_at t r ts) k :: delta_points r k t else delta_points r k t
    end.

  Theorem each_measurement_in_exactly_one_interval : forall hr r k,
      hist_wf hr -> (r < n)%nat -> temps r = Delta ->
      delta_points r k hr = map (sumv k) (intervals r hr) /\
      adds_all hr = adds_since r hr ++ concat (intervals r hr).
  Proof.
    intros hr r k Hw Hr Hd. split; [|apply intervals_partition].
    induction hr as [|[k0 v|r' ts] t IH]; cbn; auto.
    - inversion Hw; subst. auto.
    - inversion Hw; subst. destruct (Nat.eqb r' r) eqn:E; auto. cbn. f_equal; auto.
      apply delta_point_is_interval_sum; auto.
  Qed.

  (* ---------------------------------------------------------------- timestamps *)
  (* the end of the last MetricData reader r was given (SDK start if none) *)
  Definition last_end (r : nat) (l : list (nat * Z * option (@mdata K))) : Z :=
    fold_left (fun acc x => match snd x with
                            | Some md => if Nat.eqb (fst (fst x)) r then md_end md else acc
                            | None => acc
                            end) l sdk_start.

  Lemma prev_ts_last_end : forall hr r, hist_wf hr -> (r < n)%nat -> prev_ts r hr = last_end r (outs hr).
  Proof.
    induction hr as [|[k v|r' ts] t IH]; intros r Hw Hr.
    - reflexivity.
    - inversion Hw; subst. rewrite outs_add. cbn. auto.
    - inversion Hw; subst. rewrite outs_col. unfold last_end. rewrite fold_left_app. fold (last_end r (outs t)).
      cbn [fold_left fst snd ProofsStorage.prev_ts]. rewrite <- IH by auto.
      pose proof (out_at_ok K keqb keqb_ok mono n temps t r' ts H2 H1) as H.
      unfold ProofsStorage.out_ok in H. destruct (Nat.eqb r' r) eqn:E.
      + apply Nat.eqb_eq in E; subst r'. destruct (present r t).
        * destruct H as [md [Eo [_ [_ [He _]]]]]. rewrite Eo, He. reflexivity.
        * rewrite H. reflexivity.
      + destruct (out_at t r' ts); reflexivity.
  Qed.

  Theorem delta_intervals_abut : forall hr r ts md,
      hist_wf hr -> (r < n)%nat -> temps r = Delta -> out_at hr r ts = Some md ->
      md_start md = last_end r (outs hr) /\ md_end md = ts.
  Proof.
    intros hr r ts md Hw Hr Hd E. pose proof (out_at_ok K keqb keqb_ok mono n temps hr r ts Hw Hr) as H.
    unfold ProofsStorage.out_ok in H. destruct (present r hr).
    - destruct H as [md' [E' [_ [Hs [He _]]]]]. rewrite E in E'. inversion E'; subst md'.
      split; auto. rewrite Hs. unfold exp_start. rewrite Hd. cbn. apply prev_ts_last_end; auto.
    - congruence.
  Qed.

  Theorem cumulative_starts_at_sdk_start : forall hr r ts md,
      hist_wf hr -> (r < n)%nat -> temps r = Cumulative -> out_at hr r ts = Some md ->
      md_start md = sdk_start /\ md_end md = ts /\ md_temp md = Cumulative.
  Proof.
    intros hr r ts md Hw Hr Hd E. pose proof (out_at_ok K keqb keqb_ok mono n temps hr r ts Hw Hr) as H.
    unfold ProofsStorage.out_ok in H. destruct (present r hr).
    - destruct H as [md' [E' [Ht [Hs [He _]]]]]. rewrite E in E'. inversion E'; subst md'.
      repeat split; auto; try congruence. rewrite Hs. unfold exp_start. rewrite Hd. reflexivity.
    - congruence.
  Qed.

  (* ---------------------------------------------------------------- readers are independent *)
  (* the part of a history reader r is concerned with: the measurements and its own collections *)
  Definition own (r : nat) (hr : list sop) : list sop :=
    filter (fun o => match o with SAdd _ _ => true | SCol r' _ => Nat.eqb r' r end) hr.

  Definition md_equiv (a b : option (@mdata K)) : Prop :=
    match a, b with
    | None, None => True
    | Some x, Some y => md_temp x = md_temp y /\ md_start x = md_start y /\ md_end x = md_end y /\
                        forall k, tget k (md_points x) = tget k (md_points y)
    | _, _ => False
    end.

  Lemma own_add : forall r k v t, own r (SAdd k v :: t) = SAdd k v :: own r t.
  Proof. reflexivity. Qed.
  Lemma own_col : forall r r' ts t, own r (SCol r' ts :: t) = if Nat.eqb r' r then SCol r' ts :: own r t else own r t.
  Proof. intros. unfold own. cbn [filter]. destruct (Nat.eqb r' r); reflexivity. Qed.

  Lemma own_adds_all : forall r hr, adds_all (own r hr) = adds_all hr.
  Proof.
    induction hr as [|[k v|r' ts] t IH]; [reflexivity| |].
    - rewrite own_add. cbn [ProofsStorage.adds_all]. f_equal; exact IH.
    - rewrite own_col. destruct (Nat.eqb r' r); cbn [ProofsStorage.adds_all]; auto.
  Qed.
  Lemma own_adds_since : forall r hr, adds_since r (own r hr) = adds_since r hr.
  Proof.
    induction hr as [|[k v|r' ts] t IH]; [reflexivity| |].
    - rewrite own_add. cbn [ProofsStorage.adds_since]. f_equal; exact IH.
    - rewrite own_col. destruct (Nat.eqb r' r) eqn:E; cbn [ProofsStorage.adds_since]; rewrite ?E; auto.
  Qed.
  Lemma own_present : forall r hr, present r (own r hr) = present r hr.
  Proof. intros. unfold ProofsStorage.present. rewrite own_adds_all, own_adds_since. reflexivity. Qed.
  Lemma own_prev_ts : forall r hr, prev_ts r (own r hr) = prev_ts r hr.
  Proof.
    induction hr as [|[k v|r' ts] t IH]; [reflexivity| |].
    - rewrite own_add. cbn [ProofsStorage.prev_ts]. exact IH.
    - rewrite own_col. destruct (Nat.eqb r' r) eqn:E; cbn [ProofsStorage.prev_ts]; rewrite ?E, ?own_present, ?IH; auto.
  Qed.
  Lemma own_wf : forall r hr, hist_wf hr -> hist_wf (own r hr).
  Proof.
    intros r hr H. unfold own. unfold ProofsStorage.hist_wf in *. rewrite Forall_forall in *. intros x Hx.
    apply filter_In in Hx. apply H; tauto.
  Qed.

  Lemma out_ok_own : forall r ts hr o, out_ok r ts (own r hr) o <-> out_ok r ts hr o.
  Proof.
    intros. unfold ProofsStorage.out_ok, exp_start, exp_adds.
    rewrite own_present, own_prev_ts, own_adds_all, own_adds_since. reflexivity.
  Qed.

  Lemma out_ok_unique : forall r ts hr a b, out_ok r ts hr a -> out_ok r ts hr b -> md_equiv a b.
  Proof.
    intros r ts hr a b Ha Hb. unfold ProofsStorage.out_ok in *. destruct (present r hr).
    - destruct Ha as [x [Ea [A1 [A2 [A3 [A4 A5]]]]]]. destruct Hb as [y [Eb [B1 [B2 [B3 [B4 B5]]]]]]. subst a b. cbn.
      repeat split; try congruence. intros k. rewrite !(twf_tget_hsum K keqb keqb_ok) by auto. rewrite A5, B5. reflexivity.
    - subst; cbn; auto.
  Qed.

  (* what reader r is given depends on the measurements and on r's own collections only - not on whether or when any
     other reader collects *)
  Theorem readers_independent : forall hr hr' r ts,
      hist_wf hr -> hist_wf hr' -> (r < n)%nat -> own r hr = own r hr' ->
      md_equiv (out_at hr r ts) (out_at hr' r ts).
  Proof.
    intros hr hr' r ts Hw Hw' Hr E.
    pose proof (out_at_ok K keqb keqb_ok mono n temps hr r ts Hw Hr) as H1.
    pose proof (out_at_ok K keqb keqb_ok mono n temps hr' r ts Hw' Hr) as H2.
    apply out_ok_own in H1. apply out_ok_own in H2. rewrite E in H1. apply (out_ok_unique r ts (own r hr')); auto.
  Qed.

  Lemma own_idem : forall r hr, own r (own r hr) = own r hr.
  Proof.
    induction hr as [|[k v|r' ts] t IH]; [reflexivity| |].
    - rewrite !own_add. f_equal; exact IH.
    - rewrite own_col. destruct (Nat.eqb r' r) eqn:E; auto. rewrite own_col, E. f_equal; exact IH.
  Qed.

  Corollary readers_independent_alone : forall hr r ts,
      hist_wf hr -> (r < n)%nat -> md_equiv (out_at hr r ts) (out_at (own r hr) r ts).
  Proof.
    intros. apply readers_independent; auto using own_wf. symmetry; apply own_idem.
  Qed.
End Readers.
