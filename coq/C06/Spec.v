(* SPEC for C06, written over the history of API calls and independent of how the SDK stores anything:
   a measurement is (time, instrument, attribute set, value); a reader's collection at time i must be given, for every
   stream of every instrument and every attribute set,
     - delta:      the sum of the measurements made after the end of the reader's previous MetricData of that stream
                   (SDK start if there is none) and before i, in a MetricData that starts exactly there and ends at i;
     - cumulative: the sum of all measurements made before i, in a MetricData that starts at SDK start and ends at i.
   Times are logical: SDK start is 0 and the k-th operation of the script happens at time k.
   An instrument is a (meter, name); every handle created for it feeds it; it has one stream per view FindViews hands out
   (the default view's stream if none).  A missing point counts as 0; a missing MetricData as all points 0.
   Checkers return the failed clauses as "clause:feature" tags. *)
From V Require Export C06.Model.
Local Open Scope Z_scope.

(* what a measurement contributes: a counter takes non-negative values that fit the data model's int64 / double sum *)
Definition spec_value (k : ikind) (v : Z) : Z :=
  match k with
  | LongCounter => if v <? 2 ^ 63 then v else 0
  | DoubleCounter => if v <? 0 then 0 else v
  | LongUpDown | DoubleUpDown => v
  end.

Fixpoint timed_from (t : Z) (l : list op) : list (Z * op) :=
  match l with [] => [] | o :: l' => (t, o) :: timed_from (t + 1) l' end.
Definition timed (l : list op) : list (Z * op) := timed_from 1 l.

(* instrument creations in order: the h-th one is what handle h was created for *)
Fixpoint news (l : list (Z * op)) : list (Z * nat * ikind * bytes) :=
  match l with
  | [] => []
  | (t, ONew m k name) :: l' => (t, m, k, name) :: news l'
  | _ :: l' => news l'
  end.

Record meas := mkMeas { ms_time : Z; ms_meter : nat; ms_iname : bytes; ms_key : akey; ms_val : Z }.

Fixpoint measurements (hs : list (Z * nat * ikind * bytes)) (l : list (Z * op)) : list meas :=
  match l with
  | [] => []
  | (t, OAdd h v attrs) :: l' =>
      match nth_error hs h with
      | Some (_, m, k, name) => mkMeas t m name (canon attrs) (spec_value k v) :: measurements hs l'
      | None => measurements hs l'
      end
  | _ :: l' => measurements hs l'
  end.

Definition same_instr (m : nat) (name : bytes) (x : meas) : bool := Nat.eqb m (ms_meter x) && bytes_eqb name (ms_iname x).

(* sum of the measurements of instrument (m, name) with attribute set [key] made strictly between lo and hi *)
Definition msum (ms : list meas) (m : nat) (name : bytes) (key : akey) (lo hi : Z) : Z :=
  fold_right Z.add 0
    (map ms_val (filter (fun x => same_instr m name x && akey_eqb key (ms_key x) && (lo <? ms_time x) && (ms_time x <? hi)) ms)).

Definition mkeys (ms : list meas) (m : nat) (name : bytes) : list akey :=
  map ms_key (filter (same_instr m name) ms).

(* the streams the configuration asks for: one per view of every instrument, born when the instrument is first created *)
Record sstream := mkSS { ss_meter : nat; ss_iname : bytes; ss_kind : ikind; ss_name : bytes; ss_born : Z;
                         ss_dup : bool; ss_multi : bool }.

Definition same_new (m : nat) (name : bytes) (x : Z * nat * ikind * bytes) : bool :=
  let '(_, m', _, n') := x in Nat.eqb m m' && bytes_eqb name n'.

Fixpoint streams_of (c : config) (all seen : list (Z * nat * ikind * bytes)) (hs : list (Z * nat * ikind * bytes)) : list sstream :=
  match hs with
  | [] => []
  | (t, m, k, name) :: hs' =>
      if existsb (same_new m name) seen then streams_of c all ((t, m, k, name) :: seen) hs'
      else
        let vs := find_views (c_views c) m k name in
        map (fun vn => mkSS m name k (stream_name name vn) t
                            (Nat.ltb 1 (length (filter (same_new m name) all))) (Nat.ltb 1 (length vs))) vs
        ++ streams_of c all ((t, m, k, name) :: seen) hs'
  end.
Definition streams (c : config) (l : list (Z * op)) : list sstream := streams_of c (news l) [] (news l).

Definition is_stream (m : nat) (name : bytes) (o : sdata) : bool := Nat.eqb m (o_meter o) && bytes_eqb name (o_name o).

(* end of the previous MetricData this reader was given for the stream; [prev] holds the earlier collections, newest first *)
Fixpoint prev_end (prev : list (nat * list sdata)) (r : nat) (m : nat) (name : bytes) : Z :=
  match prev with
  | [] => 0
  | (r', outs) :: prev' =>
      if Nat.eqb r r' then
        match filter (is_stream m name) outs with
        | o :: _ => md_end (o_md o)
        | [] => prev_end prev' r m name
        end
      else prev_end prev' r m name
  end.

Definition point (md : amdata) (key : akey) : Z := match tget akey akey_eqb key (md_points md) with Some x => x | None => 0 end.

(* open findings are told apart from everything else by the configuration that triggers them *)
Definition retag (s : sstream) (t : String.string) : String.string :=
  if ss_dup s then "every_handle_counts:duplicate_instrument"%string
  else if ss_multi s then "every_view_stream_collected:two_views"%string
  else t.

Definition spec_stream (c : config) (ms : list meas) (prev : list (nat * list sdata)) (i : Z) (r : nat)
                       (outs : list sdata) (s : sstream) : list tok :=
  if negb (ss_born s <? i) then []
  else
    let m := ss_meter s in
    let iname := ss_iname s in
    let tp := temp_of c r in
    let lo := if is_delta tp then prev_end prev r m (ss_name s) else 0 in
    let keys := mkeys ms m iname in
    match filter (is_stream m (ss_name s)) outs with
    | [] =>
        check (forallb (fun k => msum ms m iname k lo i =? 0) keys)
              (retag s (if is_delta tp then "delta_conservation:stream_missing" else "cumulative_is_running_total:stream_missing"))
    | [o] =>
        let md := o_md o in
        check (kind_eqb (o_kind o) (ss_kind s)) (retag s "point_kind:mismatch") ++
        check (temp_eqb (md_temp md) tp) (retag s "temporality:mismatch") ++
        check (md_end md =? i) (retag s "interval_end:not_collection_time") ++
        (if is_delta tp
         then check (md_start md =? lo)
                    (retag s (if lo =? 0 then "delta_intervals_abut:first_not_at_sdk_start" else "delta_intervals_abut:gap_or_overlap"))
         else check (md_start md =? 0) (retag s "cumulative_starts_at_sdk_start:later_start")) ++
        check (forallb (fun k => point md k =? msum ms m iname k lo i) (keys ++ map fst (md_points md)))
              (retag s (if is_delta tp then "each_measurement_in_exactly_one_interval:wrong_sum"
                        else "cumulative_is_running_total:wrong_sum"))
    | _ => fail (retag s "stream_once:duplicate_stream")
    end.

(* nothing but the configured streams is reported *)
Definition expected (ss : list sstream) (i : Z) (o : sdata) : bool :=
  existsb (fun s => (ss_born s <? i) && Nat.eqb (ss_meter s) (o_meter o) && bytes_eqb (ss_name s) (o_name o)) ss.

Definition spec_one (c : config) (ms : list meas) (ss : list sstream) (prev : list (nat * list sdata)) (i : Z) (r : nat)
                    (outs : list sdata) : list tok :=
  flat_map (spec_stream c ms prev i r outs) ss ++
  check (forallb (expected ss i) outs) "streams:unexpected_stream".

Fixpoint cols (l : list (Z * op)) : list (Z * nat) :=
  match l with
  | [] => []
  | (t, OCol r) :: l' => (t, r) :: cols l'
  | _ :: l' => cols l'
  end.

Fixpoint spec_cols (c : config) (ms : list meas) (ss : list sstream) (prev : list (nat * list sdata))
                   (cl : list (Z * nat)) (obs : list (nat * list sdata)) : list tok :=
  match cl, obs with
  | [], [] => []
  | (i, r) :: cl', (r', outs) :: obs' =>
      check (Nat.eqb r r') "obs:reader" ++ spec_one c ms ss prev i r outs ++ spec_cols c ms ss ((r', outs) :: prev) cl' obs'
  | _, _ => fail "obs:shape"
  end.

Fixpoint dedup (l : list tok) : list tok :=
  match l with
  | [] => []
  | t :: l' => if existsb (tok_eqb t) l' then dedup l' else t :: dedup l'
  end.

(* the whole check of one sequential history *)
Definition spec_run (c : config) (ops : list op) (obs : list (nat * list sdata)) : list tok :=
  let l := timed ops in
  dedup (spec_cols c (measurements (news l) l) (streams c l) [] (cols l) obs).

(* ------------------------------------------------------------------------------------------------ totals *)
(* the order-independent clause, used when recorder threads race collector threads: after everything has quiesced and
   every reader has collected once more, per reader, stream and attribute set: the delta points received add up to
   (the last cumulative point equals) everything that was recorded *)
Record total := mkTot { t_reader : nat; t_meter : nat; t_name : bytes; t_key : akey; t_sum : Z }.

Definition tot_lookup (ts : list total) (r m : nat) (name : bytes) (key : akey) : Z :=
  fold_right Z.add 0
    (map t_sum (filter (fun t => Nat.eqb r (t_reader t) && Nat.eqb m (t_meter t) && bytes_eqb name (t_name t) && akey_eqb key (t_key t)) ts)).

Definition spec_totals (c : config) (ops : list op) (flags_ok : bool) (ts : list total) : list tok :=
  let l := timed ops in
  let ms := measurements (news l) l in
  let ss := streams c l in
  let big := Z.of_nat (length ops) + 1 in
  check flags_ok "race:timestamps" ++
  dedup (flat_map (fun r =>
           flat_map (fun s =>
             check (forallb (fun k => tot_lookup ts r (ss_meter s) (ss_name s) k =? msum ms (ss_meter s) (ss_iname s) k 0 big)
                            (mkeys ms (ss_meter s) (ss_iname s)))
                   (retag s "totals_conserved_under_races:wrong_total")) ss)
         (seq 0 (nreaders c))) ++
  check (forallb (fun t => existsb (fun s => Nat.eqb (ss_meter s) (t_meter t) && bytes_eqb (ss_name s) (t_name t)) ss) ts)
        "streams:unexpected_stream".
