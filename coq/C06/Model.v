(* MODEL for C06: what the SDK *does* between Counter/UpDownCounter::Add and the MetricData handed to a reader.
     - LongCounter / DoubleCounter / LongUpDownCounter / DoubleUpDownCounter ::Add      (sdk/src/metrics/sync_instruments.cc)
     - SyncMultiMetricStorage::Record*                                                  (state/multi_metric_storage.h)
     - SyncMetricStorage::Record* / Collect                                             (state/sync_metric_storage.{h,cc})
     - Long/DoubleSumAggregation::Aggregate / Merge                                     (aggregation/sum_aggregation.cc)
     - TemporalMetricStorage::buildMetrics                                              (state/temporal_metric_storage.cc)
     - Meter::RegisterSyncMetricStorage / Meter::Collect, ViewRegistry::FindViews       (meter.cc, view/view_registry.h)
     - MetricCollector::Produce / MeterContext::ForEachMeter                            (state/metric_collector.cc)
   Values are integers (the generator drives integer-valued measurements only, so no rounding enters).  The cardinality
   limit (overflow series) is C08's subject and is not modelled: the statements assume fewer distinct attribute sets per
   stream than kAggregationCardinalityLimit - 1.  Defects of the code are reproduced, not repaired (F13, F14).
   Definitions only, no proofs. *)
From V Require Export Base.Bytes.
Local Open Scope Z_scope.

Definition is_nil {A} (l : list A) : bool := match l with [] => true | _ => false end.

(* ------------------------------------------------------------------------------------------------ temporality *)
Inductive temporality := Delta | Cumulative.
Definition is_delta (t : temporality) : bool := match t with Delta => true | Cumulative => false end.
Definition temp_eqb (a b : temporality) : bool := Bool.eqb (is_delta a) (is_delta b).

(* ================================================================================================ one storage *)
Section Storage.
  Variable K : Type.                       (* attribute sets (MetricAttributes), compared by [keqb] *)
  Variable keqb : K -> K -> bool.

  (* AttributesHashMap restricted to sums: key -> running int64/double sum.  Iteration order of the
     unordered_map is not modelled (both drivers sort); the list is in first-insertion order. *)
  Definition table := list (K * Z).

  Fixpoint tget (k : K) (t : table) : option Z :=
    match t with
    | [] => None
    | (k', x) :: t' => if keqb k k' then Some x else tget k t'
    end.

  (* GetOrSetDefault(k, Sum 0) followed by Aggregate(v)   -- and also --   GetOrSetDefault(k) ; Set(k, agg->Merge(v)) *)
  Fixpoint tadd (k : K) (v : Z) (t : table) : table :=
    match t with
    | [] => [(k, v)]
    | (k', x) :: t' => if keqb k k' then (k', x + v) :: t' else (k', x) :: tadd k v t'
    end.

  (* GetAllEnteries of [src], merging every series into [dst] *)
  Definition tmerge (dst src : table) : table := fold_left (fun m kv => tadd (fst kv) (snd kv) m) src dst.

  (* Sum aggregation of a monotonic instrument ignores a negative value - after GetOrSetDefault created the series *)
  Definition agg_value (mono : bool) (v : Z) : Z := if mono && (v <? 0) then 0 else v.

  (* MetricData as far as C06 looks at it *)
  Record mdata := mkMD { md_temp : temporality; md_start : Z; md_end : Z; md_points : table }.

  (* SyncMetricStorage + its TemporalMetricStorage.  Collectors are numbered 0..n-1 in registration order;
     [s_unrep r] is unreported_metrics_[collector r] (None: no entry), [s_last r] is last_reported_metrics_[collector r]
     (the table and collection_ts). *)
  Record stor := mkSt {
    s_cur : table;
    s_unrep : nat -> option (list table);
    s_last : nat -> option (table * Z)
  }.
  Definition stor0 : stor := mkSt [] (fun _ => None) (fun _ => None).

  Definition upd {A} (f : nat -> A) (r : nat) (x : A) : nat -> A := fun q => if Nat.eqb q r then x else f q.

  (* RecordLong / RecordDouble with attributes already turned into a MetricAttributes key *)
  Definition record (mono : bool) (s : stor) (k : K) (v : Z) : stor :=
    mkSt (tadd k (agg_value mono v) (s_cur s)) (s_unrep s) (s_last s).

  Definition sdk_start : Z := 0.

  (* SyncMetricStorage::Collect + TemporalMetricStorage::buildMetrics for collector [r] of [n], whose temporality for this
     instrument type is [tp], at collection time [ts].  Returns the new state and the MetricData given to the callback. *)
  Definition collect (n : nat) (tp : temporality) (s : stor) (r : nat) (ts : Z) : stor * option mdata :=
    let delta := s_cur s in                                   (* swapped out under attribute_hashmap_lock_ *)
    if Nat.eqb n 1 && is_delta tp then
      (* fast path *)
      if is_nil delta then (mkSt [] (s_unrep s) (s_last s), None)
      else
        let start := match s_last s r with Some (_, t) => t | None => sdk_start end in
        let lastm := match s_last s r with Some (m, _) => m | None => [] end in
        (mkSt [] (s_unrep s) (upd (s_last s) r (Some (lastm, ts))), Some (mkMD Delta start ts delta))
    else
      let unrep1 := if is_nil delta then s_unrep s
                    else fun q => if Nat.ltb q n
                                  then Some (match s_unrep s q with Some l => l | None => [] end ++ [delta])
                                  else s_unrep s q in
      match unrep1 r with
      | None => (mkSt [] unrep1 (s_last s), None)
      | Some lst =>
          let unrep2 := upd unrep1 r (Some []) in             (* moved-from list *)
          let merged := fold_left tmerge lst [] in
          match s_last s r with
          | Some (lm, lts) =>
              let merged' := if is_delta tp then merged else tmerge merged lm in
              let start := if is_delta tp then lts else sdk_start in
              (mkSt [] unrep2 (upd (s_last s) r (Some (merged', ts))), Some (mkMD tp start ts merged'))
          | None =>
              (mkSt [] unrep2 (upd (s_last s) r (Some (merged, ts))), Some (mkMD tp sdk_start ts merged))
          end
      end.

  (* the storage as a machine over its own atomic operations: every Record* holds attribute_hashmap_lock_, so does the
     swap in Collect; Meter::Collect holds storage_lock_, so whole collections of one meter never overlap *)
  Inductive sop := SAdd (k : K) (v : Z) | SCol (r : nat) (ts : Z).

  Definition sstep (mono : bool) (n : nat) (temps : nat -> temporality) (s : stor) (o : sop) : stor * option mdata :=
    match o with
    | SAdd k v => (record mono s k v, None)
    | SCol r ts => collect n (temps r) s r ts
    end.

  (* state after a history, and everything the callbacks were given, in order: (reader, time, MetricData or nothing) *)
  Fixpoint srun (mono : bool) (n : nat) (temps : nat -> temporality) (s : stor) (l : list sop) : stor :=
    match l with
    | [] => s
    | o :: l' => srun mono n temps (fst (sstep mono n temps s o)) l'
    end.
  Fixpoint souts (mono : bool) (n : nat) (temps : nat -> temporality) (s : stor) (l : list sop)
    : list (nat * Z * option mdata) :=
    match l with
    | [] => []
    | o :: l' =>
        let '(s', out) := sstep mono n temps s o in
        match o with
        | SCol r ts => (r, ts, out) :: souts mono n temps s' l'
        | SAdd _ _ => souts mono n temps s' l'
        end
    end.
End Storage.

Arguments mkMD {K}.
Arguments md_temp {K}.
Arguments md_start {K}.
Arguments md_end {K}.
Arguments md_points {K}.
Arguments SAdd {K}.
Arguments SCol {K}.

(* ================================================================================================ attribute sets *)
(* MetricAttributes = std::map<std::string, value>: built by SetAttribute in iteration order, so the last duplicate
   wins and the result is ordered by key (std::string operator<: unsigned bytes, a proper prefix is smaller).
   Only string values are driven (identity of series for the other value types is C08's subject). *)
Definition akey := list (bytes * bytes).

Fixpoint bytes_ltb (a b : bytes) : bool :=
  match a, b with
  | _, [] => false
  | [], _ :: _ => true
  | x :: a', y :: b' => (b2n x <? b2n y)%N || ((b2n x =? b2n y)%N && bytes_ltb a' b')
  end.

Fixpoint ins_attr (k v : bytes) (l : akey) : akey :=
  match l with
  | [] => [(k, v)]
  | (k', v') :: l' =>
      if bytes_eqb k k' then (k, v) :: l'
      else if bytes_ltb k k' then (k, v) :: (k', v') :: l'
      else (k', v') :: ins_attr k v l'
  end.
Definition canon (kvs : list (bytes * bytes)) : akey := fold_left (fun m kv => ins_attr (fst kv) (snd kv) m) kvs [].

Fixpoint akey_eqb (a b : akey) : bool :=
  match a, b with
  | [], [] => true
  | (k, v) :: a', (k', v') :: b' => bytes_eqb k k' && bytes_eqb v v' && akey_eqb a' b'
  | _, _ => false
  end.

(* order used to print points canonically: vector<pair<string,string>> operator< *)
Definition pair_ltb (p q : bytes * bytes) : bool :=
  bytes_ltb (fst p) (fst q) || (bytes_eqb (fst p) (fst q) && bytes_ltb (snd p) (snd q)).
Definition pair_eqb (p q : bytes * bytes) : bool := bytes_eqb (fst p) (fst q) && bytes_eqb (snd p) (snd q).
Fixpoint akey_ltb (a b : akey) : bool :=
  match a, b with
  | _, [] => false
  | [], _ :: _ => true
  | p :: a', q :: b' => pair_ltb p q || (pair_eqb p q && akey_ltb a' b')
  end.

Notation atable := (table akey).
Notation astor := (stor akey).
Notation amdata := (@mdata akey).

(* ================================================================================================ instruments *)
Inductive ikind := LongCounter | DoubleCounter | LongUpDown | DoubleUpDown.
Definition is_mono (k : ikind) : bool := match k with LongCounter | DoubleCounter => true | _ => false end.
Definition is_double (k : ikind) : bool := match k with DoubleCounter | DoubleUpDown => true | _ => false end.
Definition kind_eqb (a b : ikind) : bool := Bool.eqb (is_mono a) (is_mono b) && Bool.eqb (is_double a) (is_double b).

(* what Add hands to the storage.  LongCounter::Add takes a uint64_t and passes it to RecordLong(int64_t);
   DoubleCounter::Add returns before the storage for a negative value; the up-down counters pass the value on. *)
Definition api_value (k : ikind) (v : Z) : option Z :=
  match k with
  | LongCounter => Some (if 2 ^ 63 <=? v then v - 2 ^ 64 else v)
  | DoubleCounter => if v <? 0 then None else Some v
  | LongUpDown | DoubleUpDown => Some v
  end.

(* the values an Add of this instrument kind can be called with (uint64 / int64 / an integer-valued double) *)
Definition value_ok (k : ikind) (v : Z) : bool :=
  match k with
  | LongCounter => (0 <=? v) && (v <? 2 ^ 64)
  | LongUpDown => (- 2 ^ 63 <=? v) && (v <? 2 ^ 63)
  | DoubleCounter | DoubleUpDown => (- 2 ^ 53 <=? v) && (v <=? 2 ^ 53)
  end.

(* ================================================================================================ views *)
(* a registered view as far as counting is concerned: InstrumentSelector(type, name pattern, unit ""),
   MeterSelector(name, "", ""), View(name).  The name pattern is "*" (None) or a literal name; the meter selector is
   "" = every meter (None) or the exact meter. *)
Record view := mkView { v_counter : bool; v_pat : option bytes; v_meter : option nat; v_name : bytes }.

Definition view_matches (v : view) (m : nat) (k : ikind) (name : bytes) : bool :=
  match v_meter v with None => true | Some m' => Nat.eqb m m' end &&
  match v_pat v with None => true | Some p => bytes_eqb p name end &&
  Bool.eqb (v_counter v) (is_mono k).

(* ViewRegistry::FindViews: every matching view in registration order; the default view if none matches.
   The result is the list of stream names (View::GetName, "" = keep the instrument's). *)
Definition find_views (vs : list view) (m : nat) (k : ikind) (name : bytes) : list bytes :=
  match filter (fun v => view_matches v m k name) vs with
  | [] => [[]]
  | l => map v_name l
  end.
Definition stream_name (iname vname : bytes) : bytes := if is_nil vname then iname else vname.

(* ================================================================================================ the SDK *)
Record config := mkCfg { c_temps : list temporality; c_views : list view; c_meters : nat }.
Definition nreaders (c : config) : nat := length (c_temps c).
Definition temp_of (c : config) (r : nat) : temporality := nth r (c_temps c) Cumulative.

(* one SyncMetricStorage: meter, name it is registered under, name of its stream, instrument kind *)
Record sdesc := mkSD { sd_meter : nat; sd_iname : bytes; sd_name : bytes; sd_kind : ikind }.

Record world := mkW {
  w_stor : list (sdesc * astor);              (* every storage ever created; position = storage id *)
  w_reg : list (nat * bytes * nat);           (* Meter::storage_registry_ of every meter: (meter, instrument name) -> id *)
  w_handles : list (ikind * list nat)         (* instrument handles in creation order: kind, SyncMultiMetricStorage *)
}.
Definition world0 : world := mkW [] [] [].

Inductive op :=
| ONew (m : nat) (k : ikind) (name : bytes)            (* Meter m ->Create<kind>(name) *)
| OAdd (h : nat) (v : Z) (attrs : list (bytes * bytes)) (* handle h ->Add(v, attrs) *)
| OCol (r : nat).                                       (* reader r ->Collect(...) *)

(* storage_registry_[name] = storage : replaces an existing entry of the same meter and name *)
Definition reg_key_eqb (m : nat) (name : bytes) (e : nat * bytes * nat) : bool :=
  Nat.eqb m (fst (fst e)) && bytes_eqb name (snd (fst e)).
Definition reg_set (reg : list (nat * bytes * nat)) (m : nat) (name : bytes) (sid : nat) : list (nat * bytes * nat) :=
  filter (fun e => negb (reg_key_eqb m name e)) reg ++ [(m, name, sid)].

(* Meter::RegisterSyncMetricStorage: one storage per view handed out by FindViews, each registered under the
   INSTRUMENT's name (so only the last survives), all of them behind the returned handle *)
Definition create (c : config) (w : world) (m : nat) (k : ikind) (name : bytes) : world :=
  let '(stor', reg', sids) :=
    fold_left (fun acc vname =>
                 let '(st, rg, ids) := acc in
                 let sid := length st in
                 (st ++ [(mkSD m name (stream_name name vname) k, stor0 akey)], reg_set rg m name sid, ids ++ [sid]))
              (find_views (c_views c) m k name) (w_stor w, w_reg w, []) in
  mkW stor' reg' (w_handles w ++ [(k, sids)]).

Fixpoint upd_nth {A} (i : nat) (f : A -> A) (l : list A) : list A :=
  match l, i with
  | [], _ => []
  | x :: l', O => f x :: l'
  | x :: l', S i' => x :: upd_nth i' f l'
  end.

(* <Kind>::Add(v, attrs) on handle h: SyncMultiMetricStorage fans out to every storage behind the handle *)
Definition add (w : world) (h : nat) (v : Z) (attrs : list (bytes * bytes)) : world :=
  match nth_error (w_handles w) h with
  | None => w
  | Some (k, sids) =>
      match api_value k v with
      | None => w
      | Some v' =>
          mkW (fold_left (fun st sid => upd_nth sid (fun ds => (fst ds, record akey akey_eqb (is_mono k) (snd ds) (canon attrs) v')) st)
                         sids (w_stor w))
              (w_reg w) (w_handles w)
      end
  end.

(* what a reader is given for one stream *)
Record sdata := mkSData { o_meter : nat; o_name : bytes; o_kind : ikind; o_md : amdata }.

(* Meter::Collect of meter m for collector r: every registered storage of that meter *)
Definition collect_meter (c : config) (r : nat) (ts : Z) (m : nat) (w : world) : world * list sdata :=
  fold_left (fun acc e =>
               let '(w1, outs) := acc in
               let '(m', _, sid) := e in
               if Nat.eqb m' m then
                 match nth_error (w_stor w1) sid with
                 | None => (w1, outs)
                 | Some (d, s) =>
                     let '(s', o) := collect akey akey_eqb (nreaders c) (temp_of c r) s r ts in
                     (mkW (upd_nth sid (fun _ => (d, s')) (w_stor w1)) (w_reg w1) (w_handles w1),
                      match o with Some md => outs ++ [mkSData m (sd_name d) (sd_kind d) md] | None => outs end)
                 end
               else (w1, outs))
            (w_reg w) (w, []).

(* MetricCollector::Produce: every meter in creation order *)
Definition collect_all (c : config) (w : world) (r : nat) (ts : Z) : world * list sdata :=
  fold_left (fun acc m => let '(w1, outs) := acc in
                          let '(w2, o) := collect_meter c r ts m w1 in (w2, outs ++ o))
            (seq 0 (c_meters c)) (w, []).

(* one operation at logical time [ts] (SDK start is time 0; the script's i-th operation happens at time i) *)
Definition step (c : config) (w : world) (ts : Z) (o : op) : world * option (nat * list sdata) :=
  match o with
  | ONew m k name => (create c w m k name, None)
  | OAdd h v attrs => (add w h v attrs, None)
  | OCol r => let '(w', outs) := collect_all c w r ts in (w', Some (r, outs))
  end.

Fixpoint run_from (c : config) (w : world) (ts : Z) (l : list op) : list (nat * list sdata) :=
  match l with
  | [] => []
  | o :: l' =>
      let '(w', out) := step c w ts o in
      match out with
      | Some x => x :: run_from c w' (ts + 1) l'
      | None => run_from c w' (ts + 1) l'
      end
  end.
Definition run (c : config) (l : list op) : list (nat * list sdata) := run_from c world0 1 l.
